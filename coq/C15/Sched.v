(* C15 — hand model of KDScheduledTransform (kappadata/transforms/base/kd_scheduled_transform.py).
   No proofs in this file.

   _worker_init_fn(rank, num_workers, batch_size, epochs|updates|samples ...) stores rank, num_workers,
   batch_size and the total number of batches; __call__ computes

       batch_idx = self.sample_counter // self.batch_size * self.num_workers + self.rank
       strength  = self.schedule.get_value(batch_idx, self.n_batches)
       self.sample_counter += 1
       self.transform.scale_strength(strength)
       ctx[self.ctx_key] = strength
       return self.transform(x, ctx=ctx)

   The schedule is an opaque function (kappaschedules object) of (step, total).  The wrapped transform is
   a tree of the generated model.  (Path `n_batches is None`, i.e. worker_init_fn never called: no scaling
   at all — not modelled, outside the property.) *)
From Coq Require Import ZArith QArith List Bool.
Import ListNotations.
From KD Require Import C15.Base C15.gen.Strength.
Open Scope Z_scope.

(* how the total number of batches was announced *)
Inductive init_t : Type :=
  | IEpochs (epochs dataset_len world_size : Z) (drop_last : bool)
  | IUpdates (updates : Z)
  | ISamples (samples : Z).

Definition n_batches_of (i : init_t) (batch_size : Z) : Z :=
  match i with
  | IEpochs epochs dataset_len world_size drop_last =>
      let dataset_len := dataset_len / world_size in
      let batches_per_epoch :=
        if drop_last then dataset_len / batch_size else (dataset_len + batch_size - 1) / batch_size in
      epochs * batches_per_epoch
  | IUpdates updates => updates
  | ISamples samples =>
      if samples mod batch_size =? 0 then samples / batch_size else samples / batch_size + 1
  end.

Record wstate : Type := mk_wstate {
  ws_rank : Z;
  ws_workers : Z;
  ws_bs : Z;
  ws_nb : Z;
  ws_counter : Z;
  ws_inner : tree
}.

Definition worker_init (rank num_workers batch_size : Z) (i : init_t) (inner : tree) : wstate :=
  mk_wstate rank num_workers batch_size (n_batches_of i batch_size) 0 inner.

Definition batch_idx (w : wstate) : Z := ws_counter w / ws_bs w * ws_workers w + ws_rank w.

(* one __call__: new state and the value written to ctx (the same variable that is passed to scale_strength) *)
Definition sched_call (schedule : Z -> Z -> Q) (w : wstate) : wstate * Q :=
  let strength := schedule (batch_idx w) (ws_nb w) in
  (mk_wstate (ws_rank w) (ws_workers w) (ws_bs w) (ws_nb w) (ws_counter w + 1)
             (tree_scale (ws_inner w) strength),
   strength).

(* k consecutive calls of one worker: the ctx values, in call order *)
Fixpoint worker_run (schedule : Z -> Z -> Q) (k : nat) (w : wstate) : list Q * wstate :=
  match k with
  | O => ([], w)
  | S k => let '(w1, v) := sched_call schedule w in
           let '(vs, w2) := worker_run schedule k w1 in
           (v :: vs, w2)
  end.

(* W workers (a list of states); global sample n is handed to worker `owner`; returns the updated pool and
   the observation (ctx value, wrapped state after the call) *)
Fixpoint set_nth {A} (n : nat) (x : A) (l : list A) : list A :=
  match l, n with
  | [], _ => []
  | _ :: r, O => x :: r
  | a :: r, S n => a :: set_nth n x r
  end.

Definition pool_call (schedule : Z -> Z -> Q) (pool : list wstate) (owner : nat) : option (list wstate * (Q * tree)) :=
  match nth_error pool owner with
  | Some w => let '(w1, v) := sched_call schedule w in Some (set_nth owner w1 pool, (v, ws_inner w1))
  | None => None
  end.

(* the pool in global sample order: owners = which worker gets the n-th sample *)
Fixpoint pool_run (schedule : Z -> Z -> Q) (pool : list wstate) (owners : list nat) : list (Q * tree) :=
  match owners with
  | [] => []
  | o :: r =>
      match pool_call schedule pool o with
      | Some (pool', ob) => ob :: pool_run schedule pool' r
      | None => []
      end
  end.

(* what DataLoader(num_workers=W, worker_init_fn=...) sets up: worker r gets rank r, every worker starts from a
   copy of the same transform with sample_counter = 0 *)
Definition init_pool (W : nat) (B : Z) (i : init_t) (inner : tree) : list wstate :=
  map (fun r => worker_init (Z.of_nat r) (Z.of_nat W) B i inner) (seq 0 W).

(* ======================================================================================================
   SHARED inner transforms, interleaved histories.

   `self.transform` of a KDScheduledTransform is an object reference: several scheduled transforms may wrap the
   SAME augmentation object (two views with different schedules over one augmentation), the same object may also be
   a direct member of an outer KDComposeTransform, and anybody holding a reference may call scale_strength on it
   between two samples.  The state of one copy of the pipeline (= what one DataLoader worker owns after the fork /
   deepcopy, which preserves the sharing inside the copy) is therefore a HEAP of augmentation objects plus the
   scheduled transforms' own fields; a scheduled transform refers to heap cells by index.

       __call__:  batch_idx = self.sample_counter // self.batch_size * self.num_workers + self.rank
                  strength  = self.schedule.get_value(batch_idx, self.n_batches)
                  self.sample_counter += 1
                  self.transform.scale_strength(strength)        <- unconditional WRITE to the shared object(s)
                  ctx[self.ctx_key] = strength
                  return self.transform(x, ctx=ctx)              <- READS the shared object(s)

   ss_targets: the heap cells self.transform.scale_strength reaches: [j] when self.transform is heap object j,
   [j1; j2; ...] when self.transform is a (private) KDComposeTransform over heap objects j1, j2, ... .
   ====================================================================================================== *)
Record sstate : Type := mk_sstate {
  ss_rank : Z;
  ss_workers : Z;
  ss_bs : Z;
  ss_nb : Z;
  ss_counter : Z;
  ss_targets : list nat
}.

Record pstate : Type := mk_pstate {
  ps_scheds : list sstate;      (* the KDScheduledTransform objects of this pipeline copy *)
  ps_inners : list tree         (* the heap of augmentation objects of this pipeline copy *)
}.

(* configuration of one scheduled transform: batch size, how n_batches is announced, cells its transform reaches *)
Definition scfg : Type := (Z * init_t * list nat)%type.

Definition ss_batch_idx (s : sstate) : Z := ss_counter s / ss_bs s * ss_workers s + ss_rank s.

(* obj.scale_strength(f) on heap cell j (a reference that does not exist changes nothing) *)
Definition scale_cell (h : list tree) (j : nat) (f : Q) : list tree :=
  match nth_error h j with
  | Some t => set_nth j (tree_scale t f) h
  | None => h
  end.
(* the same factor pushed to several cells, in member order (KDComposeTransform._scale_strength) *)
Definition scale_cells (h : list tree) (js : list nat) (f : Q) : list tree :=
  fold_left (fun h j => scale_cell h j f) js h.

(* members of an OUTER KDComposeTransform that somebody scales: a scheduled transform (KDScheduledTransform
   defines no _scale_strength: the base-class no-op, the outer factor never reaches what it wraps - its own schedule
   governs) or a heap object that is a direct member *)
Inductive member : Type := MSched (k : nat) | MInner (j : nat).
Definition outer_targets (outer : list member) : list nat :=
  flat_map (fun m => match m with MInner j => [j] | MSched _ => [] end) outer.

(* one __call__ of scheduled transform k of this pipeline copy: new state and the value written to ctx *)
Definition shared_call (schedule : Z -> Z -> Q) (p : pstate) (k : nat) : option (pstate * Q) :=
  match nth_error (ps_scheds p) k with
  | None => None
  | Some s =>
      let strength := schedule (ss_batch_idx s) (ss_nb s) in
      let s' := mk_sstate (ss_rank s) (ss_workers s) (ss_bs s) (ss_nb s) (ss_counter s + 1) (ss_targets s) in
      Some (mk_pstate (set_nth k s' (ps_scheds p)) (scale_cells (ps_inners p) (ss_targets s) strength), strength)
  end.

(* what happens, in time order, to the W pipeline copies: copy w's scheduled transform k processes a sample;
   somebody calls scale_strength(f) on heap object j of copy w; somebody calls scale_strength(f) on copy w's outer
   composition *)
Inductive pstep : Type :=
  | PCall (w k : nat)
  | PScale (w j : nat) (f : Q)
  | PScaleOuter (w : nat) (f : Q).

(* observation after a step: the value reported in ctx (for the scale steps: the factor given) and the copy's
   whole heap, i.e. the parameters the next apply reads *)
Definition istep (schedules : nat -> Z -> Z -> Q) (outer : list member) (pool : list pstate) (st : pstep)
  : option (list pstate * (Q * list tree)) :=
  match st with
  | PCall w k =>
      match nth_error pool w with
      | None => None
      | Some p =>
          match shared_call (schedules k) p k with
          | None => None
          | Some (p', v) => Some (set_nth w p' pool, (v, ps_inners p'))
          end
      end
  | PScale w j f =>
      match nth_error pool w with
      | None => None
      | Some p =>
          let h := scale_cell (ps_inners p) j f in
          Some (set_nth w (mk_pstate (ps_scheds p) h) pool, (f, h))
      end
  | PScaleOuter w f =>
      match nth_error pool w with
      | None => None
      | Some p =>
          let h := scale_cells (ps_inners p) (outer_targets outer) f in
          Some (set_nth w (mk_pstate (ps_scheds p) h) pool, (f, h))
      end
  end.

Fixpoint ipool_run (schedules : nat -> Z -> Z -> Q) (outer : list member) (pool : list pstate) (steps : list pstep)
  : list (Q * list tree) :=
  match steps with
  | [] => []
  | st :: r =>
      match istep schedules outer pool st with
      | Some (pool', ob) => ob :: ipool_run schedules outer pool' r
      | None => []
      end
  end.

(* worker_init_fn on every scheduled transform of copy `rank` of W *)
Definition sched_init (rank num_workers : Z) (c : scfg) : sstate :=
  let '(B, i, js) := c in mk_sstate rank num_workers B (n_batches_of i B) 0 js.
Definition iinit_pool (W : nat) (cfgs : list scfg) (inners : list tree) : list pstate :=
  map (fun r => mk_pstate (map (sched_init (Z.of_nat r) (Z.of_nat W)) cfgs) inners) (seq 0 W).
