(* C19 — proofs.  Object store / aliasing lemmas, the invariants of the interleaving semantics
   (any number of processes, any schedule, any transport, in-place transforms and consumers that
   write to what they were handed) and the big-step characterisation of sequential histories. *)
From Coq Require Import ZArith List Bool Arith Lia.
Import ListNotations.
From KD Require Import C19.Model C19.Spec.
Open Scope Z_scope.


(* ------------------------------------------------------------------ lists *)
Lemma nth_error_set_nth_eq : forall A (l : list A) n a x,
  nth_error l n = Some x -> nth_error (set_nth n a l) n = Some a.
Proof. induction l; destruct n; simpl; intros; try discriminate; eauto. Qed.

Lemma nth_error_set_nth_neq : forall A (l : list A) n m a,
  n <> m -> nth_error (set_nth n a l) m = nth_error l m.
Proof. induction l; destruct n, m; simpl; intros; try congruence; eauto. Qed.

Lemma set_nth_set_nth : forall A (l : list A) n a b, set_nth n a (set_nth n b l) = set_nth n a l.
Proof. induction l; destruct n; simpl; intros; f_equal; eauto. Qed.

Lemma length_set_nth : forall A (l : list A) n a, length (set_nth n a l) = length l.
Proof. induction l; destruct n; simpl; intros; f_equal; eauto. Qed.

Lemma Forall_set_nth : forall A (P : A -> Prop) (l : list A) n a,
  Forall P l -> P a -> Forall P (set_nth n a l).
Proof.
  induction l; destruct n; simpl; intros; auto; inversion H; subst; constructor; auto.
Qed.

Lemma Forall_nth_error : forall A (P : A -> Prop) (l : list A) n x,
  Forall P l -> nth_error l n = Some x -> P x.
Proof. intros. rewrite Forall_forall in H. eapply H, nth_error_In; eauto. Qed.

Lemma nth_error_repeat : forall A (a : A) n p, (p < n)%nat -> nth_error (repeat a n) p = Some a.
Proof. induction n; destruct p; simpl; intros; try lia; auto. apply IHn; lia. Qed.

Lemma nth_set_nth_eq : forall A (l : list A) n a d, (n < length l)%nat -> nth n (set_nth n a l) d = a.
Proof. induction l; destruct n; simpl; intros; try lia; auto. apply IHl; lia. Qed.

Lemma nth_set_nth_neq : forall A (l : list A) n m a d, n <> m -> nth m (set_nth n a l) d = nth m l d.
Proof. induction l; destruct n, m; simpl; intros; try congruence; auto. Qed.

Lemma map_set_nth_same : forall A B (f : A -> B) (l : list A) n a x,
  nth_error l n = Some x -> f a = f x -> map f (set_nth n a l) = map f l.
Proof.
  induction l; destruct n; simpl; intros; try discriminate; auto.
  - inversion H; subst. rewrite H0. reflexivity.
  - f_equal. eauto.
Qed.

Lemma mem_true_iff : forall i l, mem i l = true <-> In i l.
Proof.
  unfold mem; intros; rewrite existsb_exists; split.
  - intros [x [Hin He]]. apply Z.eqb_eq in He. subst; auto.
  - intros; exists i; split; auto. apply Z.eqb_refl.
Qed.

Lemma mem_cons : forall i j l, mem i (j :: l) = (i =? j) || mem i l.
Proof. reflexivity. Qed.

(* ------------------------------------------------------------------ the object store *)
Lemma hget_app_l : forall h l a, (a < length h)%nat -> hget a (h ++ l) = hget a h.
Proof. intros. unfold hget. apply app_nth1. auto. Qed.

Lemma hget_alloc : forall h v, hget (length h) (h ++ [v]) = v.
Proof. intros. unfold hget. rewrite app_nth2 by lia. rewrite Nat.sub_diag. reflexivity. Qed.

Lemma hget_hset_eq : forall h a v, (a < length h)%nat -> hget a (hset a v h) = v.
Proof. intros. unfold hget, hset. apply nth_set_nth_eq. auto. Qed.

Lemma hget_hset_neq : forall h a b v, a <> b -> hget b (hset a v h) = hget b h.
Proof. intros. unfold hget, hset. apply nth_set_nth_neq. auto. Qed.

Lemma length_hset : forall h a v, length (hset a v h) = length h.
Proof. intros. apply length_set_nth. Qed.

Lemma length_hbump : forall w l h, length (hbump w l h) = length h.
Proof.
  unfold hbump. induction l; simpl; intros; auto. rewrite IHl. apply length_hset.
Qed.

Lemma hget_hbump_other : forall w l h b, ~ In b l -> hget b (hbump w l h) = hget b h.
Proof.
  unfold hbump. induction l; simpl; intros; auto.
  rewrite IHl by tauto. apply hget_hset_neq. intro; subst; tauto.
Qed.

(* h' extends h: more objects, the old ones untouched *)
Definition ext (h h' : heap) : Prop :=
  (length h <= length h')%nat /\ forall b, (b < length h)%nat -> hget b h' = hget b h.

Lemma ext_refl : forall h, ext h h.
Proof. split; auto. Qed.

Lemma ext_trans : forall a b c, ext a b -> ext b c -> ext a c.
Proof.
  intros a b c [L1 H1] [L2 H2]. split; [lia|]. intros x Hx. rewrite H2 by lia. apply H1; auto.
Qed.

Lemma ext_alloc : forall h v, ext h (h ++ [v]).
Proof. split; [rewrite app_length; simpl; lia|]. intros. apply hget_app_l; auto. Qed.

Section T.
  Variable byref inplace : bool.
  Variable tf : Z -> Z -> Z.
  Variable draws : nat -> nat -> Z.

  Lemma transport_ok : forall h a h1 ad,
    transport byref h a = (h1, ad) -> (a < length h)%nat ->
    ext h h1 /\ (ad < length h1)%nat /\ hget ad h1 = hget a h /\ (ad = a \/ (length h <= ad)%nat).
  Proof.
    unfold transport, halloc. intros h a h1 ad H Ha. destruct byref; inversion H; subst.
    - repeat split; auto.
    - repeat split; try apply ext_alloc; auto.
      + rewrite app_length; simpl; lia.
      + apply hget_alloc.
  Qed.

  (* the repaired tail of cached[i]: the result is made of new objects only *)
  Lemma deliver_ok : forall p i k h a h2 reach e,
    deliver true inplace tf draws p i k h a = (h2, reach, e) -> (a < length h)%nat ->
    ext h h2 /\ (forall b, In b reach -> (length h <= b < length h2)%nat) /\
    e = ERet p i k (RVal (tf (draws p k) (hget a h))).
  Proof.
    unfold deliver, ret_copy, apply_tf, halloc. intros p i k h a h2 reach e H Ha.
    assert (E1 : hget (length h) (h ++ [hget a h]) = hget a h) by apply hget_alloc.
    destruct inplace; inversion H; subst; clear H.
    - rewrite E1. repeat split.
      + rewrite length_hset, app_length; simpl; lia.
      + intros b Hb. rewrite hget_hset_neq by lia. apply hget_app_l; auto.
      + destruct H as [<-|[]]. lia.
      + destruct H as [<-|[]]. rewrite length_hset, app_length; simpl; lia.
      + rewrite hget_hset_eq; auto. rewrite app_length; simpl; lia.
    - rewrite E1. repeat split.
      + rewrite !app_length; simpl; lia.
      + intros b Hb. rewrite hget_app_l by (rewrite app_length; simpl; lia). apply hget_app_l; auto.
      + destruct H as [<-|[<-|[]]]; rewrite ?app_length; simpl; lia.
      + destruct H as [<-|[<-|[]]]; rewrite ?app_length; simpl; lia.
      + rewrite hget_alloc. reflexivity.
  Qed.
End T.

(* the objects some consumer may write to *)
Definition W (ps : list proc) : list nat := concat (map last ps).

Lemma W_set_nth : forall ps p pr b,
  In b (W (set_nth p pr ps)) -> In b (last pr) \/ In b (W ps).
Proof.
  unfold W. induction ps as [|x ps IH]; destruct p; simpl; intros pr b H; auto.
  - rewrite in_app_iff in *. tauto.
  - rewrite in_app_iff in *. destruct H as [H|H]; auto. apply IH in H. tauto.
Qed.

Lemma W_nth_error : forall ps p pr, nth_error ps p = Some pr -> incl (last pr) (W ps).
Proof.
  unfold W. induction ps as [|x ps IH]; destruct p; simpl; intros pr H; try discriminate.
  - inversion H; subst. intros b Hb. apply in_or_app; auto.
  - intros b Hb. apply in_or_app. right. eapply IH; eauto.
Qed.

Section P.
  Variable fixed : bool.
  Variable byref inplace : bool.
  Variable base : Z -> option Z.
  Variable blen : Z.
  Variable tf : Z -> Z -> Z.
  Variable draws : nat -> nat -> Z.

  Notation pstep := (pstep fixed true byref inplace base blen tf draws).
  Notation step := (step fixed true byref inplace base blen tf draws).
  Notation run := (run fixed true byref inplace base blen tf draws).

  (* object a holds the sample of index i and no consumer can write to it *)
  Definition cell_ok (h : heap) (w : list nat) (i : Z) (a : nat) : Prop :=
    (a < length h)%nat /\ base i = Some (hget a h) /\ ~ In a w.
  Definition cache_ok (h : heap) (w : list nat) (d : dict) : Prop :=
    Forall (fun kv => cell_ok h w (fst kv) (snd kv)) d.
  Definition proc_ok (h : heap) (w : list nat) (pr : proc) : Prop :=
    match pc pr with PSet i a => cell_ok h w i a | _ => True end.

  Definition ret_good (e : ev) : Prop :=
    match e with
    | ERet p i k r => r = expected base tf (draws p k) i \/ (fixed = false /\ r = RKeyError)
    | _ => True
    end.

  (* what one atomic step may do to the store: old objects outside w keep their content, the
     objects of l' are consumer-writable ones of before or new *)
  Definition frame (h : heap) (w : list nat) (h' : heap) (l' : list nat) : Prop :=
    (length h <= length h')%nat /\
    (forall b, (b < length h)%nat -> ~ In b w -> hget b h' = hget b h) /\
    (forall b, In b l' -> (b < length h')%nat /\ (In b w \/ (length h <= b)%nat)).

  Lemma cell_ok_frame : forall h w h' l' w' i a,
    frame h w h' l' -> (forall b, In b w' -> In b l' \/ In b w) ->
    cell_ok h w i a -> cell_ok h' w' i a.
  Proof.
    intros h w h' l' w' i a (L & K & N) Hw (A & B & C). repeat split.
    - lia.
    - rewrite K; auto.
    - intro Hin. apply Hw in Hin. destruct Hin as [Hin|Hin]; auto.
      apply N in Hin. destruct Hin as [_ [Hin|Hin]]; auto. lia.
  Qed.

  Lemma cache_ok_dget : forall h w d i a, cache_ok h w d -> dget i d = Some a -> cell_ok h w i a.
  Proof.
    induction d as [|[k x] d IH]; simpl; intros i a Hok Hg; try discriminate.
    inversion Hok; subst. destruct (i =? k) eqn:E.
    - apply Z.eqb_eq in E. subst. inversion Hg; subst. assumption.
    - eauto.
  Qed.

  Lemma ext_frame : forall h w h' l',
    ext h h' -> (forall b, In b l' -> (b < length h')%nat /\ (In b w \/ (length h <= b)%nat)) -> frame h w h' l'.
  Proof. intros h w h' l' [L K] N. repeat split; auto; apply N; auto. Qed.

  Lemma pstep_inv : forall p h d pr w h' d' pr' evs,
    pstep p h d pr = (h', d', pr', evs) ->
    Forall (fun b => (b < length h)%nat) w -> incl (last pr) w ->
    cache_ok h w d -> proc_ok h w pr ->
    frame h w h' (last pr') /\
    (forall w', (forall b, In b w' -> In b (last pr') \/ In b w) -> cache_ok h' w' d' /\ proc_ok h' w' pr') /\
    Forall ret_good evs.
  Proof.
    intros p h d pr w h' d' pr' evs H Hw Hl Hd Hp. unfold Model.pstep in H. unfold proc_ok in Hp.
    rewrite Forall_forall in Hw.
    assert (Hold : forall b, In b (last pr) -> (b < length h)%nat /\ (In b w \/ (length h <= b)%nat)).
    { intros b Hb. split; auto. }
    assert (Hsame : frame h w h (last pr)) by (apply ext_frame; auto using ext_refl).
    assert (Hkeep : forall w', (forall b, In b w' -> In b (last pr) \/ In b w) -> cache_ok h w' d).
    { intros w' Hw'. unfold cache_ok in *. eapply Forall_impl; [|exact Hd]. intros kv Hkv.
      eapply cell_ok_frame; eauto. }
    destruct (pc pr) eqn:Epc.
    - (* PStart *)
      destruct (todo pr) as [|[i| | |w0] r] eqn:Et.
      + inversion H; subst. repeat split; auto; unfold proc_ok; rewrite ?Epc; auto.
      + destruct (dget i d); inversion H; subst; simpl; repeat split; auto; unfold proc_ok; simpl; auto.
      + inversion H; subst. simpl. repeat split; auto; try (unfold proc_ok; simpl; auto; fail). constructor.
      + inversion H; subst. simpl. repeat split; auto; unfold proc_ok; simpl; auto.
      + (* CMut: writes to consumer-owned objects only *)
        inversion H; subst. simpl.
        assert (Hf : frame h w (hbump w0 (last pr) h) (last pr)).
        { repeat split.
          - rewrite length_hbump. lia.
          - intros b Hb Hn. apply hget_hbump_other. intro Hin. apply Hn, Hl, Hin.
          - rewrite length_hbump. apply Hw, Hl, H0.
          - left. apply Hl, H0. }
        split; [exact Hf|]. split; [|repeat constructor]. intros w' Hw'. split.
        * unfold cache_ok in *. eapply Forall_impl; [|exact Hd]. intros kv Hkv. eapply cell_ok_frame; eauto.
        * unfold proc_ok; simpl; auto.
    - (* PMiss *)
      destruct (base i) eqn:Eb.
      + unfold halloc in H. inversion H; subst. simpl.
        assert (Hf : frame h w (h ++ [z]) (last pr)).
        { apply ext_frame; [apply ext_alloc|]. intros b Hb. rewrite app_length; simpl. split; [specialize (Hw b (Hl b Hb)); lia | left; auto]. }
        split; [exact Hf|]. split; [|repeat constructor]. intros w' Hw'. split.
        * unfold cache_ok in *. eapply Forall_impl; [|exact Hd]. intros kv Hkv. eapply cell_ok_frame; eauto.
        * unfold proc_ok; simpl. repeat split.
          -- rewrite app_length; simpl; lia.
          -- rewrite hget_alloc. auto.
          -- intro Hin. apply Hw' in Hin. destruct Hin as [Hin|Hin]; [apply Hl in Hin|]; apply Hw in Hin; lia.
      + inversion H; subst. simpl. split; [exact Hsame|]. split.
        * intros w' Hw'. split; auto; unfold proc_ok; simpl; auto.
        * repeat apply Forall_cons; try apply Forall_nil; simpl; auto. left. unfold expected. rewrite Eb. reflexivity.
    - (* PSet *)
      destruct Hp as (A & B & Cn).
      destruct (transport byref h a) as [h1 ad] eqn:Et.
      destruct (deliver true inplace tf draws p i (nacc pr) h1 a) as [[h2 reach] e] eqn:Ed.
      inversion H; subst; clear H. simpl.
      destruct (transport_ok _ _ _ _ _ Et A) as (X1 & X2 & X3 & X4).
      assert (A1 : (a < length h1)%nat) by (destruct X1; lia).
      destruct (deliver_ok _ _ _ _ _ _ _ _ _ _ _ Ed A1) as (Y1 & Y2 & Y3).
      pose proof (ext_trans _ _ _ X1 Y1) as Z1.
      assert (Hf : frame h w h' reach).
      { apply ext_frame; auto. intros b Hb. apply Y2 in Hb. destruct X1. split; [lia | right; lia]. }
      split; [exact Hf|]. split.
      + intros w' Hw'. split.
        * constructor.
          -- simpl. destruct X4 as [->|X4].
             ++ eapply cell_ok_frame; eauto. repeat split; auto.
             ++ repeat split.
                ** destruct Y1; lia.
                ** destruct Y1 as [_ Y1]. rewrite Y1 by auto. rewrite X3. auto.
                ** intro Hin. apply Hw' in Hin. destruct Hin as [Hin|Hin].
                   --- apply Y2 in Hin. lia.
                   --- apply Hw in Hin. lia.
          -- unfold cache_ok in *. eapply Forall_impl; [|exact Hd]. intros kv Hkv. eapply cell_ok_frame; eauto.
        * unfold proc_ok; simpl; auto.
      + rewrite Y3. repeat apply Forall_cons; try apply Forall_nil. simpl. left. unfold expected. rewrite B.
        destruct X1 as [_ X1]. rewrite X1 by auto. reflexivity.
    - (* PHit *)
      destruct (dget i d) as [ad|] eqn:Eg.
      + destruct (cache_ok_dget _ _ _ _ _ Hd Eg) as (A & B & Cn).
        destruct (transport byref h ad) as [h1 a] eqn:Et.
        destruct (deliver true inplace tf draws p i (nacc pr) h1 a) as [[h2 reach] e] eqn:Ed.
        inversion H; subst; clear H. simpl.
        destruct (transport_ok _ _ _ _ _ Et A) as (X1 & X2 & X3 & X4).
        destruct (deliver_ok _ _ _ _ _ _ _ _ _ _ _ Ed X2) as (Y1 & Y2 & Y3).
        pose proof (ext_trans _ _ _ X1 Y1) as Z1.
        assert (Hf : frame h w h' reach).
        { apply ext_frame; auto. intros b Hb. apply Y2 in Hb. destruct X1. split; [lia | right; lia]. }
        split; [exact Hf|]. split.
        * intros w' Hw'. split.
          -- unfold cache_ok in *. eapply Forall_impl; [|exact Hd]. intros kv Hkv. eapply cell_ok_frame; eauto.
          -- unfold proc_ok; simpl; auto.
        * rewrite Y3. repeat apply Forall_cons; try apply Forall_nil. simpl. left. unfold expected. rewrite B, X3. reflexivity.
      + destruct fixed eqn:Ef; inversion H; subst; simpl; (split; [exact Hsame|]); (split; [intros w' Hw'; split; auto; unfold proc_ok; simpl; auto|]);
          repeat apply Forall_cons; try apply Forall_nil; simpl; auto.
  Qed.

  Definition inv (s : state) : Prop :=
    Forall (fun b => (b < length (hp s))%nat) (W (procs s)) /\
    cache_ok (hp s) (W (procs s)) (sd s) /\
    Forall (proc_ok (hp s) (W (procs s))) (procs s) /\
    Forall ret_good (log s).

  Lemma step_inv : forall s p, inv s -> inv (step s p).
  Proof.
    intros s p (Hw & Hd & Hp & Hl). unfold Model.step.
    destruct (nth_error (procs s) p) as [pr|] eqn:E; [|repeat split; auto].
    destruct (pstep p (hp s) (sd s) pr) as [[[h' d'] pr'] evs] eqn:Es.
    destruct (pstep_inv _ _ _ _ _ _ _ _ _ Es Hw (W_nth_error _ _ _ E) Hd (Forall_nth_error _ _ _ _ _ Hp E))
      as (F & G & R).
    specialize (G (W (set_nth p pr' (procs s))) (W_set_nth _ _ _)). destruct G as [G1 G2].
    repeat split; simpl; auto.
    - rewrite Forall_forall. intros b Hb. apply W_set_nth in Hb. destruct F as (L & _ & N).
      destruct Hb as [Hb|Hb]; [apply N in Hb; tauto|]. rewrite Forall_forall in Hw. apply Hw in Hb. lia.
    - apply Forall_set_nth; auto. eapply Forall_impl; [|exact Hp]. intros q Hq. unfold proc_ok in *.
      destruct (pc q); auto. eapply cell_ok_frame; eauto. apply W_set_nth.
    - apply Forall_app; auto.
  Qed.

  Lemma run_inv : forall sched s, inv s -> inv (run sched s).
  Proof. induction sched; simpl; intros; auto. apply IHsched, step_inv; auto. Qed.
End P.

Definition cache_init_ok (base : Z -> option Z) (h0 : heap) (d0 : dict) : Prop :=
  Forall (fun kv => (snd kv < length h0)%nat /\ base (fst kv) = Some (hget (snd kv) h0)) d0.

Lemma W_init : forall progs, W (map (fun pg => {| pc := PStart; todo := pg; nacc := O; last := [] |}) progs) = [].
Proof. unfold W. induction progs; simpl; auto. Qed.

Section Q.
  Variable fixed : bool.
  Variable byref inplace : bool.
  Variable base : Z -> option Z.
  Variable blen : Z.
  Variable tf : Z -> Z -> Z.
  Variable draws : nat -> nat -> Z.

  Notation run := (run fixed true byref inplace base blen tf draws).
  Notation inv := (inv fixed base tf draws).

  Lemma init_inv : forall h0 d0 progs, cache_init_ok base h0 d0 -> inv (init h0 d0 progs).
  Proof.
    intros h0 d0 progs H. unfold inv, init; simpl. rewrite W_init. repeat split; auto.
    - unfold cache_ok. eapply Forall_impl; [|exact H]. intros kv [A B]. repeat split; auto.
    - rewrite Forall_map. rewrite Forall_forall. intros; exact I.
  Qed.

  Lemma conc_inv : forall h0 d0 progs sched, cache_init_ok base h0 d0 -> inv (run sched (init h0 d0 progs)).
  Proof. intros. apply run_inv, init_inv; auto. Qed.

  Lemma inv_dict_ok : forall s, inv s -> dict_ok base (dict_content (hp s) (sd s)).
  Proof.
    intros s (_ & Hd & _). unfold dict_ok, dict_content. rewrite Forall_map.
    eapply Forall_impl; [|exact Hd]. intros kv (_ & B & _). exact B.
  Qed.

  Lemma conc_dict_subset_base_l : forall h0 d0 progs sched,
    cache_init_ok base h0 d0 ->
    let s := run sched (init h0 d0 progs) in dict_ok base (dict_content (hp s) (sd s)).
  Proof. intros. apply inv_dict_ok, conc_inv; auto. Qed.

  Lemma conc_values_equal_base_l : forall h0 d0 progs sched,
    cache_init_ok base h0 d0 -> values_equal_base base tf draws (log (run sched (init h0 d0 progs))).
  Proof.
    intros h0 d0 progs sched H p i k r Hin.
    destruct (conc_inv h0 d0 progs sched H) as (_ & _ & _ & Hl).
    rewrite Forall_forall in Hl. specialize (Hl _ Hin). simpl in Hl. tauto.
  Qed.
End Q.

(* ---------------------------------------------- transform applied on every access *)
Section Calls.
  Variable fixed copyfix byref inplace : bool.
  Variable base : Z -> option Z.
  Variable blen : Z.
  Variable tf : Z -> Z -> Z.
  Variable draws : nat -> nat -> Z.
  Notation pstep := (pstep fixed copyfix byref inplace base blen tf draws).
  Notation step := (step fixed copyfix byref inplace base blen tf draws).
  Notation run := (run fixed copyfix byref inplace base blen tf draws).

  Lemma deliver_ev : forall p i k h a h2 reach e,
    deliver copyfix inplace tf draws p i k h a = (h2, reach, e) -> exists v, e = ERet p i k (RVal v).
  Proof.
    unfold deliver. intros p i k h a h2 reach e H.
    destruct (ret_copy copyfix h a) as [h1 a1]. destruct (apply_tf inplace tf h1 (draws p k) a1) as [[x y] z].
    inversion H; subst. eauto.
  Qed.

  Lemma calls_of_app : forall p a b, calls_of p (a ++ b) = calls_of p a ++ calls_of p b.
  Proof. intros. unfold calls_of. apply flat_map_app. Qed.

  Lemma pstep_calls : forall p h d pr h' d' pr' evs,
    pstep p h d pr = (h', d', pr', evs) ->
    (forall q, q <> p -> calls_of q evs = []) /\
    ((calls_of p evs = [] /\ nacc pr' = nacc pr) \/ (calls_of p evs = [nacc pr] /\ nacc pr' = S (nacc pr))).
  Proof.
    intros p h d pr h' d' pr' evs H. unfold Model.pstep in H.
    assert (Hne : forall q, q <> p -> Nat.eqb p q = false) by (intros; apply Nat.eqb_neq; auto).
    destruct (pc pr).
    - destruct (todo pr) as [|[i| | |w] r]; [| destruct (dget i d) | | |];
        inversion H; subst; simpl; (split; [intros q Hq; reflexivity | auto]).
    - destruct (base i); [unfold halloc in H|]; inversion H; subst; simpl; rewrite ?Nat.eqb_refl;
        (split; [intros q Hq; rewrite ?(Hne q Hq); reflexivity | auto]).
    - destruct (transport byref h a) as [h1 ad].
      destruct (deliver copyfix inplace tf draws p i (nacc pr) h1 a) as [[h2 reach] e] eqn:Ed.
      destruct (deliver_ev _ _ _ _ _ _ _ _ Ed) as [v ->].
      inversion H; subst; simpl; rewrite ?Nat.eqb_refl; (split; [intros q Hq; rewrite ?(Hne q Hq); reflexivity | auto]).
    - destruct (dget i d) as [ad|].
      + destruct (transport byref h ad) as [h1 a].
        destruct (deliver copyfix inplace tf draws p i (nacc pr) h1 a) as [[h2 reach] e] eqn:Ed.
        destruct (deliver_ev _ _ _ _ _ _ _ _ Ed) as [v ->].
        inversion H; subst; simpl; rewrite ?Nat.eqb_refl; (split; [intros q Hq; rewrite ?(Hne q Hq); reflexivity | auto]).
      + destruct fixed; inversion H; subst; simpl; rewrite ?Nat.eqb_refl;
          (split; [intros q Hq; rewrite ?(Hne q Hq); reflexivity | auto]).
  Qed.

  Definition nacc_of (s : state) (p : nat) : nat :=
    match nth_error (procs s) p with Some pr => nacc pr | None => O end.

  Definition cinv (s : state) : Prop := forall p, calls_of p (log s) = seq 0 (nacc_of s p).

  Lemma step_cinv : forall s q, cinv s -> cinv (step s q).
  Proof.
    intros s q H p. unfold Model.step.
    destruct (nth_error (procs s) q) as [pr|] eqn:E; [|apply H].
    destruct (pstep q (hp s) (sd s) pr) as [[[h' d'] pr'] evs] eqn:Es.
    destruct (pstep_calls _ _ _ _ _ _ _ _ Es) as (Hoth & Hown).
    unfold nacc_of; simpl. rewrite calls_of_app, H. unfold nacc_of.
    destruct (Nat.eq_dec q p) as [->|Hne].
    - rewrite (nth_error_set_nth_eq _ _ _ _ _ E), E.
      destruct Hown as [(A & B) | (A & B)]; rewrite A, B.
      + apply app_nil_r.
      + rewrite seq_S. reflexivity.
    - rewrite nth_error_set_nth_neq by auto. rewrite Hoth by auto. apply app_nil_r.
  Qed.

  Lemma run_cinv : forall sched s, cinv s -> cinv (run sched s).
  Proof. induction sched; simpl; intros; auto. apply IHsched, step_cinv; auto. Qed.

  Lemma init_cinv : forall h0 d0 progs, cinv (init h0 d0 progs).
  Proof.
    intros h0 d0 progs p. unfold nacc_of; simpl. rewrite nth_error_map.
    destruct (nth_error progs p); reflexivity.
  Qed.

  Lemma conc_transform_every_access_l : forall h0 d0 progs sched,
    transform_every_access (log (run sched (init h0 d0 progs))).
  Proof.
    intros h0 d0 progs sched p.
    rewrite (run_cinv sched _ (init_cinv h0 d0 progs) p). rewrite seq_length. reflexivity.
  Qed.

  (* ------------------------------------------------------------------ progress *)
  (* atomic steps a process needs at most to finish its program *)
  Definition work (pr : proc) : nat :=
    match pc pr with
    | PStart => 4 * length (todo pr)
    | PHit _ => 4 * pred (length (todo pr)) + 3
    | PMiss _ => 4 * pred (length (todo pr)) + 2
    | PSet _ _ => 4 * pred (length (todo pr)) + 1
    end.

  Lemma pstep_work : forall p h d pr h' d' pr' evs,
    pstep p h d pr = (h', d', pr', evs) -> (work pr' < work pr \/ (work pr = 0 /\ pr' = pr))%nat.
  Proof.
    intros p h d pr h' d' pr' evs H. unfold Model.pstep in H. unfold work.
    destruct (pc pr) eqn:Epc.
    - destruct (todo pr) as [|[i| | |w] r] eqn:Et; [| destruct (dget i d) | | |];
        inversion H; subst; simpl; rewrite ?Epc, ?Et; simpl; try lia. right; auto.
    - destruct (base i); [unfold halloc in H|]; inversion H; subst; simpl;
        destruct (todo pr) as [|c r]; simpl; lia.
    - destruct (transport byref h a) as [h1 ad].
      destruct (deliver copyfix inplace tf draws p i (nacc pr) h1 a) as [[h2 reach] e].
      inversion H; subst; simpl. destruct (todo pr) as [|c r]; simpl; lia.
    - destruct (dget i d) as [ad|].
      + destruct (transport byref h ad) as [h1 a].
        destruct (deliver copyfix inplace tf draws p i (nacc pr) h1 a) as [[h2 reach] e].
        inversion H; subst; simpl. destruct (todo pr) as [|c r]; simpl; lia.
      + destruct fixed; inversion H; subst; simpl; destruct (todo pr) as [|c r]; simpl; lia.
  Qed.

  Definition work_of (s : state) (p : nat) : nat :=
    match nth_error (procs s) p with Some pr => work pr | None => O end.

  Lemma step_work : forall s q p,
    (q <> p -> work_of (step s q) p = work_of s p) /\
    (q = p -> (work_of (step s q) p <= pred (work_of s p))%nat).
  Proof.
    intros s q p. unfold work_of, Model.step.
    destruct (nth_error (procs s) q) as [pr|] eqn:E.
    - destruct (pstep q (hp s) (sd s) pr) as [[[h' d'] pr'] evs] eqn:Es. simpl. split.
      + intro Hne. rewrite nth_error_set_nth_neq by auto. reflexivity.
      + intros ->. rewrite (nth_error_set_nth_eq _ _ _ _ _ E), E.
        destruct (pstep_work _ _ _ _ _ _ _ _ Es) as [Hlt | [Hz ->]]; lia.
    - split; auto. intros ->. rewrite E. lia.
  Qed.

  Lemma run_work : forall sched s p,
    (work_of (run sched s) p <= work_of s p - count_occ Nat.eq_dec sched p)%nat.
  Proof.
    induction sched as [|q r IH]; simpl; intros s p; [lia|].
    specialize (IH (step s q) p). destruct (step_work s q p) as [Hne Heq].
    destruct (Nat.eq_dec q p) as [->|Hn].
    - specialize (Heq eq_refl). lia.
    - rewrite (Hne Hn) in IH. lia.
  Qed.

  Lemma work_zero : forall pr, work pr = O -> pc pr = PStart /\ todo pr = [].
  Proof.
    intros pr. unfold work. destruct (pc pr); try lia. destruct (todo pr); simpl; try lia. auto.
  Qed.

  Lemma step_length : forall s q, length (procs (step s q)) = length (procs s).
  Proof.
    intros. unfold Model.step.
    destruct (nth_error (procs s) q) as [pr|]; auto. destruct (pstep q (hp s) (sd s) pr) as [[[a b] c] e]. simpl.
    apply length_set_nth.
  Qed.

  Lemma run_length : forall sched s, length (procs (run sched s)) = length (procs s).
  Proof. induction sched as [|q r IH]; simpl; intros; auto. rewrite IH. apply step_length. Qed.

  (* every process finishes its program after at most 4 own steps per command, whatever
     the other processes do in between (the KeyError fallback cannot loop) *)
  Lemma conc_progress_l : forall h0 d0 progs sched p prog,
    nth_error progs p = Some prog ->
    (4 * length prog <= count_occ Nat.eq_dec sched p)%nat ->
    exists pr, nth_error (procs (run sched (init h0 d0 progs))) p = Some pr /\ pc pr = PStart /\ todo pr = [].
  Proof.
    intros h0 d0 progs sched p prog Hp Hc.
    pose proof (run_work sched (init h0 d0 progs) p) as Hw.
    assert (Hi : work_of (init h0 d0 progs) p = (4 * length prog)%nat).
    { unfold work_of; simpl. rewrite nth_error_map, Hp. reflexivity. }
    rewrite Hi in Hw.
    unfold work_of in Hw.
    destruct (nth_error (procs (run sched (init h0 d0 progs))) p) as [pr|] eqn:E.
    - exists pr. split; auto. apply work_zero. lia.
    - exfalso. apply nth_error_None in E. rewrite run_length in E. simpl in E. rewrite map_length in E.
      assert (p < length progs)%nat by (apply nth_error_Some; congruence). lia.
  Qed.

  (* bounded overtaking: from ANY state in which p stands between two commands, the pending
     command c has returned as soon as p itself was scheduled 4 times - no matter how often and
     with what the other processes were scheduled in between *)
  Lemma conc_bounded_overtaking_l : forall s sched p pr c r,
    nth_error (procs s) p = Some pr -> pc pr = PStart -> todo pr = c :: r ->
    (4 <= count_occ Nat.eq_dec sched p)%nat ->
    exists pr', nth_error (procs (run sched s)) p = Some pr' /\ (length (todo pr') <= length r)%nat.
  Proof.
    intros s sched p pr c r E Epc Et Hc.
    pose proof (run_work sched s p) as Hw. unfold work_of in Hw. rewrite E in Hw.
    assert (Hwk : work pr = (4 * S (length r))%nat) by (unfold work; rewrite Epc, Et; reflexivity).
    destruct (nth_error (procs (run sched s)) p) as [pr'|] eqn:E'.
    - exists pr'. split; auto. unfold work in Hw at 1. destruct (pc pr'); destruct (todo pr'); simpl in *; lia.
    - exfalso. apply nth_error_None in E'. rewrite run_length in E'.
      assert (p < length (procs s))%nat by (apply nth_error_Some; congruence). lia.
  Qed.
End Calls.

Section Seq.
  Variable fixed : bool.
  Variable byref inplace : bool.
  Variable base : Z -> option Z.
  Variable blen : Z.
  Variable tf : Z -> Z -> Z.
  Variable draws : nat -> nat -> Z.

  Notation pstep := (pstep fixed true byref inplace base blen tf draws).
  Notation step := (step fixed true byref inplace base blen tf draws).
  Notation do_cmd := (do_cmd fixed true byref inplace base blen tf draws).
  Notation seq_exec := (seq_exec fixed true byref inplace base blen tf draws).
  Notation spec_seq := (spec_seq base blen tf draws).
  Notation inv := (inv fixed base tf draws).
  Notation deliver := (deliver true inplace tf draws).

  Definition idle (k : nat) (l : list nat) : proc := {| pc := PStart; todo := []; nacc := k; last := l |}.

  (* what one command does when run to completion *)
  Definition big (p k : nat) (l : list nat) (h : heap) (d : dict) (c : cmd) : heap * dict * nat * list nat * list ev :=
    match c with
    | CClear => (h, [], k, l, [EClear p])
    | CLen => (h, d, k, l, [ELen p blen])
    | CMut w => (hbump w l h, d, k, l, [EMut p])
    | CGet i =>
        match dget i d with
        | Some ad => let '(h1, a) := transport byref h ad in
                     let '(h2, reach, e) := deliver p i k h1 a in
                     (h2, d, S k, reach, [e])
        | None =>
            match base i with
            | Some v => let '(h0, a) := halloc v h in
                        let '(h1, ad) := transport byref h0 a in
                        let '(h2, reach, e) := deliver p i k h1 a in
                        (h2, dset i ad d, S k, reach, [ELoad p i; e])
            | None => (h, d, k, l, [ELoad p i; ERet p i k RBaseError])
            end
        end
    end.

  Section OneCmd.
    Variable s : state.
    Variable p : nat.
    Variable pr0 : proc.
    Hypothesis E : nth_error (procs s) p = Some pr0.

    Definition st (h : heap) (d : dict) (pr : proc) (lg : list ev) : state :=
      {| hp := h; sd := d; procs := set_nth p pr (procs s); log := lg |}.

    Lemma st_nth : forall h d pr lg, nth_error (procs (st h d pr lg)) p = Some pr.
    Proof. intros. simpl. eapply nth_error_set_nth_eq; eauto. Qed.

    Lemma step_st : forall h d pr lg,
      step (st h d pr lg) p =
      let '(h', d', pr', evs) := pstep p h d pr in st h' d' pr' (lg ++ evs).
    Proof.
      intros. unfold Model.step. rewrite st_nth. simpl hp. simpl sd.
      destruct (pstep p h d pr) as [[[h' d'] pr'] evs]. unfold st. simpl. rewrite set_nth_set_nth. reflexivity.
    Qed.

    Lemma finish_st_start : forall f h d pr lg,
      is_start (pc pr) = true -> finish fixed true byref inplace base blen tf draws f (st h d pr lg) p = st h d pr lg.
    Proof. intros. destruct f; simpl; auto. unfold at_start. rewrite st_nth, H. reflexivity. Qed.

    Lemma finish_st_step : forall f h d pr lg,
      is_start (pc pr) = false ->
      finish fixed true byref inplace base blen tf draws (S f) (st h d pr lg) p =
      finish fixed true byref inplace base blen tf draws f (step (st h d pr lg) p) p.
    Proof. intros. simpl. unfold at_start. rewrite st_nth, H. reflexivity. Qed.

    Lemma push_st : forall c, push s p c =
      st (hp s) (sd s) {| pc := pc pr0; todo := todo pr0 ++ [c]; nacc := nacc pr0; last := last pr0 |} (log s).
    Proof. intros. unfold push. rewrite E. reflexivity. Qed.
  End OneCmd.

  Lemma do_cmd_big : forall s p c k l,
    nth_error (procs s) p = Some (idle k l) ->
    do_cmd s (p, c) =
    let '(h', d', k', l', evs) := big p k l (hp s) (sd s) c in
    {| hp := h'; sd := d'; procs := set_nth p (idle k' l') (procs s); log := log s ++ evs |}.
  Proof.
    intros s p c k l E.
    unfold Model.do_cmd. simpl fst. simpl snd. rewrite (push_st s p _ E). simpl pc. simpl todo. simpl nacc. simpl last.
    rewrite (step_st s p _ E).
    destruct c as [i| | |w].
    - (* CGet *)
      unfold Model.pstep at 1, big. simpl pc. simpl todo. simpl nacc. simpl last. cbv iota.
      destruct (dget i (sd s)) as [ad|] eqn:Eg.
      + (* hit *)
        cbv iota beta. rewrite (finish_st_step s p _ E) by reflexivity. rewrite (step_st s p _ E).
        unfold Model.pstep at 1. simpl pc. simpl todo. simpl nacc. simpl last. cbv iota. rewrite Eg.
        destruct (transport byref (hp s) ad) as [h1 a].
        destruct (deliver p i k h1 a) as [[h2 reach] e].
        cbv iota beta. rewrite (finish_st_start s p _ E) by reflexivity.
        unfold st, idle. simpl. rewrite app_nil_r. reflexivity.
      + (* miss *)
        cbv iota beta. rewrite (finish_st_step s p _ E) by reflexivity. rewrite (step_st s p _ E).
        unfold Model.pstep at 1. simpl pc. simpl todo. simpl nacc. simpl last. cbv iota.
        destruct (base i) as [v|] eqn:Eb.
        * destruct (halloc v (hp s)) as [h0 a].
          cbv iota beta. rewrite (finish_st_step s p _ E) by reflexivity. rewrite (step_st s p _ E).
          unfold Model.pstep at 1. simpl pc. simpl todo. simpl nacc. simpl last. cbv iota.
          destruct (transport byref h0 a) as [h1 ad].
          destruct (deliver p i k h1 a) as [[h2 reach] e].
          cbv iota beta. rewrite (finish_st_start s p _ E) by reflexivity.
          unfold st, idle. simpl. rewrite app_nil_r, <- app_assoc. reflexivity.
        * cbv iota beta. rewrite (finish_st_start s p _ E) by reflexivity.
          unfold st, idle. simpl. rewrite app_nil_r. reflexivity.
    - unfold Model.pstep at 1, big. simpl pc. simpl todo. simpl nacc. simpl last. cbv iota beta.
      rewrite (finish_st_start s p _ E) by reflexivity. reflexivity.
    - unfold Model.pstep at 1, big. simpl pc. simpl todo. simpl nacc. simpl last. cbv iota beta.
      rewrite (finish_st_start s p _ E) by reflexivity. reflexivity.
    - unfold Model.pstep at 1, big. simpl pc. simpl todo. simpl nacc. simpl last. cbv iota beta.
      rewrite (finish_st_start s p _ E) by reflexivity. reflexivity.
  Qed.

  (* ---- the invariant along sequential histories *)
  Lemma push_inv : forall s p c, inv s -> inv (push s p c).
  Proof.
    intros s p c H. unfold push. destruct (nth_error (procs s) p) as [pr|] eqn:E; auto.
    destruct H as (Hw & Hd & Hp & Hl). unfold inv; simpl.
    assert (EW : W (set_nth p {| pc := pc pr; todo := todo pr ++ [c]; nacc := nacc pr; last := last pr |} (procs s)) = W (procs s)).
    { unfold W. f_equal. eapply map_set_nth_same; eauto. }
    rewrite EW. repeat split; auto.
    apply Forall_set_nth; auto. pose proof (Forall_nth_error _ _ _ _ _ Hp E) as Hpr.
    unfold proc_ok in *. simpl. exact Hpr.
  Qed.

  Lemma finish_inv : forall fuel s p, inv s -> inv (finish fixed true byref inplace base blen tf draws fuel s p).
  Proof.
    induction fuel; simpl; intros; auto. destruct (at_start s p); auto. apply IHfuel. apply step_inv; auto.
  Qed.

  Lemma do_cmd_inv : forall s pc, inv s -> inv (do_cmd s pc).
  Proof. intros. unfold Model.do_cmd. apply finish_inv, step_inv, push_inv; auto. Qed.

  (* all n processes idle, p having made [cnt p] transform calls *)
  Definition all_idle (n : nat) (cnt : nat -> nat) (s : state) : Prop :=
    forall p, (p < n)%nat -> exists l, nth_error (procs s) p = Some (idle (cnt p) l).

  (* the dict holds exactly the indices of [seen] *)
  Definition keys_rel (seen : list Z) (d : dict) : Prop :=
    forall i, (match dget i d with Some _ => true | None => false end) = mem i seen.

  Lemma idle_after : forall n cnt cnt' s p k l h d lg,
    all_idle n cnt s -> (p < n)%nat -> (forall q, cnt' q = if Nat.eqb q p then k else cnt q) ->
    all_idle n cnt' {| hp := h; sd := d; procs := set_nth p (idle k l) (procs s); log := lg |}.
  Proof.
    intros n cnt cnt' s p k l h d lg H Hp Hc q Hq. simpl. rewrite Hc.
    destruct (Nat.eqb q p) eqn:E.
    - apply Nat.eqb_eq in E. subst. exists l. destruct (H p Hp) as [l0 E0]. eapply nth_error_set_nth_eq; eauto.
    - apply Nat.eqb_neq in E. rewrite nth_error_set_nth_neq by auto. apply H; auto.
  Qed.

  Ltac idle_tac :=
    let q := fresh "q" in let E := fresh "E" in
    eapply idle_after; eauto; intro q; unfold bump;
    destruct (Nat.eqb q _) eqn:E; auto; apply Nat.eqb_eq in E; subst; auto.

  Lemma seq_main : forall hist n s seen cnt,
    inv s -> all_idle n cnt s -> keys_rel seen (sd s) -> pids_below n hist ->
    log (fold_left do_cmd hist s) = log s ++ spec_seq seen cnt hist.
  Proof.
    induction hist as [|[p c] r IH]; simpl; intros n s seen cnt Hinv Hi Hk Hb.
    - rewrite app_nil_r. reflexivity.
    - inversion Hb as [|x y Hp Hb']; subst. simpl in Hp.
      destruct (Hi p Hp) as [l El].
      pose proof (do_cmd_inv s (p, c) Hinv) as Hinv'.
      rewrite (do_cmd_big s p c (cnt p) l El) in *.
      destruct Hinv as (Hw & Hd & _ & _).
      destruct c as [i| | |w]; simpl in *.
      + (* CGet *)
        pose proof (Hk i) as Hki.
        destruct (dget i (sd s)) as [ad|] eqn:Eg.
        * (* hit *)
          destruct (cache_ok_dget _ _ _ _ _ _ Hd Eg) as (A & B & _).
          destruct (transport byref (hp s) ad) as [h1 a] eqn:Et.
          destruct (deliver p i (cnt p) h1 a) as [[h2 reach] e] eqn:Ed.
          destruct (transport_ok _ _ _ _ _ Et A) as (X1 & X2 & X3 & _).
          destruct (deliver_ok _ _ _ _ _ _ _ _ _ _ _ Ed X2) as (_ & _ & Y3).
          rewrite <- Hki. simpl.
          rewrite (IH n _ (i :: seen) (bump cnt p)); [ | exact Hinv' | idle_tac | | assumption].
          -- simpl. rewrite <- app_assoc. simpl. unfold has, expected. rewrite B, Y3, X3. reflexivity.
          -- intro j. simpl sd. rewrite mem_cons. rewrite <- (Hk j). destruct (j =? i) eqn:E; simpl; auto.
             apply Z.eqb_eq in E. subst. rewrite Eg. reflexivity.
        * rewrite <- Hki. destruct (base i) as [v|] eqn:Eb.
          -- (* miss, loaded and stored *)
             unfold halloc in *.
             destruct (transport byref (hp s ++ [v]) (length (hp s))) as [h1 ad] eqn:Et.
             destruct (deliver p i (cnt p) h1 (length (hp s))) as [[h2 reach] e] eqn:Ed.
             assert (A : (length (hp s) < length (hp s ++ [v]))%nat) by (rewrite app_length; simpl; lia).
             destruct (transport_ok _ _ _ _ _ Et A) as (X1 & X2 & X3 & _).
             assert (A1 : (length (hp s) < length h1)%nat) by (destruct X1; lia).
             destruct (deliver_ok _ _ _ _ _ _ _ _ _ _ _ Ed A1) as (_ & _ & Y3).
             rewrite (IH n _ (i :: seen) (bump cnt p)); [ | exact Hinv' | idle_tac | | assumption].
             ++ simpl. rewrite <- app_assoc. simpl. unfold has, expected. rewrite Eb, Y3.
                destruct X1 as [_ X1]. rewrite X1 by auto. rewrite hget_alloc. reflexivity.
             ++ intro j. simpl sd. rewrite mem_cons. simpl. destruct (j =? i) eqn:E; simpl; auto; try apply Hk.
          -- (* the wrapped dataset raises: nothing cached *)
             rewrite (IH n _ seen cnt); [ | exact Hinv' | idle_tac | assumption | assumption].
             simpl. rewrite <- app_assoc. simpl. unfold has, expected. rewrite Eb. reflexivity.
      + (* CClear *)
        rewrite (IH n _ [] cnt); [ | exact Hinv' | idle_tac | | assumption].
        * simpl. rewrite <- app_assoc. reflexivity.
        * intro j. reflexivity.
      + (* CLen *)
        rewrite (IH n _ seen cnt); [ | exact Hinv' | idle_tac | assumption | assumption].
        simpl. rewrite <- app_assoc. reflexivity.
      + (* CMut *)
        rewrite (IH n _ seen cnt); [ | exact Hinv' | idle_tac | assumption | assumption].
        simpl. rewrite <- app_assoc. reflexivity.
  Qed.

  Lemma seq_transparent_l : forall n hist,
    pids_below n hist ->
    log (seq_exec n hist) = spec_seq [] (fun _ => O) hist.
  Proof.
    intros n hist H. unfold Model.seq_exec.
    erewrite seq_main with (seen := []) (cnt := fun _ => O) (n := n); auto.
    - apply init_inv. constructor.
    - intros p Hp. simpl. rewrite nth_error_map. rewrite nth_error_repeat by auto. exists []. reflexivity.
    - intro i. reflexivity.
  Qed.

  (* the cache content after a sequential history *)
  Lemma seq_inv : forall n hist, inv (seq_exec n hist).
  Proof.
    intros n hist. unfold Model.seq_exec.
    assert (G : forall h s, inv s -> inv (fold_left do_cmd h s)).
    { induction h; simpl; intros; auto. apply IHh, do_cmd_inv; auto. }
    apply G, init_inv. constructor.
  Qed.

  (* ------------------------------------------ at most one load between clears *)
  Lemma loads_once_spec : forall hist S seen cnt,
    (forall j, In j S -> has base j = true -> mem j seen = true) ->
    loads_once base S (spec_seq seen cnt hist).
  Proof.
    induction hist as [|[p [i| | |w]] r IH]; simpl; intros S seen cnt HS; auto.
    - destruct (mem i seen) eqn:Em; simpl.
      + apply IH. intros j Hj Hh. specialize (HS j Hj Hh).
        destruct (has base i); auto. rewrite mem_cons, HS. apply orb_true_r.
      + split.
        * intro Hin. destruct (base i) eqn:Eb; auto.
          assert (mem i seen = true) by (apply HS; auto; unfold has; rewrite Eb; auto). congruence.
        * apply IH. intros j [<-|Hj] Hh.
          -- rewrite Hh. rewrite mem_cons, Z.eqb_refl. reflexivity.
          -- specialize (HS j Hj Hh). destruct (has base i); auto. rewrite mem_cons, HS. apply orb_true_r.
  Qed.

  Lemma seq_at_most_one_load_l : forall n hist,
    pids_below n hist -> loads_once base [] (log (seq_exec n hist)).
  Proof. intros. rewrite seq_transparent_l by auto. apply loads_once_spec. intros j []. Qed.

  (* ----------------------------------------------------- reload after a clear *)
  Fixpoint spec_state (seen : list Z) (cnt : nat -> nat) (hist : list (nat * cmd)) : list Z * (nat -> nat) :=
    match hist with
    | [] => (seen, cnt)
    | (p, CClear) :: r => spec_state [] cnt r
    | (p, CLen) :: r => spec_state seen cnt r
    | (p, CMut _) :: r => spec_state seen cnt r
    | (p, CGet i) :: r => spec_state (if has base i then i :: seen else seen) (if has base i then bump cnt p else cnt) r
    end.

  Lemma spec_seq_app : forall h1 h2 seen cnt,
    spec_seq seen cnt (h1 ++ h2) =
    spec_seq seen cnt h1 ++ spec_seq (fst (spec_state seen cnt h1)) (snd (spec_state seen cnt h1)) h2.
  Proof.
    induction h1 as [|[p [i| | |w]] r IH]; simpl; intros; auto.
    - rewrite IH. rewrite <- app_assoc. reflexivity.
    - rewrite IH. reflexivity.
    - rewrite IH. reflexivity.
    - rewrite IH. reflexivity.
  Qed.

  Lemma spec_state_app : forall h1 h2 seen cnt,
    spec_state seen cnt (h1 ++ h2) = spec_state (fst (spec_state seen cnt h1)) (snd (spec_state seen cnt h1)) h2.
  Proof. induction h1 as [|[p [i| | |w]] r IH]; simpl; intros; auto. Qed.

  Lemma no_get_not_seen : forall h i seen cnt,
    no_get i h -> mem i seen = false -> mem i (fst (spec_state seen cnt h)) = false.
  Proof.
    induction h as [|[p [j| | |w]] r IH]; simpl; intros i seen cnt Hn Hm; auto.
    - apply IH.
      + intros q Hq. apply (Hn q). right; auto.
      + destruct (has base j); auto. rewrite mem_cons, Hm.
        destruct (i =? j) eqn:E; auto. apply Z.eqb_eq in E. subst. exfalso. apply (Hn p). left; auto.
    - apply IH; auto. intros q Hq. apply (Hn q). right; auto.
    - apply IH; auto. intros q Hq. apply (Hn q). right; auto.
    - apply IH; auto. intros q Hq. apply (Hn q). right; auto.
  Qed.

  Lemma pids_below_app : forall n h1 h2, pids_below n (h1 ++ h2) -> pids_below n h1.
  Proof. unfold pids_below. intros n h1 h2 H. apply Forall_app in H. tauto. Qed.

  Lemma reload_after_clear_l : forall n h1 p h2 q i,
    pids_below n (h1 ++ (p, CClear) :: h2 ++ [(q, CGet i)]) ->
    no_get i h2 ->
    exists k,
      log (seq_exec n (h1 ++ (p, CClear) :: h2 ++ [(q, CGet i)])) =
      log (seq_exec n (h1 ++ (p, CClear) :: h2))
      ++ [ELoad q i; ERet q i k (expected base tf (draws q k) i)].
  Proof.
    intros n h1 p h2 q i Hb Hn.
    assert (Hb' : pids_below n (h1 ++ (p, CClear) :: h2)).
    { replace (h1 ++ (p, CClear) :: h2 ++ [(q, CGet i)]) with ((h1 ++ (p, CClear) :: h2) ++ [(q, CGet i)]) in Hb
        by (rewrite <- app_assoc; reflexivity).
      eapply pids_below_app; eauto. }
    replace (h1 ++ (p, CClear) :: h2 ++ [(q, CGet i)]) with ((h1 ++ (p, CClear) :: h2) ++ [(q, CGet i)]) in *
      by (rewrite <- app_assoc; reflexivity).
    rewrite !seq_transparent_l by auto.
    rewrite spec_seq_app. simpl.
    rewrite spec_state_app. simpl.
    rewrite no_get_not_seen by auto. simpl.
    eexists. reflexivity.
  Qed.
End Seq.

(* ------------------------------------------------------------- the repaired code *)
Lemma conc_transparent_l : forall byref inplace base blen tf draws h0 d0 progs sched,
  cache_init_ok base h0 d0 ->
  transparent base tf draws (log (run true true byref inplace base blen tf draws sched (init h0 d0 progs))).
Proof.
  intros byref inplace base blen tf draws h0 d0 progs sched H p i k r Hin.
  destruct (conc_inv true byref inplace base blen tf draws h0 d0 progs sched H) as (_ & _ & _ & Hl).
  rewrite Forall_forall in Hl. specialize (Hl _ Hin). simpl in Hl.
  destruct Hl as [Hl | [Hf _]]; [assumption | discriminate].
Qed.

Lemma expected_not_keyerror : forall base tf d i, expected base tf d i <> RKeyError.
Proof. intros. unfold expected. destruct (base i); discriminate. Qed.

Lemma conc_no_error_l : forall byref inplace base blen tf draws h0 d0 progs sched,
  cache_init_ok base h0 d0 ->
  no_error (log (run true true byref inplace base blen tf draws sched (init h0 d0 progs))).
Proof.
  intros byref inplace base blen tf draws h0 d0 progs sched H p i k Hin.
  apply (conc_transparent_l byref inplace base blen tf draws h0 d0 progs sched H) in Hin.
  symmetry in Hin. eapply expected_not_keyerror; eauto.
Qed.

(* ------------------------------- the reader BEFORE fixes/C19_clear_race: the race is reachable *)
(* process 0 reads index 3 twice, process 1 disposes: the second read's membership test
   succeeds, the dispose runs, the lookup raises KeyError *)
Lemma conc_no_error_prefix_refuted_l :
  exists (progs : list (list cmd)) (sched : list nat),
    In (ERet 0 3 1 RKeyError)
       (log (run false true false false (fun i => Some (10 * i)) 5 (fun d v => d + v) (fun _ _ => 0) sched (init [] [] progs))).
Proof.
  exists [[CGet 3; CGet 3]; [CClear]], [0; 0; 0; 0; 1; 0]%nat. vm_compute. auto 10.
Qed.

(* ------------------------------- the code BEFORE fixes/C19_tensor_alias: the cache hands out itself *)
(* by-reference transport (torch tensors) and an in-place transform x -> x + 100: the second access of
   index 1 by the same process returns 210 instead of 110, and the cache holds 210 *)
Lemma alias_inplace_transform_prefix_refuted_l :
  let base := fun i => Some (10 * i) in
  let tf := fun d v : Z => d + v in
  let draws := fun (_ _ : nat) => 100 in
  let hist := [(0, CGet 1); (0, CGet 1)]%nat in
  let s := seq_exec true false true true base 5 tf draws 1 hist in
  pids_below 1 hist /\
  log s = [ELoad 0 1; ERet 0 1 0 (RVal 110); ERet 0 1 1 (RVal 210)] /\
  log s <> spec_seq base 5 tf draws [] (fun _ => O) hist /\
  ~ dict_ok base (dict_content (hp s) (sd s)).
Proof.
  cbv zeta. split; [repeat constructor|]. split; [vm_compute; reflexivity|]. split.
  - vm_compute. discriminate.
  - vm_compute. intro H. inversion H; subst. discriminate.
Qed.

(* no transform at all: process 0 adds 5, in place, to the sample it was handed; process 1 (another holder
   of the same cache) then reads 15 where the wrapped dataset has 10 *)
Lemma alias_consumer_write_prefix_refuted_l :
  let base := fun i => Some (10 * i) in
  let tf := fun d v : Z => v in
  let draws := fun (_ _ : nat) => 0 in
  let progs := [[CGet 1; CMut 5]; [CGet 1]] in
  let sched := [0; 0; 0; 0; 1; 1]%nat in
  log (run true false true true base 5 tf draws sched (init [] [] progs)) =
  [ELoad 0 1; ERet 0 1 0 (RVal 10); EMut 0; ERet 1 1 0 (RVal 15)].
Proof. vm_compute. reflexivity. Qed.
