(* C03 — proofs for the name based class filter and for wrappers stacked on wrappers (KDSubset indexing). *)
From Coq Require Import ZArith List Bool Lia ZifyBool Permutation Sorted Arith.
From Coq Require String.
Import ListNotations.
From KD Require Import C03.Model C03.Spec C03.Proofs.
Open Scope Z_scope.

(* ------------------------------------------------------------------ *)
(* names -> class numbers                                              *)
(* ------------------------------------------------------------------ *)
Lemma bool_iff (a b : bool) : (a = true <-> b = true) -> a = b.
Proof. destruct a, b; intuition congruence. Qed.

Lemma existsb_Zeqb_In c l : existsb (Z.eqb c) l = true <-> In c l.
Proof.
  rewrite existsb_exists. split.
  - intros (x & Hx & E). apply Z.eqb_eq in E. now subst.
  - intros H. exists c. split; auto. apply Z.eqb_refl.
Qed.

Lemma existsb_streqb_In nm l : existsb (String.eqb nm) l = true <-> In nm l.
Proof.
  rewrite existsb_exists. split.
  - intros (x & Hx & E). apply String.eqb_eq in E. now subst.
  - intros H. exists nm. split; auto. apply String.eqb_refl.
Qed.

Lemma In_name_positions names : forall cn i c,
  In c (name_positions i names cn) <->
  i <= c /\ exists nm, nth_error cn (Z.to_nat (c - i)) = Some nm /\ existsb (String.eqb nm) names = true.
Proof.
  induction cn as [|a r IH]; intros i c.
  - simpl. split. tauto. intros (_ & nm & H & _). destruct (Z.to_nat (c - i)); discriminate.
  - specialize (IH (i + 1) c). simpl name_positions.
    destruct (existsb (String.eqb a) names) eqn:E.
    + simpl In. rewrite IH. split.
      * intros [Hc|(Hle & nm & Hn & He)].
        -- subst c. split. lia. exists a. rewrite Z.sub_diag. simpl. auto.
        -- split. lia. exists nm. replace (Z.to_nat (c - i)) with (S (Z.to_nat (c - (i + 1)))) by lia. simpl. auto.
      * intros (Hle & nm & Hn & He). destruct (Z.eq_dec i c) as [|Hne]. now left. right. split. lia.
        exists nm. replace (Z.to_nat (c - i)) with (S (Z.to_nat (c - (i + 1)))) in Hn by lia. simpl in Hn. auto.
    + rewrite IH. split.
      * intros (Hle & nm & Hn & He). split. lia. exists nm.
        replace (Z.to_nat (c - i)) with (S (Z.to_nat (c - (i + 1)))) by lia. simpl. auto.
      * intros (Hle & nm & Hn & He). destruct (Z.eq_dec i c) as [|Hne].
        -- subst c. rewrite Z.sub_diag in Hn. simpl in Hn. inversion Hn. subst nm. congruence.
        -- split. lia. exists nm.
           replace (Z.to_nat (c - i)) with (S (Z.to_nat (c - (i + 1)))) in Hn by lia. simpl in Hn. auto.
Qed.

Lemma names_to_classes_requested cn names c :
  In c (names_to_classes cn names) <-> name_requested cn names c = true.
Proof.
  unfold names_to_classes, name_requested, class_name. rewrite In_name_positions, Z.sub_0_r.
  destruct (Z.ltb_spec c 0).
  - split. intros (? & _). lia. discriminate.
  - split.
    + intros (_ & nm & Hn & He). now rewrite Hn.
    + destruct (nth_error cn (Z.to_nat c)) as [nm|]; [|discriminate]. intros He. split. lia. eauto.
Qed.

(* every class that carries a requested name - all of them when a name occurs several times -, nothing else *)
Lemma names_to_classes_iff cn names c :
  In c (names_to_classes cn names) <-> exists nm, class_name cn c = Some nm /\ In nm names.
Proof.
  rewrite names_to_classes_requested. unfold name_requested.
  destruct (class_name cn c) as [nm|].
  - rewrite existsb_streqb_In. split. eauto. intros (nm' & E & Hin'). now inversion E; subst.
  - split. discriminate. intros (nm' & E & _). discriminate.
Qed.

Lemma names_to_classes_sorted cn names : StronglySorted Z.lt (names_to_classes cn names).
Proof.
  unfold names_to_classes. generalize 0. induction cn as [|a r IH]; intros i; simpl. constructor.
  destruct (existsb (String.eqb a) names); auto. constructor; auto.
  apply Forall_forall. intros x Hx. apply In_name_positions in Hx. lia.
Qed.

Lemma class_name_range cn c nm : class_name cn c = Some nm -> 0 <= c < zlen cn.
Proof.
  unfold class_name, zlen. destruct (Z.ltb_spec c 0). discriminate. intros E.
  assert (Z.to_nat c < length cn)%nat by (apply nth_error_Some; congruence). lia.
Qed.

(* ------------------------------------------------------------------ *)
(* ClassFilterWrapper by name                                          *)
(* ------------------------------------------------------------------ *)
Lemma class_filter_ext valid cs1 cs2 classes :
  (forall c, In c cs1 <-> In c cs2) -> class_filter valid cs1 classes = class_filter valid cs2 classes.
Proof.
  intros H. rewrite !class_filter_spec_l. unfold spec_class_filter. apply filter_ext. intros i. f_equal.
  apply bool_iff. rewrite !existsb_Zeqb_In. apply H.
Qed.

Lemma class_filter_by_name_spec_l valid cn names classes :
  class_filter_by_name valid cn names classes = spec_class_filter_names classes valid cn names.
Proof.
  unfold class_filter_by_name, spec_class_filter_names. rewrite class_filter_spec_l. unfold spec_class_filter.
  apply filter_ext. intros i. f_equal. apply bool_iff. rewrite existsb_Zeqb_In. apply names_to_classes_requested.
Qed.

Lemma class_filter_names_eq_numbers_l valid cn names classes cs :
  (forall c, In c cs <-> exists nm, class_name cn c = Some nm /\ In nm names) ->
  class_filter_by_name valid cn names classes = class_filter valid cs classes.
Proof.
  intros H. unfold class_filter_by_name. apply class_filter_ext. intros c. now rewrite names_to_classes_iff, H.
Qed.

Lemma class_filter_by_name_valid_l cn names classes i :
  In i (class_filter_by_name true cn names classes) <->
  0 <= i < zlen classes /\ exists nm, class_name cn (cls classes i) = Some nm /\ In nm names.
Proof. unfold class_filter_by_name. now rewrite class_filter_valid_l, names_to_classes_iff. Qed.

Lemma class_filter_by_name_invalid_l cn names classes i :
  In i (class_filter_by_name false cn names classes) <->
  0 <= i < zlen classes /\ ~ exists nm, class_name cn (cls classes i) = Some nm /\ In nm names.
Proof. unfold class_filter_by_name. now rewrite class_filter_invalid_l, names_to_classes_iff. Qed.

(* the valid and the invalid filter of the same classes partition the dataset *)
Lemma class_filter_complementary_l cs classes :
  Permutation (class_filter true cs classes ++ class_filter false cs classes) (all_ids classes).
Proof.
  rewrite !class_filter_spec_l. unfold spec_class_filter. symmetry.
  rewrite <- (filter_all (fun _ => true) (all_ids classes)) at 1 by reflexivity.
  apply filter_split_perm; intros x; destruct (existsb (Z.eqb (cls classes x)) cs); reflexivity.
Qed.

(* requested names no class carries, repeated requested names, the order of the requested names: no influence *)
Lemma class_filter_by_name_ext valid cn names1 names2 classes :
  (forall nm, In nm cn -> (In nm names1 <-> In nm names2)) ->
  class_filter_by_name valid cn names1 classes = class_filter_by_name valid cn names2 classes.
Proof.
  intros H. unfold class_filter_by_name. apply class_filter_ext. intros c. rewrite !names_to_classes_iff.
  assert (Hin : forall nm, class_name cn c = Some nm -> In nm cn).
  { unfold class_name. destruct (c <? 0). discriminate. intros nm E. eapply nth_error_In; eauto. }
  split; intros (nm & E & Hn); exists nm; split; auto; apply (H nm (Hin nm E)); auto.
Qed.

(* ------------------------------------------------------------------ *)
(* KDSubset indexing: wrappers on wrappers                             *)
(* ------------------------------------------------------------------ *)
Lemma through_cls classes out : through classes out = map (cls classes) out.
Proof. reflexivity. Qed.

Lemma map_nth_seq {A} (d : A) l : map (fun k => nth k l d) (seq 0 (length l)) = l.
Proof.
  induction l. reflexivity. simpl. f_equal. rewrite <- seq_shift, map_map. exact IHl.
Qed.

Lemma through_ids values : through values (zrange 0 (zlen values)) = values.
Proof.
  unfold through, zrange, zlen. rewrite map_map, Z.sub_0_r, Nat2Z.id.
  rewrite <- (map_nth_seq (-1) values) at 2. apply map_ext. intros k. f_equal. lia.
Qed.

Lemma through_assoc values a b :
  (forall j, In j b -> 0 <= j < zlen a) -> through values (through a b) = through (through values a) b.
Proof.
  intros H. unfold through. set (f := fun i => nth (Z.to_nat i) values (-1)).
  rewrite map_map. apply map_ext_in. intros j Hj. specialize (H j Hj). unfold zlen in H.
  rewrite (nth_indep (map f a) (-1) (f (-1))) by (rewrite map_length; lia).
  rewrite map_nth. reflexivity.
Qed.

Lemma through_perm a b : Permutation b (zrange 0 (zlen a)) -> Permutation (through a b) a.
Proof. intros H. rewrite <- (through_ids a) at 2. unfold through. now apply Permutation_map. Qed.

Lemma through_In a b x : (forall j, In j b -> 0 <= j < zlen a) -> In x (through a b) -> In x a.
Proof.
  intros H Hx. unfold through in Hx. apply in_map_iff in Hx. destruct Hx as (j & <- & Hj).
  specialize (H j Hj). unfold zlen in H. apply nth_In. lia.
Qed.

Lemma zlen_through a b : zlen (through a b) = zlen b.
Proof. unfold through, zlen. now rewrite map_length. Qed.

Lemma stacked_inv {P} (O : pct_ops P) classes C wA wB out :
  stacked_g O classes C wA wB = Some out ->
  exists a b, run_g O classes C wA = Some a /\ run_g O (through classes a) C wB = Some b /\ out = through a b.
Proof.
  unfold stacked_g, stacked_with. destruct (run_g O classes C wA) as [a|] eqn:Ea; [|discriminate].
  destruct (run_g O (through classes a) C wB) as [b|] eqn:Eb; [|discriminate].
  intros E. inversion E. exists a, b. repeat split; auto.
Qed.

Lemma session_nth {P} (O : pct_ops P) classes C : forall ws k,
  nth_error (run_session_g O classes C ws) k = option_map (run_g O classes C) (nth_error ws k).
Proof.
  unfold run_session_g. induction ws; intros [|k]; simpl; auto.
Qed.

Lemma through_perm_ids classes a b :
  Permutation a (all_ids classes) -> Permutation b (zrange 0 (zlen a)) -> Permutation (through a b) (all_ids classes).
Proof. intros Ha Hb. eapply Permutation_trans. apply through_perm, Hb. exact Ha. Qed.
