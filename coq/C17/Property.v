From Coq Require Import ZArith List Bool.
From KD Require Import C17.Model C17.Spec C17.Proofs C17.Example.
Theorem stub : True. Proof. exact I. Qed.
Print Assumptions stub.
