"""C15 - strength scaling interpolates from identity to the configured augmentation; a scheduled transform applies
the schedule value of the global batch independent of the worker count.

Proof side: coq/C15 (Base/BaseLemmas/Sched/Spec/Check/Proofs/PropertyC15 hand-written, gen/Strength.v regenerated
from KD_REPO's sources by harness/translate_strength.py on every run - model AND the per-class spec predicates wf / dom /
ordered / weakest; the proofs mention no generated name below the `leaf` level and are re-checked against the
regenerated text).
Dynamic side (this module):
  * scale cases: a real transform (every class that defines _scale_strength, aliases, trees of the containers
    KDComposeTransform / KDTransformChoice / KDRandomApply / PatchwiseTransform with opaque KDTransforms and foreign
    callables, the ready-made BYOL pipelines) is constructed, its parameters are read back (a) through the translator's
    schema -> Coq term, (b) through the hand-written registry OBSERVE below -> Python oracle; then scale_strength(f) for
    a factor sequence (0, 1, repeated, non-monotone, random), reading the parameters back after every call.
    BEHAVIOUR after every call: an injected spy generator records every rng.uniform / rng.normal call (arguments and
    scalar results); the transform is called several times and what it records in ctx and returns is compared with a
    FRESH instance (same constructor arguments) that only saw the last factor, same generator seed, same input; for the
    MagnitudeSampler users the sampled magnitude is recomputed from the scaled parameters and the recorded draw.
  * sched cases: KDScheduledTransform (optionally inside a KDComposeTransform) is copied once per simulated worker,
    initialised through the public worker_init_fn with get_worker_info patched (as the unit test does), fed global
    batches round-robin; ctx strength and the wrapped transform's parameters are recorded per global sample.  With
    "loader" a real torch DataLoader with that many worker processes produces the same record.  The announced length
    (epochs / updates / samples) is also counted with torch's own DistributedSampler / BatchSampler.
  * inter cases: INTERLEAVED HISTORIES ON SHARED OBJECTS.  1-3 KDScheduledTransforms (different schedules / batch sizes /
    announced lengths) over a heap of 1-2 augmentation objects, some shared (self.transform = a heap object or a private
    KDComposeTransform over heap objects), optionally all inside an outer KDComposeTransform that also holds heap objects
    directly; the whole pipeline is deep-copied once per simulated worker.  Per step either "scheduled k processes its
    next sample" (dealt to the copies in full batches round-robin) or "somebody calls scale_strength(f) on heap object j
    of copy w" or "somebody calls scale_strength(f) on copy w's outer composition".  After EVERY step the parameters of
    every heap object of that copy are read back from the real objects; for a call: the reported ctx value must be the
    schedule's value at that scheduled transform's own global batch, every object it reaches must have the parameters
    of the constructed object scaled by exactly that value (APPLIED = REPORTED), and what the augmentation records in
    ctx / returns must equal what the constructed augmentation scaled by that value records / returns (same generator
    seed, same input); every other object must still be `constructed, scaled by the last factor it was given`.
    Model: Sched.v second part (heap + scheduled states per copy), spec: Spec.v ispec_run, theorem
    scheduled_applies_schedule_value_after_any_interleaving.
  * multi_iter cases: a real DataLoader iterated once per epoch (persistent workers or not): inside the claim only for
    persistent workers with num_workers | batches per epoch; the other two regimes are a recorded finding.
  * translator_selftest: synthetic _scale_strength bodies with unsupported shapes must be refused by the translator.
"""
import copy
import math
import re
from fractions import Fraction

from . import translate_strength as T
from .common import Raw, coq

ID = "C15"
COQ_FILES = ["C15/Base.v", "C15/gen/Strength.v", "C15/Sched.v", "C15/Spec.v", "C15/Check.v", "C15/BaseLemmas.v",
             "C15/Proofs.v", "C15/ProofsInterleave.v", "C15/PropertyC15.v"]
COQ_PRELUDE = ("From Coq Require Import ZArith QArith List Bool.\nImport ListNotations.\n"
               "From KD Require Import C15.Base C15.gen.Strength C15.Sched C15.Spec C15.Check.\nOpen Scope Q_scope.\n")
COQ_CHECK = "check"
COQ_CASE_TYPE = "case_t"
SHARD = 60
COQ_SAMPLES = 72
TRUSTED = [
    "harness/translate_strength.py (ast translator, fail closed): its output gen/Strength.v is validated on every run "
    "by comparing the real classes' attributes after every scale_strength call with the generated *_scale over exact "
    "fractions (Base.v approxQ: 8 ulp = 8 * 2^-53 of (1 + |a| + |b|), ints exactly)",
    "binary64 vs rationals: the model computes over Q with the exact value of every float; `lb + (ub - lb) * 1.0` may "
    "differ from ub by an ulp (inside the explicit 8-ulp slack); int(...) of KDSolarize is compared exactly, cases whose "
    "exact pre-truncation value is within 2^-43 of an integer it does not hit are only checked by the Python oracle",
    "coq/C15/Sched.v: hand model of KDScheduledTransform._worker_init_fn / __call__ (the schedule object is an opaque "
    "function; its values are asked from an independent copy of the schedule); tied to the code by the simulated "
    "workers and (thorough tier, 2 cases in quick) a real multi-process DataLoader",
    "coq/C15/Sched.v second part (shared objects): hand model of object identity - one pipeline copy = a heap of "
    "augmentation objects + the scheduled transforms' fields, KDScheduledTransform.__call__ = unconditional write of "
    "schedule(batch) to every heap cell self.transform.scale_strength reaches, then apply; KDScheduledTransform as a "
    "member of an outer composition receives nothing from the outer factor (base-class no-op _scale_strength); "
    "copy.deepcopy of the pipeline (what a DataLoader worker gets) preserves the sharing inside a copy and shares "
    "nothing between copies; tied to the code by reading every heap object of the touched copy back after every step",
    "round-robin assignment of batches to DataLoader workers (torch behaviour, observed in the real-loader cases: the "
    "worker id of every batch is recorded and the strengths are compared with the schedule at the global batch)",
    "torchvision ColorJitter / GaussianBlur / RandomRotation argument normalisation produces lower bounds >= 0 and "
    "hue within [-0.5, 0.5] (Spec.v KDColorJitter_wf; evaluated on every real instance)",
    "harness/c15.py: OBSERVE registry (which attributes are the sampled ranges and their identity values; which "
    "classes are containers), spy generator, canonicalisation of floats into exact fractions",
    "harness/translate_strength.py SPEC table: weakest value of every scaled field, the sampled ranges and the "
    "constructor domain of each class with assignments of its own (spec knowledge, not derivable from the code; a "
    "scaled field the table does not cover aborts the translation); classes that only forward inherit from members",
    "behaviour comparison: a fresh instance built from the same constructor arguments and scaled once is the reference "
    "for `depends only on the last factor` (exact equality of ctx records and outputs under the same generator seed); the "
    "fresh instance / the reference of a scheduled transform is ALWAYS built from ready-made objects (strip_via), also when "
    "the instance under test was specified by config dicts / nested lists",
    "expected schedule values are an independent evaluation of the schedule SPECIFICATION (schedule_values: number c -> "
    "constant c, None -> b / max(1, n_batches - 1), list -> its entries, config dict -> built by kappaschedules directly); "
    "transform.schedule is never read",
]
ASSUMPTIONS = [
    "factors in [0, 1] (the public scale_strength asserts this)",
    "full batches, ONE DataLoader iterator spanning the announced length, batches dealt to workers round-robin; every "
    "worker starts from a copy of the transform with sample_counter = 0 and worker_init_fn has been called (n_batches "
    "known).  Several iterators (one per epoch) are inside the claim only with persistent workers and num_workers "
    "dividing the batches per epoch; otherwise the schedule restarts / mis-aligns: finding "
    "fixes/C15_multi_iterator_epochs.txt, reproduced by corpus/C15/known_multi_iterator_*.json",
    "per-rank dataset length = dataset_len // world_size (what kappadata's own samplers yield: SamplerBase.__len__ cuts "
    "the trailing samples)",
    "compositions are trees of the containers KDComposeTransform (and its subclasses), KDTransformChoice, KDRandomApply, "
    "PatchwiseTransform over scaling leaves, non-scaling KDTransforms and foreign callables (model = the code with "
    "fixes/C15_{random_apply,transform_choice,patchwise,three_augment}_scale.patch applied); KDScheduledTransform does "
    "not forward an OUTER scale_strength to the transform it schedules and counts as Opaque in scale cases; in the "
    "inter cases this is modelled (Sched.v member MSched) and observed on the real code: outer.scale_strength(f) leaves "
    "the scheduled augmentation where the last schedule value put it and the next sample gets the schedule's value - "
    "the schedule wins, also against factor 0 (supports_scale_strength() is False for KDScheduledTransform); within "
    "`depends only on the last factor given`: the scheduled member does not depend on the outer factor at all",
    "interleaved histories: every scheduled transform's OWN samples arrive in full batches dealt round-robin to the "
    "pipeline copies (its sample_counter counts only its own calls); how the calls of different scheduled transforms "
    "and foreign scale_strength calls interleave is arbitrary.  An outer composition's factor does not reach the "
    "augmentation behind a scheduled member (the schedule wins at the next sample; observed on the real code, modelled "
    "as MSched -> no targets): a change of that behaviour shows up as model drift, not as a violation",
    "ways of SPECIFYING things are part of the claim: a schedule may be handed to KDScheduledTransform as a kappaschedules "
    "object, a config dict, a list of values, None (= the documented default: linear from 0 to 1) or a bare number (int / "
    "float / bool; kappaschedules' shorthand for a constant schedule - 0, 0.0 and False mean `constant 0`, not `use the "
    "default`), by a direct constructor call or through kappadata.factory.object_to_transform(dict(kind="
    "'kd_scheduled_transform', ...)); members of KDComposeTransform / PatchwiseTransform / KDScheduledTransform (the "
    "constructors that run object_to_transform) may be handed over as ready-made objects, config dicts or nested lists "
    "(implicit composition), the root through the factory - all must behave like the object-built equivalent.  Classes the "
    "factory cannot resolve by kind (not exported by kappadata.transforms: e.g. KDRandomRotation, KDTransformChoice) are "
    "handed over as objects.  In the inter cases scheduled transforms are built by direct constructor calls only (the "
    "factory deep-copies a config and would un-share the heap objects)",
    "MagnitudeSampler with magnitude_std = inf (uniform mode): magnitude_std is never read by sampling; its value "
    "(inf, or nan after factor 0) is not part of the claim and is shipped as 0",
    "KDGaussianBlur* have no identity setting: the weakest setting is the constant sigma = sigma_lb",
    "ranges_stay_ordered: constructor arguments in torchvision's domain (tree_wf) and constructed ranges ordered "
    "(tree_dom: og_lb <= og_ub, magnitude_min <= magnitude <= magnitude_max, sigma_lb <= sigma_ub); both are evaluated "
    "on every real instance",
]
ALLOWED_AXIOMS = []
KNOWN_FINDINGS_PROPOSED = [
    {"property": "C15", "match": {"kind": "multi_iter", "regime": "nonpersistent"},
     "what": "KDScheduledTransform with worker_init_fn(epochs=E, ...) and one DataLoader iterator per epoch, "
             "persistent_workers=False: every iterator forks workers from the main-process copy whose sample_counter is 0, "
             "the schedule restarts at batch 0 every epoch (W=2, B=2, 3 batches/epoch, E=2: epoch 1 gets 0.0, 0.2, 0.4 "
             "instead of 0.6, 0.8, 1.0); not repaired: needs new API (fixes/C15_multi_iterator_epochs.txt)"},
    {"property": "C15", "match": {"kind": "multi_iter", "regime": "persistent_misaligned"},
     "what": "KDScheduledTransform with one DataLoader iterator per epoch, persistent_workers=True and num_workers not "
             "dividing the batches per epoch: torch restarts the round-robin at worker 0, local batch * W + rank is no "
             "longer the global batch (W=2, 3 batches/epoch: epoch 1 starts with 0.8 instead of 0.6, then the schedule "
             "asserts step < total_steps); not repaired (fixes/C15_multi_iterator_epochs.txt)"},
]
RULE = ("scale: every scaling class x 3 constructor-argument sets as a leaf (spy on rng.uniform / rng.normal; magnitude "
        "samplers in const / normal / uniform mode), random container trees (depth <= 3; KDComposeTransform, "
        "KDTransformChoice, KDRandomApply, PatchwiseTransform; opaque / foreign members, BYOL presets), factor sequences "
        "of length 2-8 from {0, 1, 0.5, 0.1, 1e-9, 1-2^-53, random}, repeated and non-monotone, (almost always) "
        "containing 0 and 1; after EVERY factor the instance is called 4-6 times and compared with a fresh instance that "
        "saw only that factor; sched: W in 1..5, B in 1..5, n_batches announced via updates / samples (any remainder) / "
        "epochs (1-5 epochs, world size 1-4, drop_last on/off, per-rank length with any remainder mod B, dataset length "
        "with any remainder mod world size), custom / linear / cosine schedules, wrapped leaf or tree, optionally nested "
        "in a compose, 1..n_batches*B samples dealt round-robin; real DataLoader worker processes for 2 (quick) / 16 "
        "cases and for the multi-iterator cases; inter: 90 / 600 interleaved histories of 6-24 (40) steps over 1-3 "
        "scheduled transforms x 1-2 heap objects (shared in most cases; private compose over two objects; outer "
        "composition in 40%), W in 1..3 pipeline copies, batch sizes 1-5 (mostly >= 2, per scheduled transform), "
        "schedules with plateaus / constants / increasing / decreasing, 72% calls, foreign scale_strength aimed at the "
        "copy that handles some scheduled transform's next sample, outer scale; non-trivial = the history contains a "
        "call with the same schedule value as that scheduled transform's previous call on the copy while somebody "
        "else gave one of its objects a different factor in between; non-trivial = at least one scaling leaf and one factor strictly between "
        "0 and 1 (scale) / at least two workers or two batches (sched); distinct by (tree signature, factor pattern) / "
        "(W, B, announced length, wrapped); SPECIFICATION FORMS: a third of the random trees, 45% of the wrapped transforms of "
        "sched cases and 30% of the inter heap objects are (partly) specified by config dicts / nested lists (sprinkle_via: any "
        "node whose receiving constructor converts; root through the factory), every scaling class once as a factory config "
        "and once as a config member of a composition; schedules: value tables, None, config dicts (with / without "
        "arguments), numeric shorthands 0 / 0.0 / 1 / 1.0 / 0.5 / 0.25 / False / True / random, handed over raw (75%) or as "
        "kappaschedules objects, KDScheduledTransform built directly or through the factory")

_SCHEMA = None


def pre_build():
    global _SCHEMA
    _SCHEMA = T.regenerate()


def schema():
    if _SCHEMA is None:
        pre_build()
    return _SCHEMA


# ---------------------------------------------------------------------------
# constructor-argument registry (JSON-able; lists of two numbers become tuples)
# ---------------------------------------------------------------------------
def _r(rng, lo, hi, nd=3):
    return round(rng.uniform(lo, hi), nd)


def _rng_pair(rng, lo, hi):
    a, b = sorted([_r(rng, lo, hi), _r(rng, lo, hi)])
    return [a, b]


def _cj_kwargs(rng):
    kw = {}
    for name in ("brightness", "contrast", "saturation"):
        m = rng.choice(["zero", "num", "num", "pair", "big"])
        if m == "num":
            kw[name] = _r(rng, 0.05, 0.95)
        elif m == "big":
            kw[name] = _r(rng, 1.0, 2.5)      # lower bound clipped to 0 by torchvision
        elif m == "pair":
            kw[name] = _rng_pair(rng, 0.0, 2.0)
        else:
            kw[name] = 0
    m = rng.choice(["zero", "num", "num", "pair"])
    if m == "num":
        kw["hue"] = _r(rng, 0.01, 0.5)
    elif m == "pair":
        kw["hue"] = _rng_pair(rng, -0.5, 0.5)
    else:
        kw["hue"] = 0
    return kw


def _sigma(rng):
    return rng.choice([_rng_pair(rng, 0.05, 3.0), [0.1, 2.0], _r(rng, 0.1, 2.0)])


def _mag_kwargs(rng, prefix="magnitude", scale=1.0, allow_inf=True):
    mag = _r(rng, 0, 1) * scale
    mode = rng.choice(["const", "normal", "normal", "inf"] if allow_inf else ["const", "normal", "normal"])
    std = {"const": 0.0, "normal": _r(rng, 0.05, 0.6) * scale, "inf": "inf"}[mode]
    mn = round(mag * rng.choice([0, 0, 0.5, 1.0]), 4)
    mx = round(mag + (scale - mag) * rng.choice([0, 1, 1, 0.5]), 4) if mag <= scale else mag
    mag = round(mag, 4)
    mn = min(mn, mag)
    mx = max(mx, mag)
    return {prefix: mag, prefix + "_std": std, prefix + "_min": mn, prefix + "_max": mx}


def _p(rng):
    return rng.choice([1.0, 1.0, 0.5, 0.2, _r(rng, 0, 1)])


def _thr(rng):
    return rng.choice([rng.randint(0, 256), 128, 0, 256, _r(rng, 0, 1), 0.5])


REG = {
    "KDColorJitter": lambda rng: _cj_kwargs(rng),
    "KDRandomColorJitter": lambda rng: {**_cj_kwargs(rng), "p": _p(rng)},
    "KDGaussianBlurPIL": lambda rng: {"sigma": _sigma(rng)},
    "KDRandomGaussianBlurPIL": lambda rng: {"sigma": _sigma(rng), "p": _p(rng)},
    "KDGaussianBlurTV": lambda rng: {"kernel_size": rng.choice([3, 5]), "sigma": _sigma(rng)},
    "KDRandomGaussianBlurTV": lambda rng: {"kernel_size": rng.choice([3, 5]), "sigma": _sigma(rng), "p": _p(rng)},
    "KDSolarize": lambda rng: {"threshold": _thr(rng)},
    "KDRandomSolarize": lambda rng: {"threshold": _thr(rng), "p": _p(rng)},
    "KDRandomGrayscale": lambda rng: {"p": rng.choice([0.2, 1.0, 0.0, _r(rng, 0, 1)])},
    "KDRandomRotation": lambda rng: {"degrees": rng.choice([_r(rng, 0, 180), 30, _rng_pair(rng, -90, 90), [10, 40]])},
    "KDAdditiveGaussianNoise": lambda rng: {"std": _r(rng, 0.01, 0.5), **_mag_kwargs(rng)},
    "KDRandomAdditiveGaussianNoise": lambda rng: {"std": _r(rng, 0.01, 0.5), **_mag_kwargs(rng), "p": _p(rng)},
    "KDAdditiveUniformNoise": lambda rng: _mag_kwargs(rng),
    "KDThreshold": lambda rng: _mag_kwargs(rng, "threshold", allow_inf=False),
    "KDRandomThreshold": lambda rng: {**_mag_kwargs(rng, "threshold", allow_inf=False), "p": _p(rng)},
    "KDThreeAugment": lambda rng: {"threshold": rng.choice([128, 0, 256, rng.randint(0, 256)]), "sigma": _sigma(rng)},
    "KDRandAugment": lambda rng: {"num_ops": 2, "fill_color": [124, 116, 104], "interpolation": "bilinear",
                                  **_mag_kwargs(rng, "magnitude", scale=10.0, allow_inf=False)},
    "KDRandAugmentCustom": lambda rng: {"num_ops": 2, "fill_color": [124, 116, 104], "interpolation": "bicubic",
                                        **_mag_kwargs(rng, "magnitude", scale=10.0, allow_inf=False)},
}
# classes that can be called on a float tensor image in [0, 1] / on a PIL image
FLOAT_OK = ["KDColorJitter", "KDRandomColorJitter", "KDGaussianBlurTV", "KDRandomGaussianBlurTV", "KDSolarize",
            "KDRandomSolarize", "KDRandomGrayscale", "KDRandomRotation", "KDAdditiveGaussianNoise",
            "KDRandomAdditiveGaussianNoise", "KDAdditiveUniformNoise", "KDThreshold", "KDRandomThreshold"]
PIL_OK = ["KDColorJitter", "KDRandomColorJitter", "KDGaussianBlurPIL", "KDRandomGaussianBlurPIL", "KDSolarize",
          "KDRandomSolarize", "KDRandomGrayscale", "KDRandomRotation", "KDRandAugment", "KDRandAugmentCustom",
          "KDThreeAugment"]
# containers: forward scale_strength to members of arbitrary class (spec key "k" = member specs)
CONTAINERS = {"KDComposeTransform": "list", "KDTransformChoice": "list", "KDRandomApply": "one",
              "PatchwiseTransform": "one"}
PRESETS = ["BYOLTransform0", "BYOLTransform1"]


def leaf_spec(rng, cls, kind=None):
    kw = REG[cls](rng)
    if cls in ("KDSolarize", "KDRandomSolarize") and kind is not None:
        t = kw["threshold"]
        if kind == "f" and isinstance(t, int):
            kw["threshold"] = rng.choice([0.5, _r(rng, 0, 1)])
        if kind == "pil" and isinstance(t, float):
            kw["threshold"] = rng.choice([128, rng.randint(0, 256)])
    return {"c": cls, "kw": kw}


def tree_spec(rng, depth, kind, root="KDComposeTransform", patch_ok=True):
    """patch_ok: False inside a PatchwiseTransform (its member sees 4x4 / 6x6 patches: no second patching)"""
    pool = FLOAT_OK if kind == "f" else PIL_OK
    n = rng.choice([1, 2, 2, 3, 4])
    ks = []
    for _ in range(n):
        u = rng.random()
        if depth > 1 and u < 0.30:
            v = rng.random()
            if v < 0.45:
                ks.append(tree_spec(rng, depth - 1, kind, patch_ok=patch_ok))
            elif v < 0.62:
                ks.append(tree_spec(rng, depth - 1, kind, root="KDTransformChoice", patch_ok=patch_ok))
            elif v < 0.85 or kind != "f" or not patch_ok:
                inner = (tree_spec(rng, depth - 1, kind, patch_ok=patch_ok) if rng.random() < 0.4
                         else leaf_spec(rng, rng.choice(pool), kind))
                ks.append({"c": "KDRandomApply", "p": rng.choice([1.0, 1.0, 0.5, _r(rng, 0, 1)]), "k": [inner]})
            else:
                inner = (tree_spec(rng, depth - 1, kind, patch_ok=False) if rng.random() < 0.4
                         else leaf_spec(rng, rng.choice(pool), kind))
                ks.append({"c": "PatchwiseTransform", "patch": rng.choice([4, 6]), "k": [inner]})
        elif u < 0.40:
            ks.append({"c": "opaque", "p": _r(rng, 0, 1)})
        elif u < 0.48:
            ks.append({"c": "foreign"})
        else:
            ks.append(leaf_spec(rng, rng.choice(pool), kind))
    return {"c": root, "k": ks}


SPECIAL_F = [0.0, 1.0, 0.5, 0.1, 0.25, 1e-9, 1.0 - 2.0 ** -53, 0.3, 0.7]


def factor_seq(rng):
    n = rng.choice([2, 3, 4, 5, 6, 8])
    fs = [rng.choice(SPECIAL_F) if rng.random() < 0.45 else rng.random() for _ in range(n)]
    if rng.random() < 0.4 and n >= 3:
        i, j = rng.sample(range(n), 2)
        fs[j] = fs[i]                              # repeated factor with something in between
    if rng.random() < 0.9:
        fs[rng.randrange(n)] = 0.0
        k = rng.randrange(n)
        if fs[k] == 0.0 and fs.count(0.0) == 1:
            fs.append(1.0)
        else:
            fs[k] = 1.0
    return fs


def scale_case(rng, spec, kind, probe):
    return {"kind": "scale", "spec": spec, "input": kind, "factors": factor_seq(rng), "probe": bool(probe),
            "xseed": rng.randrange(10 ** 6)}


def sched_case(rng, big=False, loader=0, mode=None):
    W = loader or rng.choice([1, 2, 2, 3, 3, 4, 5] + ([7, 8] if big else []))
    B = rng.choice([1, 2, 2, 3, 4, 5] + ([8, 16] if big else []))
    mode = mode or rng.choice(["updates", "samples", "epochs", "epochs"])
    nb_target = rng.randint(1, 12 if not big else 30)
    if mode == "updates":
        init = {"updates": nb_target}
    elif mode == "samples":
        # any number of samples: multiples of B, one more, one less, anything in between
        s = max(1, nb_target * B - rng.choice([0, 0, 1, B - 1, rng.randrange(B)]))
        init = {"samples": s}
    else:
        # dataset_len = world_size * per_rank + extra (extra < world_size is cut by the distributed samplers),
        # per_rank = q * B + r with any remainder r: with drop_last the r samples are dropped EVERY epoch
        world = rng.choice([1, 1, 2, 2, 3, 4] + ([8] if big else []))
        epochs = rng.choice([1, 2, 2, 3, 3, 4, 5])
        drop = rng.random() < 0.6
        q = max(1, nb_target // epochs)
        r = rng.choice([0, 1, B - 1, rng.randrange(B), rng.randrange(B)])
        extra = rng.choice([0, world - 1, rng.randrange(world)])
        init = {"epochs": epochs, "dataset_len": (q * B + r) * world + extra, "world_size": world, "drop_last": drop}
    nb = expected_n_batches(init, B)
    if nb < 1:
        init, nb = {"updates": 3}, 3
    # every way of SPECIFYING a schedule: value table, None (documented default ramp), config dicts (with and without
    # arguments), numeric shorthands (int / float / bool, zero included)
    sk = rng.choice(["custom", "custom", "default", "default", "linear", "cosine", "dict", "number", "number", "number"])
    if sk == "custom":
        schedule = [rng.choice([0.0, 1.0, 0, 1, rng.random(), rng.random()]) for _ in range(nb)]
    elif sk == "default":
        schedule = None
    elif sk == "linear":
        schedule = {"kind": "linear_increasing_schedule"}
    elif sk == "cosine":
        schedule = {"kind": "cosine_increasing_schedule"}
    elif sk == "dict":
        lo, hi = sorted([rng.choice([0.0, 0.25, _r(rng, 0, 1)]), rng.choice([1.0, 0.75, _r(rng, 0, 1)])])
        schedule = rng.choice([{"kind": "constant_schedule", "value": rng.choice([0.0, 0, 1.0, 0.5])},
                               {"kind": "linear_increasing_schedule", "start_value": lo, "max_value": hi},
                               {"kind": "cosine_decreasing_schedule"}, {"kind": "linear_decreasing_schedule"}])
    else:
        schedule = rand_number_schedule(rng)
    kind = "f"
    if rng.random() < 0.6:
        inner = leaf_spec(rng, rng.choice(FLOAT_OK), kind)
    else:
        inner = tree_spec(rng, 2, kind)
    if rng.random() < 0.45:
        inner = sprinkle_via(rng, inner, 0.5)
    full = nb * B
    n = full if (loader or rng.random() < 0.6) else rng.randint(1, full)
    if loader:
        n = min(n, 40 * B) // B * B or B
    return {"kind": "sched", "W": W, "B": B, "init": init, "schedule": schedule, "inner": inner, "input": kind,
            "wrap": rng.random() < 0.3, "n": n, "loader": bool(loader), "xseed": rng.randrange(10 ** 6),
            "form": rand_form(rng)}


def _rand_init(rng, B, nb_target, big=False):
    """a way of announcing a training length of about nb_target batches of B samples"""
    mode = rng.choice(["updates", "updates", "samples", "epochs"])
    if mode == "updates":
        return {"updates": nb_target}
    if mode == "samples":
        return {"samples": max(1, nb_target * B - rng.choice([0, 0, 1, B - 1, rng.randrange(B)]))}
    world = rng.choice([1, 1, 2, 3])
    epochs = rng.choice([1, 2, 2, 3])
    q = max(1, nb_target // epochs)
    r = rng.choice([0, 1, B - 1, rng.randrange(B)])
    return {"epochs": epochs, "dataset_len": (q * B + r) * world + rng.randrange(world), "world_size": world,
            "drop_last": rng.random() < 0.6}


INTER_LEVELS = [0.0, 1.0, 0.25, 0.5, 0.75]


def _rand_schedule(rng, nb):
    """schedules with stretches of EQUAL consecutive values (plateaus, constants) as often as changing ones"""
    sk = rng.choice(["plateau", "plateau", "custom", "const", "default", "linear", "cosine", "linear_dec", "cosine_dec"])
    if sk == "plateau":
        vals, v = [], rng.choice(INTER_LEVELS)
        while len(vals) < nb:
            vals += [v] * rng.choice([1, 2, 2, 3])
            v = rng.choice(INTER_LEVELS + [rng.random()])
        return vals[:nb]
    if sk == "custom":
        return [rng.choice([0.0, 1.0, rng.random(), rng.random()]) for _ in range(nb)]
    if sk == "const":
        return rand_number_schedule(rng)
    if sk == "default":
        return None
    return {"kind": {"linear": "linear_increasing_schedule", "cosine": "cosine_increasing_schedule",
                     "linear_dec": "linear_decreasing_schedule", "cosine_dec": "cosine_decreasing_schedule"}[sk]}


def inter_case(rng, big=False):
    """interleaved history on shared augmentation objects: 1-3 KDScheduledTransforms (own schedule / batch size /
    announced length) over a heap of 1-2 augmentation objects (self.transform = one heap object or a private
    KDComposeTransform over several), optionally all members of an outer KDComposeTransform together with some heap
    objects; W deep copies of the whole pipeline (sharing preserved inside each copy, like DataLoader workers); steps:
    scheduled k processes its next sample (dealt to the copies in full batches round-robin) / somebody calls
    scale_strength(f) on heap object j of copy w / on copy w's outer composition"""
    W = rng.choice([1, 1, 2, 2, 3])
    J = rng.choice([1, 1, 2])
    inners = [leaf_spec(rng, rng.choice(FLOAT_OK), "f") if rng.random() < 0.75 else tree_spec(rng, 2, "f")
              for _ in range(J)]
    inners = [sprinkle_via(rng, sp, 0.5) if rng.random() < 0.3 else sp for sp in inners]
    K = rng.choice([1, 2, 2, 2, 3])
    B0 = rng.choice([2, 2, 3, 4, 1])
    scheds = []
    for _ in range(K):
        targets = [0] if J == 1 else rng.choice([[0], [0], [1], [0, 1], [1, 0]])
        B = B0 if rng.random() < 0.8 else rng.choice([1, 2, 3, 5])
        init = _rand_init(rng, B, rng.randint(2, 8 if not big else 16), big)
        nb = expected_n_batches(init, B)
        if nb < 2:
            init, nb = {"updates": 3}, 3
        scheds.append({"targets": targets, "compose": len(targets) > 1 or rng.random() < 0.25, "B": B, "init": init,
                       "schedule": _rand_schedule(rng, nb), "wrap": rng.random() < 0.2,
                       # direct constructor calls only: the factory deep-copies a config (objects inside it included),
                       # which would un-share the heap objects
                       "form": {**rand_form(rng), "ctor": "direct"}})
    outer = None
    if rng.random() < 0.4:
        outer = [["s", k] for k in range(K)] + [["i", j] for j in range(J) if rng.random() < 0.5]
        rng.shuffle(outer)
    caps = [expected_n_batches(sc["init"], sc["B"]) * sc["B"] for sc in scheds]
    counts = [0] * K
    steps = []
    for _ in range(rng.randint(6, 24 if not big else 40)):
        u = rng.random()
        free = [k for k in range(K) if counts[k] < caps[k]]
        if u < 0.72 and free:
            k = rng.choice(free)
            steps.append(["call", k])
            counts[k] += 1
            continue
        # the copy that will handle some scheduled transform's next sample (where a foreign call matters), or any copy
        k = rng.randrange(K)
        w = (counts[k] // scheds[k]["B"]) % W if rng.random() < 0.7 else rng.randrange(W)
        f = rng.choice(SPECIAL_F) if rng.random() < 0.6 else rng.random()
        if outer is not None and u > 0.92:
            steps.append(["outer", w, f])
        else:
            steps.append(["scale", w, rng.randrange(J), f])
    if not any(st[0] == "call" for st in steps):
        steps.append(["call", 0])
    return {"kind": "inter", "W": W, "inners": inners, "scheds": scheds, "outer": outer, "steps": steps, "input": "f",
            "xseed": rng.randrange(10 ** 6)}


def gen_cases(rng, tier):
    S = schema()
    out = []
    if S["errors"]:
        out.append({"kind": "translator", "errors": [list(e) for e in S["errors"]]})
    # translator negative self-test: synthetic _scale_strength bodies with unsupported shapes must be refused
    out.append({"kind": "translator_selftest"})
    reps = 3 if tier == "quick" else 12
    for cls in REG:
        for _ in range(reps):
            kind = "f" if cls in FLOAT_OK and (cls not in PIL_OK or rng.random() < 0.6) else "pil"
            out.append(scale_case(rng, leaf_spec(rng, cls, kind), kind, probe=True))
    for name in PRESETS:
        out.append(scale_case(rng, {"c": "preset", "name": name}, "pil", probe=False))
    for k in range(150 if tier == "quick" else 1200):
        kind = rng.choice(["f", "f", "pil"])
        spec = tree_spec(rng, rng.choice([1, 2, 2, 3]), kind)
        # a third of the trees is specified (partly) by config dicts / nested lists, the root through the factory
        out.append(scale_case(rng, sprinkle_via(rng, spec, rng.choice([0.3, 0.6, 1.0])) if k % 3 == 0 else spec, kind,
                              probe=False))
    # every scaling class once as a config dict through the factory, and as a config member of a direct composition
    for cls in REG:
        kind = "f" if cls in FLOAT_OK and (cls not in PIL_OK or rng.random() < 0.6) else "pil"
        leaf = leaf_spec(rng, cls, kind)
        out.append(scale_case(rng, {**leaf, "via": "cfg"}, kind, probe=True))
        out.append(scale_case(rng, {"c": "KDComposeTransform", "k": [{**leaf, "via": "cfg"}, {"c": "opaque", "p": 0.5}],
                                    "via": rng.choice(["obj", "cfg", "list"])}, kind, probe=False))
    for _ in range(120 if tier == "quick" else 700):
        out.append(sched_case(rng, big=(tier != "quick")))
    for _ in range(90 if tier == "quick" else 600):
        out.append(inter_case(rng, big=(tier != "quick")))
    # real DataLoader worker processes: one iterator over the whole announced length (every way of announcing it) ...
    modes = ["epochs", "updates", "samples", "epochs"]
    for k in range(2 if tier == "quick" else 16):
        out.append(sched_case(rng, loader=rng.choice([2, 2, 3]), mode=modes[k % 4]))
    # ... and several iterators over persistent workers where that is inside the claim (num_workers | batches per epoch)
    for _ in range(1 if tier == "quick" else 10):
        out.append(multi_iter_case(rng, "persistent_aligned"))
    return out


SEARCH_SEQS = [[1.0], [0.0], [0.5, 1.0], [0.5, 0.5], [0.3, 0.7, 0.3], [0.0, 1.0], [0.0, 0.5], [1.0, 0.0, 0.3],
               [0.0, 0.5, 1.0, 0.25, 0.0], [1e-9, 1.0, 0.0, 1.0]]


def search_cases(rng, tier):
    S = schema()
    named = {e[0] for e in S["errors"]}
    # classes the translator could not translate first, then classes whose record contains such a class' record
    # (a helper like MagnitudeSampler is named through its users), then the rest
    first = [c for c in REG if c in named] + [c for c in REG if c not in named]
    for cls in first:
        for r in range(8):
            kind = "f" if cls in FLOAT_OK and (cls not in PIL_OK or r % 2 == 0) else "pil"
            spec = leaf_spec(rng, cls, kind)
            for fs in SEARCH_SEQS:
                yield {"kind": "scale", "spec": spec, "input": kind, "factors": list(fs), "probe": True, "xseed": 1 + r}
            nested = {"c": "KDComposeTransform", "k": [{"c": "opaque", "p": 0.5},
                                                       {"c": "KDComposeTransform", "k": [spec, {"c": "foreign"}]}]}
            for fs in rng.sample(SEARCH_SEQS, 3):
                yield {"kind": "scale", "spec": nested, "input": kind, "factors": list(fs), "probe": False,
                       "xseed": 1 + r}
                yield {"kind": "scale", "spec": sprinkle_via(rng, nested, rng.choice([0.5, 1.0])), "input": kind,
                       "factors": list(fs), "probe": False, "xseed": 1 + r}
    for W in (1, 2, 3):
        for B in (1, 2, 3):
            c = sched_case(rng)
            c.update({"W": W, "B": B, "init": {"updates": 6}, "schedule": [0.0, 0.2, 0.4, 0.6, 0.8, 1.0], "n": 6 * B})
            yield c
            for spec in (0, 0.0, 1, 0.5, None, False):
                yield {**c, "schedule": spec, "form": {"schedule": "raw", "ctor": rng.choice(["direct", "factory"])}}
    for _ in range(3000):
        kind = rng.choice(["f", "pil"])
        yield scale_case(rng, tree_spec(rng, 2, kind), kind, probe=False)
        yield scale_case(rng, sprinkle_via(rng, tree_spec(rng, 2, kind), 0.6), kind, probe=False)
        yield sched_case(rng, big=True)
        yield inter_case(rng)


def shrink(case):
    if case.get("kind") == "scale":
        if has_via(case["spec"]):
            yield {**case, "spec": strip_via(case["spec"])}
        fs = case["factors"]
        for i in range(len(fs)):
            if len(fs) > 1:
                yield {**case, "factors": fs[:i] + fs[i + 1:]}
        for s in _shrink_spec(case["spec"]):
            yield {**case, "spec": s}
        if case.get("probe"):
            yield {**case, "probe": False}
    elif case.get("kind") == "sched":
        if has_via(case["inner"]):
            yield {**case, "inner": strip_via(case["inner"])}
        form = case.get("form") or {}
        if form.get("ctor", "direct") != "direct":
            yield {**case, "form": {**form, "ctor": "direct"}}
        if form.get("schedule", "obj") != "obj":
            yield {**case, "form": {**form, "schedule": "obj"}}
        if case["n"] > 1:
            yield {**case, "n": case["n"] // 2}
            yield {**case, "n": case["n"] - 1}
        if case["wrap"]:
            yield {**case, "wrap": False}
        if case["loader"]:
            yield {**case, "loader": False}
        if case["W"] > 1 and not case["loader"]:
            yield {**case, "W": case["W"] - 1}
        for s in _shrink_spec(case["inner"]):
            if s["c"] != "foreign":      # scheduling a plain callable is not a configuration the property speaks about
                yield {**case, "inner": s}
    elif case.get("kind") == "inter":
        yield from _shrink_inter(case)


def _shrink_inter(case):
    steps = case["steps"]
    K, J, W = len(case["scheds"]), len(case["inners"]), case["W"]
    if len(steps) > 2:
        yield {**case, "steps": steps[:len(steps) // 2]}
    for i in range(len(steps) - 1, -1, -1):
        if len(steps) > 1:
            yield {**case, "steps": steps[:i] + steps[i + 1:]}
    if W > 1:
        yield {**case, "W": W - 1, "steps": [[st[0], min(st[1], W - 2)] + st[2:] if st[0] != "call" else st
                                             for st in steps]}
    if case["outer"] is not None and not any(st[0] == "outer" for st in steps):
        yield {**case, "outer": None}
    # drop a scheduled transform no step calls / a heap object nothing refers to (indices shift down)
    for k in range(K):
        if K > 1 and not any(st == ["call", k] for st in steps):
            yield {**case, "scheds": case["scheds"][:k] + case["scheds"][k + 1:],
                   "steps": [["call", st[1] - (st[1] > k)] if st[0] == "call" else st for st in steps],
                   "outer": None if case["outer"] is None else
                   [[m[0], m[1] - (m[0] == "s" and m[1] > k)] for m in case["outer"] if m != ["s", k]]}
    for j in range(J):
        used = (any(j in sc["targets"] for sc in case["scheds"]) or any(st[0] == "scale" and st[2] == j for st in steps))
        if J > 1 and not used:
            yield {**case, "inners": case["inners"][:j] + case["inners"][j + 1:],
                   "scheds": [{**sc, "targets": [t - (t > j) for t in sc["targets"]]} for sc in case["scheds"]],
                   "steps": [st[:2] + [st[2] - (st[2] > j)] + st[3:] if st[0] == "scale" else st for st in steps],
                   "outer": None if case["outer"] is None else
                   [[m[0], m[1] - (m[0] == "i" and m[1] > j)] for m in case["outer"] if m != ["i", j]]}
    if any(has_via(sp) for sp in case["inners"]):
        yield {**case, "inners": [strip_via(sp) for sp in case["inners"]]}
    for k, sc in enumerate(case["scheds"]):
        for simpler in ([{**sc, "wrap": False}] if sc["wrap"] else []) + \
                       ([{**sc, "form": {"schedule": "obj", "ctor": "direct"}}]
                        if (sc.get("form") or {}) not in ({}, {"schedule": "obj", "ctor": "direct"}) else []) + \
                       ([{**sc, "compose": False}] if sc["compose"] and len(sc["targets"]) == 1 else []) + \
                       ([{**sc, "targets": sc["targets"][:1]}] if len(sc["targets"]) > 1 else []):
            yield {**case, "scheds": case["scheds"][:k] + [simpler] + case["scheds"][k + 1:]}
    for j, sp in enumerate(case["inners"]):
        for s2 in _shrink_spec(sp):
            if s2["c"] != "foreign":
                yield {**case, "inners": case["inners"][:j] + [s2] + case["inners"][j + 1:]}


def _shrink_spec(spec):
    if spec["c"] not in CONTAINERS:
        return
    ks = spec["k"]
    if len(ks) == 1:
        yield ks[0]
    for i in range(len(ks)):
        if len(ks) > 1:
            yield {**spec, "k": ks[:i] + ks[i + 1:]}
    for i, k in enumerate(ks):
        for s in _shrink_spec(k):
            if s["c"] == "foreign" and spec["c"] == "PatchwiseTransform":
                continue       # PatchwiseTransform.set_rng needs a KDTransform member
            yield {**spec, "k": ks[:i] + [s] + ks[i + 1:]}


# ---------------------------------------------------------------------------
# building real objects
# ---------------------------------------------------------------------------
def _identity_callable(x, ctx=None):
    return x


def _snake(name):
    return re.sub(r"(?<!^)(?=[A-Z])", "_", name.replace("KD", "Kd").replace("PIL", "Pil").replace("TV", "Tv")).lower()


def _cls(name):
    import importlib
    import kappadata.transforms as KT
    if hasattr(KT, name):
        return getattr(KT, name)
    return getattr(importlib.import_module("kappadata.transforms." + _snake(name)), name)


def _kw(kw):
    out = {}
    for k, v in kw.items():
        if v == "inf":
            v = float("inf")
        elif isinstance(v, list) and k != "fill_color":
            v = tuple(v)
        out[k] = v
    return out


# constructors that run kappadata.factory.object_to_transform on what they are given (a member may be handed to them as a
# config dict / nested list instead of a ready-made object); KDTransformChoice / KDRandomApply take objects only
CONVERTING = ("KDComposeTransform", "PatchwiseTransform")


def to_config(spec):
    """the config dict (what a yaml file would hold) of a spec node; members of converting constructors are handed
    over as their own `via` says, members of non-converting constructors as objects"""
    c = spec["c"]
    if c == "KDComposeTransform":
        return {"kind": "kd_compose_transform", "transforms": [member_arg(k) for k in spec["k"]]}
    if c == "KDTransformChoice":
        return {"kind": "kd_transform_choice", "transforms": [build(k) for k in spec["k"]]}
    if c == "KDRandomApply":
        return {"kind": "kd_random_apply", "transform": build(spec["k"][0]), "p": spec["p"]}
    if c == "PatchwiseTransform":
        return {"kind": "patchwise_transform", "patch_size": spec["patch"], "transform": member_arg(spec["k"][0])}
    if c == "opaque":
        return {"kind": "kd_random_horizontal_flip", "p": spec["p"]}
    return {"kind": _snake(c), **_kw(spec["kw"])}


def factory_knows(c):
    """can the factory resolve this class by `kind` (classes exported by kappadata.transforms)?  Others can only be
    handed over as objects - `via` is ignored for them"""
    import kappadata.transforms as KT
    name = {"opaque": "KDRandomHorizontalFlip"}.get(c, c)
    return hasattr(KT, name)


def member_arg(spec):
    """what is handed to a converting constructor for this member: the object (via absent / "obj"), its config dict
    ("cfg"), or - compositions only - a plain nested list of its members ("list": the factory's implicit composition)"""
    via = spec.get("via", "obj")
    if via == "obj" or spec["c"] in ("foreign", "preset") or not factory_knows(spec["c"]):
        return build({k: v for k, v in spec.items() if k != "via"})
    if via == "list" and spec["c"] == "KDComposeTransform":
        return [member_arg(k) for k in spec["k"]]
    return to_config(spec)


def build(spec):
    """the real object of a spec; a ROOT with via "cfg" / "list" goes through the factory, otherwise the constructor
    is called directly (members handed over as their own `via` says)"""
    c = spec["c"]
    if spec.get("via", "obj") != "obj" and c not in ("foreign", "preset") and factory_knows(c):
        from kappadata.factory import object_to_transform
        return object_to_transform(member_arg(spec))
    if c == "KDComposeTransform":
        from kappadata.transforms.base.kd_compose_transform import KDComposeTransform
        return KDComposeTransform([member_arg(k) for k in spec["k"]])
    if c == "KDTransformChoice":
        return _cls(c)([build(k) for k in spec["k"]])
    if c == "KDRandomApply":
        return _cls(c)(build(spec["k"][0]), p=spec["p"])
    if c == "PatchwiseTransform":
        return _cls(c)(patch_size=spec["patch"], transform=member_arg(spec["k"][0]))
    if c == "foreign":
        return _identity_callable
    if c == "opaque":
        return _cls("KDRandomHorizontalFlip")(p=spec["p"])
    if c == "preset":
        import kappadata.common.transforms as CT
        return getattr(CT, spec["name"])()
    return _cls(c)(**_kw(spec["kw"]))


def strip_via(spec):
    """the same tree built from ready-made objects only (the reference every config-built tree is compared with)"""
    out = {k: v for k, v in spec.items() if k != "via"}
    if "k" in out:
        out["k"] = [strip_via(k) for k in out["k"]]
    return out


def has_via(spec):
    return spec.get("via", "obj") != "obj" or any(has_via(k) for k in spec.get("k", []))


def sprinkle_via(rng, spec, p=0.5, root=True, parent_converts=True):
    """marks nodes as handed over by config dict / nested list: only where the receiving constructor converts"""
    out = dict(spec)
    c = spec["c"]
    if "k" in spec:
        out["k"] = [sprinkle_via(rng, k, p, False, c in CONVERTING) for k in spec["k"]]
    if parent_converts and c not in ("foreign", "preset") and rng.random() < p:
        out["via"] = "list" if c == "KDComposeTransform" and rng.random() < 0.35 else "cfg"
    return out


def make_input(kind, seed):
    import numpy as np
    import torch
    g = np.random.default_rng(seed)
    if kind == "pil":
        from PIL import Image
        return Image.fromarray(g.integers(0, 256, size=(32, 32, 3), dtype=np.uint8))
    return torch.from_numpy(g.random(size=(3, 12, 12))).float()


# ---------------------------------------------------------------------------
# reading parameters back: (a) through the translator's schema (for Coq)
# ---------------------------------------------------------------------------
def _frac(v):
    if isinstance(v, bool):
        raise TypeError("bool parameter")
    if isinstance(v, int):
        return Fraction(v)
    v = float(v)
    if not math.isfinite(v):
        return None
    return Fraction(v)


def _enc(v, ty):
    if ty == "optQ":
        if v is None:
            return ["N"]
        f = _frac(v)
        return ["S", str(f.numerator), str(f.denominator)]
    if ty == "num":
        if isinstance(v, int) and not isinstance(v, bool):
            return ["I", int(v)]
        f = _frac(v)
        return ["F", str(f.numerator), str(f.denominator)]
    f = _frac(v) if v is not None else None      # absent (group not configured) or non-finite: unobservable, 0
    if f is None:
        return ["Q", "0", "1"]
    return ["Q", str(f.numerator), str(f.denominator)]


def read_state(obj, cname, S):
    out = {}
    for fd in S["classes"][cname]["fields"]:
        if fd["type"] == "child":
            out[fd["name"]] = read_state(getattr(obj, fd["name"]), fd["child"], S)
        else:
            out[fd["name"]] = _enc(getattr(obj, fd["name"], None), fd["type"])
    return out


def live_tree(t, S):
    from kappadata.transforms.base.kd_transform import KDTransform
    if not isinstance(t, KDTransform):
        return {"n": "Foreign"}
    definer = next(k for k in type(t).__mro__ if "_scale_strength" in k.__dict__)
    if definer is KDTransform:
        return {"n": "Opaque"}
    if definer.__name__ in S["compose"]:
        d = S["compose"][definer.__name__]
        v = getattr(t, d["field"])
        return {"n": "Compose", "k": [live_tree(c, S) for c in (list(v) if d["arity"] == "list" else [v])]}
    if definer.__name__ in S["leaf"]:
        return {"n": "Leaf", "c": definer.__name__, "s": read_state(t, definer.__name__, S)}
    raise KeyError(f"{type(t).__name__}: scaling class {definer.__name__} was not translated")


def try_live_tree(t):
    S = schema()
    if S["errors"]:
        return None
    try:
        return live_tree(t, S)
    except Exception as e:  # noqa
        return {"n": "Error", "why": f"{type(e).__name__}: {e}"}


# ---------------------------------------------------------------------------
# reading parameters back: (b) the oracle's own registry (independent of the translator)
#   entries: [path, value, identity value or None]; "const" entries must never change
# ---------------------------------------------------------------------------
def _mag_bounds(ms, path):
    out = []
    for a in ("magnitude", "magnitude_min", "magnitude_max", "magnitude_std"):
        if a == "magnitude_std" and not math.isfinite(float(ms.og_magnitude_std)):
            continue
        out.append([path + a, float(getattr(ms, a)), 0.0])
    return out


def observe(t, path=""):
    """-> {"bounds": [[name, value, identity]], "const": [[name, repr]], "uniform": expected rng.uniform ranges or None}"""
    from kappadata.transforms.base.kd_transform import KDTransform
    from kappadata.transforms.base.kd_compose_transform import KDComposeTransform
    n = type(t).__name__
    b, c = [], []
    if not isinstance(t, KDTransform):
        return {"bounds": b, "const": c}
    members = None
    if isinstance(t, KDComposeTransform) or n == "KDTransformChoice":
        members = list(t.transforms)
    elif n in ("KDRandomApply", "PatchwiseTransform"):
        members = [t.transform]
    if members is not None:
        for i, m in enumerate(members):
            o = observe(m, f"{path}{i}.")
            b += o["bounds"]
            c += o["const"]
        if n == "KDRandomApply":
            c.append([path + "p", repr(t.p)])
        return {"bounds": b, "const": c}
    if n == "KDThreeAugment":
        for a in ("solarize", "gaussian_blur"):
            o = observe(getattr(t, a), path + a + ".")
            b += o["bounds"]
            c += o["const"]
        return {"bounds": b, "const": c}
    wrappers = {"KDRandomColorJitter": "color_jitter", "KDRandomGaussianBlurPIL": "gaussian_blur",
                "KDRandomGaussianBlurTV": "gaussian_blur", "KDRandomSolarize": "solarize",
                "KDRandomAdditiveGaussianNoise": "noise", "KDRandomThreshold": "threshold"}
    if n in wrappers:
        o = observe(getattr(t, wrappers[n]), path + wrappers[n] + ".")
        return {"bounds": o["bounds"], "const": o["const"] + [[path + "p", repr(t.p)]]}
    if n == "KDColorJitter":
        for a, ident in (("brightness", 1.0), ("contrast", 1.0), ("saturation", 1.0), ("hue", 0.0)):
            if getattr(t, a + "_lb") is not None:
                b.append([path + a + "_lb", float(getattr(t, a + "_lb")), ident])
                b.append([path + a + "_ub", float(getattr(t, a + "_ub")), ident])
            else:
                c.append([path + a + "_lb", "None"])
    elif n in ("KDGaussianBlurPIL", "KDGaussianBlurTV"):
        b.append([path + "sigma_ub", float(t.sigma_ub), float(t.sigma_lb)])
        c.append([path + "sigma_lb", repr(float(t.sigma_lb))])
    elif n == "KDSolarize":
        th = t.threshold
        c.append([path + "threshold.type", type(th).__name__])
        b.append([path + "threshold", th if isinstance(th, int) else float(th), 256 if isinstance(th, int) else 1.0])
    elif n == "KDRandomGrayscale":
        b.append([path + "p", float(t.p), 0.0])
    elif n == "KDRandomRotation":
        b.append([path + "degree_lb", float(t.degree_lb), 0.0])
        b.append([path + "degree_ub", float(t.degree_ub), 0.0])
    elif n in ("KDAdditiveGaussianNoise", "KDAdditiveUniformNoise", "KDThreshold", "KDRandAugment",
               "KDRandAugmentCustom"):
        b += _mag_bounds(t.magnitude_sampler, path + "magnitude_sampler.")
    elif type(t).supports_scale_strength():
        raise KeyError(f"{n} supports strength scaling but the oracle registry does not know its parameters")
    else:
        for k, v in sorted(vars(t).items()):
            if isinstance(v, (int, float, str, tuple, bool)) or v is None:
                c.append([path + n + "." + k, repr(v)])
            for m in (v if isinstance(v, (list, tuple)) else [v]):
                if isinstance(m, KDTransform) and type(m).supports_scale_strength():
                    raise KeyError(f"{n}.{k} holds a transform that supports strength scaling, but the oracle registry "
                                   f"does not know {n} as a composition")
    return {"bounds": b, "const": c}


class DrawSpy:
    """np.random.Generator stand-in: records every uniform() / normal() call as [method, a, b, scalar result or None]
    (uniform: low, high; normal: loc, scale); every other method goes to the wrapped generator unrecorded"""

    def __init__(self, seed):
        import numpy as np
        self._g = np.random.default_rng(seed)
        self.calls = []

    def uniform(self, low=0.0, high=1.0, size=None):
        r = self._g.uniform(low, high, size)
        self.calls.append(["uniform", float(low), float(high), float(r) if size is None else None])
        return r

    def normal(self, loc=0.0, scale=1.0, size=None):
        r = self._g.normal(loc, scale, size)
        self.calls.append(["normal", float(loc), float(scale), float(r) if size is None else None])
        return r

    def __getattr__(self, name):
        return getattr(self._g, name)


UniformSpy = DrawSpy


def expected_uniform(t):
    """the ranges one __call__ must draw from, in order (None = not checked for this class)"""
    n = type(t).__name__
    wrappers = {"KDRandomColorJitter": "color_jitter", "KDRandomGaussianBlurPIL": "gaussian_blur",
                "KDRandomGaussianBlurTV": "gaussian_blur", "KDRandomAdditiveGaussianNoise": "noise"}
    if n in wrappers:
        if t.p != 1.0:
            return None
        return expected_uniform(getattr(t, wrappers[n]))
    if n == "KDColorJitter":
        return [[float(getattr(t, a + "_lb")), float(getattr(t, a + "_ub"))]
                for a in ("brightness", "contrast", "saturation", "hue") if getattr(t, a + "_lb") is not None]
    if n in ("KDGaussianBlurPIL", "KDGaussianBlurTV"):
        return [[float(t.sigma_lb), float(t.sigma_ub)]]
    if n == "KDRandomRotation":
        return [[float(t.degree_lb), float(t.degree_ub)]]
    if n in ("KDAdditiveGaussianNoise", "KDAdditiveUniformNoise"):
        ms = t.magnitude_sampler
        if float(ms.og_magnitude_std) == float("inf"):
            return [[float(ms.magnitude_min), float(ms.magnitude)]]
        return []
    return None


# ---------------------------------------------------------------------------
# running the real code
# ---------------------------------------------------------------------------
def run_impl(case):
    """never raises: anything unexpected (e.g. a scaling class the oracle registry does not know) becomes an
    observation the oracle reports (fail closed)"""
    import traceback
    kind = case.get("kind")
    if kind == "translator":
        return {"skipped": "translator"}
    if kind == "translator_selftest":
        try:
            return {"selftest": T.negative_selftest()}
        except Exception as e:  # noqa
            return {"harness_exception": f"{type(e).__name__}: {e}", "tb": traceback.format_exc()[-1200:]}
    try:
        if kind == "scale":
            return run_scale(case)
        if kind == "multi_iter":
            return run_multi_iter(case)
        if kind == "inter":
            return run_inter(case)
        return run_sched(case)
    except Exception as e:  # noqa
        return {"harness_exception": f"{type(e).__name__}: {e}", "tb": traceback.format_exc()[-1200:]}


def _canon(v):
    import numpy as np
    import torch
    if v is None or isinstance(v, (bool, int, float, str)):
        return v
    if isinstance(v, np.generic):
        return v.item()
    if torch.is_tensor(v) or isinstance(v, np.ndarray):
        return v.tolist()
    if isinstance(v, (list, tuple)):
        return [_canon(x) for x in v]
    if isinstance(v, dict):
        return {str(k): _canon(x) for k, x in sorted(v.items(), key=lambda kv: str(kv[0]))}
    return repr(v)


def _digest(y):
    import hashlib
    import torch
    if torch.is_tensor(y):
        return "T%s:%s" % (list(y.shape), hashlib.sha1(y.detach().contiguous().numpy().tobytes()).hexdigest()[:16])
    if hasattr(y, "tobytes") and hasattr(y, "mode"):
        return "P%s%s:%s" % (y.mode, list(y.size), hashlib.sha1(y.tobytes()).hexdigest()[:16])
    if isinstance(y, (list, tuple)):
        return [_digest(e) for e in y]
    return repr(y)


def _fresh_input(x):
    return x.clone() if hasattr(x, "clone") else x.copy()


def behaviour(t, x, seed, n):
    """what n consecutive calls of t on x do with a spy generator seeded `seed`: per call the recorded ctx and a
    digest of the output (as one JSON string per call, so that nan == nan), and the spy's draw log"""
    import json
    spy = DrawSpy(seed)
    t.set_rng(spy)
    rows, marks = [], []
    for _ in range(n):
        ctx = {}
        try:
            y = t(_fresh_input(x), ctx=ctx)
            rows.append(json.dumps([_canon(ctx), _digest(y)], sort_keys=True))
        except Exception as e:  # noqa
            rows.append(json.dumps(["raised", f"{type(e).__name__}: {e}"]))
        marks.append(len(spy.calls))
    return rows, spy.calls, marks


_MAG_WRAPPERS = {"KDRandomAdditiveGaussianNoise": "noise", "KDRandomThreshold": "threshold"}
_MAG_HOLDERS = ("KDAdditiveGaussianNoise", "KDAdditiveUniformNoise", "KDThreshold")


def mag_probe(t):
    """parameters of the magnitude sampler of a leaf as the sampling must see them (None: not such a leaf / the
    wrapper may skip the call)"""
    n = type(t).__name__
    if n in _MAG_WRAPPERS:
        if t.p != 1.0:
            return None
        t = getattr(t, _MAG_WRAPPERS[n])
        n = type(t).__name__
    if n not in _MAG_HOLDERS:
        return None
    ms = t.magnitude_sampler
    og = float(ms.og_magnitude_std)
    mode = "const" if og == 0.0 else "uniform" if og == float("inf") else "normal"
    out = {"cls": n, "mode": mode, "mag": float(ms.magnitude), "min": float(ms.magnitude_min),
           "max": float(ms.magnitude_max), "ctx_key": t.ctx_key if n != "KDThreshold" else None}
    if mode == "normal":
        out["std"] = float(ms.magnitude_std)
    if n == "KDAdditiveGaussianNoise":
        out["noise_std"] = float(t.std)
    return out


BEHAV_DRAWS_LEAF = 6
BEHAV_DRAWS_TREE = 4


def run_scale(case):
    import json
    import numpy as np
    import torch
    np.random.seed(case["xseed"] % (2 ** 31))
    torch.manual_seed(case["xseed"])
    try:
        t = build(case["spec"])
    except Exception as e:  # noqa
        return {"construct_error": f"{type(e).__name__}: {e}"}
    obs = {"init": observe(t), "tree0": try_live_tree(t), "steps": []}
    if hasattr(t, "ctx_prefix") and case["spec"]["c"] in REG:
        obs["expected_init"] = expected_init(case["spec"])
    x = make_input(case["input"], case["xseed"])
    n_draws = BEHAV_DRAWS_LEAF if case.get("probe") else BEHAV_DRAWS_TREE
    for i, f in enumerate(case["factors"]):
        st = {"f": f}
        try:
            t.scale_strength(f)
        except Exception as e:  # noqa
            st["error"] = f"{type(e).__name__}: {e}"
            obs["steps"].append(st)
            break
        st["obs"] = observe(t)
        st["tree"] = try_live_tree(t)
        # behaviour: the instance that saw factors[:i+1] against a FRESH instance that only sees factors[i], same
        # generator seed, same input; what is compared is what the calls record in ctx and what they return
        seed = case["xseed"] + i
        rows, calls, marks = behaviour(t, x, seed, n_draws)
        if rows and json.loads(rows[0])[0] == "raised":
            st["call_error"] = json.loads(rows[0])[1]
        if case.get("probe"):
            first = calls[:marks[0]] if marks else []
            st["uniform"] = [[c[1:3] for c in first if c[0] == "uniform"], expected_uniform(t)]
            mp = mag_probe(t)
            if mp is not None and "call_error" not in st:
                mp["calls"] = [[c for c in calls[(marks[j - 1] if j else 0):marks[j]]] for j in range(len(marks))]
                mp["ctx"] = [json.loads(r)[0].get(mp["ctx_key"]) if mp["ctx_key"] else None for r in rows]
                st["mag"] = mp
        try:
            fresh = build(strip_via(case["spec"]))      # always built from ready-made objects
            fresh.scale_strength(f)
            fobs = observe(fresh)
            frows, _, _ = behaviour(fresh, x, seed, n_draws)
            diff = next(([j, a, b] for j, (a, b) in enumerate(zip(rows, frows)) if a != b), None)
            st["fresh"] = {"draws": n_draws, "diff": diff,
                           "bounds_equal": json.dumps(fobs["bounds"]) == json.dumps(st["obs"]["bounds"])}
        except Exception as e:  # noqa
            st["fresh"] = {"error": f"{type(e).__name__}: {e}"}
        obs["steps"].append(st)
    return obs


def expected_init(spec):
    """constructed ranges implied by the constructor arguments (independent of the og_* bookkeeping)"""
    c, kw = spec["c"], spec["kw"]
    out = {}
    if c in ("KDColorJitter", "KDRandomColorJitter"):
        pre = "color_jitter." if c == "KDRandomColorJitter" else ""
        for a in ("brightness", "contrast", "saturation"):
            v = kw.get(a, 0)
            lo, hi = (max(0.0, 1 - v), 1 + v) if not isinstance(v, list) else (v[0], v[1])
            if not (lo == hi == 1):
                out[pre + a + "_lb"], out[pre + a + "_ub"] = float(lo), float(hi)
        v = kw.get("hue", 0)
        lo, hi = (-v, v) if not isinstance(v, list) else (v[0], v[1])
        if not (lo == hi == 0):
            out[pre + "hue_lb"], out[pre + "hue_ub"] = float(lo), float(hi)
    elif c in ("KDGaussianBlurPIL", "KDGaussianBlurTV", "KDRandomGaussianBlurPIL", "KDRandomGaussianBlurTV"):
        pre = "gaussian_blur." if "Random" in c else ""
        s = kw["sigma"]
        out[pre + "sigma_ub"] = float(s[1] if isinstance(s, list) else s)
    elif c in ("KDSolarize", "KDRandomSolarize"):
        out[("solarize." if "Random" in c else "") + "threshold"] = kw["threshold"]
    elif c == "KDThreeAugment":
        out["solarize.threshold"] = kw["threshold"]
        s = kw["sigma"]
        out["gaussian_blur.sigma_ub"] = float(s[1] if isinstance(s, list) else s)
    elif c == "KDRandomGrayscale":
        out["p"] = float(kw["p"])
    elif c == "KDRandomRotation":
        d = kw["degrees"]
        lo, hi = (d[0], d[1]) if isinstance(d, list) else (-d, d)
        out["degree_lb"], out["degree_ub"] = float(lo), float(hi)
    else:
        pre = {"KDRandomAdditiveGaussianNoise": "noise.magnitude_sampler.",
               "KDRandomThreshold": "threshold.magnitude_sampler."}.get(c, "magnitude_sampler.")
        key = "threshold" if "Threshold" in c else "magnitude"
        div = 10 if "RandAugment" in c else 1
        out[pre + "magnitude"] = kw[key] / div
        out[pre + "magnitude_min"] = kw[key + "_min"] / div
        out[pre + "magnitude_max"] = kw[key + "_max"] / div
        if kw[key + "_std"] != "inf":
            out[pre + "magnitude_std"] = kw[key + "_std"] / div
    return out


class _WorkerInfo:
    def __init__(self, num_workers):
        self.num_workers = num_workers
        self.seed = 1293
        self.id = 0


def _schedule_obj(cfg):
    from kappaschedules import object_to_schedule
    return object_to_schedule(copy.deepcopy(cfg))


def _is_number(v):
    return isinstance(v, (bool, int, float))


def schedule_values(spec, nb):
    """INDEPENDENT evaluation of a schedule SPECIFICATION (never read back from transform.schedule): a bare number c is
    kappaschedules' shorthand for the constant schedule c (0 / 0.0 / False included); None is the documented default
    `linear from 0 to 1` = b / max(1, nb - 1); a list of numbers is its own value table; a config dict is built by
    kappaschedules directly"""
    if _is_number(spec):
        return [float(spec)] * nb
    if spec is None:
        return [b / max(1, nb - 1) for b in range(nb)]
    if isinstance(spec, list) and all(_is_number(v) for v in spec):
        return [float(spec[b]) for b in range(nb)]
    indep = _schedule_obj(spec)
    return [float(indep.get_value(b, nb)) for b in range(nb)]


def schedule_arg(spec, form):
    """what is handed to KDScheduledTransform(schedule=...): the specification itself (number / None / list / config
    dict: form "raw") or the schedule object kappaschedules builds from it (form "obj"; None stays None)"""
    if (form or {}).get("schedule", "obj") == "raw":
        return copy.deepcopy(spec)
    return _schedule_obj(spec)


def make_scheduled(transform_arg, spec, form):
    """KDScheduledTransform by a direct constructor call or through the factory (config dict, the yaml path)"""
    sarg = schedule_arg(spec, form)
    if (form or {}).get("ctor", "direct") == "factory":
        from kappadata.factory import object_to_transform
        return object_to_transform({"kind": "kd_scheduled_transform", "transform": transform_arg, "schedule": sarg})
    from kappadata.transforms.base.kd_scheduled_transform import KDScheduledTransform
    return KDScheduledTransform(transform_arg, schedule=sarg)


def rand_form(rng):
    return {"schedule": rng.choice(["raw", "raw", "raw", "obj"]), "ctor": rng.choice(["direct", "direct", "factory"])}


def rand_number_schedule(rng):
    """numeric shorthands: int and float zero / one, booleans, anything in between"""
    return rng.choice([0, 0.0, 0, 0.0, 1, 1.0, 0.5, 0.25, False, True, _r(rng, 0, 1), _r(rng, 0, 1)])


def _find_sched(t):
    from kappadata.transforms.base.kd_scheduled_transform import KDScheduledTransform
    if isinstance(t, KDScheduledTransform):
        return t
    return next(m for m in t.transforms if isinstance(m, KDScheduledTransform))


class _LoaderDataset:
    def __init__(self, outer, n, kind, xseed):
        self.outer, self.n, self.kind, self.xseed = outer, n, kind, xseed

    def __len__(self):
        return self.n

    def __getitem__(self, i):
        from torch.utils.data import get_worker_info
        ctx = {}
        self.outer(make_input(self.kind, self.xseed + i), ctx=ctx)
        s = _find_sched(self.outer)
        return [i, get_worker_info().id, ctx.get(s.ctx_key), observe(s.transform), try_live_tree(s.transform)]


def _as_list(batch):
    return batch


class _StrengthDataset:
    def __init__(self, outer, n, xseed):
        self.outer, self.n, self.xseed = outer, n, xseed

    def __len__(self):
        return self.n

    def __getitem__(self, i):
        from torch.utils.data import get_worker_info
        ctx = {}
        self.outer(make_input("f", self.xseed + i), ctx=ctx)
        s = _find_sched(self.outer)
        return [i, get_worker_info().id, ctx.get(s.ctx_key)]


def multi_iter_regime(case):
    if not case["persistent"]:
        return "nonpersistent" if case["epochs"] > 1 else "single_pass"
    if case["epochs"] == 1 or case["bpe"] % case["W"] == 0:
        return "persistent_aligned"
    return "persistent_misaligned"


def multi_iter_case(rng, regime):
    W = rng.choice([1, 2, 2, 3])
    B = rng.choice([1, 2, 3])
    epochs = rng.choice([2, 2, 3])
    if regime == "persistent_aligned":
        bpe = W * rng.choice([1, 2])
    elif regime == "persistent_misaligned":
        W = rng.choice([2, 3])
        bpe = W * rng.choice([0, 1]) + rng.randint(1, W - 1)
    else:
        bpe = rng.randint(1, 4)
    c = {"kind": "multi_iter", "W": W, "B": B, "bpe": bpe, "rem": rng.randrange(B), "epochs": epochs,
         "persistent": regime != "nonpersistent", "schedule": None, "xseed": rng.randrange(10 ** 6)}
    c["regime"] = multi_iter_regime(c)
    return c


def run_multi_iter(case):
    """a real DataLoader with W worker processes, iterated `epochs` times (one iterator per epoch, the plain
    `for epoch in range(E): for batch in loader:` loop), schedule length announced through epochs= ... drop_last=True"""
    from functools import partial
    from torch.utils.data import DataLoader
    from kappadata.transforms.base.kd_scheduled_transform import KDScheduledTransform
    if case["regime"] != multi_iter_regime(case):
        raise ValueError("case key `regime` does not describe the case")
    W, B, E = case["W"], case["B"], case["epochs"]
    n = case["bpe"] * B + case["rem"]
    inner = _cls("KDRandomGrayscale")(p=0.5)
    outer = KDScheduledTransform(inner, schedule=_schedule_obj(case["schedule"]))
    ds = _StrengthDataset(outer, n, case["xseed"])
    wi = partial(outer.worker_init_fn, batch_size=B, dataset_len=n, world_size=1, drop_last=True, epochs=E)
    obs = {"passes": [], "n_batches_expected": E * case["bpe"]}
    loader = None
    try:
        loader = DataLoader(ds, batch_size=B, num_workers=W, worker_init_fn=wi, collate_fn=_as_list, shuffle=False,
                            drop_last=True, persistent_workers=case["persistent"])
        for _ in range(E):
            rows = []
            obs["passes"].append(rows)
            for batch in loader:
                rows.append(batch)
    except Exception as e:  # noqa
        obs["loader_error"] = f"{type(e).__name__}: {str(e)[-400:]}"
    finally:
        it = getattr(loader, "_iterator", None)
        if it is not None:
            try:
                it._shutdown_workers()
            except Exception:  # noqa
                pass
        loader = it = None
    indep = _schedule_obj(case["schedule"])
    if indep is None:
        from kappaschedules import LinearIncreasingSchedule
        indep = LinearIncreasingSchedule()
    nb = E * case["bpe"]
    obs["values"] = [float(indep.get_value(b, nb)) for b in range(nb)]
    return obs


def oracle_multi_iter(case, obs):
    sig = (f"KDScheduledTransform in a DataLoader(num_workers={case['W']}, batch_size={case['B']}, drop_last=True, "
           f"persistent_workers={case['persistent']}) over {case['bpe'] * case['B'] + case['rem']} samples, iterated "
           f"{case['epochs']} times, worker_init_fn(epochs={case['epochs']}, ...)")
    g = 0
    for e, rows in enumerate(obs["passes"]):
        for k, batch in enumerate(rows):
            for i, wid, strength in batch:
                if g >= len(obs["values"]):
                    return f"{sig}: epoch {e} produced more batches than announced"
                if strength != obs["values"][g]:
                    return (f"{sig}: sample {i} of batch {k} of epoch {e} = global batch {g} of "
                            f"{obs['n_batches_expected']} (worker {wid}) reports strength {strength!r}, the schedule's "
                            f"value at batch {g} is {obs['values'][g]!r}")
            g += 1
    if "loader_error" in obs:
        return f"{sig}: after {g} batches: {obs['loader_error']}"
    if g != obs["n_batches_expected"]:
        return f"{sig}: {g} batches produced, {obs['n_batches_expected']} announced"
    return None


def torch_n_batches(init, B):
    """the announced training length in batches, counted with torch's own samplers instead of a formula: per-rank
    index list of a DistributedSampler that cuts the tail (as KappaData's samplers do: SamplerBase.__len__), batches of
    a BatchSampler over it, once per epoch; `samples`: batches needed to see that many samples"""
    from torch.utils.data import BatchSampler, DistributedSampler, SequentialSampler
    if "updates" in init:
        return init["updates"]
    if "samples" in init:
        return len(list(BatchSampler(SequentialSampler(range(init["samples"])), B, False)))
    per_rank = list(DistributedSampler(range(init["dataset_len"]), num_replicas=init["world_size"], rank=0,
                                       shuffle=False, drop_last=True))
    total = 0
    for _ in range(init["epochs"]):
        total += len(list(BatchSampler(SequentialSampler(per_rank), B, init["drop_last"])))
    return total


def run_sched(case):
    import numpy as np
    import torch
    from unittest.mock import patch
    from kappadata.transforms.base.kd_compose_transform import KDComposeTransform
    from kappadata.transforms.base.kd_scheduled_transform import KDScheduledTransform
    np.random.seed(case["xseed"] % (2 ** 31))
    torch.manual_seed(case["xseed"])
    W, B, n = case["W"], case["B"], case["n"]
    try:
        # the wrapped transform is handed over as its `via` says (object / config dict / nested list), the schedule as
        # case["form"] says; the reference is ALWAYS the object-built equivalent
        targ = member_arg(case["inner"])
        ref = build(strip_via(case["inner"]))
        sched = make_scheduled(targ, case["schedule"], case.get("form"))
        inner = sched.transform
        outer = KDComposeTransform([sched]) if case["wrap"] else sched
    except Exception as e:  # noqa
        return {"construct_error": f"{type(e).__name__}: {e}"}
    obs = {"inner0": try_live_tree(inner), "init_obs": observe(inner), "samples": []}
    rows = []
    if case["loader"]:
        from functools import partial
        from torch.utils.data import DataLoader
        ds = _LoaderDataset(outer, n, case["input"], case["xseed"])
        wi = partial(outer.worker_init_fn, batch_size=B, **case["init"])
        it = None
        try:
            loader = DataLoader(ds, batch_size=B, num_workers=W, worker_init_fn=wi, collate_fn=_as_list, shuffle=False)
            it = iter(loader)
            for batch in it:
                rows += batch
        except Exception as e:  # noqa
            return {**obs, "loader_error": f"{type(e).__name__}: {str(e)[-600:]}"}
        finally:
            if it is not None:      # no stale iterator (with live worker handles) may survive into later forks
                try:
                    it._shutdown_workers()
                except Exception:  # noqa
                    pass
            it = loader = None
        # n_batches as computed by a worker: ask a local copy initialised the same way
        probe = copy.deepcopy(outer)
        with patch("kappadata.transforms.base.kd_transform.get_worker_info", new=lambda: _WorkerInfo(W)):
            probe.worker_init_fn(0, batch_size=B, **case["init"])
        obs["n_batches"] = _find_sched(probe).n_batches
    else:
        workers = [copy.deepcopy(outer) for _ in range(W)]
        try:
            with patch("kappadata.transforms.base.kd_transform.get_worker_info", new=lambda: _WorkerInfo(W)):
                for r, w in enumerate(workers):
                    w.worker_init_fn(r, batch_size=B, **case["init"])
        except Exception as e:  # noqa
            return {**obs, "init_error": f"{type(e).__name__}: {e}"}
        obs["n_batches"] = _find_sched(workers[0]).n_batches
        obs["worker_fields"] = [[_find_sched(w).rank, _find_sched(w).num_workers, _find_sched(w).batch_size,
                                 _find_sched(w).n_batches] for w in workers]
        for i in range(n):
            r = (i // B) % W
            w = workers[r]
            s = _find_sched(w)
            ctx = {}
            try:
                w(make_input(case["input"], case["xseed"] + i), ctx=ctx)
            except Exception as e:  # noqa
                obs["call_error"] = f"sample {i} worker {r}: {type(e).__name__}: {e}"
                break
            rows.append([i, r, ctx.get(s.ctx_key), observe(s.transform), try_live_tree(s.transform)])
    nb = obs["n_batches"]
    obs["nb_torch"] = torch_n_batches(case["init"], B)
    try:
        obs["values"] = schedule_values(case["schedule"], nb)
    except Exception as e:  # noqa
        obs["values_error"] = f"{type(e).__name__}: {e}"
        obs["values"] = []
    # reference: a fresh copy of the wrapped transform scaled directly by the schedule's value at the global batch
    refs = {}
    for i, r, strength, ob, tree in rows:
        b = i // B
        if b not in refs and b < len(obs["values"]):
            c = copy.deepcopy(ref)
            try:
                c.scale_strength(obs["values"][b])
                refs[b] = observe(c)["bounds"]
            except Exception as e:  # noqa
                refs[b] = f"{type(e).__name__}: {e}"
        obs["samples"].append({"i": i, "rank": r, "strength": strength, "bounds": ob["bounds"], "tree": tree,
                               "ref": refs.get(b)})
    return obs


def _fkey(j, f):
    return "%d:%r" % (j, float(f))


def run_inter(case):
    """builds the pipeline (heap objects, scheduled transforms referring to them, optional outer composition), deep
    copies it once per simulated worker (copy.deepcopy keeps the sharing inside a copy, as a forked / pickled DataLoader
    worker does), initialises every scheduled transform through the public worker_init_fn, then plays the steps.  After
    EVERY step the parameters of every heap object of the copy that was touched are read back from the real objects
    (oracle registry and translator schema); for a call also ctx[strength], what the augmentation recorded in ctx and
    returned, and the same for a reference built from the constructed objects scaled directly by the schedule's value
    (asked from an independent copy of the schedule), same generator seed, same input"""
    import json
    import numpy as np
    import torch
    from unittest.mock import patch
    from kappadata.transforms.base.kd_compose_transform import KDComposeTransform
    from kappadata.transforms.base.kd_scheduled_transform import KDScheduledTransform
    np.random.seed(case["xseed"] % (2 ** 31))
    torch.manual_seed(case["xseed"])
    W = case["W"]
    cfgs = case["scheds"]
    try:
        objs = [build(sp) for sp in case["inners"]]
        refs = [build(strip_via(sp)) for sp in case["inners"]]
        scheds, callers = [], []
        for sc in cfgs:
            tg = sc["targets"]
            inner = objs[tg[0]] if len(tg) == 1 and not sc["compose"] else KDComposeTransform([objs[j] for j in tg])
            s = make_scheduled(inner, sc["schedule"], sc.get("form"))
            scheds.append(s)
            callers.append(KDComposeTransform([s]) if sc["wrap"] else s)
        outer = None
        if case["outer"] is not None:
            outer = KDComposeTransform([scheds[i] if tag == "s" else objs[i] for tag, i in case["outer"]])
        pipeline = {"objs": objs, "scheds": scheds, "callers": callers, "outer": outer}
    except Exception as e:  # noqa
        return {"construct_error": f"{type(e).__name__}: {e}"}
    obs = {"inners0": [try_live_tree(o) for o in objs], "init_heap": [observe(o) for o in objs], "steps": []}
    workers = [copy.deepcopy(pipeline) for _ in range(W)]
    try:
        with patch("kappadata.transforms.base.kd_transform.get_worker_info", new=lambda: _WorkerInfo(W)):
            for r, P in enumerate(workers):
                for k, sc in enumerate(cfgs):
                    P["callers"][k].worker_init_fn(r, batch_size=sc["B"], **sc["init"])
    except Exception as e:  # noqa
        return {**obs, "init_error": f"{type(e).__name__}: {e}"}
    # the object graph is the modelled one: inside every copy self.transform of scheduled transform k IS heap object j
    # (or a composition whose members ARE the heap objects), and no object is shared between copies
    for r, P in enumerate(workers):
        for k, sc in enumerate(cfgs):
            t = P["scheds"][k].transform
            got = [t] if len(sc["targets"]) == 1 and not sc["compose"] else list(getattr(t, "transforms", []))
            if len(got) != len(sc["targets"]) or any(a is not P["objs"][j] for a, j in zip(got, sc["targets"])):
                obs["alias_error"] = (f"copy {r}: scheduled transform {k} does not hold the heap objects {sc['targets']} "
                                      "by reference")
        if any(a is b for P2 in workers[:r] for a in P["objs"] for b in P2["objs"]):
            obs["alias_error"] = f"copy {r} shares an augmentation object with another copy"
    if "alias_error" in obs:
        return obs
    obs["n_batches"] = [workers[0]["scheds"][k].n_batches for k in range(len(cfgs))]
    obs["nb_torch"] = [torch_n_batches(sc["init"], sc["B"]) for sc in cfgs]
    obs["values"] = []
    for k, sc in enumerate(cfgs):
        try:
            obs["values"].append(schedule_values(sc["schedule"], obs["n_batches"][k]))
        except Exception as e:  # noqa
            obs["values_error"] = f"scheduled transform {k}: {type(e).__name__}: {e}"
            obs["values"].append([])
    # reference parameters: every constructed heap object scaled ONCE by every factor that can reach it
    ref_bounds = {}

    def ref_for(j, f):
        key = _fkey(j, f)
        if key not in ref_bounds:
            c = copy.deepcopy(refs[j])
            try:
                c.scale_strength(f)
                ref_bounds[key] = observe(c)["bounds"]
            except Exception as e:  # noqa
                ref_bounds[key] = f"{type(e).__name__}: {e}"

    for k, sc in enumerate(cfgs):
        for v in obs["values"][k]:
            for j in sc["targets"]:
                ref_for(j, v)
    direct = [i for tag, i in (case["outer"] or []) if tag == "i"]
    for st in case["steps"]:
        if st[0] == "scale":
            ref_for(st[2], st[3])
        elif st[0] == "outer":
            for j in direct:
                ref_for(j, st[2])
    counts = [0] * len(cfgs)
    for idx, st in enumerate(case["steps"]):
        row = {}
        try:
            if st[0] == "call":
                k = st[1]
                sc = cfgs[k]
                n = counts[k]
                counts[k] += 1
                w = (n // sc["B"]) % W
                P = workers[w]
                seed = case["xseed"] + idx
                x = make_input(case["input"], seed)
                P["scheds"][k].set_rng(DrawSpy(seed))
                ctx = {}
                y = P["callers"][k](_fresh_input(x), ctx=ctx)
                row.update({"w": w, "n": n, "strength": ctx.pop(P["scheds"][k].ctx_key, None),
                            "beh": json.dumps([_canon(ctx), _digest(y)], sort_keys=True)})
                b = n // sc["B"]
                if b < len(obs["values"][k]):
                    tg = sc["targets"]
                    parts = [copy.deepcopy(refs[j]) for j in tg]
                    rt = parts[0] if len(tg) == 1 and not sc["compose"] else KDComposeTransform(parts)
                    rt.scale_strength(obs["values"][k][b])
                    rt.set_rng(DrawSpy(seed))
                    rctx = {}
                    ry = rt(_fresh_input(x), ctx=rctx)
                    row["beh_ref"] = json.dumps([_canon(rctx), _digest(ry)], sort_keys=True)
            elif st[0] == "scale":
                w = st[1]
                workers[w]["objs"][st[2]].scale_strength(st[3])
            else:
                w = st[1]
                workers[w]["outer"].scale_strength(st[2])
        except Exception as e:  # noqa
            row["error"] = f"{type(e).__name__}: {e}"
            obs["steps"].append(row)
            break
        row["heap"] = [observe(o)["bounds"] for o in workers[w]["objs"]]
        row["trees"] = [try_live_tree(o) for o in workers[w]["objs"]]
        obs["steps"].append(row)
    obs["refs"] = ref_bounds
    return obs


def oracle_inter(case, obs):
    """every call of scheduled transform k on its n-th sample reports schedule_k(n // B_k) and is APPLIED with every
    augmentation object it reaches at `constructed, scaled by that value` - whatever other scheduled transforms sharing
    the object or direct scale_strength calls did in between; every object always is `constructed, scaled by the last
    factor anybody gave it`"""
    W, cfgs = case["W"], case["scheds"]
    K, J = len(cfgs), len(case["inners"])
    sig = ("pipeline of %d KDScheduledTransform(s) %s over augmentation object(s) %s%s, %d worker cop%s" % (
        K, [("obj%s" % sc["targets"]) + " B=%d %s schedule=%s" % (sc["B"], sc["init"], _sched_sig(sc["schedule"]))
            for sc in cfgs],
        ["obj%d=%s" % (j, spec_sig(sp)) for j, sp in enumerate(case["inners"])],
        "" if case["outer"] is None else ", outer compose of %s" % case["outer"], W, "y" if W == 1 else "ies"))
    for k in ("init_error", "values_error"):
        if k in obs:
            return f"{sig}: {k}: {obs[k]}"
    if "alias_error" in obs:
        return (f"{sig}: the object graph is not the modelled one (KDScheduledTransform keeps a reference to the "
                f"transform it is given; deepcopy keeps the sharing inside a copy): {obs['alias_error']}")
    for k, sc in enumerate(cfgs):
        exp_nb = expected_n_batches(sc["init"], sc["B"])
        if obs["n_batches"][k] != exp_nb or obs["nb_torch"][k] != exp_nb:
            return (f"{sig}: scheduled transform {k}: n_batches = {obs['n_batches'][k]}, the announced training length "
                    f"means {exp_nb} batches (torch's samplers: {obs['nb_torch'][k]})")
    init = [h["bounds"] for h in obs["init_heap"]]
    direct = [i for tag, i in (case["outer"] or []) if tag == "i"]
    via_sched = sorted({j for tag, i in (case["outer"] or []) if tag == "s" for j in cfgs[i]["targets"]} - set(direct))
    counts = [0] * K
    # last[w][j]: None = as constructed, float = last factor given, "?" = an outer composition holding a scheduled
    # transform over j was scaled (KDScheduledTransform does not forward an outer factor today; not part of the claim)
    last = [[None] * J for _ in range(W)]
    hist = []
    for idx, st in enumerate(case["steps"]):
        if idx >= len(obs["steps"]):
            return f"{sig}: step {idx} {st} was not executed"
        ob = obs["steps"][idx]
        if st[0] == "call":
            k = st[1]
            sc = cfgs[k]
            n = counts[k]
            counts[k] += 1
            b = n // sc["B"]
            w = b % W
            what = (f"step {idx}: scheduled transform {k} processes its sample {n} (its global batch {b}, worker copy {w})"
                    f" after {hist}")
            if "error" in ob:
                return f"{sig}: {what}: raised {ob['error']}"
            if ob["w"] != w or ob["n"] != n:
                return f"{sig}: harness routed {what} to copy {ob['w']} as sample {ob['n']}"
            want = obs["values"][k][b]
            if ob["strength"] is None:
                return f"{sig}: {what}: no strength reported in ctx"
            if ob["strength"] != want:
                return (f"{sig}: {what}: reports strength {ob['strength']!r}, its schedule's value at batch {b} of "
                        f"{obs['n_batches'][k]} is {want!r}")
            for j in sc["targets"]:
                last[w][j] = want
            hist.append(f"call{k}")
        else:
            w = st[1]
            if "error" in ob:
                return f"{sig}: step {idx} {st} after {hist}: raised {ob['error']}"
            if st[0] == "scale":
                last[w][st[2]] = st[3]
                hist.append(f"obj{st[2]}.scale({st[3]!r})@{w}")
            else:
                for j in direct:
                    last[w][j] = st[2]
                for j in via_sched:
                    last[w][j] = "?"
                hist.append(f"outer.scale({st[2]!r})@{w}")
            what = f"step {idx} {st} after {hist[:-1]}"
        for j in range(J):
            f = last[w][j]
            if f == "?":
                continue
            ref = init[j] if f is None else obs["refs"].get(_fkey(j, f))
            if isinstance(ref, str):
                return f"{sig}: scaling a copy of the constructed object {j} by {f!r} raised {ref}"
            mine = st[0] == "call" and j in cfgs[st[1]]["targets"]
            for (name, v, ident), (_, vr, _), (_, v0, _) in zip(ob["heap"][j], ref, init[j]):
                bad = None
                if not _close(v, vr):
                    bad = f"the constructed object scaled by {f!r} has {vr!r}"
                elif f == 0.0 and not _close(v, ident):
                    bad = f"the weakest setting is {ident!r}"
                elif f == 1.0 and not _close(v, v0):
                    bad = f"constructed with {v0!r}"
                if bad:
                    if mine:
                        return (f"{sig}: {what}: reports strength {ob['strength']!r} but the sample is transformed with "
                                f"object {j} at {name} = {v!r}; {bad}: the applied strength is not the reported one")
                    return (f"{sig}: {what}: afterwards object {j} of copy {w} has {name} = {v!r}, the last factor it "
                            f"was given is {f!r}; {bad}")
        if st[0] == "call" and "beh_ref" in ob and ob["beh"] != ob["beh_ref"]:
            return (f"{sig}: {what}: reports strength {ob['strength']!r} but the augmentation recorded / returned "
                    f"{ob['beh'][:300]}; the constructed augmentation scaled by that value (same generator seed, same "
                    f"input) records / returns {ob['beh_ref'][:300]}")
    return None


def _sched_sig(s):
    if isinstance(s, dict):
        return s["kind"]
    if isinstance(s, list):
        return "[" + ",".join("%.3g" % v for v in s) + "]"
    return repr(s)


# ---------------------------------------------------------------------------
# independent Python statement of the property
# ---------------------------------------------------------------------------
# binary64 slack of the comparisons, in units in the last place (same constant as Base.v ulp_slack): every scaling
# formula is at most three rounded operations, each with relative error <= 2^-53
ULP_SLACK = 8 * 2.0 ** -53


def _close(a, b):
    if isinstance(a, int) and isinstance(b, int):
        return a == b
    return abs(a - b) <= ULP_SLACK * (1 + abs(a) + abs(b))


def _le(a, b):
    return a <= b + ULP_SLACK * (1 + abs(a) + abs(b))


def oracle(case, obs):
    if "harness_exception" in obs:
        return "harness exception: " + obs["harness_exception"] + obs.get("tb", "")
    kind = case.get("kind")
    if kind == "translator":
        return None      # reported through the broken build; the search looks for the concrete failing input
    if kind == "translator_selftest":
        rows = obs.get("selftest") or []
        if len(rows) < 20:
            return f"translator self-test ran only {len(rows)} synthetic classes"
        for name, expect, accepted, msg in rows:
            if accepted and not expect:
                return (f"translator self-test: the synthetic scaling method `{name}` has an unsupported shape but was "
                        "translated (the translator no longer fails closed)")
            if expect and not accepted:
                return f"translator self-test: the supported synthetic scaling method `{name}` was refused: {msg}"
        return None
    if "construct_error" in obs:
        return f"construction failed: {obs['construct_error']}"
    if kind == "scale":
        return oracle_scale(case, obs)
    if kind == "multi_iter":
        return oracle_multi_iter(case, obs)
    if kind == "inter":
        return oracle_inter(case, obs)
    return oracle_sched(case, obs)


def oracle_scale(case, obs):
    sig = spec_sig(case["spec"])
    init = obs["init"]
    names = [b[0] for b in init["bounds"]]
    exp = obs.get("expected_init")
    if exp is not None:
        got = {b[0]: b[1] for b in init["bounds"]}
        for k, v in exp.items():
            if k not in got or not _close(got[k], v):
                return f"{sig}: constructed parameter {k} is {got.get(k)!r}, the constructor arguments say {v!r}"
        extra = [k for k in got if k not in exp and not k.endswith("sigma_lb")]
        if extra:
            return f"{sig}: parameters {extra} exist although the constructor arguments configure no such range"
    steps = obs["steps"]
    for k, st in enumerate(steps):
        hist = case["factors"][:k + 1]
        if "error" in st:
            return f"{sig}: scale_strength({st['f']!r}) raised {st['error']} (factors so far {hist})"
        if "call_error" in st:
            return f"{sig}: calling the transform after scale_strength({st['f']!r}) raised {st['call_error']}"
        ob = st["obs"]
        if [b[0] for b in ob["bounds"]] != names:
            return f"{sig}: the set of parameters changed after scale_strength({st['f']!r}): {[b[0] for b in ob['bounds']]} vs {names}"
        if ob["const"] != init["const"]:
            diff = [(a, b) for a, b in zip(init["const"], ob["const"]) if a != b][:3]
            return f"{sig}: scale_strength({st['f']!r}) changed something that is not a strength parameter: {diff}"
        f = st["f"]
        for (name, v, ident), (_, v0, _) in zip(ob["bounds"], init["bounds"]):
            if f == 1.0 and not _close(v, v0):
                return (f"{sig}: after factors {hist} (last = 1) {name} = {v!r}, constructed with {v0!r}: "
                        "factor 1 does not restore the constructed range")
            if f == 0.0 and not _close(v, ident):
                return (f"{sig}: after factors {hist} (last = 0) {name} = {v!r}, weakest setting is {ident!r}")
        vals = {b[0]: b[1] for b in ob["bounds"]}
        consts = {c[0]: c[1] for c in ob["const"]}
        for name, v in vals.items():
            lo = hi = None
            if name.endswith("_lb") and name[:-3] + "_ub" in vals:
                lo, hi = v, vals[name[:-3] + "_ub"]
            elif name.endswith("sigma_ub") and name[:-2] + "lb" in consts:
                lo, hi = float(consts[name[:-2] + "lb"]), v
            elif name.endswith("magnitude_sampler.magnitude"):
                lo, hi = vals[name + "_min"], v
                if not _le(v, vals[name + "_max"]):
                    return f"{sig}: after scale_strength({f!r}) {name} = {v!r} exceeds {name}_max = {vals[name + '_max']!r}"
            if lo is not None and not _le(lo, hi):
                return (f"{sig}: after scale_strength({f!r}) the range of {name} is inverted: [{lo!r}, {hi!r}] "
                        "(sampling from it raises)")
        if "uniform" in st and st["uniform"][1] is not None:
            calls, want = st["uniform"]
            if calls != want:
                return (f"{sig}: after scale_strength({f!r}) one call drew rng.uniform from {calls}, the scaled "
                        f"parameters say {want}")
        if "mag" in st:
            bad = oracle_mag(st["mag"])
            if bad:
                return f"{sig}: after factors {hist}: {bad}"
        fr = st.get("fresh")
        if fr is not None:
            if "error" in fr:
                return f"{sig}: constructing a second instance and scaling it by {f!r} raised {fr['error']}"
            why = ("the result depends on earlier factors" if not has_via(case["spec"]) else
                   "the result depends on earlier factors or on HOW the members were handed over (config dicts / nested "
                   "lists vs. ready-made objects; the fresh instance is built from ready-made objects)")
            if not fr["bounds_equal"]:
                return (f"{sig}: after factors {hist} the parameters differ from those of a freshly constructed "
                        f"instance scaled by {f!r} only: {why}")
            if fr["diff"] is not None:
                j, a, b = fr["diff"]
                return (f"{sig}: after factors {hist} the transform does not behave like a freshly constructed one "
                        f"scaled by {f!r} only (same generator seed, same input): call {j} recorded/returned "
                        f"{a[:300]} instead of {b[:300]}: {why}")
    for i, a in enumerate(steps):
        for j, b in enumerate(steps):
            if i < j and a["f"] == b["f"]:
                for (name, va, _), (_, vb, _) in zip(a["obs"]["bounds"], b["obs"]["bounds"]):
                    if not _close(va, vb):
                        return (f"{sig}: factor {a['f']!r} gave {name} = {va!r} at step {i} and {vb!r} at step {j} "
                                f"(factors {case['factors']}): the result depends on earlier factors")
            if a["f"] <= b["f"]:
                for (name, va, ident), (_, vb, _) in zip(a["obs"]["bounds"], b["obs"]["bounds"]):
                    ok = (_le(ident, va) and _le(va, vb)) or (_le(vb, va) and _le(va, ident))
                    if not ok:
                        return (f"{sig}: {name} is {va!r} at factor {a['f']!r} and {vb!r} at factor {b['f']!r} "
                                f"(weakest {ident!r}): not monotone between the weakest setting and the larger factor")
    return None


def oracle_mag(m):
    """one call of a MagnitudeSampler user must sample its magnitude from the SCALED parameters, by the rule fixed at
    construction: std 0 -> the constant magnitude; std inf -> uniform(min, magnitude); otherwise
    clip(magnitude + normal(0, std), min, max)"""
    for calls, got in zip(m["calls"], m["ctx"]):
        scal = [c for c in calls if c[3] is not None]
        arr = [c for c in calls if c[3] is None]
        if m["mode"] == "const":
            if scal:
                return f"{m['cls']} constructed with magnitude_std = 0 drew {scal} for its magnitude"
            want = m["mag"]
        elif m["mode"] == "uniform":
            if len(scal) != 1 or scal[0][:3] != ["uniform", m["min"], m["mag"]]:
                return (f"{m['cls']} constructed with magnitude_std = inf must draw uniform({m['min']!r}, "
                        f"{m['mag']!r}) once per call, drew {scal}")
            want = scal[0][3]
        elif (m["std"] == 0.0 or m["min"] == m["max"]) and not scal:
            want = min(max(m["mag"], m["min"]), m["max"])      # degenerate: drawing nothing gives the same value
        else:
            if len(scal) != 1 or scal[0][:3] != ["normal", 0.0, m["std"]]:
                return (f"{m['cls']} constructed with a finite non-zero magnitude_std must draw normal(0, "
                        f"{m['std']!r}) once per call (scaled parameters: magnitude {m['mag']!r} in [{m['min']!r}, "
                        f"{m['max']!r}]), drew {scal}")
            want = min(max(m["mag"] + scal[0][3], m["min"]), m["max"])
        if m["ctx_key"] is not None and got != want:
            return f"{m['cls']} reported magnitude {got!r} in ctx, the scaled sampler and its draw give {want!r}"
        if "noise_std" in m:
            if len(arr) != 1 or arr[0][:3] != ["normal", 0.0, want * m["noise_std"]]:
                return (f"{m['cls']} must draw its noise from normal(0, magnitude * std = {want * m['noise_std']!r}), "
                        f"drew {[c[:3] for c in arr]}")
    return None


def oracle_sched(case, obs):
    W, B = case["W"], case["B"]
    form = case.get("form") or {}
    sig = (f"KDScheduledTransform[{spec_sig(case['inner'])}] schedule={_sched_sig(case['schedule'])} (handed over as "
           f"{'the specification itself' if form.get('schedule', 'obj') == 'raw' else 'a kappaschedules object'}, "
           f"{'through the factory' if form.get('ctor', 'direct') == 'factory' else 'direct constructor call'}) "
           f"W={W} B={B} init={case['init']}")
    exp_nb = expected_n_batches(case["init"], B)
    if "n_batches" in obs and (obs["n_batches"] != exp_nb or obs["n_batches"] != obs.get("nb_torch", exp_nb)):
        return (f"{sig}: n_batches = {obs['n_batches']}, the announced training length means {exp_nb} batches "
                f"(counted with torch's DistributedSampler / BatchSampler: {obs.get('nb_torch')})")
    for k in ("init_error", "loader_error", "call_error", "values_error"):
        if k in obs:
            return f"{sig}: {k}: {obs[k]}"
    vals = obs["values"]
    if len(obs["samples"]) != case["n"]:
        return f"{sig}: {len(obs['samples'])} samples observed, {case['n']} expected"
    for s in obs["samples"]:
        b = s["i"] // B
        if s["strength"] is None:
            return f"{sig}: sample {s['i']} (global batch {b}, worker {s['rank']}): no strength reported in ctx"
        if s["strength"] != vals[b]:
            return (f"{sig}: sample {s['i']} of global batch {b} (worker {s['rank']}) reports strength "
                    f"{s['strength']!r}, the schedule's value at batch {b} of {obs['n_batches']} is {vals[b]!r}")
        if isinstance(s["ref"], str):
            return f"{sig}: scaling a copy of the wrapped transform by {vals[b]!r} raised {s['ref']}"
        if s["ref"] is not None:
            for (name, v, _), (_, vr, _) in zip(s["bounds"], s["ref"]):
                if not _close(v, vr):
                    return (f"{sig}: sample {s['i']} of global batch {b}: wrapped {name} = {v!r}, scaling the "
                            f"constructed transform by the schedule value {vals[b]!r} gives {vr!r}")
        # independent of scale_strength itself: value 0 = weakest setting, value 1 = as constructed
        for (name, v, ident), (_, v0, _) in zip(s["bounds"], obs["init_obs"]["bounds"]):
            if vals[b] == 0.0 and not _close(v, ident):
                return (f"{sig}: sample {s['i']} of global batch {b} reports strength 0.0 but is transformed with "
                        f"{name} = {v!r} (weakest setting {ident!r})")
            if vals[b] == 1.0 and not _close(v, v0):
                return (f"{sig}: sample {s['i']} of global batch {b} reports strength 1.0 but is transformed with "
                        f"{name} = {v!r} (constructed {v0!r})")
    return None


def expected_n_batches(init, B):
    if "updates" in init:
        return init["updates"]
    if "samples" in init:
        return -(-init["samples"] // B)
    d = init["dataset_len"] // init["world_size"]
    per = d // B if init["drop_last"] else -(-d // B)
    return init["epochs"] * per


# ---------------------------------------------------------------------------
# Coq side
# ---------------------------------------------------------------------------
def _q(n, d):
    n, d = int(n), int(d)
    return f"({n} # {d})" if n >= 0 else f"(({n}) # {d})"


def _qf(x):
    f = Fraction(x)
    return _q(f.numerator, f.denominator)


def _val(v):
    if v[0] == "Q":
        return _q(v[1], v[2])
    if v[0] == "N":
        return "None"
    if v[0] == "S":
        return f"(Some {_q(v[1], v[2])})"
    if v[0] == "I":
        return f"(NI ({v[1]})%Z)"
    if v[0] == "F":
        return f"(NF {_q(v[1], v[2])})"
    raise ValueError(v)


def _state(cname, st, S):
    parts = []
    for fd in S["classes"][cname]["fields"]:
        v = st[fd["name"]]
        parts.append(_state(fd["child"], v, S) if fd["type"] == "child" else _val(v))
    return f"({cname}_mk " + " ".join(parts) + ")"


def coq_tree(t, S):
    if t["n"] == "Leaf":
        return f"(Leaf (L_{t['c']} {_state(t['c'], t['s'], S)}))"
    if t["n"] == "Compose":
        return "(Compose [" + "; ".join(coq_tree(k, S) for k in t["k"]) + "])"
    return t["n"]


def _tree_ok(t):
    if t is None or t.get("n") == "Error":
        return False
    return all(_tree_ok(k) for k in t.get("k", []))


def _solarize_ints(t, out):
    if t["n"] == "Leaf":
        def walk(st):
            for k, v in st.items():
                if isinstance(v, dict):
                    walk(v)
                elif k == "og_threshold" and v[0] == "I":
                    out.append(v[1])
        walk(t["s"])
    for k in t.get("k", []):
        _solarize_ints(k, out)


def _trunc_safe(tree0, factors):
    """False when int(256 - (256 - og) * f) may be decided by binary64 rounding (exact value within 2^-43 of an integer
    it does not hit; the two rounded operations are each off by at most half an ulp of a number below 512 = 2^-45):
    such a case is compared by the Python oracle only"""
    ogs = []
    _solarize_ints(tree0, ogs)
    for og in ogs:
        for f in factors:
            v = 256 - (256 - og) * Fraction(f)
            d = abs(v - round(v))
            if 0 < d < Fraction(1, 2 ** 43):
                return False
    return True


def coq_applicable(case, obs):
    if case.get("kind") == "scale":
        if not _tree_ok(obs.get("tree0")) or not obs.get("steps"):
            return False
        if any("tree" not in st or not _tree_ok(st["tree"]) for st in obs["steps"]):
            return False
        return _trunc_safe(obs["tree0"], case["factors"])
    if case.get("kind") == "inter":
        if any(k in obs for k in ("construct_error", "init_error", "values_error", "alias_error")) or not obs.get("steps"):
            return False
        if len(obs["steps"]) != len(case["steps"]) or not all(_tree_ok(t) for t in obs.get("inners0", [None])):
            return False
        for st, ob in zip(case["steps"], obs["steps"]):
            if "error" in ob or not all(_tree_ok(t) for t in ob["trees"]):
                return False
            if st[0] == "call" and ob["strength"] is None:
                return False
        factors = [v for vs in obs["values"] for v in vs] + [st[-1] for st in case["steps"] if st[0] != "call"]
        return all(_trunc_safe(t, factors) for t in obs["inners0"])
    if case.get("kind") == "sched":
        if not _tree_ok(obs.get("inner0")) or not obs.get("samples") or "values" not in obs:
            return False
        if any(k in obs for k in ("init_error", "loader_error", "call_error", "values_error")):
            return False
        if any(s["strength"] is None or not _tree_ok(s["tree"]) for s in obs["samples"]):
            return False
        return _trunc_safe(obs["inner0"], obs["values"])
    return False


def _coq_init(init):
    if "updates" in init:
        return f"(IUpdates {init['updates']}%Z)"
    if "samples" in init:
        return f"(ISamples {init['samples']}%Z)"
    return (f"(IEpochs {init['epochs']}%Z {init['dataset_len']}%Z {init['world_size']}%Z "
            f"{'true' if init['drop_last'] else 'false'})")


def _coq_list(items):
    return "[" + "; ".join(items) + "]"


def coq_inter(case, obs, S):
    cfgs = _coq_list("(%d%%Z, %s, %s)" % (sc["B"], _coq_init(sc["init"]), _coq_list("%d%%nat" % j for j in sc["targets"]))
                     for sc in case["scheds"])
    nbs = _coq_list("%d%%Z" % nb for nb in obs["n_batches"])
    outer = _coq_list(("(MSched %d%%nat)" if tag == "s" else "(MInner %d%%nat)") % i for tag, i in (case["outer"] or []))
    inners0 = _coq_list(coq_tree(t, S) for t in obs["inners0"])
    values = _coq_list(_coq_list(_qf(v) for v in vs) for vs in obs["values"])
    rows = []
    for st, ob in zip(case["steps"], obs["steps"]):
        heap = _coq_list(coq_tree(t, S) for t in ob["trees"])
        if st[0] == "call":
            rows.append(f"(PCall {ob['w']}%nat {st[1]}%nat, {_qf(ob['strength'])}, {heap})")
        elif st[0] == "scale":
            rows.append(f"(PScale {st[1]}%nat {st[2]}%nat {_qf(st[3])}, {_qf(st[3])}, {heap})")
        else:
            rows.append(f"(PScaleOuter {st[1]}%nat {_qf(st[2])}, {_qf(st[2])}, {heap})")
    return f"(CInter {case['W']}%nat {cfgs} {nbs} {outer} {inners0} {values} {_coq_list(rows)})"


def coq_case(case, obs):
    S = schema()
    if case["kind"] == "scale":
        steps = "[" + "; ".join(f"({_qf(st['f'])}, {coq_tree(st['tree'], S)})" for st in obs["steps"]) + "]"
        return f"(CScale {coq_tree(obs['tree0'], S)} {steps})"
    if case["kind"] == "inter":
        return coq_inter(case, obs, S)
    init = case["init"]
    i = _coq_init(init)
    vals = "[" + "; ".join(_qf(v) for v in obs["values"]) + "]"
    # long runs: Coq replays the first COQ_SAMPLES global samples (the Python oracle checks all of them)
    ob = "[" + "; ".join(f"({s['rank']}%nat, {_qf(s['strength'])}, {coq_tree(s['tree'], S)})"
                         for s in obs["samples"][:COQ_SAMPLES]) + "]"
    return (f"(CSched {case['W']}%nat {case['B']}%Z {i} {obs['n_batches']}%Z {coq_tree(obs['inner0'], S)} "
            f"{vals} {ob})")


# ---------------------------------------------------------------------------
# evidence
# ---------------------------------------------------------------------------
def spec_sig(spec):
    via = spec.get("via", "obj")
    if via != "obj":
        return via + ":" + spec_sig({k: v for k, v in spec.items() if k != "via"})
    if spec["c"] in CONTAINERS:
        tag = {"KDComposeTransform": "", "KDTransformChoice": "Choice", "KDRandomApply": "RandomApply",
               "PatchwiseTransform": "Patchwise"}[spec["c"]]
        return tag + "[" + ",".join(spec_sig(k) for k in spec["k"]) + "]"
    if spec["c"] == "preset":
        return spec["name"]
    return spec["c"]


def _containers(spec):
    if spec["c"] in CONTAINERS:
        return [spec["c"]] + [x for k in spec["k"] for x in _containers(k)]
    return []


def _leaves(spec):
    if spec["c"] in CONTAINERS:
        return [x for k in spec["k"] for x in _leaves(k)]
    return [spec["c"]]


def features(case, obs):
    kind = case.get("kind")
    yield "kind=" + str(kind)
    if kind == "scale":
        for c in sorted(set(_leaves(case["spec"]))):
            yield "class=" + c
        for c in sorted(set(_containers(case["spec"]))):
            yield "container=" + c
        yield "factors=%d" % len(case["factors"])
        fs = case["factors"]
        yield "has0=%s" % (0.0 in fs)
        yield "has1=%s" % (1.0 in fs)
        yield "repeat=%s" % (len(set(fs)) < len(fs))
        yield "nonmonotone=%s" % (fs != sorted(fs))
        yield "root=" + case["spec"]["c"]
        yield "built_from_configs=%s" % has_via(case["spec"])
        if case["spec"].get("via", "obj") != "obj":
            yield "root_via=" + case["spec"]["via"]
        if any("uniform" in st for st in obs.get("steps", [])):
            yield "uniform_spied"
        if _tree_ok(obs.get("tree0")) and not _trunc_safe(obs["tree0"], fs):
            yield "trunc_decided_by_rounding"
    elif kind == "translator_selftest":
        yield "translator_refused=%d" % sum(1 for r in obs.get("selftest", []) if not r[2])
    elif kind == "multi_iter":
        yield "multi_iter:" + case["regime"]
        yield "W=%d" % case["W"]
    elif kind == "inter":
        yield "inter:W=%d" % case["W"]
        yield "inter:scheds=%d" % len(case["scheds"])
        yield "inter:objects=%d" % len(case["inners"])
        shared = any(set(a["targets"]) & set(b["targets"]) for i, a in enumerate(case["scheds"])
                     for b in case["scheds"][i + 1:])
        yield "inter:shared_object=%s" % shared
        yield "inter:outer=%s" % (case["outer"] is not None)
        yield "inter:foreign_scale=%s" % any(st[0] == "scale" for st in case["steps"])
        yield "inter:outer_scale=%s" % any(st[0] == "outer" for st in case["steps"])
        yield "inter:Bmax=%d" % max(sc["B"] for sc in case["scheds"])
        if _inter_stale_opportunity(case, obs):
            yield "inter:same_value_after_foreign_write"
    elif kind == "sched":
        yield "W=%d" % case["W"]
        yield "B=%d" % case["B"]
        init = case["init"]
        mode = "epochs" if "epochs" in init else "updates" if "updates" in init else "samples"
        yield "init=" + mode
        if mode == "epochs":
            per = init["dataset_len"] // init["world_size"]
            yield "epochs:world=%d" % init["world_size"]
            yield "epochs:drop_last=%s" % init["drop_last"]
            yield "epochs:per_rank_divisible_by_B=%s" % (per % case["B"] == 0)
            yield "epochs:len_divisible_by_world=%s" % (init["dataset_len"] % init["world_size"] == 0)
            yield "epochs:n=%d" % min(init["epochs"], 3)
        if mode == "samples":
            yield "samples:divisible_by_B=%s" % (init["samples"] % case["B"] == 0)
        yield "loader=%s" % case["loader"]
        yield "wrap=%s" % case["wrap"]
        yield "schedule=" + (type(case["schedule"]).__name__ if not isinstance(case["schedule"], dict)
                             else case["schedule"]["kind"])
        if _is_number(case["schedule"]) and not case["schedule"]:
            yield "schedule=falsy_number"
        form = case.get("form") or {}
        yield "schedule_given_as=" + form.get("schedule", "obj")
        yield "scheduled_built_by=" + form.get("ctor", "direct")
        yield "wrapped_from_configs=%s" % has_via(case["inner"])
        yield "partial_run=%s" % (case["n"] < obs.get("n_batches", 0) * case["B"])


def _inter_stale_opportunity(case, obs):
    """does the history contain the situation the interleaving is about: a scheduled transform is called with the SAME
    schedule value as at its previous call on that copy, while somebody else gave one of its objects a DIFFERENT factor
    in between"""
    vals = obs.get("values")
    if not vals or "values_error" in obs:
        return False
    W, cfgs = case["W"], case["scheds"]
    counts = [0] * len(cfgs)
    prev = {}                      # (w, k) -> value of k's previous call on copy w
    last = {}                      # (w, j) -> (last factor, who)
    for st in case["steps"]:
        if st[0] == "call":
            k = st[1]
            b = counts[k] // cfgs[k]["B"]
            counts[k] += 1
            w = b % W
            if b >= len(vals[k]):
                return False
            v = vals[k][b]
            if prev.get((w, k)) == v and any(last.get((w, j), (v, k)) != (v, k) and last[(w, j)][0] != v
                                             for j in cfgs[k]["targets"]):
                return True
            prev[(w, k)] = v
            for j in cfgs[k]["targets"]:
                last[(w, j)] = (v, k)
        elif st[0] == "scale":
            last[(st[1], st[2])] = (st[3], "foreign")
        else:
            for tag, i in case["outer"] or []:
                if tag == "i":
                    last[(st[1], i)] = (st[2], "outer")
    return False


def json_key(d):
    return tuple(sorted((k, v) for k, v in d.items()))


def nontrivial_key(case, obs):
    kind = case.get("kind")
    if kind == "scale":
        lv = [c for c in _leaves(case["spec"]) if c not in ("opaque", "foreign")]
        if not lv or not any(0.0 < f < 1.0 for f in case["factors"]) or not obs.get("steps"):
            return None
        if any("error" in st for st in obs["steps"]):
            return None
        pat = tuple("0" if f == 0 else "1" if f == 1 else "m" for f in case["factors"])
        return ("scale", spec_sig(case["spec"]), pat, tuple(round(f, 6) for f in case["factors"]))
    if kind == "multi_iter":
        return ("multi_iter", case["regime"], case["W"], case["B"], case["bpe"], case["epochs"])
    if kind == "inter":
        if not obs.get("steps") or not _inter_stale_opportunity(case, obs):
            return None
        return ("inter", case["W"], tuple(spec_sig(sp) for sp in case["inners"]),
                tuple((tuple(sc["targets"]), sc["B"], json_key(sc["init"])) for sc in case["scheds"]),
                tuple(tuple(st[:3]) for st in case["steps"]))
    if kind == "sched":
        if not obs.get("samples") or (case["W"] < 2 and len(obs["samples"]) <= case["B"]):
            return None
        return ("sched", case["W"], case["B"], json_key(case["init"]), spec_sig(case["inner"]), case["wrap"],
                case["loader"], case["n"])
    return None
