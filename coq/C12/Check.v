(* Executable comparison of what the real samplers showed (all ranks of one
   configuration, torch draw functions spied) with the model (replaying the
   recorded draws) and with the spec.  Used by harness/c12.py. *)
From Coq Require Import ZArith List Bool Arith.
Import ListNotations.
From KD Require Import C12.Model C12.Spec.

Inductive scfg := SDist (c : dcfg) | SRand (c : rcfg) | SW (c : wcfg) | SCB (c : cbcfg).

(* one rank: result code (0 ok, 1 AssertionError, 2 did not return), list(sampler),
   len(sampler), manual_seed arguments, (requested size, result) of every draw *)
Definition rank_rec : Type := nat * list nat * nat * list Z * list (nat * list nat).

(* configuration, the records of rank 0..W-1, and the stream of the same sampler
   built with world size 1 (= the global draw as seen from outside) *)
Definition case_t : Type := scfg * list rank_rec * list nat.

Definition replay (ds : list (nat * list nat)) : oracle := fun _ h _ => snd (nth (length h) ds (0, [])).

Definition code_of (o : outcome (list nat)) : nat := match o with Ok _ => 0 | AssertFail => 1 | Runaway => 2 end.

Definition model_run (s : scfg) (draw : oracle) (rank : nat) : run :=
  match s with
  | SDist c => dist_run c draw rank
  | SRand c => rand_run c draw
  | SW c => w_run c draw rank
  | SCB c => cb_run c draw rank
  end.

Definition rank_agrees (s : scfg) (rank : nat) (rr : rank_rec) : bool :=
  let '(code, stream, len, seeds, ds) := rr in
  let m := model_run s (replay ds) rank in
  (code_of (r_out m) =? code) &&
  (if code =? 0
   then list_eqb Nat.eqb (stream_of (r_out m)) stream && (r_len m =? len)
        && list_eqb Z.eqb (r_seeds m) seeds && list_eqb Nat.eqb (r_reqs m) (map fst ds)
   else true).

Definition world (s : scfg) : nat :=
  match s with SDist c => d_W c | SRand _ => 1 | SW c => w_W c | SCB c => cb_W c end.
Definition drops (s : scfg) : bool := match s with SDist c => d_drop c | _ => true end.
Definition seed_epoch (s : scfg) : Z :=
  match s with SDist c => d_seed c + d_epoch c | SRand c => rs_seed c | SW c => w_seed c + w_epoch c
          | SCB c => cb_seed c + cb_epoch c end%Z.

Definition spec_holds (s : scfg) (recs : list rank_rec) (G : list nat) : bool :=
  let streams := map (fun '(_, st, _, _, _) => st) recs in
  let L := match recs with (_, _, len, _, _) :: _ => len | [] => 0 end in
  (* every rank reports the same len(sampler) ... *)
  forallb (fun '(_, _, len, _, _) => len =? L) recs &&
  (* ... has exactly that many entries and the ranks interleave into G, trailing entries dropped / wrapped *)
  split_ofb (drops s) (world s) L G streams &&
  (* every rank made the same draws from a generator seeded with seed + epoch *)
  forallb (fun '(_, _, _, seeds, ds) =>
             forallb (Z.eqb (seed_epoch s)) seeds &&
             match recs with
             | (_, _, _, _, ds0) :: _ => list_eqb (fun a b => (fst a =? fst b) && list_eqb Nat.eqb (snd a) (snd b)) ds ds0
             | [] => true end) recs &&
  (* repeated augmentation: slot k of G is perm[k / r] *)
  match s, recs with
  | SDist c, (_, _, _, _, (_, perm) :: _) :: _ => repeats_consecutiveb (d_rep c) perm G
  | SRand c, (_, _, _, _, (_, perm) :: _) :: _ =>
      if (rs_rep c =? 1) && rs_replacement c then true else repeats_consecutiveb (rs_rep c) perm G
  | SW c, (_, _, _, _, (_, d) :: _) :: _ => list_eqb Nat.eqb d G
  | _, _ => true
  end.

(* 0 = implementation, model and spec agree; 1 = the model differs from the
   implementation; 2 = the spec is false of the implementation's output *)
Definition check (t : case_t) : nat :=
  let '(s, recs, G) := t in
  if negb ((length recs =? world s) &&
           forallb (fun '(rank, rr) => rank_agrees s rank rr) (combine (seq 0 (length recs)) recs))
  then 1
  else if forallb (fun '(code, _, _, _, _) => code =? 0) recs
       then (if spec_holds s recs G then 0 else 2)
       else 0.
