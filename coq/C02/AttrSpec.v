(* C02 — specification of attribute resolution and introspection for LINEAR chains of layers
   (outermost first) over a root dataset, in terms of plain list operations on the chain. *)
From Coq Require Import ZArith List Bool String.
Import ListNotations.
From KD Require Import C02.AttrModel.
Open Scope Z_scope.

Inductive lkind := LKSub | LKWrap | LKMode.
Definition alayer : Type := (lkind * node)%type.

Definition aapply (l : alayer) (s : astack) : astack :=
  match fst l with
  | LKSub => ASub (snd l) s
  | LKWrap => AWrap (snd l) s
  | LKMode => AMode (snd l) s
  end.

Definition abuild (ls : list alayer) (r : node) : astack := fold_right aapply (ARoot r) ls.

(* the chain of an astack, when it is one *)
Fixpoint aunbuild (s : astack) : option (list alayer * node) :=
  match s with
  | ARoot n => Some ([], n)
  | ASub n s' => match aunbuild s' with Some (ls, r) => Some ((LKSub, n) :: ls, r) | None => None end
  | AWrap n s' => match aunbuild s' with Some (ls, r) => Some ((LKWrap, n) :: ls, r) | None => None end
  | AMode n s' => match aunbuild s' with Some (ls, r) => Some ((LKMode, n) :: ls, r) | None => None end
  | ACat _ _ => None
  end.

(* the nearest provider: the first node, from the outside, whose own lookup answers *)
Fixpoint nearest (ns : list node) (name : string) : ares :=
  match ns with
  | [] => AMissing
  | n :: r => match own n name with Some x => x | None => nearest r name end
  end.

(* names no layer intercepts *)
Definition plain_name (name : string) : bool :=
  negb (is_getdim name || is_getitem name || is_getall name || String.eqb name "__getitems__").

Definition is_kd (l : alayer) : bool := match fst l with LKWrap => true | _ => false end.

(* layers above the first KDDataset-family layer (KDSubset / ModeWrapper do not answer getdim_ themselves) *)
Fixpoint skip_to_kd (ls : list alayer) : list alayer :=
  match ls with
  | [] => []
  | l :: r => if is_kd l then ls else skip_to_kd r
  end.

(* shape[0] of a provider of getshape_<kind>: defined when the provider returns a 1-tuple *)
Definition shape1 (r : ares) : ares :=
  match r with
  | AFound uid kc => if Nat.eqb kc (kcode KMethod) then AFound uid kc else AAssert
  | _ => AAssert
  end.

Definition nodes_of (ls : list alayer) (r : node) : list node := map snd ls ++ [r].

(* pre-order listing of the nodes of any stack: (kind, uid), kind 0 = root, 1 = KDWrapper, 2 = KDSubset,
   3 = KDConcatDataset, 4 = ModeWrapper *)
Fixpoint anodes (s : astack) : list (nat * Z) :=
  match s with
  | ARoot n => [(0%nat, n_uid n)]
  | AWrap n s' => (1%nat, n_uid n) :: anodes s'
  | ASub n s' => (2%nat, n_uid n) :: anodes s'
  | ACat n parts => (3%nat, n_uid n) :: flat_map anodes parts
  | AMode n s' => (4%nat, n_uid n) :: anodes s'
  end.

Definition uids_of_kind (p : nat -> bool) (s : astack) : list Z :=
  map snd (filter (fun e => p (fst e)) (anodes s)).

Fixpoint has_mode (s : astack) : bool :=
  match s with
  | ARoot _ => false
  | AWrap _ s' => has_mode s'
  | ASub _ s' => has_mode s'
  | ACat _ parts => existsb has_mode parts
  | AMode _ _ => true
  end.
