(* C19 — who answers getattr(cached, name): the attribute resolution of the cache layer
     kappadata/caching/cached_dataset.py      (CachedDataset.__init__, class body, __getattr__)
     kappadata/caching/shared_dict_dataset.py (SharedDictDataset.__init__, class body)
   with /verif/fixes/C19_getitems_bypass.patch applied ([getitems_fix] = true: CachedDataset defines
   __getitems__).  [getitems_fix] = false is the class body BEFORE the patch, kept only to document
   what it repaired.  No proofs here.

   Why this matters for transparency.  The access model (Model.v) assumes that `cached[i]` runs
   CachedDataset.__getitem__, that the `self.transform` read there is the post-cache transform given
   to the constructor, that `self.dataset` is the wrapped dataset and `self.shared_dict` the Manager
   dict.  All four are attribute lookups on the cached dataset, and CachedDataset.__getattr__ forwards
   every name that normal lookup does not find to the wrapped dataset - whose own attributes may have
   the very same names (torchvision-style datasets carry `transform`, Subset carries `dataset` and
   `__getitems__`, ...).  Other code looks names up too: torch's DataLoader fetcher probes
   `dataset.__getitems__` and, if it finds one, fetches whole batches through it.

   Names are strings; nothing restricts which names the wrapped dataset defines. *)
From Coq Require Import List Bool String.
Import ListNotations.
Local Open Scope string_scope.

Definition smem (n : string) (l : list string) : bool := existsb (String.eqb n) l.

(* what Python's normal lookup (object.__getattribute__) finds on the cached dataset itself, i.e.
   BEFORE __getattr__ is consulted: the instance dict and the names of the class bodies; the names the
   foreign bases (torch.utils.data.Dataset, Generic, object) define are a separate argument
   ([inherited], recorded from the installed torch by the harness) *)
Record layer := { l_inst : list string; l_cls : list string }.

(* instance dict after CachedDataset.__init__ / SharedDictDataset.__init__.  `transform` is ALWAYS
   set, also when no post-cache transform is given (then to None) *)
Definition inst_cached : list string := ["logger"; "dataset"; "transform"].
Definition inst_shared : list string := inst_cached ++ ["shared_dict"].
(* functions of the class bodies *)
Definition cls_cached (getitems_fix : bool) : list string :=
  ["__init__"; "__getitem__"] ++ (if getitems_fix then ["__getitems__"] else [])
  ++ ["__len__"; "__getattr__"; "_cached_getitem"; "dispose"].
Definition cls_shared (getitems_fix : bool) : list string :=
  ["__init__"; "_cached_getitem"; "dispose"] ++ cls_cached getitems_fix.

Definition shared_layer (getitems_fix : bool) : layer :=
  {| l_inst := inst_shared; l_cls := cls_shared getitems_fix |}.
(* an instance whose __dict__ is still empty: what copy.copy / pickle.loads probe (`__setstate__`,
   `__reduce_ex__`, ...) right after cls.__new__ *)
Definition blank_layer (getitems_fix : bool) : layer :=
  {| l_inst := []; l_cls := cls_shared getitems_fix |}.

Inductive who :=
| Own        (* answered by the cached dataset itself *)
| Fwd        (* forwarded: answered by the wrapped dataset *)
| Missing.   (* AttributeError *)

(* getattr(cached, name).  [base_has name] = the wrapped dataset answers getattr(wrapped, name).
     def __getattr__(self, item):
         if item == "dataset":
             return getattr(super(), item)          # AttributeError: this stops the recursion on a blank instance
         return getattr(self.dataset, item)         # self.dataset: normal lookup, else __getattr__("dataset") raises *)
Definition resolve (L : layer) (inherited : list string) (base_has : string -> bool) (name : string) : who :=
  if smem name (l_inst L) || smem name (l_cls L) || smem name inherited then Own
  else if name =? "dataset" then Missing
  else if smem "dataset" (l_inst L) || smem "dataset" (l_cls L) || smem "dataset" inherited
       then (if base_has name then Fwd else Missing)
       else Missing.

(* `self.transform` inside CachedDataset.__getitem__ *)
Inductive tsel :=
| TPost      (* the constructor's post-cache transform (possibly None = no transform) *)
| TWrapped   (* the wrapped dataset's own `transform` attribute - which already ran inside wrapped[i] *)
| TError.
Definition getitem_transform (L : layer) (inherited : list string) (base_has : string -> bool) : tsel :=
  match resolve L inherited base_has "transform" with Own => TPost | Fwd => TWrapped | Missing => TError end.

(* torch/utils/data/_utils/fetch.py, _MapDatasetFetcher.fetch with automatic batching (TRUSTED, foreign code):
     if hasattr(self.dataset, "__getitems__") and self.dataset.__getitems__:
         data = self.dataset.__getitems__(possibly_batched_index)
     else:
         data = [self.dataset[idx] for idx in possibly_batched_index]
   [base_has "__getitems__"] = the wrapped dataset has a usable (truthy) __getitems__. *)
Inductive route :=
| ViaCache   (* every sample of the batch is cached[idx] *)
| Bypass.    (* the batch comes from wrapped.__getitems__: neither cache nor post-cache transform are involved *)
Definition fetch_route (L : layer) (inherited : list string) (base_has : string -> bool) : route :=
  match resolve L inherited base_has "__getitems__" with Fwd => Bypass | _ => ViaCache end.

Definition who_code (w : who) : nat := match w with Own => 0 | Fwd => 1 | Missing => 2 end.

(* The accesses a DataLoader (num_workers = 0, or one worker process p) makes for a list of batches when the
   fetch goes through the cache: own __getitems__ is [self[idx] for idx in indices], the fallback of the fetcher is
   [dataset[idx] for idx in batch] - either way cached[idx] for every index of every batch, in order. *)
From KD Require Import C19.Model.
Definition loader_hist (p : nat) (batches : list (list BinNums.Z)) : list (nat * cmd) :=
  List.map (fun i => (p, CGet i)) (List.concat batches).
