(* C03 — what every wrapper promises about its selection, as executable predicates on
   (class layout, arguments, selected sample ids).  No implementation vocabulary: only
   the class of a sample, how often a sample / a class occurs in the selection, and
   list operations (filter, ++, repeat). *)
From Coq Require Import ZArith List Bool.
Import ListNotations.
From KD Require Import C03.Model.
Open Scope Z_scope.

Section Spec.
  Variable classes : list Z.      (* label of sample 0, 1, ... *)
  Let n := zlen classes.

  Definition cls (i : Z) : Z := nth (Z.to_nat i) classes (-1).
  Definition all_ids : list Z := zrange 0 n.
  (* how often sample i is selected *)
  Definition occ (i : Z) (out : list Z) : Z := zlen (filter (Z.eqb i) out).
  (* how many selected samples have class c *)
  Definition class_occ (c : Z) (out : list Z) : Z := zlen (filter (fun i => cls i =? c) out).
  Definition in_range (out : list Z) : bool := forallb (fun i => (0 <=? i) && (i <? n)) out.

  Definition list_eqb (a b : list Z) : bool :=
    (Nat.eqb (length a) (length b)) && forallb (fun '(x, y) => x =? y) (combine a b).

  (* a permutation of all samples: every sample exactly once *)
  Definition is_permutation (out : list Z) : bool :=
    in_range out && forallb (fun i => occ i out =? 1) all_ids.

  (* non-decreasing class, ties in original order (strictly increasing id) *)
  Fixpoint sorted_stable (out : list Z) : bool :=
    match out with
    | [] => true
    | i :: r =>
        match r with
        | [] => true
        | j :: _ => ((cls i <? cls j) || ((cls i =? cls j) && (i <? j))) && sorted_stable r
        end
    end.

  (* ClassFilterWrapper: exactly the samples with an allowed class, original order *)
  Definition spec_class_filter (allowed : Z -> bool) : list Z :=
    filter (fun i => allowed (cls i)) all_ids.

  (* ranges: contiguous block a, a+1, ..., b-1 *)
  Definition is_block (a b : Z) (out : list Z) : bool := list_eqb out (zrange a b).

  (* RepeatWrapper: k whole copies *)
  Definition copies (k : Z) : list Z := concat (repeat all_ids (Z.to_nat k)).

  (* oversampling: every sample kept; multiply: each sample of a present class c is taken
     q_c = floor(max/count_c) times, so max/2 < count'_c <= max *)
  Definition keeps_all (out : list Z) : bool := forallb (fun i => 1 <=? occ i out) all_ids.

  (* an unlabeled sample (label -1) belongs to no class: selected exactly once *)
  Definition unlabeled_once (out : list Z) : bool :=
    forallb (fun i => if cls i =? -1 then occ i out =? 1 else true) all_ids.

  Definition class_ids (C : Z) : list Z := zrange 0 C.

  Definition balanced_multiply (C : Z) (out : list Z) : bool :=
    let mx := zmax (map (fun c => count_of c classes) (class_ids C)) in
    forallb (fun c => let cnt := count_of c classes in
                      if cnt =? 0 then class_occ c out =? 0
                      else (mx <? 2 * class_occ c out) && (class_occ c out <=? mx)
                           && forallb (fun i => if cls i =? c then occ i out =? mx / cnt else true) all_ids)
            (class_ids C).

  Definition balanced_exact (C : Z) (out : list Z) : bool :=
    let mx := zmax (map (fun c => count_of c classes) (class_ids C)) in
    forallb (fun c => let cnt := count_of c classes in
                      if cnt =? 0 then class_occ c out =? 0
                      else (class_occ c out =? mx)
                           && forallb (fun i => if cls i =? c
                                                then (mx / cnt <=? occ i out) && (occ i out <=? mx / cnt + 1)
                                                else true) all_ids)
            (class_ids C).

  (* few-shot: min(shots, count_c) distinct samples of every class up to the largest label *)
  Definition no_dup (out : list Z) : bool := forallb (fun i => occ i out <=? 1) out.

  Fixpoint class_sorted (out : list Z) : bool :=
    match out with
    | [] => true
    | i :: r => match r with [] => true | j :: _ => (cls i <=? cls j) && class_sorted r end
    end.

  Definition fewshot_ok (shots : Z) (out : list Z) : bool :=
    let nc := zmax (map (fun c => c + 1) classes) in
    in_range out && no_dup out && class_sorted out
    && forallb (fun c => class_occ c out =? Z.min shots (count_of c classes)) (class_ids nc).

  (* class-wise subsets: rank of a sample inside its class = number of earlier samples of
     the same class; the selection takes, class after class, the samples whose rank lies in
     [lo, hi) where the bounds may depend on the class's size *)
  Definition rank (i : Z) : Z := zlen (filter (fun j => cls j =? cls i) (zrange 0 i)).

  Definition spec_classwise (lo hi : Z -> Z) (C : Z) : list Z :=
    concat (map (fun c => let cnt := count_of c classes in
                          filter (fun i => (cls i =? c) && (lo cnt <=? rank i) && (rank i <? hi cnt)) all_ids)
                (class_ids C)).
End Spec.

(* ClassFilterWrapper by name.  The name of class c; None when c is no class of the dataset (e.g. -1 = unlabeled) *)
Definition class_name (class_names : list String.string) (c : Z) : option String.string :=
  if c <? 0 then None else nth_error class_names (Z.to_nat c).

(* the class carries one of the requested names *)
Definition name_requested (class_names names : list String.string) (c : Z) : bool :=
  match class_name class_names c with
  | Some nm => existsb (String.eqb nm) names
  | None => false
  end.

(* valid_class_names: exactly the samples whose class carries a requested name; invalid_class_names: exactly the others *)
Definition spec_class_filter_names (classes : list Z) (valid : bool) (class_names names : list String.string) : list Z :=
  spec_class_filter classes (fun c => Bool.eqb (name_requested class_names names c) valid).
