(* C09 - worker initialisation over dataset stacks: units, ownership, erasure.
   MODEL + SPEC only, no proofs (ProofsC09.v has them).

   RngGraph.v has the traversal `worker_init` (dataset classes forward, every KDWrapper runs its own
   _worker_init_fn and then the wrapped dataset, the root dataset seeds one generator for its registered
   collators; every fresh generator is `Wrk k`, k = how many seeds the worker's global NumPy RNG had handed out
   before) and `stack_draws` (all generators samples and batches of the stack can draw from).  Here:
     - UNITS: one per member of a called transform field of a wrapper (that top-level transform and everything
       nested in it share the one generator KDTransform.worker_init_fn creates), one for the collators of a root, and
       one per wrapper for the draws of its own per-item code (MUGS / mix wrapper without seed: a process-global source);
     - who OWNS the k-th worker seed;
     - the stack without its generator slots (what the copies held by all workers, and the parent, have in common). *)
From Coq Require Import ZArith List Bool String.
Import ListNotations.
From KD Require Import C07.RngGraph C07.ModelC08.

Definition kids_units (tbl : table) (calls : list string) (kids : list (string * list tree)) : list (list prov) :=
  flat_map (fun fk : string * list tree => if mem (fst fk) calls then map (draws tbl) (snd fk) else []) kids.

(* the wrapper's own (unseeded-path) draws are a unit of their own, in front of the units of its transform fields *)
Definition wobj_units (tbl : table) (wt : wtable) (w : wobj) : list (list prov) :=
  match w with WObj c kids =>
    own_draws wt c ::
    match wlookup wt c with
    | Some d => kids_units tbl (w_calls d) kids
    | None => []
    end
  end.

(* the draws of every unit of the stack, in stack order *)
Fixpoint stack_units (tbl ctbl : table) (wt : wtable) (s : dstack) : list (list prov) :=
  match s with
  | DRoot cs => [flat_map (draws ctbl) cs]
  | DWrap w inner => wobj_units tbl wt w ++ stack_units tbl ctbl wt inner
  | DFwd _ inner => flat_map (stack_units tbl ctbl wt) inner
  end.

Definition has_wrk (j : nat) (u : list prov) : bool := existsb (prov_eqb (Wrk j)) u.

(* how many units draw from the generator seeded with the j-th draw of the worker's global RNG *)
Definition owners (j : nat) (us : list (list prov)) : nat := List.length (filter (has_wrk j) us).

Definition is_wrk (p : prov) : bool := match p with Wrk _ => true | _ => false end.

(* no generator of the stack is worker-derived yet: the state of the copy a worker inherits from the parent *)
Definition inherited (tbl ctbl : table) (wt : wtable) (s : dstack) : bool :=
  forallb (fun u => forallb (fun p => negb (is_wrk p)) u) (stack_units tbl ctbl wt s).

(* the top-level traversal of a list of stacks (the loop of KDConcatDataset / _InterleavedConcatDataset) *)
Fixpoint wi_list (tbl ctbl : table) (wt : wtable) (ds : dsdesc) (k : nat) (l : list dstack) : nat * list dstack :=
  match l with
  | [] => (k, [])
  | x :: l' =>
      let '(k1, x') := worker_init tbl ctbl wt ds k x in
      let '(k2, r) := wi_list tbl ctbl wt ds k1 l' in (k2, x' :: r)
  end.

(* a class that is not listed does not forward: the stack below it keeps the inherited generators.  The theorem is
   therefore about stacks whose forwarding nodes are all of listed classes. *)
Fixpoint fwd_known (ds : dsdesc) (s : dstack) : bool :=
  match s with
  | DRoot _ => true
  | DWrap _ inner => fwd_known ds inner
  | DFwd c inner => match assoc c (ds_fwd ds) with Some _ => true | None => false end && forallb (fwd_known ds) inner
  end.

(* a HISTORY of earlier runs of the hook on the same object: in the parent before the workers were forked / the copies
   pickled (a manual call for num_workers = 0, an earlier launch on the same dataset object), or earlier in the same
   worker; run j started when the global NumPy RNG of the process it ran in had handed out ks[j] seeds *)
Fixpoint wi_history (tbl ctbl : table) (wt : wtable) (ds : dsdesc) (ks : list nat) (s : dstack) : dstack :=
  match ks with
  | [] => s
  | k' :: r => wi_history tbl ctbl wt ds r (snd (worker_init tbl ctbl wt ds k' s))
  end.

(* erasure of all generator slots *)
Fixpoint serase (s : dstack) : dstack :=
  match s with
  | DRoot cs => DRoot (map erase cs)
  | DWrap w inner => DWrap (werase w) (serase inner)
  | DFwd c inner => DFwd c (map serase inner)
  end.

(* preorder slots of a stack (correspondence check) *)
Fixpoint stack_slots (s : dstack) : list (option prov) :=
  match s with
  | DRoot cs => flat_map slots cs
  | DWrap w inner => wslots w ++ stack_slots inner
  | DFwd _ inner => flat_map stack_slots inner
  end.
