(* C10 -- property theorems about the model of the (repaired) KDMixCollator.
   All hold for every batch size, image size, mode combination, probability split and every draw
   sequence satisfying the generator's contract (Spec.trace_ok) and every non-negative half box size. *)
From Coq Require Import ZArith QArith Qround List Bool Lia Lqa Permutation.
Import ListNotations.
From KD Require Import C10.Model C10.Spec C10.Proofs.
Open Scope Z_scope.

(* image and label of sample i are mixed with the same partner (no contract on the draws needed) *)
Theorem partner_shared : forall c hv tr r tr',
  collate c hv tr = Ok (r, tr') ->
  forall ls, labs r = Some ls ->
  forall i, (i < bsz c)%nat -> partner_of (nth i (imgs r) Keep) = Some (fst (nth i ls (0%nat, 0%Q))).
Proof. exact partner_shared_l. Qed.
Print Assumptions partner_shared.

(* retained pixel fraction of the image (counted pixel by pixel) = label weight = lambda reported in ctx *)
Theorem weight_shared : forall c hv tr r tr',
  cfg_ok c -> trace_ok tr -> halves_ok hv -> collate c hv tr = Ok (r, tr') ->
  forall i, (i < bsz c)%nat ->
    (retained_fraction (img_h c) (img_w c) (nth i (imgs r) Keep) == lam_of r i)%Q /\
    (forall ls, labs r = Some ls -> (snd (nth i ls (0%nat, 0%Q)) == lam_of r i)%Q).
Proof. exact weight_shared_l. Qed.
Print Assumptions weight_shared.

(* every pasted box lies inside the image: 0 <= top <= bot <= h, 0 <= left <= right <= w *)
Theorem bbox_in_bounds : forall c hv tr r tr',
  trace_ok tr -> halves_ok hv -> collate c hv tr = Ok (r, tr') ->
  forall i p b, (i < bsz c)%nat -> nth i (imgs r) Keep = Cut p b -> box_in_bounds (img_h c) (img_w c) b.
Proof. exact bbox_in_bounds_l. Qed.
Print Assumptions bbox_in_bounds.

(* the code's  1 - (bot-top)*(right-left)/(h*w)  is the fraction of pixels not overwritten *)
Theorem lambda_adjusted_is_area_fraction : forall h w p b,
  0 < h -> 0 < w -> box_in_bounds h w b ->
  (lamb_adjusted h w b == retained_fraction h w (Cut p b))%Q.
Proof. exact lambda_adjusted_is_area_fraction_l. Qed.
Print Assumptions lambda_adjusted_is_area_fraction.

(* the weight reported in the context is a weight: inside [0,1] *)
Theorem lambda_in_unit_interval : forall c hv tr r tr',
  cfg_ok c -> trace_ok tr -> halves_ok hv -> collate c hv tr = Ok (r, tr') ->
  forall i, (i < bsz c)%nat -> (0 <= lam_of r i)%Q /\ (lam_of r i <= 1)%Q.
Proof. exact lambda_in_unit_l. Qed.
Print Assumptions lambda_in_unit_interval.

(* mixed rows of a matrix of probability vectors (one-hot rows in particular) are probability vectors *)
Theorem rows_sum_to_one : forall c hv tr r tr' Y,
  cfg_ok c -> trace_ok tr -> halves_ok hv -> collate c hv tr = Ok (r, tr') ->
  label_matrix_ok (bsz c) Y ->
  forall ls, labs r = Some ls -> forall i, (i < bsz c)%nat ->
    let row := render_label Y i (nth i ls (0%nat, 0%Q)) in
    (qsum row == 1)%Q /\ Forall (fun x => (0 <= x)%Q) row.
Proof. exact rows_sum_to_one_l. Qed.
Print Assumptions rows_sum_to_one.

(* the label formula for ARBITRARY rational label rows (multi-hot rows, unnormalised soft rows, all-zero rows, rows of -1,
   negative entries -- no premise on the row sums): entry j of the emitted label row of sample i is
   lambda_i * y_i[j] + (1 - lambda_i) * y_p(i)[j]  with p(i) the partner the shuffle mode prescribes and lambda_i the weight
   reported in the context (and used for the image: weight_shared); nothing is rescaled *)
Theorem mixed_label_is_convex_combination_of_rows : forall c hv tr r tr' (Y : list (list Q)),
  cfg_ok c -> trace_ok tr -> halves_ok hv -> collate c hv tr = Ok (r, tr') ->
  forall ls, labs r = Some ls ->
  exists perm, (shuf c = Random -> bsz c <> 1%nat -> In (DPerm perm) tr /\ Permutation perm (seq 0 (bsz c))) /\
    forall i, (i < bsz c)%nat ->
      let p := mode_partner (shuf c) (bsz c) perm i in
      let row := render_label Y i (nth i ls (0%nat, 0%Q)) in
      length (nth i Y []) = length (nth p Y []) ->
      length row = length (nth i Y []) /\
      forall j, (j < length (nth i Y []))%nat ->
        (nth j row 0 == lam_of r i * nth j (nth i Y []) 0 + (1 - lam_of r i) * nth j (nth p Y []) 0)%Q.
Proof. exact mixed_label_is_convex_combination_of_rows_l. Qed.
Print Assumptions mixed_label_is_convex_combination_of_rows.

(* the partner is the one the shuffle mode prescribes: roll (i-1) mod B, flip B-1-i, random perm[i] for the
   ONE permutation drawn in this call (a permutation of 0..B-1); B = 1: the sample itself *)
Theorem p_follows_mode : forall c hv tr r tr',
  trace_ok tr -> collate c hv tr = Ok (r, tr') ->
  exists perm, (shuf c = Random -> bsz c <> 1%nat -> In (DPerm perm) tr /\ Permutation perm (seq 0 (bsz c))) /\
    forall i, (i < bsz c)%nat ->
      partner_of (nth i (imgs r) Keep) = Some (mode_partner (shuf c) (bsz c) perm i) /\
      (mode_partner (shuf c) (bsz c) perm i < bsz c)%nat.
Proof. exact p_follows_mode_l. Qed.
Print Assumptions p_follows_mode.

(* every item of the batch tuple whose name is neither x nor class is returned unchanged, the tuple keeps its length
   (single-item mode 'x': the batch is the image tensor itself, Model.set_item returns the value) *)
Theorem other_items_untouched : forall c hv Y batch ctx tr ob ctx' r tr',
  collate_batch c hv Y batch ctx tr = Ok ((ob, ctx', r), tr') ->
  (length (tokens c) > 1)%nat ->
  length ob = length batch /\
  forall j t, nth_error (tokens c) j = Some t -> t <> TX -> t <> TClass -> nth_error ob j = nth_error batch j.
Proof. exact other_items_untouched_l. Qed.
Print Assumptions other_items_untouched.

(* the context: every entry the dataset recorded (collated before this collator, any key other than the collator's
   own three) is returned as it was; "apply", "use_cutmix", "lambda" hold what was used *)
Theorem ctx_entries_untouched_and_reported : forall c hv Y batch ctx tr ob ctx' r tr',
  collate_batch c hv Y batch ctx tr = Ok ((ob, ctx', r), tr') ->
  (forall k, ctx_get (KUser k) ctx' = ctx_get (KUser k) ctx) /\
  ctx_get KApply ctx' = Some (VBools (ctx_apply r)) /\
  ctx_get KCutmix ctx' = Some (VBools (ctx_cutmix r)) /\
  ctx_get KLambda ctx' = Some (VLams (ctx_lambda r)).
Proof. exact ctx_entries_l. Qed.
Print Assumptions ctx_entries_untouched_and_reported.

(* ---------- size of the pasted box ---------- *)
(* Spec.half_spec (integer square root of floor((1-lambda) h^2 / 4)) IS floor(0.5*sqrt(1-lambda)*h): it satisfies the
   defining inequalities 4 hh^2 <= (1-lambda) h^2 < 4 (hh+1)^2, and only one integer does *)
Theorem half_spec_correct : forall lam h, (lam <= 1)%Q -> half_ok lam h (half_spec lam h).
Proof. exact half_spec_correct_l. Qed.
Print Assumptions half_spec_correct.

Theorem half_ok_unique : forall lam h a b, half_ok lam h a -> half_ok lam h b -> a = b.
Proof. exact half_ok_unique_l. Qed.
Print Assumptions half_ok_unique.

(* before clipping the box covers the fraction 1 - lambda of the image up to the floor error: never more, and less by
   at most 2/h + 2/w + 4/(h w) *)
Theorem unclipped_box_area_close_to_one_minus_lambda : forall lam h w hh wh,
  0 < h -> 0 < w -> (0 <= lam)%Q -> (lam <= 1)%Q -> half_ok lam h hh -> half_ok lam w wh ->
  (unclipped_fraction h w hh wh <= 1 - lam)%Q /\
  (1 - lam - unclipped_fraction h w hh wh < (2 # 1) / inject_Z h + (2 # 1) / inject_Z w + (4 # 1) / inject_Z (h * w))%Q.
Proof. exact unclipped_box_area_l. Qed.
Print Assumptions unclipped_box_area_close_to_one_minus_lambda.

(* hence the corrected weight (Model.lamb_adjusted of the clamped box, which is what label and ctx use) is never below
   the drawn lambda, and for a box that does not touch the border it exceeds it by less than the floor error *)
Theorem corrected_lambda_close_to_drawn : forall lam h w ch cw hh wh,
  0 < h -> 0 < w -> (0 <= lam)%Q -> (lam <= 1)%Q -> half_ok lam h hh -> half_ok lam w wh ->
  0 <= ch < h -> 0 <= cw < w ->
  (lam <= lamb_adjusted h w (clamp_box h w ch cw (hh, wh)))%Q /\
  (hh <= ch -> ch + hh <= h -> wh <= cw -> cw + wh <= w ->
   (lamb_adjusted h w (clamp_box h w ch cw (hh, wh)) - lam
    < (2 # 1) / inject_Z h + (2 # 1) / inject_Z w + (4 # 1) / inject_Z (h * w))%Q).
Proof. exact corrected_lambda_close_l. Qed.
Print Assumptions corrected_lambda_close_to_drawn.

(* ---------- what is rejected ---------- *)
(* every exception is the explicit rejection of an input outside the domain: an odd batch under flip, labels that are
   neither rows nor scalars in [0,1], images that are not (C, H, W) where a box is needed, integer images where a
   mixup is needed, 0-d samples, no image item, a multi-view image item (Proofs.explained; EDraw / EItem are artefacts of the model) *)
Theorem errors_explained : forall c hv Y batch ctx tr e,
  collate_batch c hv Y batch ctx tr = Err e -> explained c Y e.
Proof. exact errors_explained_l. Qed.
Print Assumptions errors_explained.

(* ... and inside the domain (Proofs.in_domain) nothing is rejected *)
Theorem in_domain_not_rejected : forall c hv Y batch ctx tr e,
  in_domain c Y -> collate_batch c hv Y batch ctx tr = Err e -> e = EDraw \/ e = EItem.
Proof. exact in_domain_not_rejected_l. Qed.
Print Assumptions in_domain_not_rejected.

(* ---------- non-vacuity: the premises are satisfiable and the interesting branches are reached ---------- *)
Definition c_ex : cfg := {| bsz := 3; img_h := 4; img_w := 6; mixup_p := 1 # 2; cutmix_p := 1 # 2; total_p := 1;
  mixup_alpha := Some (4 # 5); cutmix_alpha := Some 1%Q; apply_mode := PerSample; lamb_mode := PerSample;
  shuf := Random; tokens := [TIndex; TX; TClass]; x_rank := 3; x_float := true; lab_ndim := 2; x_views := 0 |}.
Definition tr_ex : trace :=
  [DUnits [1 # 3; 0; 9 # 10]%Q; DUnits [1 # 4; 3 # 4; 0]%Q; DBetas (4 # 5) [1 # 2; 1 # 3; 1]%Q;
   DBetas 1 [1 # 5; 1 # 2; 0]%Q; DInts 4 [0; 3; 2]; DInts 6 [5; 0; 3]; DPerm [1; 0; 2]%nat].
Definition hv_ex : list (Z * Z) := [(1, 2); (1, 2); (2, 3)].

Example premises_satisfiable : cfg_ok c_ex /\ trace_ok tr_ex /\ halves_ok hv_ex.
Proof.
  split. { unfold cfg_ok; simpl. repeat split; try lia; try (unfold Qle; simpl; lia); reflexivity. }
  split.
  - unfold tr_ex. repeat constructor; simpl; try lia; try (unfold Qle, Qlt; simpl; lia).
  - repeat constructor; simpl; lia.
Qed.

Example collate_example :
  exists r, collate c_ex hv_ex tr_ex = Ok (r, []) /\
    imgs r = [Cut 1 (0, 3, 1, 6); Mix 0 (1 # 3); Cut 2 (0, 0, 4, 6)] /\
    labs r = Some [(1%nat, 1 - 3 / 24); (0%nat, 1 # 3); (2%nat, 1 - 24 / 24)]%Q.
Proof. eexists. split; [vm_compute; reflexivity|]. split; reflexivity. Qed.

Definition Y_ex : list (list Q) := [[1; 0; 0]; [0; 1; 0]; [0; 0; 1]]%Q.
Example collate_batch_example :
  exists r tr', collate_batch c_ex hv_ex Y_ex [IOther [7; 8; 9]; IOther []; IOther []] [(KUser 0, VRaw [4; 5; 6])] tr_ex = Ok ((
     [IOther [7; 8; 9]; IX [Cut 1 (0, 3, 1, 6); Mix 0 (1 # 3); Cut 2 (0, 0, 4, 6)];
      IY [(1%nat, 21 # 24); (0%nat, 1 # 3); (2%nat, 0 # 24)] 2],
     [(KUser 0, VRaw [4; 5; 6]); (KApply, VBools [true; true; true]); (KCutmix, VBools [true; false; true]);
      (KLambda, VLams [21 # 24; 1 # 3; 0 # 24])], r), tr').
Proof. eexists. eexists. vm_compute. reflexivity. Qed.

(* the half sizes of the example are the prescribed ones for the drawn lambdas 1/5, 1/2, 0 on a 4 x 6 image
   (0.5*sqrt(0.8)*4 = 1.78.., 0.5*sqrt(0.8)*6 = 2.68.., ..., 0.5*sqrt(1)*6 = 3) *)
Example half_spec_example :
  map (fun l => (half_spec l 4, half_spec l 6)) [1 # 5; 1 # 2; 0]%Q = hv_ex.
Proof. vm_compute. reflexivity. Qed.

(* rejections: an odd batch under flip, class indices as labels, a 3-d batch (no channel) that needs a box, an integer
   image that needs a mixup *)
Example rejections :
  (exists e, collate_batch {| bsz := 3; img_h := 4; img_w := 4; mixup_p := 1; cutmix_p := 0; total_p := 1;
      mixup_alpha := Some 1%Q; cutmix_alpha := None; apply_mode := PerBatch; lamb_mode := PerBatch; shuf := Flip;
      tokens := [TX; TClass]; x_rank := 3; x_float := true; lab_ndim := 2; x_views := 0 |} [] Y_ex [IOther []; IOther []] []
      [DUnit 0; DUnit (1 # 2); DBeta 1 (1 # 2)] = Err e /\ e = EAssertFlip) /\
  (exists e, collate_batch (Build_cfg 2 4 4 1 0 1 (Some 1%Q) None PerBatch PerBatch Roll [TX; TClass] 3 true 1 0)
      [] [[0]; [2]]%Q [IOther []; IOther []] [] [] = Err e /\ e = EAssertLabel) /\
  (exists e, collate_batch (Build_cfg 2 4 4 0 1 1 None (Some 1%Q) PerBatch PerBatch Roll [TX] 2 true 2 0)
      [(1, 1)] [] [IOther []] [] [DUnit 0; DUnit 0; DBeta 1 (1 # 2)] = Err e /\ e = EUnpack) /\
  (exists e, collate_batch (Build_cfg 2 4 4 1 0 1 (Some 1%Q) None PerBatch PerBatch Roll [TX] 3 false 2 0)
      [] [] [IOther []] [] [DUnit 0; DUnit 0; DBeta 1 (1 # 2)] = Err e /\ e = ECast).
Proof. repeat split; eexists; (split; [vm_compute; reflexivity|reflexivity]). Qed.

(* a multi-view image item (two views per sample) is rejected before any draw, in the single-item mode "x" (where the
   unrepaired get_item read the list of views as a batch of several items and mixed view 0 only) and in "class x" *)
Example multi_view_rejected :
  (exists e, collate_batch (Build_cfg 2 4 4 1 0 1 (Some 1%Q) None PerBatch PerBatch Roll [TX] 3 true 2 2)
      [] [] [IOther []] [] [DUnit 0; DUnit 0; DBeta 1 (1 # 2)] = Err e /\ e = EMultiView) /\
  (exists e, collate_batch (Build_cfg 2 4 4 1 0 1 (Some 1%Q) None PerBatch PerBatch Roll [TClass; TX] 3 true 2 3)
      [] [[0]; [2]]%Q [IOther []; IOther []] [] [] = Err e /\ e = EMultiView).
Proof. repeat split; eexists; (split; [vm_compute; reflexivity|reflexivity]). Qed.

Example in_domain_example : in_domain c_ex Y_ex.
Proof. repeat split; try reflexivity. intro H. discriminate. Qed.

Example label_matrix_example : label_matrix_ok 3 Y_ex.
Proof.
  exists 3%nat. intros k Hk. destruct k as [|[|[|k]]]; try lia; simpl;
    (split; [reflexivity|split; [reflexivity|repeat constructor; unfold Qle; simpl; lia]]).
Qed.
