(* C14 — proofs.  All statements hold for every size and every draw list that
   satisfies the generator contract; arithmetic by lia/nia with div/mod lemmas. *)
From Coq Require Import ZArith List Bool Lia ZifyBool QArith FinFun.
Import ListNotations.
From KD Require Import C14.Model C14.Spec.
Open Scope Z_scope.

Ltac zdm := Z.to_euclidean_division_equations.
Ltac splits := repeat match goal with |- _ /\ _ => split end.

(* ---------------- draws ---------------- *)
Lemma next_int_ok : forall A lo hi ds (k : Z -> list draw -> res A) a,
  next_int lo hi ds k = Ok a -> draws_ok ds ->
  exists v ds', ds = (lo, hi, v) :: ds' /\ lo <= v < hi /\ draws_ok ds' /\ k v ds' = Ok a.
Proof.
  intros A lo hi ds k a H D. unfold next_int in H.
  destruct (hi <=? lo) eqn:E; [discriminate|].
  destruct ds as [|[[lo' hi'] v] ds']; [discriminate|].
  destruct ((lo =? lo') && (hi =? hi')) eqn:E2; [|discriminate].
  apply andb_true_iff in E2. destruct E2 as [E2 E3].
  apply Z.eqb_eq in E2. apply Z.eqb_eq in E3. subst lo' hi'.
  inversion D; subst. exists v, ds'. splits; auto; unfold draw_ok in *; lia.
Qed.

Lemma done_ok : forall A ds (a b : A), done ds a = Ok b -> ds = [] /\ a = b.
Proof. intros A ds a b H. destruct ds; [inversion H; auto|discriminate]. Qed.

Lemma bind_ok : forall A B (r : res A) (f : A -> res B) b,
  bind r f = Ok b -> exists a, r = Ok a /\ f a = Ok b.
Proof. intros A B r f b H. destruct r; try discriminate. exists a. auto. Qed.

Lemma Ok_inj : forall A (a b : A), Ok a = Ok b -> a = b.
Proof. intros A a b H. congruence. Qed.

(* ---------------- crops ---------------- *)
Lemma get_params_ok : forall th tw h w ds p ds',
  0 <= th -> 0 <= tw -> draws_ok ds ->
  get_params th tw h w ds = Ok (p, ds') ->
  in_bounds h w p /\ has_size th tw p /\ draws_ok ds'.
Proof.
  intros th tw h w ds p ds' Hth Htw D G. unfold get_params in G.
  destruct ((h + 1 <? th) || (w + 1 <? tw)) eqn:E1; [discriminate|].
  destruct ((w =? tw) && (h =? th)) eqn:E2.
  - inversion G; subst. cbn. splits; auto; lia.
  - apply next_int_ok in G; auto. destruct G as (i & ds1 & -> & Hi & D1 & G).
    apply next_int_ok in G; auto. destruct G as (j & ds2 & -> & Hj & D2 & G).
    inversion G; subst. cbn. splits; auto; lia.
Qed.

Lemma pad_steps_nonneg : forall c H W,
  match c_padding c with Some p => pad_nonneg p | None => True end ->
  Forall pad_nonneg (pad_steps c H W).
Proof.
  intros c H W P. unfold pad_steps.
  apply Forall_app; split; [|apply Forall_app; split].
  - destruct (c_padding c); [constructor; auto|constructor].
  - destruct (c_pin c && _) eqn:E; constructor; [|constructor]. cbn. lia.
  - destruct (c_pin c && _) eqn:E; constructor; [|constructor]. cbn. lia.
Qed.

(* pad_if_needed makes the padded image at least as large as the crop *)
Lemma pad_if_needed_fits : forall c H W,
  c_pin c = true ->
  c_th c <= fst (padded_dims c H W) /\ c_tw c <= snd (padded_dims c H W).
Proof.
  intros c H W P. unfold padded_dims, pad_steps. rewrite P. cbn [andb].
  rewrite !fold_left_app.
  set (hw1 := fold_left pad_dims match c_padding c with Some p => [p] | None => [] end (H, W)).
  destruct hw1 as [H1 W1] eqn:E. cbn [fst snd].
  destruct (W1 <? c_tw c) eqn:E1; destruct (H1 <? c_th c) eqn:E2; cbn; lia.
Qed.

Lemma random_crop_ok : forall c H W ds Hp Wp p,
  0 <= c_th c -> 0 <= c_tw c -> draws_ok ds ->
  random_crop c H W ds = Ok (Hp, Wp, p) ->
  (Hp, Wp) = padded_dims c H W /\ in_bounds Hp Wp p /\ has_size (c_th c) (c_tw c) p.
Proof.
  intros c H W ds Hp Wp p Hth Htw D R. unfold random_crop in R.
  destruct (padded_dims c H W) as [Hp' Wp'].
  apply bind_ok in R. destruct R as ([p' ds'] & G & R).
  apply done_ok in R. destruct R as [-> R]. inversion R; subst.
  apply get_params_ok in G; auto. tauto.
Qed.

Lemma next_int_no_reject1 : forall A lo hi ds (k : Z -> list draw -> res A),
  (forall v ds', k v ds' <> Reject 1) -> next_int lo hi ds k <> Reject 1.
Proof.
  intros A lo hi ds k K. unfold next_int.
  destruct (hi <=? lo); [discriminate|].
  destruct ds as [|[[lo' hi'] v] ds']; [discriminate|].
  destruct ((lo =? lo') && (hi =? hi')); [apply K|discriminate].
Qed.

(* get_params never raises the "larger than input" error when the crop fits *)
Lemma get_params_no_reject1 : forall th tw h w ds,
  th <= h + 1 -> tw <= w + 1 -> get_params th tw h w ds <> Reject 1.
Proof.
  intros th tw h w ds A B. unfold get_params.
  destruct ((h + 1 <? th) || (w + 1 <? tw)) eqn:E1; [lia|].
  destruct ((w =? tw) && (h =? th)); [discriminate|].
  apply next_int_no_reject1. intros i ds1. apply next_int_no_reject1. intros j ds2. discriminate.
Qed.

(* when the crop fits the (padded) image no error is raised at all *)
Lemma get_params_fits_no_reject : forall th tw h w ds c,
  th <= h -> tw <= w -> get_params th tw h w ds <> Reject c.
Proof.
  intros th tw h w ds c A B. unfold get_params.
  destruct ((h + 1 <? th) || (w + 1 <? tw)) eqn:E1; [lia|].
  destruct ((w =? tw) && (h =? th)); [discriminate|].
  unfold next_int. destruct (h - th + 1 <=? 0) eqn:E2; [lia|].
  destruct ds as [|[[lo hi] v] ds1]; [discriminate|].
  destruct ((0 =? lo) && (h - th + 1 =? hi)); [|discriminate].
  destruct (w - tw + 1 <=? 0) eqn:E3; [lia|].
  destruct ds1 as [|[[lo2 hi2] v2] ds2]; [discriminate|].
  destruct ((0 =? lo2) && (w - tw + 1 =? hi2)); discriminate.
Qed.

Lemma random_crop_fits_no_reject : forall c H W ds k,
  c_th c <= fst (padded_dims c H W) -> c_tw c <= snd (padded_dims c H W) ->
  random_crop c H W ds <> Reject k.
Proof.
  intros c H W ds k A B. unfold random_crop.
  destruct (padded_dims c H W) as [Hp Wp]. cbn [fst snd] in *.
  pose proof (get_params_fits_no_reject (c_th c) (c_tw c) Hp Wp ds k A B) as G.
  destruct (get_params (c_th c) (c_tw c) Hp Wp ds) as [[p ds']| |]; cbn.
  - destruct ds'; discriminate.
  - intro E. inversion E; subst. congruence.
  - discriminate.
Qed.

Lemma random_crop_pin_no_reject : forall c H W ds k,
  c_pin c = true -> random_crop c H W ds <> Reject k.
Proof.
  intros c H W ds k P. destruct (pad_if_needed_fits c H W P). apply random_crop_fits_no_reject; auto.
Qed.

Lemma random_crop_pin_no_reject1 : forall c H W ds,
  c_pin c = true -> random_crop c H W ds <> Reject 1.
Proof.
  intros c H W ds P. unfold random_crop.
  pose proof (pad_if_needed_fits c H W P) as F.
  destruct (padded_dims c H W) as [Hp Wp]. cbn [fst snd] in F.
  pose proof (get_params_no_reject1 (c_th c) (c_tw c) Hp Wp ds ltac:(lia) ltac:(lia)) as G.
  destruct (get_params (c_th c) (c_tw c) Hp Wp ds) as [[p ds']| |]; cbn.
  - destruct ds'; discriminate.
  - intro E. inversion E; subst. congruence.
  - discriminate.
Qed.

Lemma simple_random_crop_ok : forall size c H W ds H1 W1 Hp Wp p,
  0 <= c_th c -> 0 <= c_tw c -> draws_ok ds ->
  simple_random_crop size c H W ds = Ok (H1, W1, (Hp, Wp, p)) ->
  (H1, W1) = resize_dims size H W /\ (Hp, Wp) = padded_dims c H1 W1 /\
  in_bounds Hp Wp p /\ has_size (c_th c) (c_tw c) p.
Proof.
  intros size c H W ds H1 W1 Hp Wp p Hth Htw D R. unfold simple_random_crop in R.
  destruct (resize_dims size H W) as [H1' W1'].
  apply bind_ok in R. destruct R as ([[Hp' Wp'] p'] & R & E). inversion E; subst.
  split; [reflexivity|]. eapply random_crop_ok; eauto.
Qed.

(* the second crop of KDTwoRandomCrop *)
Lemma two_loop_ok : forall fuel cnt tries omin omax th tw h w p0 ds o ds',
  0 <= th -> 0 <= tw -> draws_ok ds ->
  two_loop fuel cnt tries omin omax th tw h w p0 ds = Ok (o, ds') ->
  t_p0 o = p0 /\ in_bounds h w (t_p1 o) /\ has_size th tw (t_p1 o) /\ draws_ok ds' /\
  (t_inter o, t_union o) = overlap_parts p0 (t_p1 o) /\ t_union o <> 0 /\
  (t_oot o = false ->
     qz_le omin (t_inter o, t_union o) = true /\ qz_le (t_inter o, t_union o) omax = true).
Proof.
  induction fuel as [|f IH]; intros cnt tries omin omax th tw h w p0 ds o ds' Hth Htw D T; [discriminate|].
  cbn [two_loop] in T. apply bind_ok in T. destruct T as ([p1 ds1] & G & T).
  apply get_params_ok in G; auto. destruct G as (B & S & D1).
  destruct (overlap_parts p0 p1) as [inter union] eqn:EO.
  destruct (union =? 0) eqn:EU; [discriminate|].
  destruct (qz_le omin (inter, union) && qz_le (inter, union) omax) eqn:EQ.
  - inversion T; subst. cbn. apply andb_true_iff in EQ. splits; auto; try tauto. lia.
  - destruct (cnt + 1 >=? tries) eqn:EC.
    + inversion T; subst. cbn. splits; auto; try discriminate. lia.
    + eapply IH in T; eauto.
Qed.

Lemma two_random_crop_ok : forall c tries omin omax H W ds Hp Wp o,
  0 <= c_th c -> 0 <= c_tw c -> draws_ok ds ->
  two_random_crop c tries omin omax H W ds = Ok (Hp, Wp, o) ->
  (Hp, Wp) = padded_dims c H W /\
  in_bounds Hp Wp (t_p0 o) /\ has_size (c_th c) (c_tw c) (t_p0 o) /\
  in_bounds Hp Wp (t_p1 o) /\ has_size (c_th c) (c_tw c) (t_p1 o) /\
  (t_inter o, t_union o) = overlap_parts (t_p0 o) (t_p1 o) /\ t_union o <> 0 /\
  (t_oot o = false ->
     qz_le omin (t_inter o, t_union o) = true /\ qz_le (t_inter o, t_union o) omax = true).
Proof.
  intros c tries omin omax H W ds Hp Wp o Hth Htw D R. unfold two_random_crop in R.
  destruct (padded_dims c H W) as [Hp' Wp'].
  apply bind_ok in R. destruct R as ([p0 ds0] & G & R).
  apply bind_ok in R. destruct R as ([o' ds1] & T & R).
  apply done_ok in R. destruct R as [-> R]. inversion R; subst.
  apply get_params_ok in G; auto. destruct G as (B0 & S0 & D0).
  apply two_loop_ok in T; auto. destruct T as (E0 & B1 & S1 & _ & EO & U & Q).
  rewrite E0 in *. splits; auto; tauto.
Qed.

(* the recorded intersection is the area of the geometric intersection: 0 <= inter <= min(area0, area1) *)
Lemma overlap_parts_bounds : forall p0 p1 inter union,
  (let '(_, _, h0, w0) := p0 in 0 <= h0 /\ 0 <= w0) ->
  (let '(_, _, h1, w1) := p1 in 0 <= h1 /\ 0 <= w1) ->
  overlap_parts p0 p1 = (inter, union) ->
  0 <= inter /\ inter <= union.
Proof.
  intros [[[i0 j0] h0] w0] [[[i1 j1] h1] w1] inter union [A0 A1] [B0 B1] E.
  unfold overlap_parts, inter_ijkl in E. inversion E; subst; clear E.
  set (a := Z.max 0 (Z.min (i0 + h0) (i1 + h1) - Z.max i0 i1)).
  set (b := Z.max 0 (Z.min (j0 + w0) (j1 + w1) - Z.max j0 j1)).
  assert (0 <= a <= h0) by (unfold a; lia). assert (0 <= b <= w0) by (unfold b; lia).
  assert (a <= h1) by (unfold a; lia). assert (b <= w1) by (unfold b; lia).
  clearbody a b. assert (0 <= a * b) by nia. assert (a * b <= h0 * w0) by nia.
  assert (a * b <= h1 * w1) by nia. lia.
Qed.

(* ---------------- resized crop ---------------- *)
Lemma rrc_attempts_some : forall fuel H W cands w h,
  rrc_attempts fuel H W cands = Ok (Some (w, h)) -> 0 < w <= W /\ 0 < h <= H.
Proof.
  induction fuel as [|f IH]; intros H W cands w h R; cbn in R.
  - destruct cands; discriminate.
  - destruct cands as [|[w' h'] cs]; [discriminate|].
    destruct ((0 <? w') && (w' <=? W) && (0 <? h') && (h' <=? H)) eqn:E.
    + destruct cs; [|discriminate]. inversion R; subst. lia.
    + eauto.
Qed.

Lemma rrc_fallback_in_bounds : forall H W rmin rmax fb r,
  0 <= H -> 0 <= W -> 0 < fst rmin -> 0 < snd rmin -> 0 < fst rmax -> 0 < snd rmax ->
  fb_contract H W rmin rmax fb r ->
  in_bounds H W (rrc_fallback H W fb r) /\
  (0 < H -> 0 < W -> (fb = FbWhole \/ 1 <= r) -> positive (rrc_fallback H W fb r)).
Proof.
  intros H W [n0 d0] [n1 d1] fb r HH HW A B C D F. cbn [fst snd] in *.
  unfold rrc_fallback, fb_contract, round_ok in *. cbn [fst snd] in *.
  destruct fb.
  - destruct F as [F1 [F2 F3]].
    assert (0 <= r) by nia. assert (r <= H) by nia.
    cbn. replace (W - W) with 0 by lia. rewrite Z.div_0_l by lia.
    assert (0 <= (H - r) / 2) by (apply Z.div_pos; lia).
    assert ((H - r) / 2 + r <= H) by (zdm; lia).
    split; [lia|]. intros ? ? [?|?]; [discriminate|lia].
  - destruct F as [F1 [F2 F3]].
    assert (0 <= r) by nia. assert (r <= W) by nia.
    cbn. replace (H - H) with 0 by lia. rewrite Z.div_0_l by lia.
    assert (0 <= (W - r) / 2) by (apply Z.div_pos; lia).
    assert ((W - r) / 2 + r <= W) by (zdm; lia).
    split; [lia|]. intros ? ? [?|?]; [discriminate|lia].
  - cbn. replace (H - H) with 0 by lia. replace (W - W) with 0 by lia. cbn.
    split; [lia|]. intros; lia.
Qed.

Lemma rrc_ok : forall H W rmin rmax cands ds fb r p,
  0 <= H -> 0 <= W -> 0 < fst rmin -> 0 < snd rmin -> 0 < fst rmax -> 0 < snd rmax ->
  draws_ok ds -> fb_contract H W rmin rmax fb r ->
  rrc H W cands ds fb r = Ok p ->
  in_bounds H W p /\ (0 < H -> 0 < W -> (fb = FbWhole \/ 1 <= r) -> positive p).
Proof.
  intros H W rmin rmax cands ds fb r p HH HW A B C D Dr F R. unfold rrc in R.
  apply bind_ok in R. destruct R as (o & At & R). destruct o as [[w h]|].
  - apply rrc_attempts_some in At.
    apply next_int_ok in R; auto. destruct R as (i & ds1 & -> & Hi & D1 & R).
    apply next_int_ok in R; auto. destruct R as (j & ds2 & -> & Hj & D2 & R).
    apply done_ok in R. destruct R as [_ <-]. cbn. splits; lia.
  - apply done_ok in R. destruct R as [_ <-]. apply (rrc_fallback_in_bounds H W rmin rmax fb r); auto.
Qed.

(* the sampled branch needs no contract at all: the guard 0 < w <= W, 0 < h <= H is sufficient *)
Lemma rrc_sampled_ok : forall H W cands ds fb r w h p,
  draws_ok ds -> rrc_attempts 10 H W cands = Ok (Some (w, h)) ->
  rrc H W cands ds fb r = Ok p ->
  in_bounds H W p /\ positive p /\ has_size h w p.
Proof.
  intros H W cands ds fb r w h p Dr At R. unfold rrc in R. rewrite At in R. cbn [bind] in R.
  apply rrc_attempts_some in At.
  apply next_int_ok in R; auto. destruct R as (i & ds1 & -> & Hi & D1 & R).
  apply next_int_ok in R; auto. destruct R as (j & ds2 & -> & Hj & D2 & R).
  apply done_ok in R. destruct R as [_ <-]. cbn. splits; lia.
Qed.

(* ---------------- erasing ---------------- *)
Definition cand_nonneg (c : Z * Z) : Prop := 0 <= fst c /\ 0 <= snd c.

Lemma erase_rect_ok : forall fuel H W cands ds o cs ds',
  Forall cand_nonneg cands -> draws_ok ds ->
  erase_rect fuel H W cands ds = Ok (o, cs, ds') ->
  Forall cand_nonneg cs /\ draws_ok ds' /\
  match o with Some p => erase_ok H W p | None => True end.
Proof.
  induction fuel as [|f IH]; intros H W cands ds o cs ds' C D E; cbn in E.
  - inversion E; subst. auto.
  - destruct cands as [|[h w] cs0]; [discriminate|]. inversion C as [|? ? [C1 C2] C3]; subst. cbn in C1, C2.
    destruct ((w <? W) && (h <? H)) eqn:G.
    + apply next_int_ok in E; auto. destruct E as (top & ds1 & -> & Ht & D1 & E).
      apply next_int_ok in E; auto. destruct E as (lft & ds2 & -> & Hl & D2 & E).
      inversion E; subst. split; [auto|]. split; [auto|]. cbn. lia.
    + eauto.
Qed.

Lemma erase_rects_ok : forall n H W cands ds l,
  Forall cand_nonneg cands -> draws_ok ds ->
  erase_rects n H W cands ds = Ok l -> Forall (erase_ok H W) l /\ (length l <= n)%nat.
Proof.
  induction n as [|m IH]; intros H W cands ds l C D E; cbn [erase_rects] in E.
  - destruct cands; [|discriminate]. apply done_ok in E. destruct E as [_ <-]. split; auto.
  - apply bind_ok in E. destruct E as ([[o cs] ds1] & R & E).
    apply erase_rect_ok in R; auto. destruct R as (C1 & D1 & O).
    apply bind_ok in E. destruct E as (l' & R' & E). inversion E; subst.
    apply IH in R'; auto. destruct R' as [F L]. destruct o; split; auto; cbn; lia.
Qed.

Lemma erasing_ok : forall apply minc maxc H W cands ds l,
  Forall cand_nonneg cands -> draws_ok ds ->
  erasing apply minc maxc H W cands ds = Ok l ->
  Forall (erase_ok H W) l /\ (length l <= Z.to_nat (Z.max minc (maxc - 1)))%nat /\ (apply = false -> l = []).
Proof.
  intros apply minc maxc H W cands ds l C D E. unfold erasing in E.
  destruct apply; cbn [negb] in E.
  - destruct (minc =? maxc) eqn:EM.
    + destruct (minc =? 0) eqn:E0; [discriminate|].
      apply erase_rects_ok in E; auto. destruct E as [F L]. splits; auto; [lia|discriminate].
    + apply next_int_ok in E; auto. destruct E as (n & ds1 & -> & Hn & D1 & E).
      destruct (n =? 0) eqn:E0; [discriminate|].
      apply erase_rects_ok in E; auto. destruct E as [F L]. splits; auto; [lia|discriminate].
  - destruct cands; [|discriminate]. apply done_ok in E. destruct E as [_ <-]. splits; auto; cbn; lia.
Qed.

(* ---------------- spec augment ---------------- *)
From Coq Require Import Lqa.

Lemma q_trunc_nonneg : forall q, (0 <= q)%Q -> 0 <= q_trunc q /\ (inject_Z (q_trunc q) <= q)%Q.
Proof.
  intros [n d] Hq. unfold Qle in Hq. cbn in Hq. unfold q_trunc. cbn [Qnum Qden].
  assert (0 <= n) by lia.
  rewrite Z.quot_div_nonneg by lia. split.
  - apply Z.div_pos; lia.
  - unfold Qle, inject_Z. cbn. pose proof (Z.mul_div_le n (Zpos d) ltac:(lia)). lia.
Qed.

Lemma q_trunc_small_neg : forall q, (-1 < q)%Q -> (q <= 0)%Q -> q_trunc q = 0.
Proof.
  intros [n d] H1 H2. unfold Qlt, Qle in *. cbn in *. unfold q_trunc. cbn [Qnum Qden].
  assert (n = - (- n)) as -> by lia. rewrite Z.quot_opp_l by lia.
  rewrite Z.quot_small by lia. reflexivity.
Qed.

Lemma inject_Z_lt_inv : forall a b, (inject_Z a < inject_Z b + 1)%Q -> a <= b.
Proof. intros a b H. unfold Qlt, inject_Z, Qplus in H. cbn in H. lia. Qed.

Lemma mask_axis_ok : forall size P value y minv s e,
  specaug_contract size P value y minv ->
  mask_axis P value minv = Ok (Some (s, e)) ->
  1 <= P /\ 0 <= e - s < P /\ (P <= size -> 0 <= s /\ e <= size).
Proof.
  intros size P value y minv s e (V0 & V1 & Y0 & Y1 & M) E. unfold mask_axis in E.
  destruct (P <? 1) eqn:EP; [discriminate|].
  destruct (q_trunc minv + q_trunc value - q_trunc minv <? P) eqn:EL; [|discriminate].
  inversion E; subst; clear E.
  destruct (q_trunc_nonneg value V0) as [T0 T1].
  split; [lia|]. split; [lia|]. intros PS.
  assert (inject_Z P <= inject_Z size)%Q as PSq by (rewrite <- Zle_Qle; lia).
  destruct M as [[M0 M1]|[M0 M1]].
  - destruct (q_trunc_nonneg minv M0) as [S0 S1]. split; [lia|].
    apply inject_Z_lt_inv. rewrite inject_Z_plus. lra.
  - rewrite q_trunc_small_neg; auto; [|lra]. split; [lia|].
    rewrite Zle_Qle. rewrite inject_Z_plus. change (inject_Z 0) with 0%Q. lra.
Qed.

(* whatever the oracle values: a masked index is an index of the axis *)
Lemma masked_inside : forall size m k, masked size m k = true -> 0 <= k < size.
Proof. intros size [[s e]|] k H; cbn in H; [lia|discriminate]. Qed.

Lemma masked_iff : forall size s e k,
  masked size (Some (s, e)) k = true <-> 0 <= k < size /\ s <= k < e.
Proof. intros. cbn. lia. Qed.

(* ---------------- semantic segmentation pairs ---------------- *)
Lemma apply_geom_same : forall g x seg,
  same_geometry x seg -> same_geometry (apply_geom g x) (apply_geom g seg).
Proof.
  intros g x seg (Eh & Ew & Es). destruct g as [[[[l t] r] b]|[[[top lft] h] w]|nh nw| |]; cbn;
    unfold same_geometry; cbn; rewrite <- ?Eh, <- ?Ew; splits; auto; intros; rewrite ?Es; reflexivity.
Qed.

Lemma semseg_run_same : forall ops x seg ds gs x' seg',
  same_geometry x seg -> semseg_run ops x seg ds = Ok (gs, x', seg') -> same_geometry x' seg'.
Proof.
  induction ops as [|o ops IH]; intros x seg ds gs x' seg' S R; cbn in R.
  - apply done_ok in R. destruct R as [_ R]. inversion R; subst. auto.
  - apply bind_ok in R. destruct R as ([g ds1] & St & R).
    apply bind_ok in R. destruct R as ([[gs1 x1] seg1] & R & E). inversion E; subst.
    eapply IH in R; eauto. apply apply_geom_same; auto.
Qed.

Lemma gimg_id_same : forall H W, same_geometry (gimg_id H W) (gimg_id H W).
Proof. intros. unfold same_geometry. auto. Qed.

Lemma semseg_crop_params_ok : forall th tw H W ds p ds',
  0 <= th -> 0 <= tw -> 0 <= H -> 0 <= W -> draws_ok ds ->
  semseg_crop_params th tw H W ds = Ok (p, ds') ->
  in_bounds H W p /\ has_size (Z.min H th) (Z.min W tw) p /\ draws_ok ds'.
Proof.
  intros th tw H W ds p ds' A B C D Dr E. unfold semseg_crop_params in E.
  apply next_int_ok in E; auto. destruct E as (top & ds1 & -> & Ht & D1 & E).
  apply next_int_ok in E; auto. destruct E as (lft & ds2 & -> & Hl & D2 & E).
  inversion E; subst. cbn. splits; auto; lia.
Qed.

Lemma semseg_crop_loop_ok : forall n th tw H W p ds p' ds',
  0 <= th -> 0 <= tw -> 0 <= H -> 0 <= W -> draws_ok ds ->
  in_bounds H W p /\ has_size (Z.min H th) (Z.min W tw) p ->
  semseg_crop_loop n th tw H W p ds = Ok (p', ds') ->
  in_bounds H W p' /\ has_size (Z.min H th) (Z.min W tw) p' /\ draws_ok ds'.
Proof.
  induction n as [|m IH]; intros th tw H W p ds p' ds' A B C D Dr I E; cbn in E.
  - inversion E; subst. tauto.
  - apply bind_ok in E. destruct E as ([p1 ds1] & G & E).
    apply semseg_crop_params_ok in G; auto. destruct G as (G1 & G2 & G3).
    eapply IH in E; eauto.
Qed.

Lemma semseg_pad_params_ok : forall th tw H W,
  pad_nonneg (semseg_pad_params th tw H W) /\
  pad_dims (H, W) (semseg_pad_params th tw H W) = (Z.max H th, Z.max W tw).
Proof.
  intros. unfold semseg_pad_params, pad_dims, pad_nonneg. cbn [fst snd].
  set (ph := Z.max 0 (th - H)). set (pw := Z.max 0 (tw - W)).
  assert (0 <= ph) by (unfold ph; lia). assert (0 <= pw) by (unfold pw; lia).
  destruct (ph mod 2 =? 1) eqn:E1; destruct (pw mod 2 =? 1) eqn:E2;
    (split; [splits; try (apply Z.div_pos; lia); zdm; lia | f_equal; unfold ph, pw in *; zdm; lia]).
Qed.

Lemma semseg_step_ok : forall o H W ds g ds',
  sop_wf o -> 0 <= H -> 0 <= W -> draws_ok ds ->
  semseg_step o H W ds = Ok (g, ds') ->
  geom_ok g H W /\ draws_ok ds' /\ 0 <= fst (geom_dims g (H, W)) /\ 0 <= snd (geom_dims g (H, W)) /\
  match o with
  | SPad th tw => geom_dims g (H, W) = (Z.max H th, Z.max W tw)
  | SCrop th tw _ => geom_dims g (H, W) = (Z.min H th, Z.min W tw)
  | SRandResize nh nw _ _ _ | SResize nh nw _ _ _ => geom_dims g (H, W) = (nh, nw)
  | SFlip _ | SOther => geom_dims g (H, W) = (H, W)
  end.
Proof.
  intros o H W ds g ds' Wf HH HW D E. destruct o; cbn in E, Wf.
  - inversion E; subst. destruct (semseg_pad_params_ok th tw H W) as [P1 P2].
    cbn [geom_ok geom_dims]. rewrite P2. cbn [fst snd]. splits; auto; lia.
  - destruct (nn_okb k H nh my && nn_okb k W nw mx); [|discriminate].
    inversion E; subst. cbn. splits; auto; lia.
  - inversion E; subst. destruct applied; cbn; splits; auto.
  - destruct (10 <? Z.of_nat redraws); [discriminate|].
    apply bind_ok in E. destruct E as ([p ds1] & G & E).
    apply semseg_crop_params_ok in G; try lia; auto. destruct G as (G1 & G2 & G3).
    apply bind_ok in E. destruct E as ([p2 ds2] & L & E). inversion E; subst.
    eapply semseg_crop_loop_ok in L; eauto; try lia. destruct L as (L1 & L2 & L3).
    destruct p2 as [[[i j] h] w]. cbn in *. destruct L2 as [-> ->]. splits; auto; lia.
  - destruct (nn_okb k H nh my && nn_okb k W nw mx); [|discriminate].
    inversion E; subst. cbn. splits; auto; lia.
  - inversion E; subst. cbn. splits; auto.
Qed.

Lemma apply_geom_dims : forall g im, (gh (apply_geom g im), gw (apply_geom g im)) = geom_dims g (gh im, gw im).
Proof. intros [[[[l t] r] b]|[[[top lft] h] w]|nh nw my mx| |] im; reflexivity. Qed.

Lemma semseg_run_geoms_ok : forall ops x seg ds gs x' seg',
  Forall sop_wf ops -> 0 <= gh x -> 0 <= gw x -> draws_ok ds ->
  semseg_run ops x seg ds = Ok (gs, x', seg') ->
  geoms_ok gs (gh x, gw x) /\ (gh x', gw x') = fold_left (fun hw g => geom_dims g hw) gs (gh x, gw x).
Proof.
  induction ops as [|o ops IH]; intros x seg ds gs x' seg' Wf HH HW D R; cbn in R.
  - apply done_ok in R. destruct R as [_ R]. inversion R; subst. cbn. auto.
  - inversion Wf; subst.
    apply bind_ok in R. destruct R as ([g ds1] & St & R).
    apply bind_ok in R. destruct R as ([[gs1 x1] seg1] & R & E). inversion E; subst.
    apply semseg_step_ok in St; auto. destruct St as (G & D1 & P1 & P2 & _).
    pose proof (apply_geom_dims g x) as AD.
    eapply IH in R; eauto.
    + destruct R as [R1 R2]. cbn [geoms_ok fold_left fst snd]. rewrite <- AD. auto.
    + rewrite <- AD in P1. exact P1.
    + rewrite <- AD in P2. exact P2.
Qed.

(* ---- recorded nearest-neighbour index maps ---- *)
Lemma nn_entries_spec : forall k n_in n_out m i0,
  0 <= i0 -> nn_entries_okb k n_in n_out i0 m = true ->
  forall j, (j < length m)%nat ->
    let v := nth j m (-1) in let i := i0 + Z.of_nat j in
    0 <= v /\ (v = nn_nominal k n_in n_out i \/ (v = nn_nominal k n_in n_out i - 1 /\ nn_tie k n_in n_out i = true)).
Proof.
  intros k n_in n_out. induction m as [|v m IH]; intros i0 H0 E j Hj; [cbn in Hj; lia|].
  cbn [nn_entries_okb] in E. apply andb_true_iff in E. destruct E as [E E3].
  apply andb_true_iff in E. destruct E as [E1 E2].
  destruct j as [|j].
  - cbn. rewrite Z.add_0_r. split; [lia|].
    apply orb_true_iff in E2. destruct E2 as [E2|E2]; [left; lia|right].
    apply andb_true_iff in E2. destruct E2 as [E2 E4]. split; [lia|exact E4].
  - cbn [nth]. cbn in Hj. specialize (IH (i0 + 1) ltac:(lia) E3 j ltac:(lia)).
    replace (i0 + Z.of_nat (S j)) with (i0 + 1 + Z.of_nat j) by lia. exact IH.
Qed.

Lemma nn_okb_sound : forall k n_in n_out m, nn_okb k n_in n_out m = true -> nn_ok k n_in n_out m.
Proof.
  intros k n_in n_out m E. unfold nn_okb in E. apply andb_true_iff in E. destruct E as [E1 E2].
  apply Z.eqb_eq in E1. split; auto. intros i Hi. unfold nn_at.
  destruct (i <? 0) eqn:E3; [lia|].
  pose proof (nn_entries_spec k n_in n_out m 0 ltac:(lia) E2 (Z.to_nat i) ltac:(lia)) as S.
  cbn zeta in S. rewrite Z2Nat.id in S by lia. rewrite Z.add_0_l in S. exact S.
Qed.

Lemma nn_nominal_range : forall k n_in n_out i, 0 < n_in -> 0 <= i < n_out ->
  0 <= nn_nominal k n_in n_out i < n_in.
Proof.
  intros k n_in n_out i Pin Hi. destruct k; unfold nn_nominal.
  - split; [apply Z.div_pos; nia | apply Z.div_lt_upper_bound; nia].
  - split; [apply Z.div_pos; nia | apply Z.div_lt_upper_bound; nia].
Qed.

(* a map that satisfies the contract stays inside the source axis *)
Lemma nn_ok_in_range : forall k n_in n_out m i, 0 < n_in -> nn_ok k n_in n_out m -> 0 <= i < n_out ->
  0 <= nn_at m i < n_in.
Proof.
  intros k n_in n_out m i Pin [_ C] Hi. destruct (C i Hi) as [L [E|[E _]]];
    pose proof (nn_nominal_range k n_in n_out i Pin Hi); lia.
Qed.

(* pixels shown after any sequence of pad / crop / resize / flip come from inside the input *)
Lemma apply_geom_sources : forall H0 W0 g im,
  match g with GResize nh nw my mx =>
    forall y x, 0 <= y < nh -> 0 <= x < nw -> 0 <= nn_at my y < gh im /\ 0 <= nn_at mx x < gw im | _ => True end ->
  sources_inside H0 W0 im -> sources_inside H0 W0 (apply_geom g im).
Proof.
  intros H0 W0 g im P S. destruct g as [[[[l t] r] b]|[[[top lft] h] w]|nh nw my mx| |]; unfold sources_inside in *; cbn; intros y x I.
  - destruct (inside (gh im) (gw im) (y - t) (x - l)) eqn:E; auto. apply S; auto.
  - destruct (inside (gh im) (gw im) (top + y) (lft + x)) eqn:E; auto. apply S; auto.
  - apply S. unfold inside in *.
    assert (0 <= y < nh /\ 0 <= x < nw) as [Hy Hx] by lia.
    destruct (P y x Hy Hx). lia.
  - apply S. unfold inside in *. lia.
  - apply S; auto.
Qed.

(* a resize step that the model accepts carries in-range maps *)
Lemma semseg_step_resize_maps : forall o H W ds nh nw my mx ds',
  0 < H -> 0 < W -> semseg_step o H W ds = Ok (GResize nh nw my mx, ds') ->
  forall y x, 0 <= y < nh -> 0 <= x < nw -> 0 <= nn_at my y < H /\ 0 <= nn_at mx x < W.
Proof.
  intros o H W ds nh nw my mx ds' PH PW E y x Hy Hx.
  assert (exists k, nn_okb k H nh my && nn_okb k W nw mx = true) as [k K].
  { destruct o; cbn in E; try discriminate.
    - destruct (nn_okb k H nh0 my0 && nn_okb k W nw0 mx0) eqn:K; [|discriminate]. inversion E; subst. eauto.
    - destruct applied; discriminate.
    - destruct (10 <? Z.of_nat redraws); [discriminate|].
      apply bind_ok in E. destruct E as ([p ds1] & _ & E). apply bind_ok in E. destruct E as ([p2 ds2] & _ & E). discriminate.
    - destruct (nn_okb k H nh0 my0 && nn_okb k W nw0 mx0) eqn:K; [|discriminate]. inversion E; subst. eauto. }
  apply andb_true_iff in K. destruct K as [K1 K2].
  apply nn_okb_sound in K1. apply nn_okb_sound in K2.
  split; eapply nn_ok_in_range; eauto.
Qed.

Definition sop_pos (o : sop) : Prop :=
  match o with
  | SPad th tw | SCrop th tw _ => 0 < th /\ 0 < tw
  | SRandResize nh nw _ _ _ | SResize nh nw _ _ _ => 0 < nh /\ 0 < nw
  | SFlip _ | SOther => True
  end.

Lemma sop_pos_wf : forall o, sop_pos o -> sop_wf o.
Proof. intros []; cbn; lia. Qed.

Lemma gimg_id_sources : forall H W, sources_inside H W (gimg_id H W).
Proof. intros H W y x I. cbn in *. exact I. Qed.

Lemma semseg_run_sources : forall H0 W0 ops x seg ds gs x' seg',
  Forall sop_pos ops -> 0 < gh x -> 0 < gw x -> draws_ok ds ->
  sources_inside H0 W0 x -> sources_inside H0 W0 seg -> same_geometry x seg ->
  semseg_run ops x seg ds = Ok (gs, x', seg') ->
  sources_inside H0 W0 x' /\ sources_inside H0 W0 seg' /\ 0 < gh x' /\ 0 < gw x'.
Proof.
  induction ops as [|o ops IH]; intros x seg ds gs x' seg' Wf HH HW D Sx Ss SG R; cbn in R.
  - apply done_ok in R. destruct R as [_ R]. inversion R; subst. auto.
  - inversion Wf as [|? ? Po Pr]; subst.
    apply bind_ok in R. destruct R as ([g ds1] & St & R).
    apply bind_ok in R. destruct R as ([[gs1 x1] seg1] & R & E). inversion E; subst.
    pose proof St as St'.
    apply semseg_step_ok in St'; auto using sop_pos_wf; try lia.
    destruct St' as (G & D1 & _ & _ & Dm).
    pose proof (apply_geom_dims g x) as AD.
    destruct SG as (Eh & Ew & Es).
    assert (0 < gh (apply_geom g x) /\ 0 < gw (apply_geom g x)) as [Q1 Q2].
    { assert (0 < fst (geom_dims g (gh x, gw x)) /\ 0 < snd (geom_dims g (gh x, gw x))).
      { destruct o; cbn in Po; rewrite Dm; cbn; lia. }
      rewrite <- AD in H. cbn in H. exact H. }
    eapply IH in R; eauto.
    + apply apply_geom_sources; auto. destruct g; auto.
      eapply semseg_step_resize_maps; eauto.
    + apply apply_geom_sources; auto. destruct g; auto. rewrite <- Eh, <- Ew.
      eapply semseg_step_resize_maps; eauto.
    + apply apply_geom_same. unfold same_geometry. auto.
Qed.

(* KDSemsegOverlappedMultiCrop: every window lies inside the image and has the crop size *)
Lemma multicrop_ok : forall ch cw H W l,
  0 < ch -> 0 < cw -> 0 < H -> 0 < W ->
  multicrop_windows ch cw H W = Ok l ->
  Forall (fun p => in_bounds H W p /\ has_size ch cw p) l /\ l <> [].
Proof.
  intros ch cw H W l Pch Pcw PH PW E. unfold multicrop_windows in E.
  destruct ((ch mod 2 =? 0) && (cw mod 2 =? 0)) eqn:E2; cbn [negb] in E; [|discriminate].
  destruct (ch =? 0) eqn:E3; [discriminate|].
  destruct (H mod ch =? 0) eqn:E4; cbn [negb] in E; [|discriminate].
  destruct (cw =? 0) eqn:E5; [discriminate|].
  destruct (W mod cw =? 0) eqn:E6; cbn [negb] in E; [|discriminate].
  apply Ok_inj in E. subst l.
  assert (1 <= ch / 2 /\ 2 * (ch / 2) = ch) as [Oh Eh] by (zdm; lia).
  assert (1 <= cw / 2 /\ 2 * (cw / 2) = cw) as [Ow Ew] by (zdm; lia).
  assert (ch <= H).
  { pose proof (Z.div_mod H ch ltac:(lia)). assert (H mod ch = 0) by lia.
    assert (1 <= H / ch) by (destruct (Z_lt_le_dec (H / ch) 1); [nia|lia]). nia. }
  assert (cw <= W).
  { pose proof (Z.div_mod W cw ltac:(lia)). assert (W mod cw = 0) by lia.
    assert (1 <= W / cw) by (destruct (Z_lt_le_dec (W / cw) 1); [nia|lia]). nia. }
  set (oh := ch / 2) in *. set (ow := cw / 2) in *.
  assert (0 <= (H - ch) / oh) by (apply Z.div_pos; lia).
  assert (0 <= (W - cw) / ow) by (apply Z.div_pos; lia).
  split.
  - apply Forall_forall. intros p Hp. apply in_flat_map in Hp. destruct Hp as (i & Hi & Hp).
    apply in_map_iff in Hp. destruct Hp as (j & <- & Hj). apply in_seq in Hi. apply in_seq in Hj.
    assert (Z.of_nat i <= (H - ch) / oh) by lia. assert (Z.of_nat j <= (W - cw) / ow) by lia.
    pose proof (Z.mul_div_le (H - ch) oh ltac:(lia)). pose proof (Z.mul_div_le (W - cw) ow ltac:(lia)).
    cbn. splits; try lia; nia.
  - destruct (Z.to_nat (1 + (H - ch) / oh)) as [|r] eqn:ER; [lia|].
    destruct (Z.to_nat (1 + (W - cw) / ow)) as [|c] eqn:EC; [lia|].
    cbn. discriminate.
Qed.

(* ---------------- patchify / unpatchify ---------------- *)
Lemma div_mul_add : forall a b p, 0 <= p < b -> (a * b + p) / b = a /\ (a * b + p) mod b = p.
Proof.
  intros a b p Hp. split.
  - rewrite Z.div_add_l by lia. rewrite Z.div_small by lia. lia.
  - rewrite Z.add_comm. rewrite Z.mod_add by lia. apply Z.mod_small; lia.
Qed.

Lemma unpatchify_patchify_image : forall A ph pw lw (t : t3 A) c y x,
  0 < ph -> 0 < pw -> 0 <= x < lw * pw ->
  unpatchify_image ph pw lw (patchify_image ph pw lw t) c y x = t c y x.
Proof.
  intros A ph pw lw t c y x Pph Ppw Hx. unfold unpatchify_image, patchify_image.
  assert (0 <= x / pw < lw) as Hb.
  { split; [apply Z.div_pos; lia|apply Z.div_lt_upper_bound; lia]. }
  destruct (div_mul_add (y / ph) lw (x / pw) Hb) as [-> ->].
  f_equal.
  - pose proof (Z.div_mod y ph ltac:(lia)). lia.
  - pose proof (Z.div_mod x pw ltac:(lia)). lia.
Qed.

Lemma patchify_unpatchify_image : forall A ph pw lw (u : t4 A) c l p q,
  0 < lw -> 0 <= p < ph -> 0 <= q < pw ->
  patchify_image ph pw lw (unpatchify_image ph pw lw u) c l p q = u c l p q.
Proof.
  intros A ph pw lw u c l p q Plw Hp Hq. unfold unpatchify_image, patchify_image.
  destruct (div_mul_add (l / lw) ph p Hp) as [-> ->].
  destruct (div_mul_add (l mod lw) pw q Hq) as [-> ->].
  f_equal. pose proof (Z.div_mod l lw ltac:(lia)). lia.
Qed.

Lemma unpatchify_patchify : forall A ph pw (t : t3 A) c y x,
  0 < ph -> 0 < pw -> unpatchify ph pw (patchify ph pw t) c y x = t c y x.
Proof.
  intros A ph pw t c y x Pph Ppw. unfold unpatchify, patchify. f_equal.
  - pose proof (Z.div_mod y ph ltac:(lia)). lia.
  - pose proof (Z.div_mod x pw ltac:(lia)). lia.
Qed.

Lemma patchify_unpatchify : forall A ph pw (u : t5 A) c a b p q,
  0 <= p < ph -> 0 <= q < pw -> patchify ph pw (unpatchify ph pw u) c a b p q = u c a b p q.
Proof.
  intros A ph pw u c a b p q Hp Hq. unfold unpatchify, patchify.
  destruct (div_mul_add a ph p Hp) as [-> ->]. destruct (div_mul_add b pw q Hq) as [-> ->]. reflexivity.
Qed.

(* with the recorded lh, lw: the patch index and the in-patch offsets of every pixel are in range *)
Lemma patchify_params_ok : forall ph pw H W lh lw,
  0 < ph -> 0 < pw -> 0 <= H -> 0 <= W ->
  patchify_params ph pw H W = Ok (lh, lw) ->
  lh * ph = H /\ lw * pw = W /\
  forall y x, 0 <= y < H -> 0 <= x < W ->
    0 <= y / ph * lw + x / pw < lh * lw /\ 0 <= y mod ph < ph /\ 0 <= x mod pw < pw.
Proof.
  intros ph pw H W lh lw Pph Ppw HH HW E. unfold patchify_params in E.
  destruct ((H mod ph =? 0) && (W mod pw =? 0)) eqn:EM; [|discriminate]. inversion E; subst; clear E.
  assert (H / ph * ph = H) by (zdm; nia). assert (W / pw * pw = W) by (zdm; nia).
  splits; auto. intros y x Hy Hx.
  assert (0 <= y / ph < H / ph) by (split; [apply Z.div_pos; lia|apply Z.div_lt_upper_bound; lia]).
  assert (0 <= x / pw < W / pw) by (split; [apply Z.div_pos; lia|apply Z.div_lt_upper_bound; lia]).
  splits; try (apply Z.mod_pos_bound; lia); nia.
Qed.

(* ---------------- patch shuffle ---------------- *)
Lemma index_of_spec : forall perm j, In j perm ->
  0 <= index_of j perm < Z.of_nat (length perm) /\ nth (Z.to_nat (index_of j perm)) perm (-1) = j.
Proof.
  induction perm as [|x r IH]; intros j I; [destruct I|].
  cbn [index_of length]. destruct (x =? j) eqn:E.
  - apply Z.eqb_eq in E. subst. cbn. split; [lia|reflexivity].
  - destruct I as [->|I]; [rewrite Z.eqb_refl in E; discriminate|].
    destruct (IH j I) as [B N]. split; [lia|].
    replace (Z.to_nat (1 + index_of j r)) with (S (Z.to_nat (index_of j r))) by lia. cbn. exact N.
Qed.

Lemma argsort_length : forall perm, length (argsort perm) = length perm.
Proof. intros. unfold argsort. rewrite map_length, seq_length. reflexivity. Qed.

Lemma argsort_nth : forall perm l, 0 <= l < Z.of_nat (length perm) ->
  nth (Z.to_nat l) (argsort perm) (-1) = index_of l perm.
Proof.
  intros perm l Hl. unfold argsort.
  rewrite nth_indep with (d' := index_of (Z.of_nat 0) perm) by (rewrite map_length, seq_length; lia).
  rewrite map_nth with (f := fun j => index_of (Z.of_nat j) perm).
  rewrite seq_nth by lia. f_equal. lia.
Qed.

Lemma perm_argsort : forall perm l, is_perm perm -> 0 <= l < Z.of_nat (length perm) ->
  nth (Z.to_nat (nth (Z.to_nat l) (argsort perm) (-1))) perm (-1) = l.
Proof.
  intros perm l P Hl. rewrite argsort_nth by auto. apply index_of_spec. apply P. exact Hl.
Qed.

Lemma unshuffle_shuffle : forall A perm (u : t4 A) c l p q,
  is_perm perm -> 0 <= l < Z.of_nat (length perm) ->
  shuffle (argsort perm) (shuffle perm u) c l p q = u c l p q.
Proof. intros. unfold shuffle. rewrite perm_argsort; auto. Qed.

(* the argsort of a permutation is again a permutation of the same indices *)
Lemma argsort_in_range : forall perm l, is_perm perm -> 0 <= l < Z.of_nat (length perm) ->
  0 <= nth (Z.to_nat l) (argsort perm) (-1) < Z.of_nat (length perm).
Proof. intros perm l P Hl. rewrite argsort_nth by auto. apply index_of_spec. apply P. exact Hl. Qed.

(* the other order: a permutation (every index occurs, so none occurs twice) is undone from the left as well *)
Lemma is_perm_facts : forall perm, is_perm perm ->
  NoDup perm /\ forall v, In v perm -> 0 <= v < Z.of_nat (length perm).
Proof.
  intros perm P. set (L := map Z.of_nat (seq 0 (length perm))).
  assert (NL : NoDup L).
  { unfold L. apply FinFun.Injective_map_NoDup; [intros a b E; lia|apply seq_NoDup]. }
  assert (IL : incl L perm).
  { intros v Hv. unfold L in Hv. apply in_map_iff in Hv. destruct Hv as (n & <- & Hn). apply in_seq in Hn. apply P. lia. }
  assert (LL : (length perm <= length L)%nat) by (unfold L; rewrite map_length, seq_length; lia).
  split.
  - eapply NoDup_incl_NoDup; eauto.
  - intros v Hv. pose proof (NoDup_length_incl NL LL IL v Hv) as Hin.
    unfold L in Hin. apply in_map_iff in Hin. destruct Hin as (n & <- & Hn). apply in_seq in Hn. lia.
Qed.

Lemma index_of_nth : forall perm n, NoDup perm -> (n < length perm)%nat ->
  index_of (nth n perm (-1)) perm = Z.of_nat n.
Proof.
  induction perm as [|x r IH]; intros n ND Hn; [cbn in Hn; lia|].
  inversion ND as [|? ? Hx NDr]; subst. destruct n as [|n'].
  - cbn. rewrite Z.eqb_refl. reflexivity.
  - cbn [nth index_of length] in *. destruct (x =? nth n' r (-1)) eqn:E.
    + apply Z.eqb_eq in E. exfalso. apply Hx. rewrite E. apply nth_In. lia.
    + rewrite IH by (auto; lia). lia.
Qed.

Lemma shuffle_unshuffle : forall A perm (u : t4 A) c l p q,
  is_perm perm -> 0 <= l < Z.of_nat (length perm) ->
  shuffle perm (shuffle (argsort perm) u) c l p q = u c l p q.
Proof.
  intros A perm u c l p q P Hl. unfold shuffle.
  destruct (is_perm_facts perm P) as [ND RG].
  assert (In (nth (Z.to_nat l) perm (-1)) perm) as Hin by (apply nth_In; lia).
  rewrite argsort_nth by (apply RG; exact Hin).
  rewrite index_of_nth by (auto; lia). f_equal. lia.
Qed.

(* ---------------- norm / denorm ---------------- *)
Open Scope Q_scope.
Lemma denorm_norm : forall m s x, ~ s == 0 -> kd_denorm m s (kd_norm m s x) == x.
Proof. intros m s x S. unfold kd_denorm, kd_norm, tv_normalize. field. auto. Qed.

Lemma norm_denorm : forall m s x, ~ s == 0 -> kd_norm m s (kd_denorm m s x) == x.
Proof. intros m s x S. unfold kd_denorm, kd_norm, tv_normalize. field. auto. Qed.

Lemma range_denorm_norm : forall x, range_denorm (range_norm x) == x.
Proof. intros x. unfold range_denorm, range_norm, tv_normalize. field. Qed.

Lemma range_norm_denorm : forall x, range_norm (range_denorm x) == x.
Proof. intros x. unfold range_denorm, range_norm, tv_normalize. field. Qed.

(* KDImageRangeNorm is KDImageNorm with mean = std = 1/2 *)
Lemma range_is_half : forall x, range_norm x == kd_norm (1 # 2) (1 # 2) x /\ range_denorm x == kd_denorm (1 # 2) (1 # 2) x.
Proof. intros x. unfold range_denorm, range_norm, kd_norm, kd_denorm, tv_normalize. split; field. Qed.
Lemma range_both : forall x, range_denorm (range_norm x) == x /\ range_norm (range_denorm x) == x.
Proof. intro x. split; [apply range_denorm_norm|apply range_norm_denorm]. Qed.
Close Scope Q_scope.

Lemma is_perm_example : is_perm [2; 0; 3; 1].
Proof.
  intros l Hl. cbn in Hl.
  assert (l = 0 \/ l = 1 \/ l = 2 \/ l = 3) as HH by lia.
  destruct HH as [E|[E|[E|E]]]; subst l; cbn; auto.
Qed.

(* ====================================================================== *)
(* additions (round 2)                                                     *)
(* ====================================================================== *)

(* ---------------- nearest resize of a pair ---------------- *)
(* resizing image and mask with the same index maps keeps them aligned: at every output pixel both show the same
   source pixel.  Holds for ANY pair of maps (no contract needed): alignment only needs the two calls to use the
   same map, which is what "same library, same mode, same sizes" gives (checked per case: the maps measured for the
   image call and for the mask call are compared). *)
Lemma resize_same_geometry : forall nh nw my mx x seg,
  same_geometry x seg ->
  same_geometry (apply_geom (GResize nh nw my mx) x) (apply_geom (GResize nh nw my mx) seg) /\
  forall a b, gsrc (apply_geom (GResize nh nw my mx) x) a b = gsrc (apply_geom (GResize nh nw my mx) seg) a b.
Proof.
  intros nh nw my mx x seg S. pose proof (apply_geom_same (GResize nh nw my mx) x seg S) as S'.
  split; auto. destruct S' as (_ & _ & E). exact E.
Qed.

Lemma nn_okb_in_range : forall k n_in n_out m i, 0 < n_in -> nn_okb k n_in n_out m = true -> 0 <= i < n_out ->
  0 <= nn_at m i < n_in.
Proof.
  intros k n_in n_out m i P E. apply nn_ok_in_range with (k := k) (n_out := n_out); auto. apply nn_okb_sound; auto.
Qed.

(* where the NOMINAL nearest maps sample, relative to the centre c = (i + 1/2) * n_in / n_out - 1/2 (in source pixel
   coordinates, pixel k covering [k - 1/2, k + 1/2]) around which a bilinear / bicubic resize of the image interpolates.
   Stated with everything multiplied by 2 * n_out:   2 n_out (m - c) = 2 n_out m - (2 i + 1) n_in + n_out.
   PIL:   -1/2 < m - c <= 1/2            the mask shows the source pixel that contains the image's sampling centre;
   torch: -1/2 - s/2 < m - c <= 1/2 - s/2  with s = n_in / n_out: torch's legacy NEAREST is anchored at the pixel
          corner, so the mask lags the image by (s - 1) / 2 source pixels (= (1 - 1/s) / 2 < 1/2 OUTPUT pixels). *)
Lemma nn_grid_pil : forall n_in n_out i, 0 < n_out ->
  let m := nn_nominal NPil n_in n_out i in
  - n_out < 2 * n_out * m - (2 * i + 1) * n_in + n_out <= n_out.
Proof.
  intros n_in n_out i Po m. unfold m, nn_nominal.
  pose proof (Z.div_mod ((2 * i + 1) * n_in) (2 * n_out) ltac:(lia)).
  pose proof (Z.mod_pos_bound ((2 * i + 1) * n_in) (2 * n_out) ltac:(lia)). nia.
Qed.

Lemma nn_grid_torch : forall n_in n_out i, 0 < n_out ->
  let m := nn_nominal NTorch n_in n_out i in
  - n_out - n_in < 2 * n_out * m - (2 * i + 1) * n_in + n_out <= n_out - n_in.
Proof.
  intros n_in n_out i Po m. unfold m, nn_nominal.
  pose proof (Z.div_mod (i * n_in) n_out ltac:(lia)).
  pose proof (Z.mod_pos_bound (i * n_in) n_out ltac:(lia)). nia.
Qed.

(* ---------------- two-crop overlap ---------------- *)
Lemma overlap_parts_sym : forall p0 p1, overlap_parts p0 p1 = overlap_parts p1 p0.
Proof.
  intros [[[i0 j0] h0] w0] [[[i1 j1] h1] w1]. unfold overlap_parts, inter_ijkl.
  rewrite (Z.min_comm (i0 + h0)), (Z.max_comm i0), (Z.min_comm (j0 + w0)), (Z.max_comm j0). f_equal. lia.
Qed.

(* intersection / union lies in [0, 1]; it is 1 exactly when the windows coincide (non-empty windows of equal size) *)
Lemma overlap_parts_unit : forall i0 j0 i1 j1 h w inter union, 0 < h -> 0 < w ->
  overlap_parts (i0, j0, h, w) (i1, j1, h, w) = (inter, union) ->
  0 <= inter <= union /\ 0 < union /\ (inter = union <-> (i0 = i1 /\ j0 = j1)).
Proof.
  intros i0 j0 i1 j1 h w inter union Ph Pw E.
  unfold overlap_parts, inter_ijkl in E. inversion E; subst; clear E.
  set (a := Z.max 0 (Z.min (i0 + h) (i1 + h) - Z.max i0 i1)).
  set (b := Z.max 0 (Z.min (j0 + w) (j1 + w) - Z.max j0 j1)).
  assert (0 <= a <= h) by (unfold a; lia). assert (0 <= b <= w) by (unfold b; lia).
  assert (a = h <-> i0 = i1) by (unfold a; lia). assert (b = w <-> j0 = j1) by (unfold b; lia).
  clearbody a b. assert (0 <= a * b) by nia. assert (a * b <= h * w) by nia.
  split; [lia|]. split; [nia|]. split.
  - intro Eq. assert (a * b = h * w) by lia.
    assert (a = h) by nia. assert (b = w) by nia. tauto.
  - intros [E1 E2]. assert (a = h) by tauto. assert (b = w) by tauto. subst. lia.
Qed.

(* ---------------- multi crop: the windows cover the image ---------------- *)
Lemma multicrop_covers : forall ch cw H W l,
  0 < ch -> 0 < cw -> 0 < H -> 0 < W ->
  multicrop_windows ch cw H W = Ok l ->
  forall y x, 0 <= y < H -> 0 <= x < W ->
    exists top lft, In (top, lft, ch, cw) l /\ top <= y < top + ch /\ lft <= x < lft + cw.
Proof.
  intros ch cw H W l Pch Pcw PH PW E y x Hy Hx. unfold multicrop_windows in E.
  destruct ((ch mod 2 =? 0) && (cw mod 2 =? 0)) eqn:E2; cbn [negb] in E; [|discriminate].
  destruct (ch =? 0) eqn:E3; [discriminate|].
  destruct (H mod ch =? 0) eqn:E4; cbn [negb] in E; [|discriminate].
  destruct (cw =? 0) eqn:E5; [discriminate|].
  destruct (W mod cw =? 0) eqn:E6; cbn [negb] in E; [|discriminate].
  apply Ok_inj in E. subst l.
  assert (1 <= ch / 2 /\ 2 * (ch / 2) = ch) as [Oh Eh] by (zdm; lia).
  assert (1 <= cw / 2 /\ 2 * (cw / 2) = cw) as [Ow Ew] by (zdm; lia).
  set (oh := ch / 2) in *. set (ow := cw / 2) in *.
  (* H = kh * ch, W = kw * cw *)
  assert (exists kh, 1 <= kh /\ H = kh * ch) as (kh & Kh & EH).
  { exists (H / ch). pose proof (Z.div_mod H ch ltac:(lia)). assert (H mod ch = 0) by lia.
    assert (1 <= H / ch) by (destruct (Z_lt_le_dec (H / ch) 1); [nia|lia]). nia. }
  assert (exists kw, 1 <= kw /\ W = kw * cw) as (kw & Kw & EW).
  { exists (W / cw). pose proof (Z.div_mod W cw ltac:(lia)). assert (W mod cw = 0) by lia.
    assert (1 <= W / cw) by (destruct (Z_lt_le_dec (W / cw) 1); [nia|lia]). nia. }
  assert ((H - ch) / oh = 2 * kh - 2) as Rh.
  { replace (H - ch) with ((2 * kh - 2) * oh) by nia. apply Z.div_mul. lia. }
  assert ((W - cw) / ow = 2 * kw - 2) as Rw.
  { replace (W - cw) with ((2 * kw - 2) * ow) by nia. apply Z.div_mul. lia. }
  rewrite Rh, Rw.
  (* row / column of the window *)
  set (i := Z.min (y / oh) (2 * kh - 2)). set (j := Z.min (x / ow) (2 * kw - 2)).
  assert (0 <= y / oh) by (apply Z.div_pos; lia). assert (0 <= x / ow) by (apply Z.div_pos; lia).
  pose proof (Z.div_mod y oh ltac:(lia)). pose proof (Z.mod_pos_bound y oh ltac:(lia)).
  pose proof (Z.div_mod x ow ltac:(lia)). pose proof (Z.mod_pos_bound x ow ltac:(lia)).
  assert (0 <= i <= 2 * kh - 2) by (unfold i; lia). assert (0 <= j <= 2 * kw - 2) by (unfold j; lia).
  exists (i * oh), (j * ow). split.
  - apply in_flat_map. exists (Z.to_nat i). split.
    + apply in_seq. lia.
    + apply in_map_iff. exists (Z.to_nat j). split.
      * rewrite !Z2Nat.id by lia. reflexivity.
      * apply in_seq. lia.
  - unfold i, j. split.
    + destruct (Z_le_gt_dec (y / oh) (2 * kh - 2)); [rewrite Z.min_l by lia | rewrite Z.min_r by lia]; nia.
    + destruct (Z_le_gt_dec (x / ow) (2 * kw - 2)); [rewrite Z.min_l by lia | rewrite Z.min_r by lia]; nia.
Qed.

(* ---------------- PatchwiseTransform ---------------- *)
(* the composition patchify -> merge -> per-patch transform -> split -> unpatchify as an index map: output pixel
   (y, x) is pixel (y mod ph, x mod pw) of the transform's result on patch l = (y / ph) * sw + x / pw, and that patch
   is the ph x pw block of the input with top-left corner ((l / sw) * ph, (l mod sw) * pw) = (y / ph * ph, x / pw * pw) *)
Lemma patchwise_index_map : forall A ph pw sw (f : Z -> p3 A -> p3 A) (t : t3 A) c y x,
  0 < pw -> 0 <= x < sw * pw ->
  let l := y / ph * sw + x / pw in
  patchwise ph pw sw f t c y x =
  f l (fun c' p q => t c' (y / ph * ph + p) (x / pw * pw + q)) c (y mod ph) (x mod pw).
Proof.
  intros A ph pw sw f t c y x Ppw Hx l.
  unfold patchwise, unpatchify, split_seq, map_patches, merge_seq, patchify. fold l.
  assert (0 <= x / pw < sw) as Hb.
  { split; [apply Z.div_pos; lia | apply Z.div_lt_upper_bound; nia]. }
  destruct (div_mul_add (y / ph) sw (x / pw) Hb) as [D M]. fold l in D, M. rewrite D, M. reflexivity.
Qed.

(* an identity per-patch transform gives the input back; a per-patch transform only sees its own patch *)
Lemma patchwise_identity : forall A ph pw sw (t : t3 A) c y x,
  0 < ph -> 0 < pw -> 0 <= x < sw * pw ->
  patchwise ph pw sw (fun _ u => u) t c y x = t c y x.
Proof.
  intros A ph pw sw t c y x Pph Ppw Hx. rewrite patchwise_index_map by auto. cbn beta.
  f_equal; zdm; lia.
Qed.

From Coq Require Import Qabs.
Open Scope Z_scope.

(* ---------------- spec-augment: the float32 product u * P stays below P ---------------- *)
(* u = a float32 in [0, 1 - 2^-24] (np_random_as_tensor: torch.tensor(rng.random()), and 1.0 replaced by 1 - 1e-6),
   P = mask_param, an integer 1 <= P <= 2^24 with 2^(e-1) < P <= 2^e, v = fl32(u * P).
   pfl = P - 2^e / 2^24 is the float32 just below P.  Round-to-nearest means v is at least as close to the exact
   product as pfl is.  Then v < P, hence value.long() <= P - 1 and the assert mask_end - mask_start < mask_param of
   _mask_along_axis never fires. *)
Lemma fl32_product_below_param : forall (P twoe : Z) (u v : Q),
  (1 <= P)%Z -> (P <= twoe)%Z -> (twoe < 2 * P)%Z ->
  (0 <= u)%Q -> (u <= 1 - 1 / inject_Z (2 ^ 24))%Q ->
  (let x := u * inject_Z P in let pfl := inject_Z P - inject_Z twoe / inject_Z (2 ^ 24) in
   Qabs (v - x) <= Qabs (pfl - x))%Q ->
  (v < inject_Z P)%Q.
Proof.
  intros P twoe u v P1 Ple Plt U0 U1 N. cbn zeta in N.
  set (PQ := inject_Z P) in *. set (TQ := inject_Z twoe) in *.
  assert (1 <= PQ)%Q as HP by (unfold PQ; change 1%Q with (inject_Z 1); rewrite <- Zle_Qle; lia).
  assert (PQ <= TQ)%Q as HT1 by (unfold PQ, TQ; rewrite <- Zle_Qle; lia).
  assert (TQ < 2 * PQ)%Q as HT2.
  { unfold PQ, TQ. change 2%Q with (inject_Z 2). rewrite <- inject_Z_mult. rewrite <- Zlt_Qlt. lia. }
  change (inject_Z (2 ^ 24)) with (16777216 # 1)%Q in *.
  set (x := (u * PQ)%Q) in *.
  assert (x <= PQ - PQ / (16777216 # 1))%Q as Hx.
  { unfold x. setoid_replace (PQ - PQ / (16777216 # 1))%Q with ((1 - 1 / (16777216 # 1)) * PQ)%Q by field.
    apply Qmult_le_compat_r; [exact U1 | lra]. }
  assert (0 <= x)%Q as Hx0 by (unfold x; apply Qmult_le_0_compat; lra).
  set (a := (PQ / (16777216 # 1))%Q) in *. set (b := (TQ / (16777216 # 1))%Q) in *.
  assert (a <= b)%Q as Hab by (unfold a, b; apply Qmult_le_compat_r; [exact HT1 | discriminate]).
  assert (b < 2 * a)%Q as Hba.
  { unfold a, b. setoid_replace (2 * (PQ / (16777216 # 1)))%Q with ((2 * PQ) / (16777216 # 1))%Q by field.
    apply Qmult_lt_compat_r; [reflexivity | exact HT2]. }
  assert (0 < a)%Q as Ha by (unfold a; apply Qlt_shift_div_l; [reflexivity | lra]).
  revert N. apply Qabs_case; intros S1; apply Qabs_case; intros S2 N; lra.
Qed.

Lemma q_trunc_below : forall (v : Q) (P : Z), (0 <= v)%Q -> (v < inject_Z P)%Q -> q_trunc v < P.
Proof.
  intros v P V0 V1. destruct (q_trunc_nonneg v V0) as [T0 T1].
  assert (inject_Z (q_trunc v) < inject_Z P)%Q as L by lra. rewrite <- Zlt_Qlt in L. exact L.
Qed.

(* with value < P the assertion of _mask_along_axis holds: the model never answers Reject 3 *)
Lemma mask_axis_assert_holds : forall P value minv,
  1 <= P -> (0 <= value)%Q -> (value < inject_Z P)%Q ->
  exists s e, mask_axis P value minv = Ok (Some (s, e)) /\ 0 <= e - s < P.
Proof.
  intros P value minv P1 V0 V1. unfold mask_axis.
  destruct (P <? 1) eqn:EP; [lia|].
  pose proof (q_trunc_below value P V0 V1) as T. destruct (q_trunc_nonneg value V0) as [T0 _].
  destruct (q_trunc minv + q_trunc value - q_trunc minv <? P) eqn:EL; [|lia].
  eexists. eexists. split; [reflexivity|]. lia.
Qed.
