"""Common layer of the KappaData verification harness.

One check = (1) compile the property's Coq files (proof obligations, axioms
reported by Print Assumptions), (2) generate cases from one PRNG, run the real
code from KD_REPO (default /repo) on them, (3) evaluate the Coq model / spec on
the same cases with vm_compute and compare (correspondence), (4) run the
independent Python property oracle on what the implementation returned,
(5) decide per DESIGN.md 1.3 and write evidence.
"""
import hashlib
import json
import os
import random
import re
import shutil
import subprocess
import sys
import time
import traceback
from concurrent.futures import ThreadPoolExecutor

VERIF = os.path.dirname(os.path.dirname(os.path.abspath(__file__)))
COQ = os.path.join(VERIF, "coq")
KD_REPO = os.environ.get("KD_REPO", "/repo")
WORK = os.path.join(VERIF, ".work")
GUARD = "BENEDIKTALKIN_KAPPADATA_VERIF"


def setup_repo_path():
    """make `import kappadata` resolve to KD_REPO's working tree"""
    os.environ[GUARD] = "1"
    if KD_REPO not in sys.path:
        sys.path.insert(0, KD_REPO)
    for m in list(sys.modules):
        if m == "kappadata" or m.startswith("kappadata."):
            del sys.modules[m]
    import kappadata  # noqa
    assert os.path.abspath(kappadata.__file__).startswith(os.path.abspath(KD_REPO)), kappadata.__file__


# ---------------------------------------------------------------------------
# Coq term rendering
# ---------------------------------------------------------------------------
class Raw(str):
    """already-rendered Coq text"""


class Nat(int):
    """render as a nat literal"""


def C(name, *args):
    """constructor application"""
    if not args:
        return Raw(name)
    return Raw("(" + name + " " + " ".join(coq(a) for a in args) + ")")


def Rec(**fields):
    return Raw("{| " + "; ".join(f"{k} := {coq(v)}" for k, v in fields.items()) + " |}")


def Opt(x):
    return Raw("None") if x is None else Raw("(Some " + coq(x) + ")")


def Str(s):
    assert '"' not in s
    return Raw('"' + s + '"%string')


def coq(x):
    if isinstance(x, Raw):
        return str(x)
    if isinstance(x, bool):
        return "true" if x else "false"
    if isinstance(x, Nat):
        return f"{int(x)}%nat"
    if isinstance(x, int):
        return f"({x})%Z" if x < 0 else f"{x}%Z"
    if x is None:
        return "None"
    if isinstance(x, (list,)):
        return "[" + "; ".join(coq(a) for a in x) + "]"
    if isinstance(x, tuple):
        return "(" + ", ".join(coq(a) for a in x) + ")"
    if hasattr(x, "item"):
        return coq(x.item())
    raise TypeError(f"cannot render {type(x)}: {x!r}")


# ---------------------------------------------------------------------------
# running Coq
# ---------------------------------------------------------------------------
def sh(cmd, timeout, cwd=None):
    t0 = time.time()
    try:
        p = subprocess.run(cmd, shell=isinstance(cmd, str), cwd=cwd, capture_output=True, text=True, timeout=timeout)
        return p.returncode, p.stdout, p.stderr, time.time() - t0
    except subprocess.TimeoutExpired as e:
        out = e.stdout.decode() if isinstance(e.stdout, bytes) else (e.stdout or "")
        return 124, out, "TIMEOUT", time.time() - t0


def gen_coqproject():
    """_CoqProject lists every .v under coq/ (so adding a property needs no shared edit)"""
    files = []
    for root, dirs, fs in os.walk(COQ):
        dirs.sort()
        for f in sorted(fs):
            if f.endswith(".v"):
                files.append(os.path.relpath(os.path.join(root, f), COQ))
    txt = "-Q . KD\n" + "\n".join(files) + "\n"
    p = os.path.join(COQ, "_CoqProject")
    if not os.path.exists(p) or open(p).read() != txt:
        with open(p, "w") as f:
            f.write(txt)


def setup_all():
    """MANIFEST.setup_cmd: full .vo build (coqc, no -vos) of the Coq files of every
    property claimed in MANIFEST.json.  Properties sharing a directory are built
    one after the other, different directories in parallel."""
    import importlib
    man = json.load(open(os.path.join(VERIF, "MANIFEST.json")))
    groups = {}
    for chk in man["checks"]:
        pid = chk["property_id"]
        P = importlib.import_module("harness." + pid.lower())
        if hasattr(P, "pre_build"):
            setup_repo_path()
            P.pre_build()
        groups.setdefault(P.COQ_FILES[0].split("/")[0], []).append((pid, P.COQ_FILES))

    def build_group(item):
        out = []
        for pid, files in item[1]:
            r = build_coq(files, clean=False)
            out.append((pid, r["ok"], round(r["wall_s"], 1), r["log"][-1500:] if not r["ok"] else ""))
        return out

    rc = 0
    t0 = time.time()
    with ThreadPoolExecutor(max_workers=12) as ex:
        for res in ex.map(build_group, sorted(groups.items())):
            for pid, ok, wall, log in res:
                print(f"setup: {pid} {'ok' if ok else 'FAILED'} {wall}s {log}")
                if not ok:
                    rc = 1
    gen_coqproject()
    print(f"setup: done in {time.time() - t0:.0f}s rc={rc}")
    return rc


class coq_dir_lock:
    """advisory lock on the Coq directories a property uses: properties sharing compiled files (C04-C06, C07-C09,
    C12/C13) may be checked in parallel; builds take the lock exclusively, evaluations share it"""

    def __init__(self, files, exclusive):
        self.dirs = sorted({f.split("/")[0] for f in files})
        self.exclusive = exclusive
        self.fds = []

    def __enter__(self):
        import fcntl
        for d in self.dirs:
            fd = open(os.path.join(COQ, d, ".lock"), "w")
            fcntl.flock(fd, fcntl.LOCK_EX if self.exclusive else fcntl.LOCK_SH)
            self.fds.append(fd)
        return self

    def __exit__(self, *a):
        import fcntl
        for fd in reversed(self.fds):
            fcntl.flock(fd, fcntl.LOCK_UN)
            fd.close()
        self.fds = []


def build_coq(files, clean=False, timeout=900):
    """compile the given .v files in the given (dependency) order with coqc when
    their .vo is missing or older than the source or an earlier file of the list
    was recompiled; the last file (the Property file) is always recompiled to
    capture the Print Assumptions output.
    Returns dict(ok, log, assumptions, theorems, axioms, wall_s)."""
    t0 = time.time()
    res = {"ok": True, "log": "", "wall_s": 0.0, "assumptions": [], "theorems": [], "axioms": []}
    prop = files[-1]
    src = open(os.path.join(COQ, prop)).read()
    res["theorems"] = re.findall(r"^\s*(?:Theorem|Corollary)\s+([A-Za-z0-9_']+)", strip_comments(src), re.M)
    for f in files:
        body = strip_comments(open(os.path.join(COQ, f)).read())
        for bad in ("Admitted", "admit.", "Axiom ", "Parameter ", "Conjecture ", "Admit Obligations",
                    "Unset Guard", "bypass_check", "Unset Universe", "Unset Positivity"):
            if bad in body:
                res["ok"] = False
                res["log"] += f"\nforbidden token {bad!r} in {f}"
    dirty = clean
    out_last = ""
    newest_dep = 0.0
    for f in files:
        v = os.path.join(COQ, f)
        vo = v[:-2] + ".vo"
        need = (dirty or f == prop or not os.path.exists(vo)
                or os.path.getmtime(vo) < max(os.path.getmtime(v), newest_dep))
        if not need:
            newest_dep = max(newest_dep, os.path.getmtime(vo))
            continue
        rc, out, err, _ = sh(["timeout", str(timeout), "coqc", "-Q", ".", "KD", f], timeout + 30, cwd=COQ)
        if f != prop:
            dirty = True
        if rc != 0:
            res["ok"] = False
            res["log"] += f"\ncoqc {f} failed (rc={rc}):\n" + (out + err)[-4000:]
            break
        out_last = out
    if res["ok"]:
        blocks = re.split(r"(?=Closed under the global context|Axioms:)", out_last)
        for b in blocks:
            if b.startswith("Closed under"):
                res["assumptions"].append("closed")
            elif b.startswith("Axioms:"):
                names = re.findall(r"^([A-Za-z_][A-Za-z0-9_.']*)\s*:", b, re.M)
                res["assumptions"].append("axioms: " + ", ".join(names))
                res["axioms"] += names
        res["axioms"] = sorted(set(res["axioms"]))
        if len(res["assumptions"]) < len(res["theorems"]):
            res["ok"] = False
            res["log"] += (f"\n{prop}: {len(res['theorems'])} theorems but only {len(res['assumptions'])} "
                           "Print Assumptions reports")
    res["wall_s"] = time.time() - t0
    return res


def strip_comments(s):
    out = []
    depth = 0
    i = 0
    while i < len(s):
        if s.startswith("(*", i):
            depth += 1
            i += 2
        elif s.startswith("*)", i) and depth > 0:
            depth -= 1
            i += 2
        else:
            if depth == 0:
                out.append(s[i])
            i += 1
    return "".join(out)


def eval_coq_cases(prop_id, prelude, check_fn, case_terms, shard=400, timeout=600, case_type=None):
    """Writes shards `cases_k.v`, each evaluating `map check_fn cases` with
    vm_compute; check_fn must return a nat code per case.  Returns list of codes
    (None where Coq failed) and the error logs."""
    # one work directory per run (two concurrent runs of the same property must not clobber each other's shards)
    d = os.path.join(WORK, f"{prop_id}.{os.getpid()}")
    shutil.rmtree(d, ignore_errors=True)
    os.makedirs(d, exist_ok=True)
    shards = [case_terms[i:i + shard] for i in range(0, len(case_terms), shard)]
    files = []
    for k, sh_cases in enumerate(shards):
        fn = os.path.join(d, f"cases_{k}.v")
        with open(fn, "w") as f:
            f.write(prelude + "\n")
            f.write("Definition the_cases" + (f" : list ({case_type})" if case_type else "") + " := [\n  " + ";\n  ".join(sh_cases) + "\n].\n")
            f.write(f"Eval vm_compute in (map {check_fn} the_cases).\n")
        files.append(fn)

    def one(fn):
        return sh(["timeout", str(timeout), "coqc", "-Q", COQ, "KD", fn], timeout + 30, cwd=d)

    codes = []
    errors = []
    with ThreadPoolExecutor(max_workers=8) as ex:
        for k, (rc, out, err, wall) in enumerate(ex.map(one, files)):
            n = len(shards[k])
            if rc != 0:
                codes += [None] * n
                errors.append(f"shard {k}: rc={rc} {err[-1500:]}")
                continue
            m = re.search(r"=\s*\[(.*?)\]\s*:\s*list", out, re.S)
            got = [int(x) for x in re.findall(r"\d+", m.group(1))] if m else []
            if len(got) != n:
                codes += [None] * n
                errors.append(f"shard {k}: expected {n} codes, parsed {len(got)}: {out[-500:]}")
            else:
                codes += got
    if not errors:
        shutil.rmtree(d, ignore_errors=True)
    return codes, errors


# ---------------------------------------------------------------------------
# findings, replays, evidence
# ---------------------------------------------------------------------------
def load_known_findings():
    p = os.path.join(VERIF, "known_findings.json")
    if not os.path.exists(p):
        return []
    data = json.load(open(p))
    return [e for e in data.get("findings", []) if isinstance(e, dict)]


def match_known(prop_id, case, what, findings):
    """a finding matches when its property equals and every key of its `match`
    dict equals the corresponding key of the (minimised) case"""
    for f in findings:
        if f.get("property") != prop_id:
            continue
        m = f.get("match", {})
        if all(case.get(k) == v for k, v in m.items()):
            return f
    return None


def write_replay(prop_id, payload):
    d = os.path.join(VERIF, "replays", prop_id)
    os.makedirs(d, exist_ok=True)
    blob = json.dumps(payload, sort_keys=True, default=str, indent=1)
    h = hashlib.sha1(blob.encode()).hexdigest()[:12]
    p = os.path.join(d, h + ".json")
    with open(p, "w") as f:
        f.write(blob)
    return p


def write_evidence(prop_id, tier, seed, coverage, assumptions, wall, violations):
    os.makedirs(os.path.join(VERIF, "evidence"), exist_ok=True)
    ev = {
        "property_id": prop_id,
        "tier": tier,
        "seed": seed,
        "level": "proof",
        "coverage": coverage,
        "assumptions": assumptions,
        "wall_s": round(wall, 2),
        "violations": violations,
    }
    with open(os.path.join(VERIF, "evidence", prop_id + ".json"), "w") as f:
        json.dump(ev, f, indent=1, default=str)


def minimise(case, still_bad, shrinkers, budget=200):
    """greedy shrinking: shrinkers(case) yields smaller candidate cases"""
    cur = case
    steps = 0
    progress = True
    while progress and steps < budget:
        progress = False
        for cand in shrinkers(cur):
            steps += 1
            if steps > budget:
                break
            try:
                if still_bad(cand):
                    cur = cand
                    progress = True
                    break
            except Exception:
                continue
    return cur


# ---------------------------------------------------------------------------
# the generic check driver
# ---------------------------------------------------------------------------
class Prop:
    """interface a property module implements (module-level attributes)"""
    ID = None
    COQ_FILES = []          # Property file last
    TRUSTED = []            # strings for trusted_base
    ASSUMPTIONS = []        # strings for evidence.assumptions
    RULE = ""


def run_check(P, tier, seed, replay=None):
    t0 = time.time()
    setup_repo_path()
    prop_id = P.ID
    rng = random.Random(seed * 1000003 + int(prop_id[1:]))
    findings = load_known_findings()

    if replay:
        payload = json.load(open(replay))
        case = payload["case"]
        obs = P.run_impl(case)
        bad = P.oracle(case, obs)
        print(f"replay {replay}: impl -> {json.dumps(obs, default=str)[:2000]}")
        if bad:
            print(f"VIOLATION property={prop_id} replay={replay}")
            print("  " + bad)
            return 1
        print("replay: property holds on this case now")
        return 0

    # 1. proof obligations
    with coq_dir_lock(P.COQ_FILES, exclusive=True):
        if hasattr(P, "pre_build"):
            P.pre_build()
        build = build_coq(P.COQ_FILES, clean=(tier == "thorough"))
    obligations = len(build["theorems"])
    discharged = obligations if build["ok"] else 0
    proof_broken = None
    if not build["ok"]:
        proof_broken = "Coq build of " + ", ".join(P.COQ_FILES) + " failed:\n" + build["log"][-3000:]
    allowed = set(getattr(P, "ALLOWED_AXIOMS", []))
    extra_ax = [a for a in build["axioms"] if a not in allowed]
    if build["ok"] and extra_ax:
        proof_broken = "unexpected axioms under property theorems: " + ", ".join(extra_ax)
        discharged = 0

    # 1b. thorough tier: independent re-check of the compiled property file (and everything it depends on) with coqchk
    coqchk_report = None
    if tier == "thorough" and build["ok"] and not os.environ.get("VERIF_NO_COQCHK"):
        mod = "KD." + P.COQ_FILES[-1][:-2].replace("/", ".")
        rc, out, err, wall = sh(["timeout", "1500", "coqchk", "-o", "-Q", ".", "KD", mod], 1560, cwd=COQ)
        txt = out + err
        ok = rc == 0 and "Modules were successfully checked" in txt
        m = re.search(r"\* Axioms:(.*?)\n\s*\n\* Constants", txt, re.S)
        ax = re.findall(r"^\s+([A-Za-z_][A-Za-z0-9_.']*)\s*$", m.group(1), re.M) if m else []
        unsafe = [k for k in ("type-in-type", "unsafe (co)fixpoints", "positivity is assumed")
                  if not re.search(re.escape(k) + r":\s*<none>", txt)]
        coqchk_report = {"module": mod, "ok": ok, "axioms": ax, "wall_s": round(wall, 1), "unsafe": unsafe if ok else None}
        bad_ax = [a for a in ax if a.split(".")[-1] not in allowed and a not in allowed]
        if not ok:
            proof_broken = f"coqchk failed on {mod} (rc={rc}): " + txt[-1500:]
            discharged = 0
        elif bad_ax or unsafe:
            proof_broken = f"coqchk reports axioms/unsafe features under {mod}: {bad_ax} {unsafe}"
            discharged = 0

    # 2. cases: corpus first, then generated
    cases = []
    corpus_dir = os.path.join(VERIF, "corpus", prop_id)
    if os.path.isdir(corpus_dir):
        for fn in sorted(os.listdir(corpus_dir)):
            if fn.endswith(".json"):
                cases.append(json.load(open(os.path.join(corpus_dir, fn)))["case"])
    n_corpus = len(cases)
    cases += P.gen_cases(rng, tier)

    # 3. run implementation + oracle
    observations = []
    bads = []          # (case index, message)
    hist = {}
    keys = set()
    for k, case in enumerate(cases):
        try:
            obs = P.run_impl(case)
        except Exception as e:  # harness bug or impl crash outside what run_impl classifies
            obs = {"harness_exception": repr(e), "tb": traceback.format_exc()[-1500:]}
        observations.append(obs)
        try:
            msg = P.oracle(case, obs)
        except Exception as e:  # an observation the oracle cannot digest (e.g. NaN where a number is expected) is not "ok"
            msg = "the oracle could not evaluate the observation: " + repr(e) + " " + traceback.format_exc()[-600:]
        if msg:
            bads.append((k, msg))
        try:
            for feat in P.features(case, obs):
                hist[feat] = hist.get(feat, 0) + 1
            key = P.nontrivial_key(case, obs)
            if key is not None:
                keys.add(key)
        except Exception:
            hist["features_unavailable"] = hist.get("features_unavailable", 0) + 1

    # 4. correspondence with the Coq model
    drift = []
    spec_bad = []
    coq_errors = []
    n_coq = 0
    if build["ok"] and hasattr(P, "coq_case"):
        idx, terms = [], []
        for k in range(len(cases)):
            try:
                if P.coq_applicable(cases[k], observations[k]):
                    t = P.coq_case(cases[k], observations[k])
                    idx.append(k)
                    terms.append(t)
            except Exception as e:  # unrenderable observation: the case cannot be compared with the model
                coq_errors.append(f"case {k} could not be rendered for Coq: {e!r}")
                if not any(b[0] == k for b in bads):
                    bads.append((k, "the observation could not be rendered for the Coq comparison: " + repr(e)))
        with coq_dir_lock(P.COQ_FILES, exclusive=False):
            codes, coq_errors = eval_coq_cases(prop_id, P.COQ_PRELUDE, P.COQ_CHECK, terms,
                                               shard=getattr(P, "SHARD", 300), case_type=getattr(P, "COQ_CASE_TYPE", None))
        n_coq = sum(1 for c in codes if c is not None)
        for k, code in zip(idx, codes):
            if code is None:
                continue
            if code == 1:
                drift.append(k)
            elif code >= 2:
                spec_bad.append(k)
                if not any(b[0] == k for b in bads):
                    bads.append((k, "Coq spec evaluated on the implementation's output is false"))
    elif not build["ok"]:
        coq_errors.append("model not evaluated: build failed")

    # 5. decide
    exit_code = 0
    violations = 0
    lines = []
    reported = set()

    def report_bad(case, msg, obs):
        nonlocal exit_code, violations
        small = case
        if hasattr(P, "shrink"):
            def still_bad(c):
                try:
                    return bool(P.oracle(c, P.run_impl(c)))
                except Exception:
                    return False
            try:
                small = minimise(case, still_bad, P.shrink)
            except Exception:
                small = case
            try:
                obs = P.run_impl(small)
                msg = P.oracle(small, obs) or msg
            except Exception:
                small = case
        kf = match_known(prop_id, small, msg, findings) or match_known(prop_id, case, msg, findings)
        if kf:
            line = f"KNOWN-FINDING: property={prop_id} {kf.get('what', '')}"
            if line not in reported:
                reported.add(line)
                lines.append(line)
            return
        sig = json.dumps(small, sort_keys=True, default=str)
        if sig in reported:
            return
        reported.add(sig)
        path = write_replay(prop_id, {"property": prop_id, "case": small, "observed": obs, "why": msg,
                                      "how": f"./check {prop_id} --replay <this file>"})
        lines.append(f"VIOLATION property={prop_id} replay={path}")
        lines.append("  " + msg.replace("\n", "\n  ")[:1500])
        violations += 1
        exit_code = 1

    for k, msg in bads[:5]:
        report_bad(cases[k], msg, observations[k])

    broken = proof_broken
    if not broken and drift:
        k = drift[0]
        broken = (f"correspondence broken: on {len(drift)} of {n_coq} cases the Coq model "
                  f"({P.COQ_FILES[0]}) and the implementation disagree; first: "
                  + json.dumps(cases[k], default=str)[:1500]
                  + " impl=" + json.dumps(observations[k], default=str)[:1500])
    if not broken and coq_errors:
        broken = "correspondence could not be evaluated: " + "; ".join(coq_errors)[:3000]
    if broken and not violations:
        # the property is no longer shown to hold: search for a failing input
        found = False
        srng = random.Random(seed + 7919)
        t_search = time.time()
        n_search = 0
        for case in P.search_cases(srng, tier):
            n_search += 1
            try:
                obs = P.run_impl(case)
            except Exception as e:
                obs = {"harness_exception": repr(e)}
            try:
                msg = P.oracle(case, obs)
            except Exception as e:
                msg = "the oracle could not evaluate the observation: " + repr(e)
            if msg:
                before = violations
                n_lines = len(lines)
                report_bad(case, msg, obs)
                if violations > before:
                    found = True
                    break
            if time.time() - t_search > (600 if tier == "thorough" else 150):
                break
        if not found:
            path = write_replay(prop_id, {"property": prop_id, "no_failing_input_found": True,
                                          "broken": broken, "searched_cases": n_search,
                                          "theorems": build["theorems"]})
            lines.append(f"VIOLATION property={prop_id} replay={path} no-failing-input-found")
            lines.append("  " + broken[:1500].replace("\n", "\n  "))
            violations += 1
            exit_code = 1

    # 6. evidence
    samples = []
    for k in list(range(n_corpus, min(n_corpus + 2, len(cases)))) + ([len(cases) - 1] if cases else []):
        samples.append({"case": cases[k], "impl": _clip(observations[k])})
    coverage = {
        "obligations": max(obligations, 1),
        "discharged": discharged,
        "checker_cmd": "cd /verif/coq && for f in " + " ".join(P.COQ_FILES)
                       + "; do coqc -Q . KD $f; done  (Print Assumptions under every theorem of the last file)",
        "trusted_base": ["Coq 8.16.1 kernel + vm_compute (no native_compute)",
                         "Print Assumptions: " + ("; ".join(sorted(set(build["assumptions"]))) or "n/a")] + list(P.TRUSTED),
        "theorems": build["theorems"],
        "evaluations": len(cases),
        "distinct_nontrivial": len(keys),
        "rule": P.RULE,
        "samples": samples,
        "traces_validated_against_impl": n_coq,
        "model_impl_disagreements": len(drift),
        "spec_false_on_impl_output": len(spec_bad),
        "python_oracle_failures": len(bads),
        "corpus_cases": n_corpus,
        "input_distribution": dict(sorted(hist.items())),
        "build_wall_s": round(build["wall_s"], 1),
    }
    if coqchk_report:
        coverage["coqchk"] = coqchk_report
    write_evidence(prop_id, tier, seed, coverage, list(P.ASSUMPTIONS), time.time() - t0, violations)
    for ln in lines:
        print(ln)
    print(f"[{prop_id}] tier={tier} seed={seed} theorems={discharged}/{obligations} cases={len(cases)} "
          f"coq-evaluated={n_coq} drift={len(drift)} oracle-bad={len(bads)} distinct={len(keys)} "
          f"wall={time.time() - t0:.1f}s exit={exit_code}")
    return exit_code


def _clip(o, n=1200):
    s = json.dumps(o, default=str)
    if len(s) <= n:
        return o
    return s[:n] + "..."
