(* Executable comparison of implementation observations with model and spec,
   used by the correspondence run (harness/interleaved.py).  *)
From Coq Require Import ZArith List Bool.
Import ListNotations.
From KD Require Import C04.Model C04.Spec.
Open Scope Z_scope.

Definition obs_eqb (a b : obs) : bool :=
  match a, b with
  | OSetEpoch x, OSetEpoch y => x =? y
  | OYield f i, OYield g j => Bool.eqb f g && (i =? j)
  | _, _ => false
  end.

Fixpoint list_eqb {A} (eq : A -> A -> bool) (a b : list A) : bool :=
  match a, b with
  | [], [] => true
  | x :: a', y :: b' => eq x y && list_eqb eq a' b'
  | _, _ => false
  end.

Definition iters_fun (emin : Z) (iters : list (list Z)) : Z -> list Z :=
  fun e => nth (Z.to_nat (e - emin)) iters [].

Definition case_t : Type :=
  cfg * start_arg * nat * Z * list (list Z) * list obs * option (list (list Z)) * list (Z * nat * Z).

(* 0 = implementation, model and spec agree; 1 = model differs from the
   implementation; 2 = model agrees but the spec differs *)
Definition main_obs (c : cfg) (l : list obs) : list obs :=
  filter (fun o => match o with OSetEpoch _ => true | OYield _ i => i <? dsN c end) l.

(* mode 4: compare only the main projection (C04); other modes: the whole stream *)
Definition check_mode (mode : nat) (t : case_t) : nat :=
  let '(c, start, result, emin, iters, o, bat, resolve) := t in
  let mi := iters_fun emin iters in
  let fuel := S (length iters) in
  match init_checkpoint c start with
  | NotImplemented => if Nat.eqb result 1 then 0%nat else 1%nat
  | AssertFail => if Nat.eqb result 2 then 0%nat else 1%nat
  | Start e u s =>
      if negb (Nat.eqb result 0) then 1%nat else
      match sampler_iter c mi e u s with
      | None => 1%nat
      | Some tr =>
          let r := render tr in
          let bat_ok := match bat with
                        | Some bs => let '(mb, ok) := batches r in ok && list_eqb (list_eqb Z.eqb) mb bs
                        | None => false end in
          let res_ok := forallb (fun '(idx, di, j) =>
                                   match concat_lookup c idx with
                                   | Some (di', j') => Nat.eqb di di' && (j =? j')
                                   | None => false end) resolve in
          let proj := if Nat.eqb mode 4 then main_obs c else (fun l => l) in
          if negb (list_eqb obs_eqb (proj r) (proj o) && (Nat.eqb mode 4 || (bat_ok && res_ok))) then 1%nat else
          match spec_start c start, spec_iter c mi e fuel with
          | Start e' u' s', Some tr' =>
              if (e =? e') && (u =? u') && (s =? s') && list_eqb obs_eqb (proj (render tr')) (proj o) then 0%nat else 2%nat
          | _, _ => 2%nat
          end
      end
  end.

Definition check := check_mode 0.
Definition check_c04 := check_mode 4.
