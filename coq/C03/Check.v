(* C03 — executable comparison of the real wrapper's selection with the model
   (code 1 = differs) and with the spec (code 2 = spec false on the real output). *)
From Coq Require Import ZArith List Bool Floats.
Import ListNotations.
From KD Require Import C03.Model C03.Spec.
Open Scope Z_scope.

Definition olist_eqb (a b : option (list Z)) : bool :=
  match a, b with
  | Some x, Some y => list_eqb x y
  | None, None => true
  | _, _ => false
  end.

(* inputs, constructor call (with recorded draws), observed selection (None = raised),
   and for range wrappers the selections of the two complementary wrappers *)
Definition case_t : Type := (list Z * Z * wcase * option (list Z) * list (list Z))%type.

Definition labels_ok (classes : list Z) (C : Z) : bool :=
  forallb (fun c => (0 <=? c) && (c <? C)) classes.

Definition contiguous (out : list Z) : bool :=
  match out with [] => true | a :: _ => list_eqb out (zrange a (a + zlen out)) end.

Definition partition_ok (classes : list Z) (out : list Z) (compl : list (list Z)) : bool :=
  match compl with
  | [before; after] => list_eqb (before ++ out ++ after) (all_ids classes)
  | _ => false
  end.

Definition spec_holds (classes : list Z) (C : Z) (w : wcase) (o : list Z) (compl : list (list Z)) : bool :=
  let n := zlen classes in
  match w with
  | WClassFilter v cls =>
      list_eqb o (spec_class_filter classes (fun c => Bool.eqb (existsb (Z.eqb c) cls) v))
  | WPercent f t cf ct =>
      contiguous o && in_range classes o
      && (if fcut cf (odflt f 0%float) n <=? fcut ct (odflt t 1%float) n then partition_ok classes o compl else true)
  | WSubsetIdx idxs =>
      in_range classes o && Nat.eqb (length o) (length idxs)
      && forallb (fun '(x, i) => (x =? i) || (x =? n + i)) (combine o idxs)
  | WSubsetRange _ _ => contiguous o && in_range classes o && partition_ok classes o compl
  | WSubsetPercent _ _ => contiguous o && in_range classes o && partition_ok classes o compl
  | WShuffle _ => is_permutation classes o
  | WRepeat r m =>
      match m with
      | Some m' => let k := zlen o / n in list_eqb o (copies classes k) && (m' <=? zlen o) && (zlen o <? m' + n)
      | None => list_eqb o (copies classes (odflt r 0))
      end
  | WOversample ex =>
      if labels_ok classes (n_classes_eff C) then
        in_range classes o && keeps_all classes o
        && (if ex then balanced_exact classes (n_classes_eff C) o else balanced_multiply classes (n_classes_eff C) o)
      else true
  | WSortByClass =>
      if labels_ok classes C then is_permutation classes o && sorted_stable classes o else true
  | WIntraClass _ =>
      if labels_ok classes C then is_permutation classes o && list_eqb (map (cls classes) o) classes else true
  | WFewshot k _ =>
      if labels_ok classes C && (0 <=? k) then fewshot_ok classes k o else true
  | WClasswiseRange s e chk =>
      if labels_ok classes (n_classes_eff C) && (0 <=? odflt s 0) then
        let e' := Z.min (odflt e n) n in
        list_eqb o (spec_classwise classes (fun _ => odflt s 0) (fun cnt => Z.min e' cnt) C)
        && (if chk then forallb (fun c => e' <=? count_of c classes) (class_ids C) else true)
      else true
  | WClasswisePercent s e =>
      if labels_ok classes (n_classes_eff C) then
        list_eqb o (spec_classwise classes (fcut false (odflt s 0%float)) (fcut false (odflt e 1%float)) C)
      else true
  end.

(* constructor calls that must not raise *)
Definition must_succeed (classes : list Z) (C : Z) (w : wcase) : bool :=
  match w with
  | WClassFilter _ _ | WShuffle _ | WSortByClass => true
  | WOversample _ => labels_ok classes (n_classes_eff C) && negb (Nat.eqb (length classes) 0) && (0 <? C)
  | _ => false
  end.

Definition check (c : case_t) : nat :=
  let '(classes, C, w, out, compl) := c in
  match out with
  | Some o => if negb (spec_holds classes C w o compl) then 2%nat
              else if olist_eqb (run classes C w) out then 0%nat else 1%nat
  | None => if must_succeed classes C w then 2%nat
            else if olist_eqb (run classes C w) out then 0%nat else 1%nat
  end.
