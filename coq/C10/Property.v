(* C10 -- property theorems about the model of the (repaired) KDMixCollator.
   All hold for every batch size, image size, mode combination, probability split and every draw
   sequence satisfying the generator's contract (Spec.trace_ok) and every non-negative half box size. *)
From Coq Require Import ZArith QArith List Bool Lia Lqa Permutation.
Import ListNotations.
From KD Require Import C10.Model C10.Spec C10.Proofs.
Open Scope Z_scope.

(* image and label of sample i are mixed with the same partner (no contract on the draws needed) *)
Theorem partner_shared : forall c hv tr r tr',
  collate c hv tr = Some (r, tr') ->
  forall ls, labs r = Some ls ->
  forall i, (i < bsz c)%nat -> partner_of (nth i (imgs r) Keep) = Some (fst (nth i ls (0%nat, 0%Q))).
Proof. exact partner_shared_l. Qed.
Print Assumptions partner_shared.

(* retained pixel fraction of the image (counted pixel by pixel) = label weight = lambda reported in ctx *)
Theorem weight_shared : forall c hv tr r tr',
  cfg_ok c -> trace_ok tr -> halves_ok hv -> collate c hv tr = Some (r, tr') ->
  forall i, (i < bsz c)%nat ->
    (retained_fraction (img_h c) (img_w c) (nth i (imgs r) Keep) == lam_of r i)%Q /\
    (forall ls, labs r = Some ls -> (snd (nth i ls (0%nat, 0%Q)) == lam_of r i)%Q).
Proof. exact weight_shared_l. Qed.
Print Assumptions weight_shared.

(* every pasted box lies inside the image: 0 <= top <= bot <= h, 0 <= left <= right <= w *)
Theorem bbox_in_bounds : forall c hv tr r tr',
  trace_ok tr -> halves_ok hv -> collate c hv tr = Some (r, tr') ->
  forall i p b, (i < bsz c)%nat -> nth i (imgs r) Keep = Cut p b -> box_in_bounds (img_h c) (img_w c) b.
Proof. exact bbox_in_bounds_l. Qed.
Print Assumptions bbox_in_bounds.

(* the code's  1 - (bot-top)*(right-left)/(h*w)  is the fraction of pixels not overwritten *)
Theorem lambda_adjusted_is_area_fraction : forall h w p b,
  0 < h -> 0 < w -> box_in_bounds h w b ->
  (lamb_adjusted h w b == retained_fraction h w (Cut p b))%Q.
Proof. exact lambda_adjusted_is_area_fraction_l. Qed.
Print Assumptions lambda_adjusted_is_area_fraction.

(* the weight reported in the context is a weight: inside [0,1] *)
Theorem lambda_in_unit_interval : forall c hv tr r tr',
  cfg_ok c -> trace_ok tr -> halves_ok hv -> collate c hv tr = Some (r, tr') ->
  forall i, (i < bsz c)%nat -> (0 <= lam_of r i)%Q /\ (lam_of r i <= 1)%Q.
Proof. exact lambda_in_unit_l. Qed.
Print Assumptions lambda_in_unit_interval.

(* mixed rows of a matrix of probability vectors (one-hot rows in particular) are probability vectors *)
Theorem rows_sum_to_one : forall c hv tr r tr' Y,
  cfg_ok c -> trace_ok tr -> halves_ok hv -> collate c hv tr = Some (r, tr') ->
  label_matrix_ok (bsz c) Y ->
  forall ls, labs r = Some ls -> forall i, (i < bsz c)%nat ->
    let row := render_label Y i (nth i ls (0%nat, 0%Q)) in
    (qsum row == 1)%Q /\ Forall (fun x => (0 <= x)%Q) row.
Proof. exact rows_sum_to_one_l. Qed.
Print Assumptions rows_sum_to_one.

(* the partner is the one the shuffle mode prescribes: roll (i-1) mod B, flip B-1-i, random perm[i] for the
   ONE permutation drawn in this call (a permutation of 0..B-1); B = 1: the sample itself *)
Theorem p_follows_mode : forall c hv tr r tr',
  trace_ok tr -> collate c hv tr = Some (r, tr') ->
  exists perm, (shuf c = Random -> bsz c <> 1%nat -> In (DPerm perm) tr /\ Permutation perm (seq 0 (bsz c))) /\
    forall i, (i < bsz c)%nat ->
      partner_of (nth i (imgs r) Keep) = Some (mode_partner (shuf c) (bsz c) perm i) /\
      (mode_partner (shuf c) (bsz c) perm i < bsz c)%nat.
Proof. exact p_follows_mode_l. Qed.
Print Assumptions p_follows_mode.

(* every item of the batch tuple whose name is neither x nor class is returned unchanged, the tuple keeps its length
   (single-item mode 'x': the batch is the image tensor itself, Model.set_item returns the value) *)
Theorem other_items_untouched : forall c hv batch tr ob r tr',
  collate_batch c hv batch tr = Some ((ob, r), tr') ->
  (length (tokens c) > 1)%nat ->
  length ob = length batch /\
  forall j t, nth_error (tokens c) j = Some t -> t <> TX -> t <> TClass -> nth_error ob j = nth_error batch j.
Proof. exact other_items_untouched_l. Qed.
Print Assumptions other_items_untouched.

(* ---------- non-vacuity: the premises are satisfiable and the interesting branches are reached ---------- *)
Definition c_ex : cfg := {| bsz := 3; img_h := 4; img_w := 6; mixup_p := 1 # 2; cutmix_p := 1 # 2; total_p := 1;
  mixup_alpha := Some (4 # 5); cutmix_alpha := Some 1%Q; apply_mode := PerSample; lamb_mode := PerSample;
  shuf := Random; tokens := [TIndex; TX; TClass] |}.
Definition tr_ex : trace :=
  [DUnits [1 # 3; 0; 9 # 10]%Q; DUnits [1 # 4; 3 # 4; 0]%Q; DBetas (4 # 5) [1 # 2; 1 # 3; 1]%Q;
   DBetas 1 [1 # 5; 1 # 2; 0]%Q; DInts 4 [0; 3; 2]; DInts 6 [5; 0; 3]; DPerm [1; 0; 2]%nat].
Definition hv_ex : list (Z * Z) := [(1, 2); (1, 2); (2, 3)].

Example premises_satisfiable : cfg_ok c_ex /\ trace_ok tr_ex /\ halves_ok hv_ex.
Proof.
  split. { unfold cfg_ok; simpl. repeat split; try lia; try (unfold Qle; simpl; lia); reflexivity. }
  split.
  - unfold tr_ex. repeat constructor; simpl; try lia; try (unfold Qle, Qlt; simpl; lia).
  - repeat constructor; simpl; lia.
Qed.

Example collate_example :
  exists r, collate c_ex hv_ex tr_ex = Some (r, []) /\
    imgs r = [Cut 1 (0, 3, 1, 6); Mix 0 (1 # 3); Cut 2 (0, 0, 4, 6)] /\
    labs r = Some [(1%nat, 1 - 3 / 24); (0%nat, 1 # 3); (2%nat, 1 - 24 / 24)]%Q.
Proof. eexists. split; [vm_compute; reflexivity|]. split; reflexivity. Qed.

Example collate_batch_example :
  exists r tr', collate_batch c_ex hv_ex [IOther [7; 8; 9]; IOther []; IOther []] tr_ex = Some ((
     [IOther [7; 8; 9]; IX [Cut 1 (0, 3, 1, 6); Mix 0 (1 # 3); Cut 2 (0, 0, 4, 6)];
      IY [(1%nat, 21 # 24); (0%nat, 1 # 3); (2%nat, 0 # 24)]], r), tr').
Proof. eexists. eexists. vm_compute. reflexivity. Qed.

Example label_matrix_example : label_matrix_ok 3 [[1; 0; 0]; [0; 1; 0]; [0; 0; 1]]%Q.
Proof.
  exists 3%nat. intros k Hk. destruct k as [|[|[|k]]]; try lia; simpl;
    (split; [reflexivity|split; [reflexivity|repeat constructor; unfold Qle; simpl; lia]]).
Qed.
