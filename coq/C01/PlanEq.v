(* C01: one iteration of the constructor's fuse loop appends exactly Spec.spec_entry; hence
   fuse groups items = Some (spec_plan groups items) and __getitem__ = Spec.spec_sample. *)
From Coq Require Import ZArith List Bool String Ascii Lia Arith.
Import ListNotations.
From KD Require Import C01.Model C01.Spec C01.Check C01.Proofs.
From KD Require Import C01.Occ C01.PlanState.
Local Open Scope nat_scope.
Local Notation length := List.length.

Lemma Forall2_In_right : forall {A B} (R : A -> B -> Prop) l1 l2 b,
  Forall2 R l1 l2 -> In b l2 -> exists a, In a l1 /\ R a b.
Proof.
  intros A B R l1 l2 b H; induction H; intros Hin; [destruct Hin|].
  destruct Hin as [<-|Hin]; [exists x; split; [left; reflexivity|assumption]|].
  destruct (IHForall2 Hin) as [a [Ha Hr]]. exists a; split; [right; assumption|assumption].
Qed.

Lemma Forall2_weaken_in : forall {A B} (R R' : A -> B -> Prop) l1 l2,
  (forall a b, In b l2 -> R a b -> R' a b) -> Forall2 R l1 l2 -> Forall2 R' l1 l2.
Proof.
  intros A B R R' l1 l2 H F; induction F; constructor.
  - apply H; [left; reflexivity | assumption].
  - apply IHF. intros a b Hb. apply H. right; exact Hb.
Qed.

Lemma Forall2_map_eq : forall {B} (f : B -> option nat) l1 l2,
  Forall2 (fun a b => f b = Some a) l1 l2 -> l1 = map (fun b => match f b with Some q => q | None => 0 end) l2.
Proof. intros B f l1 l2 H; induction H; simpl; [reflexivity|]. rewrite H. f_equal. exact IHForall2. Qed.

Lemma forallb_false_in : forall A (f : A -> bool) l x, In x l -> f x = false -> forallb f l = false.
Proof.
  intros A f l x Hin Hf. destruct (forallb f l) eqn:E; auto. rewrite forallb_forall in E. rewrite (E x Hin) in Hf. discriminate.
Qed.

Section Step.
  Variable groups : list (list string).
  Variable items : list string.
  Hypothesis Hok : groups_ok groups.

  Notation cnt := (cnt items).
  Notation fired := (fired items).
  Notation consumed := (consumed groups items).
  Notation exp_temp := (exp_temp groups items).

  Lemma fired_same_no_head : forall i s, nth_error items i = Some s ->
    (forall h tl, In (h :: tl) groups -> h <> s) -> forall g, In g groups -> fired g (S i) = fired g i.
  Proof.
    intros i s Hs Hno g Hg. destruct (group_nonempty groups Hok g Hg) as [h [tl ->]].
    eapply fired_S_other; eauto.
  Qed.

  Lemma fuse_step_exp : forall i s acc, nth_error items i = Some s ->
    fuse_step groups (Some (exp_temp i, acc)) i = Some (exp_temp (S i), acc ++ spec_entry groups items i s).
  Proof.
    intros i s acc Hs. pose proof Hok as [Hgf Hnd].
    assert (Hi : i < length items) by (apply nth_error_Some; congruence).
    unfold fuse_step. rewrite (nth_error_nth' _ _ _ None _ (exp_temp_nth groups items i i Hi)). rewrite Hs.
    unfold spec_entry. change (occ s (firstn i items)) with (cnt s i).
    destruct (consumed i i) eqn:Ec.
    - (* position i was consumed by an earlier joint load *)
      unfold PlanState.consumed in Ec. rewrite Hs in Ec. destruct (group_of groups s) as [g|] eqn:Eg; [|discriminate].
      apply Nat.ltb_lt in Ec. destruct (group_of_some _ _ _ Eg) as [Hg Hsg].
      destruct (group_nonempty groups Hok g Hg) as [h [tl ->]]. unfold PlanState.fired in Ec.
      assert (Hsh : s <> h) by (intro; subst; lia).
      replace (cnt s i <? joint_loads items (h :: tl)) with true by (symmetry; apply Nat.ltb_lt; lia).
      replace (String.eqb s h) with false by (symmetry; apply String.eqb_neq; auto).
      assert (Hk : cnt s i < occ h items) by (pose proof (occ_firstn_le h items i); unfold PlanState.cnt in *; lia).
      destruct (nth_occ_some h items (cnt s i) 0 Hk) as [hk Hhk]. rewrite Hhk.
      apply nth_occ_cnt in Hhk. destruct Hhk as [Hh1 Hh2].
      assert (hk < i). { destruct (le_lt_dec i hk); auto. pose proof (cnt_mono items h i hk l). lia. }
      replace (i <? hk) with false by (symmetry; apply Nat.ltb_ge; lia). rewrite app_nil_r.
      f_equal. f_equal. symmetry. apply exp_temp_same.
      apply (fired_same_no_head i s Hs). intros h' tl' Hg' ->.
      assert (s :: tl' = h :: tl) by (eapply groups_disjoint; eauto; left; reflexivity). congruence.
    - (* position i still holds its item *)
      rewrite (try_groups_result groups s (exp_temp i) Hok).
      unfold PlanState.consumed in Ec. rewrite Hs in Ec.
      destruct (group_of groups s) as [g|] eqn:Eg.
      2:{ f_equal. f_equal. symmetry. apply exp_temp_same. apply (fired_same_no_head i s Hs).
          intros h' tl' Hg' ->. eapply group_of_none; eauto. left; reflexivity. }
      apply Nat.ltb_ge in Ec. destruct (group_of_some _ _ _ Eg) as [Hg Hsg].
      destruct (group_nonempty groups Hok g Hg) as [h [tl ->]]. unfold PlanState.fired in Ec.
      destruct (String.eqb h s) eqn:Eh.
      + apply String.eqb_eq in Eh; subst h. rewrite String.eqb_refl. simpl andb.
        destruct (lt_dec (cnt s i) (joint_loads items (s :: tl))) as [Hlt|Hge].
        * (* the group fires *)
          assert (Hfi : fired (s :: tl) i = cnt s i) by (unfold PlanState.fired; lia).
          replace (forallb (fun op => mem oeqb (Some op) (exp_temp i)) tl) with true.
          2:{ symmetry. apply forallb_forall. intros op Hop. apply (mem_exp_temp groups items Hok (s :: tl)); auto.
              - right; auto.
              - rewrite Hfi. pose proof (joint_loads_le items s tl op (or_intror Hop)). lia. }
          rewrite Forall_forall in Hgf. destruct (Hgf _ Hg) as [Hndg _].
          destruct (consume_ok (s :: tl) (exp_temp i) Hndg) as [temp' [idxs [Hc [Hf [Hl Hq]]]]].
          { intros op Hop. apply (mem_exp_temp groups items Hok (s :: tl)); auto.
            rewrite Hfi. pose proof (joint_loads_le items s tl op Hop). lia. }
          rewrite Hc.
          assert (Hidx : Forall2 (fun idx op => nth_occ op (cnt s i) 0 items = Some idx) idxs (s :: tl)).
          { eapply Forall2_weaken_in; [|exact Hf]. simpl. intros a op Hop [_ Hio].
            assert (Hlt' : cnt s i < occ op items) by (pose proof (joint_loads_le items s tl op Hop); lia).
            destruct (nth_occ_some op items (cnt s i) 0 Hlt') as [q' Hq'].
            pose proof (index_of_exp_temp groups items Hok (s :: tl) i op q' Hg Hop) as Hi'.
            rewrite Hfi in Hi'. specialize (Hi' Hq'). rewrite Hi' in Hio. inversion Hio; subst. exact Hq'. }
          assert (HinI : forall q, In q idxs <-> exists op, In op (s :: tl) /\ nth_error items q = Some op /\ cnt op q = cnt s i).
          { intro q. split.
            - intro Hin. destruct (Forall2_In_left _ _ _ _ Hidx Hin) as [op [Hop Hn]].
              apply nth_occ_cnt in Hn. exists op. tauto.
            - intros [op [Hop [H1 H2]]]. destruct (Forall2_In_right _ _ _ _ Hidx Hop) as [a [Ha Hn]].
              apply nth_occ_cnt in Hn. destruct Hn as [Hn1 Hn2].
              assert (a = q); [|subst; auto].
              destruct (Nat.lt_trichotomy a q) as [Hlt'|[->|Hgt]]; auto.
              + pose proof (cnt_lt_pos items op a q Hn1 Hlt'). lia.
              + pose proof (cnt_lt_pos items op q a H1 Hgt). lia. }
          replace (cnt s i <? joint_loads items (s :: tl)) with true by (symmetry; apply Nat.ltb_lt; lia).
          f_equal. f_equal.
          -- (* temp_items after the consumption *)
             apply list_ext_nth_error. intro q. rewrite Hq. rewrite exp_temp_length.
             destruct (lt_dec q (length items)) as [Hql|Hql].
             ++ replace (q <? length items) with true by (symmetry; apply Nat.ltb_lt; auto).
                rewrite (exp_temp_nth groups items (S i) q Hql).
                destruct (existsb (Nat.eqb q) idxs) eqn:Ee.
                ** apply existsb_eqb_In in Ee. apply HinI in Ee. destruct Ee as [op [Hop [H1 H2]]].
                   unfold PlanState.consumed. rewrite H1. rewrite (group_of_in groups op (s :: tl) Hnd Hg Hop).
                   rewrite (fired_S_head items s tl i Hs).
                   replace (cnt op q <? Nat.min (joint_loads items (s :: tl)) (cnt s i + 1)) with true
                     by (symmetry; apply Nat.ltb_lt; lia). reflexivity.
                ** rewrite (exp_temp_nth groups items i q Hql).
                   assert (Hnin : ~ In q idxs) by (intro Hin; apply existsb_eqb_In in Hin; congruence).
                   replace (consumed (S i) q) with (consumed i q); [reflexivity|].
                   unfold PlanState.consumed. destruct (nth_error items q) as [s'|] eqn:Es'; auto.
                   destruct (group_of groups s') as [g'|] eqn:Eg'; auto.
                   destruct (group_of_some _ _ _ Eg') as [Hg' Hs'g'].
                   destruct (list_eq_dec string_dec g' (s :: tl)) as [->|Hneq].
                   --- rewrite (fired_S_head items s tl i Hs). rewrite Hfi.
                       destruct (Nat.eq_dec (cnt s' q) (cnt s i)) as [Heq|Hne].
                       +++ exfalso. apply Hnin. apply HinI. exists s'. auto.
                       +++ destruct (Nat.ltb_spec (cnt s' q) (cnt s i));
                             destruct (Nat.ltb_spec (cnt s' q) (Nat.min (joint_loads items (s :: tl)) (cnt s i + 1)));
                             auto; lia.
                   --- destruct (group_nonempty groups Hok g' Hg') as [h' [tl' ->]].
                       rewrite (fired_S_other items h' tl' i s Hs); auto.
                       intros ->. apply Hneq. apply (groups_disjoint groups (s :: tl') (s :: tl) s Hnd Hg' Hg); left; reflexivity.
             ++ replace (q <? length items) with false by (symmetry; apply Nat.ltb_ge; lia).
                rewrite (exp_temp_nth_none groups items (S i) q) by lia.
                rewrite (exp_temp_nth_none groups items i q) by lia.
                destruct (existsb (Nat.eqb q) idxs); reflexivity.
          -- rewrite (Forall2_map_eq (fun op => nth_occ op (cnt s i) 0 items) idxs (s :: tl) Hidx). reflexivity.
        * (* a member is used up: own loader *)
          assert (Hfi : fired (s :: tl) i = joint_loads items (s :: tl)) by (unfold PlanState.fired; lia).
          replace (forallb (fun op => mem oeqb (Some op) (exp_temp i)) tl) with false.
          2:{ symmetry. destruct (joint_loads_attained items s tl) as [Hj|[op [Hop Hj]]].
              - pose proof (cnt_lt_occ items s i Hs). lia.
              - apply forallb_false_in with op; auto.
                destruct (mem oeqb (Some op) (exp_temp i)) eqn:Em; auto.
                apply (mem_exp_temp groups items Hok (s :: tl)) in Em; auto; [|right; auto]. lia. }
          replace (cnt s i <? joint_loads items (s :: tl)) with false by (symmetry; apply Nat.ltb_ge; lia).
          f_equal. f_equal. symmetry. apply exp_temp_same. intros g' Hg'.
          destruct (list_eq_dec string_dec g' (s :: tl)) as [->|Hneq].
          -- rewrite (fired_S_head items s tl i Hs). rewrite Hfi. lia.
          -- destruct (group_nonempty groups Hok g' Hg') as [h' [tl' ->]].
             apply (fired_S_other items h' tl' i s Hs). intros ->. apply Hneq.
             eapply groups_disjoint; eauto; left; reflexivity.
      + (* a member that is not the group's first op: own loader *)
        simpl andb. apply String.eqb_neq in Eh.
        assert (Hentry : (if cnt s i <? joint_loads items (h :: tl)
                          then if String.eqb s h
                               then [(String.concat "" (h :: tl),
                                      Fused (map (fun op => match nth_occ op (cnt s i) 0 items with Some q => q | None => 0 end) (h :: tl)))]
                               else match nth_occ h (cnt s i) 0 items with
                                    | Some hk => if i <? hk then [(s, Plain i)] else []
                                    | None => [(s, Plain i)]
                                    end
                          else [(s, Plain i)]) = [(s, Plain i)]).
        { destruct (cnt s i <? joint_loads items (h :: tl)) eqn:Ek; auto. apply Nat.ltb_lt in Ek.
          replace (String.eqb s h) with false by (symmetry; apply String.eqb_neq; auto).
          destruct (nth_occ h (cnt s i) 0 items) as [hk|] eqn:Ehk; auto.
          apply nth_occ_cnt in Ehk. destruct Ehk as [H1 H2].
          replace (i <? hk) with true; auto. symmetry. apply Nat.ltb_lt.
          destruct (Nat.lt_trichotomy hk i) as [Hlt|[->|Hgt]]; auto.
          - pose proof (cnt_lt_pos items h hk i H1 Hlt). lia.
          - congruence. }
        cbv beta iota zeta. f_equal. f_equal; [|f_equal; symmetry; exact Hentry].
        symmetry. apply exp_temp_same.
        apply (fired_same_no_head i s Hs). intros h' tl' Hg' ->.
        assert (s :: tl' = h :: tl) by (eapply groups_disjoint; eauto; left; reflexivity). congruence.
  Qed.

  Lemma fuse_loop_exp : forall rest pre acc, items = pre ++ rest ->
    fold_left (fuse_step groups) (seq (length pre) (length rest)) (Some (exp_temp (length pre), acc)) =
    Some (exp_temp (length items), acc ++ spec_plan_from groups items (length pre) rest).
  Proof.
    induction rest as [|s r IH]; intros pre acc Hitems.
    - simpl. rewrite app_nil_r in *. subst. reflexivity.
    - cbn [length seq fold_left].
      assert (Hs : nth_error items (length pre) = Some s).
      { rewrite Hitems. rewrite nth_error_app2 by lia. rewrite Nat.sub_diag. reflexivity. }
      rewrite (fuse_step_exp (length pre) s acc Hs).
      specialize (IH (pre ++ [s]) (acc ++ spec_entry groups items (length pre) s)).
      rewrite app_length in IH. simpl in IH. rewrite Nat.add_1_r in IH.
      rewrite IH by (rewrite <- app_assoc; exact Hitems).
      simpl. rewrite <- app_assoc. reflexivity.
  Qed.

  Lemma exp_temp_0 : exp_temp 0 = map Some items.
  Proof.
    apply list_ext_nth_error. intro q. destruct (lt_dec q (length items)) as [Hq|Hq].
    - rewrite (exp_temp_nth groups items 0 q Hq). rewrite nth_error_map'.
      replace (consumed 0 q) with false.
      + destruct (nth_error items q) eqn:E; [reflexivity|]. apply nth_error_None in E. lia.
      + symmetry. unfold PlanState.consumed. destruct (nth_error items q) as [s|]; auto.
        destruct (group_of groups s) as [g|]; auto. apply Nat.ltb_ge.
        destruct g; simpl; [lia|]. unfold PlanState.cnt. simpl. lia.
    - rewrite (exp_temp_nth_none groups items 0 q) by lia. symmetry. apply nth_error_None. rewrite map_length. lia.
  Qed.

  (* the constructor's plan is the plan by occurrence counting *)
  Theorem fuse_is_spec_plan_lemma : groups <> [] -> fuse groups items = Some (spec_plan groups items).
  Proof.
    intro Hne. unfold fuse, fuse_loop. destruct groups as [|g0 gs] eqn:Egr; [congruence|]. rewrite <- Egr in *.
    pose proof (fuse_loop_exp items [] [] eq_refl) as H. simpl in H. rewrite exp_temp_0 in H.
    rewrite H. reflexivity.
  Qed.
End Step.

(* ------------------------------------------------------------------ *)
(* __getitem__ is the specification's sample                           *)
(* ------------------------------------------------------------------ *)
Lemma spec_plan_from_nil_groups : forall items rest p, spec_plan_from [] items p rest = plain_from p rest.
Proof.
  intros items rest; induction rest as [|s r IH]; intros p; [reflexivity|].
  simpl. rewrite plain_from_cons. rewrite IH. reflexivity.
Qed.

Section Top.
  Variable value : Type.
  Variable vint : Z -> value.
  Variable proj : value -> nat -> value.

  Lemma eff_plan_is_spec_plan : forall (st : stack value) items rc m,
    groups_ok (s_fused_ops value st) -> init_items value st items rc = inl m ->
    eff_plan items (m_plan m) = spec_plan (s_fused_ops value st) items.
  Proof.
    intros st items rc m Hg Hinit.
    destruct (init_items_inv _ _ _ _ _ Hinit) as [plan [Hf [_ [Hp _]]]]. rewrite Hp.
    destruct (s_fused_ops value st) as [|g0 gs] eqn:Egr.
    - simpl in Hf. inversion Hf; subst plan. simpl. unfold spec_plan.
      rewrite spec_plan_from_nil_groups. reflexivity.
    - rewrite (fuse_is_spec_plan_lemma (g0 :: gs) items Hg ltac:(discriminate)) in Hf. inversion Hf; subst plan.
      destruct (spec_plan (g0 :: gs) items) as [|e pl] eqn:Es; [|reflexivity].
      simpl. destruct (fuse_plan_ok (g0 :: gs) items Hg ltac:(discriminate)) as [plan' [Hf' [_ Hw]]].
      rewrite (fuse_is_spec_plan_lemma (g0 :: gs) items Hg ltac:(discriminate)) in Hf'. rewrite Es in Hf'.
      inversion Hf'; subst plan'.
      destruct items as [|s r]; [reflexivity|]. exfalso.
      specialize (Hw 0 ltac:(simpl; lia)). simpl in Hw. inversion Hw.
  Qed.

  Theorem getitem_is_spec_sample_lemma : forall (st : stack value) items rc m,
    groups_ok (s_fused_ops value st) -> init_items value st items rc = inl m ->
    forall idx, getitem_core value vint proj st m idx = spec_sample value vint proj st items rc (norm_idx value st idx).
  Proof.
    intros st items rc m Hg Hinit idx.
    destruct (getitem_core_spec value vint proj st items rc m Hg Hinit) as [_ Hspec]. rewrite Hspec.
    unfold spec_sample. rewrite (eff_plan_is_spec_plan st items rc m Hg Hinit). reflexivity.
  Qed.
End Top.
