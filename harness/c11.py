"""C11 — KDMixWrapper: ModeWrapper(KDMixWrapper(ds, ...), mode)[i] is the untouched sample with a one-hot label or a
convex combination of sample i and ONE partner with ONE weight, used for the data and for the label.

Datasets are id-encoded: entry `idx` of sample k is (k+1)*8 + ravel(idx in k's own shape)/16 (exact in float32), the
label of sample k identifies k where the class count allows it.  Partner and weight are decoded from what the real code
returned; the partner the wrapped dataset was asked for is observed through the dataset's access log.  Every generator
the wrapper creates -- np.random.default_rng(seed + idx) with a seed, one GlobalRng() per request without (it draws from
the process-global numpy generator) -- is replaced (module attributes `np` and `GlobalRng` of kd_mix_wrapper, for the
duration of one case) by a recording generator, so the seed argument and all draws are known and fed to the Coq model.
"""
import math
import random
from fractions import Fraction

from .common import C, Nat, Opt, Raw, Rec, coq

ID = "C11"
COQ_FILES = ["C11/Model.v", "C11/Spec.v", "C11/Heap.v", "C11/Check.v", "C11/Proofs.v", "C11/HeapProofs.v", "C11/Property.v"]
COQ_PRELUDE = ("From Coq Require Import ZArith QArith List Bool.\nImport ListNotations.\n"
               "From KD Require Import C11.Model C11.Spec C11.Check.\nOpen Scope Z_scope.\n")
COQ_CHECK = "check"
COQ_CASE_TYPE = "case_t"
SHARD = 100
ALLOWED_AXIOMS = []
TRUSTED = [
    "hand-written model coq/C11/Model.v of KDMixWrapper.getitem_xclass / getitem_x / getitem_class, to_one_hot_vector "
    "and ModeWrapper's fuse/unpack logic (repaired tree); tied to KD_REPO by this run's correspondence evaluation "
    "(returned items, seed argument of every generator, every draw, every call made to the wrapped dataset)",
    "hand-written heap reading coq/C11/Heap.v of the same statements (which of them create a tensor: clone, a * w, "
    "F.pad, index_select; which write into one: mul_, add_; an address = one storage, a view shares its base's "
    "address); proved equal to Model.v's values for aliasing and cloning datasets; tied to KD_REPO by comparing, per "
    "case, whether the returned x shares its storage with a stored sample (untyped_storage().data_ptr()) with the "
    "model's address, and by observing the stored tensors / labels before and after (earlier requests, the request, "
    "its repetitions, DataLoader fetches)",
    "float32 arithmetic is not modelled: model and spec compute over Q on the exact input values; comparison with the "
    "real output uses tolerance 2e-3 on data entries (magnitude <= 100) and 1e-5 on label entries",
    "generator contract: random() in [0,1), integers(n) in [0,n), beta(a,a) in [0,1]; a generator is a function of "
    "its seed argument (seeded_deterministic); without a seed the wrapper creates one GlobalRng per request "
    "(kappadata.utils.global_rng: np.random.random / randint / beta of the process-global generator) -- the model's "
    "oracle hands out the draws of the k-th generator of a request whatever its source; rng kind 'global' runs the REAL "
    "GlobalRng under np.random.seed(s) (recorded through a transparent wrapper, then twice unrecorded): equal global "
    "numpy state gives equal samples, torch / random global state is untouched, numpy's advances",
    "torch.nn.functional.pad (constant mode, flat padding list starting at the last dimension), index_select, "
    "one_hot, clone, in-place mul_/add_ behave as documented (Model.torch_pad etc.; validated entry by entry on every case)",
    "labels as objects: coq/C11/Heap.v (to_one_hot_vector_h, label_request_h) reads to_one_hot_vector as an ALLOCATING "
    "operation for class ids and the mixed label as three new tensors (theorems returned_label_is_fresh, "
    "returned_label_object_holds_model_label, label_request_writes_nothing_existing, "
    "successive_labels_are_distinct_objects); tied to KD_REPO per case: the returned label must be a whole storage of its "
    "own (untyped_storage().data_ptr() distinct from the dataset's storages and from every other tensor returned by "
    "this / an earlier / a repeated request that is still alive, not a view, storage size = tensor size) wherever the "
    "model says it is a new object (Check.predicted_label_fresh), and every returned x that is not the dataset's storage "
    "likewise (Python oracle)",
    "harness/c11.py: id-encoded datasets with an access log (incl. which context object every call was handed), "
    "recording / scripted generators injected by replacing the module attributes `np` (default_rng) and `GlobalRng` "
    "of kd_mix_wrapper, decoding of "
    "partner and weight; the context model is abstract: a load handed the request's dictionary may record into it, "
    "the harness dataset / recording transform record the index of the sample they see",
]
ASSUMPTIONS = [
    "NO freshness assumption on the wrapped dataset any more (repaired: fixes/C11_mix_x_out_of_place.patch; before, "
    "x.mul_ / x2.mul_ wrote into what getitem_x returned): getitem_x may hand out clones, the stored tensor objects or "
    "views self.x[idx] of one stored tensor, getitem_class the stored label -- in every case the wrapped dataset is "
    "unchanged after any history of requests, repeated seeded requests are equal and partner == i returns sample i "
    "(theorems wrapped_dataset_unchanged_after_any_history, repeated_requests_equal, self_partner_on_aliasing_dataset; "
    "measured on every case).  What IS assumed: the wrapped dataset's own getitem_x / getitem_class do not modify its "
    "storage, and nobody writes into a returned tensor that IS the dataset's storage (with p < 1 an aliasing dataset's "
    "untouched x / a stored float label vector is, as the dataset chose, its own storage).  Every other returned tensor "
    "belongs to the receiver: in 60% of the cases the harness overwrites it in place with garbage right after every "
    "request (history requests, the request, its repetitions) and later requests must not notice; expected values come "
    "from the Python oracle's own one-hot / mixing arithmetic and the Coq model, never from objects of the possibly "
    "polluted process; the harness undoes its edits at the end of a case so that cases stay independent",
    "all samples of a dataset have the same rank >= 1 and a float dtype (float32 / float64 / float16; the returned x "
    "has the dataset's dtype whether mixed or not; differing ranks: RuntimeError from torch; integer images raise "
    "RuntimeError in mul_ as before the repair)",
    "labels are class ids in [0, n_classes) (Python int, 0-dim integer tensor) or 1-d vectors of length n_classes; "
    "'non-negative and sums to one' is claimed where the label vectors going in are probability vectors.  A class id "
    "outside [0, n_classes) makes torch's one_hot raise RuntimeError as soon as that sample is loaded (explicit, "
    "outside the claim, modelled as ELabel) -- this is what happens to binary scalar labels with getdim_class() == 1: "
    "label 1 raises, label 0 becomes the 1-class one-hot vector [1.]; binary labels given as 1-element float vectors "
    "are mixed like any other vector (convex combination; measured, label kind vec1)",
    "LabelSmoothingWrapper ABOVE the mix wrapper is rejected explicitly (every mode with 'x': ModeWrapper asserts "
    "getitem_x / getitem_xclass on the outermost wrapper class; 'class' alone: the smoothing wrapper's assertion on "
    "vector labels) -- measured (stack ls_above); below the mix wrapper it is part of the claim",
    "cutmix (cutmix_p > 0 and apply < cutmix_p) and unknown mixup_unify_shapes_mode raise NotImplementedError; "
    "mixup_unify_shapes_mode=None with differing shapes raises AssertionError; items other than x / class / index "
    "raise AssertionError in ModeWrapper.__init__ (explicit, outside the claim, classified and modelled)",
    "the returned context: the wrapper records nothing itself; every entry comes from a load of sample i (repaired: "
    "fixes/C11_partner_ctx.patch; before, the partner's loads overwrote the entries of sample i)",
    "the partner may be sample i itself (integers(len) includes i): then the result equals sample i (also when x2 is "
    "then the very same tensor object as x)",
    "constructor arguments satisfy the constructor's assertions",
]
RULE = ("n in 1..7 samples of rank 1..3 with dims 1..5, equal shapes or independently drawn shapes per sample; labels: "
        "int ids / computed from the index / 0-dim tensors / stored float one-hot rows / stored soft rows / 1-d long "
        "one-hot; mixup_p in {0.3, 0.5, 1.0} (+ cutmix_p splits), alpha 0.1..5, unify mode None / pad_or_cut_end / "
        "unknown; seed set (0..10^6) or None (then also with the real GlobalRng under np.random.seed); all orders of subsets of {x, class, index} (+ an unknown item); idx in "
        "-n..n-1; draws from numpy default_rng or a scripted generator injecting edge draws (apply == total_p, "
        "apply == cutmix_p, partner == i / 0 / n-1, lambda 0 / 1); non-trivial = returned and a partner was loaded; "
        "stacks: a ctx-recording XTransformWrapper and/or a real LabelSmoothingWrapper below the mix wrapper, an "
        "XTransformWrapper above it; return_ctx on/off (every entry of the returned context must describe sample i; the "
        "dataset logs which calls were handed the returned context object); class counts incl. 1 and class ids out of "
        "range; 1-element float label vectors; every 7th case (thorough: with 2 workers) additionally fetches the "
        "sample through a torch DataLoader with the stack's worker_init_fn; the wrapped dataset's getitem_x hands out "
        "clones (60%), its stored tensor objects (20%) or views self.x[idx] of one stored tensor (20%, equal shapes); "
        "40% of the cases are preceded by a history of 1..4 other requests (random indices / modes, half of them ending "
        "with the same index) through the same wrapper stack; sample dtype float32 / float64 (8%) / float16 (6%); after "
        "the request (and its seeded repetitions in modes 'x', 'class', 'x class', 'class x') every stored tensor and "
        "label must be what it was; 60% of the cases with a receiver that overwrites every received tensor (x and label, "
        "unless it is the dataset's own storage) in place after EVERY request; every returned tensor must be an object "
        "of its own (storage pointers pairwise distinct among live results, no views of longer-lived storage); "
        "distinct by (shapes of i and partner, tokens, label kind, unify, seeded, p, stack, return_ctx, aliasing kind, "
        "history)")

TOKSETS = [["x", "class"], ["class", "x"], ["x"], ["class"], ["x", "class", "index"], ["index", "x", "class"],
           ["x", "index", "class"], ["class", "index", "x"], ["index", "class", "x"], ["class", "x", "index"],
           ["index", "x"], ["x", "index"], ["class", "index"], ["index", "class"], ["index"]]
ALPHAS = [0.1, 0.3, 0.8, 1.0, 1, 2.0, 5.0]
LABEL_KINDS = ["int", "int", "computed", "tensor0", "vec_onehot", "vec_soft", "vec_long"]
INT_KINDS = ("int", "computed", "tensor0", "int_oor")


# ---------------------------------------------------------------------------
# generators
# ---------------------------------------------------------------------------
class ScriptRng:
    """same methods / return types as numpy's Generator for what the wrapper uses; values from random.Random keyed by
    the seed argument, with edge values (all inside the generator's contract) injected"""

    def __init__(self, key, edges, self_idx):
        self.r = random.Random(key)
        self.edges = edges
        self.self_idx = self_idx

    def random(self):
        r = self.r
        if r.random() < 0.4:
            return float(r.choice(self.edges))
        return r.random()

    def integers(self, n):
        import numpy as np
        r = self.r
        return np.int64(r.choice([0, n - 1, self.self_idx % n, r.randrange(n), r.randrange(n), r.randrange(n)]))

    def beta(self, a, b):
        r = self.r
        if r.random() < 0.35:
            return float(r.choice([0.0, 1.0, 0.5, 0.75, 0.25, 1e-9, 1.0 - 1e-9, 0.36]))
        return r.random()


class Spy:
    def __init__(self, inner, seed_arg, events):
        self.inner = inner
        self.seed_arg = seed_arg
        self.trace = []
        events.append(("rng", self))

    def random(self, *a, **k):
        if a or k:
            raise AttributeError("Spy: random() called with arguments (unmodelled)")
        v = self.inner.random()
        self.trace.append(["unit", float(v)])
        return v

    def integers(self, low, *a, **k):
        if a or k:
            raise AttributeError("Spy: integers() called with more than one argument (unmodelled)")
        v = self.inner.integers(low)
        self.trace.append(["int", int(low), int(v)])
        return v

    def beta(self, a, b):
        v = self.inner.beta(a, b)
        self.trace.append(["beta", float(a), float(b), float(v)])
        return v

    def __getattr__(self, name):
        raise AttributeError(f"Spy: unmodelled generator method {name}")


def total_p_of(case):
    return (case["mixup_p"] or 0.0) + (case["cutmix_p"] or 0.0)


class NpProxy:
    """stands in for the module `numpy` inside kd_mix_wrapper: everything but random.default_rng is numpy's"""

    def __init__(self, np, factory):
        self._np = np
        self.random = _RandomProxy(np.random, factory)

    def __getattr__(self, name):
        return getattr(self._np, name)


class _RandomProxy:
    def __init__(self, npr, factory):
        self._npr = npr
        self.default_rng = factory

    def __getattr__(self, name):
        return getattr(self._npr, name)


def make_factory(case, events, norm_idx, real_global=None):
    """-> (stand-in for np.random.default_rng, stand-in for the class GlobalRng).  Seeded requests create their
    generator with default_rng(seed + idx); unseeded requests create one GlobalRng() per request, which draws from the
    process-global numpy generator.  rng kind "global": the recording generator wraps an instance of the REAL GlobalRng
    (the case seeds np.random itself); otherwise a per-case reproducible inner generator stands in for it."""
    import numpy as np
    kind, rseed = case["rng"]
    tp = total_p_of(case)
    cp = case["cutmix_p"] or 0.0
    edges = [0.0, tp, math.nextafter(tp, 0.0), math.nextafter(tp, 2.0), cp, math.nextafter(cp, 0.0) if cp > 0 else 0.0,
             math.nextafter(1.0, 0.0), 0.5]
    edges = [e for e in edges if 0.0 <= e < 1.0]
    counter = [0]

    def factory(seed=None, *a, **k):
        if a or k:
            raise TypeError("default_rng called with unexpected arguments")
        if seed is None:
            # an unseeded generator: fresh entropy in reality; here reproducible per case, different per call
            key = rseed * 1000 + counter[0]
            counter[0] += 1
            inner = np.random.default_rng(key) if kind != "script" else ScriptRng(key, edges, norm_idx)
        else:
            inner = np.random.default_rng(seed) if kind != "script" else ScriptRng(int(seed) * 7919 + rseed, edges, norm_idx)
        return Spy(inner, None if seed is None else int(seed), events)

    def global_factory(*a, **k):
        if a or k:
            raise TypeError("GlobalRng called with arguments")
        if kind == "global" and real_global is not None:
            return Spy(real_global(), None, events)
        return factory(None)

    return factory, global_factory


# ---------------------------------------------------------------------------
# id-encoded datasets
# ---------------------------------------------------------------------------
def size_of(shape):
    n = 1
    for s in shape:
        n *= s
    return n


def sample_values(k, shape):
    """row-major entries of sample k as Fractions"""
    return [Fraction((k + 1) * 8) + Fraction(j, 16) for j in range(size_of(shape))]


def label_rows(case):
    """label of every sample as ('int', y) or ('vec', [Fraction])"""
    kind, vals = case["labels"]
    n = case["ncls"]
    out = []
    smooth = (case.get("stack") or {}).get("ls_below") or 0
    for v in vals:
        if kind in INT_KINDS and smooth and 0 <= v < n:
            # what a LabelSmoothingWrapper below the mix wrapper hands out: a float32 vector
            off = smooth / n
            on = 1. - smooth + off
            out.append(("vec", [Fraction(f32(on if j == v else off)) for j in range(n)]))
        elif kind in INT_KINDS:
            out.append(("int", v))
        elif kind in ("vec_onehot", "vec_long"):
            out.append(("vec", [Fraction(1 if j == v else 0) for j in range(n)]))
        else:
            out.append(("vec", [Fraction(a, 16) for a in v]))
    return out


def f32(v):
    import numpy as np
    return float(np.float32(v))


def label_vec(row, n):
    if row[0] == "int":
        return [Fraction(1 if j == row[1] else 0) for j in range(n)]
    return list(row[1])


def build_dataset(case, events):
    import torch
    from kappadata.datasets.kd_dataset import KDDataset
    kind, vals = case["labels"]
    ncls = case["ncls"]
    dtype = getattr(torch, case.get("dtype") or "float32")
    xs = [torch.tensor([float(v) for v in sample_values(k, sh)], dtype=dtype).reshape(sh)
          for k, sh in enumerate(case["shapes"])]
    alias = alias_kind(case)
    if alias == "view":
        # one stored tensor holding all samples; getitem_x returns self.x[idx], a view of it
        X = torch.stack(xs)
        xs = [X[k] for k in range(len(xs))]
    if kind == "vec_onehot":
        store = torch.eye(ncls)[torch.tensor(vals)].clone()                    # float matrix, rows handed out as views
    elif kind in ("vec_soft", "vec1"):
        store = torch.tensor([[a / 16.0 for a in v] for v in vals], dtype=torch.float32)
    elif kind == "vec_long":
        store = torch.nn.functional.one_hot(torch.tensor(vals), ncls)          # long matrix
    elif kind == "tensor0":
        store = torch.tensor(vals)
    else:
        store = list(vals)

    class IdDataset(KDDataset):
        def __init__(self):
            super().__init__()
            self.xs = xs
            self.store = store

        def getitem_x(self, idx, ctx=None):
            events.append(("x", int(idx), type(idx).__name__, ctx))
            if ctx is not None:
                ctx["x_of"] = int(idx)             # what an upstream loader / transform records about ITS sample
            if alias == "view":
                return X[idx]                      # a new tensor object on every call, the same storage
            x = self.xs[idx]
            return x if alias else x.clone()

        def getitem_class(self, idx, ctx=None):
            events.append(("class", int(idx), type(idx).__name__, ctx))
            if ctx is not None:
                ctx["cls_of"] = int(idx)
            if kind == "computed":
                return (idx * case["label_mul"] + case["label_add"]) % ncls      # type follows the type of idx
            return self.store[idx]                                              # no clone: like tests_util's dataset

        def getshape_class(self):
            return (ncls,)

        def __len__(self):
            return len(self.xs)

    ds = IdDataset()
    pristine = ([x.clone() for x in xs], store.clone() if hasattr(store, "clone") else list(store))
    return ds, pristine


def alias_kind(case):
    """None: getitem_x clones (like the package's test datasets); 'list': it returns the stored tensor object;
    'view': the samples are rows of one stored tensor and it returns self.x[idx] (equal shapes only)"""
    a = case.get("alias_x", False)
    if not a:
        return None
    if a == "view" and len({tuple(s) for s in case["shapes"]}) == 1:
        return "view"
    return "list"


def shares_storage(ds, t):
    ptrs = {x.untyped_storage().data_ptr() for x in ds.xs}
    return t.untyped_storage().data_ptr() in ptrs


HISTORY_MODES = ["x class", "x", "class", "class x", "x class index"]


def ds_ptrs(ds):
    """the storages the wrapped dataset owns (stored samples, stored label matrix)"""
    import torch
    ptrs = {x.untyped_storage().data_ptr() for x in ds.xs}
    if isinstance(ds.store, torch.Tensor):
        ptrs.add(ds.store.untyped_storage().data_ptr())
    return ptrs


def own_object(t):
    """a tensor with a storage of its own: not a view, the storage holds exactly its entries"""
    return t._base is None and t.storage_offset() == 0 and t.untyped_storage().nbytes() == t.numel() * t.element_size()


class Consumer:
    """What the receiver of the samples does with them.  Every tensor a request returns that is not the wrapped
    dataset's own storage (which the dataset chose to hand out) belongs to the receiver: it must be an object of its
    own -- a whole storage, shared with no other tensor returned by this or an earlier request that is still alive --
    and the receiver may edit it in place (in-place label smoothing, normalisation, ...) without any later request
    noticing.  With `scribble` every such tensor is overwritten with garbage right after it was received.  The edits are
    undone at the end of the case (restore), so a case never depends on what an earlier case of the run did -- also
    where the implementation hands out views of process-wide state."""

    def __init__(self, ds, scribble):
        self.ds, self.scribble = ds, bool(scribble)
        self.alive, self.undo, self.problems, self.k = [], [], [], 0

    def received(self, tag, named):
        import torch
        dsp = ds_ptrs(self.ds)
        fresh = {}
        for name, t in named:
            if not isinstance(t, torch.Tensor) or t.numel() == 0:
                continue
            ptr = t.untyped_storage().data_ptr()
            if ptr in dsp:
                fresh[name] = False            # the dataset's own object, handed on as the dataset chose
                continue
            ok = True
            if not own_object(t):
                ok = False
                self.problems.append(
                    f"the {name} returned by {tag} is a view into a storage of {t.untyped_storage().nbytes()} bytes that "
                    f"is not the wrapped dataset's and outlives the request (the {name} itself has "
                    f"{t.numel() * t.element_size()} bytes): state shared beyond the request")
            for tag2, name2, t2 in self.alive:
                if t2.untyped_storage().data_ptr() == ptr:
                    ok = False
                    self.problems.append(f"the {name} returned by {tag} shares its storage with the {name2} returned by "
                                         f"{tag2}, which is still alive (and not the wrapped dataset's storage)")
                    break
            fresh[name] = ok
            self.alive.append((tag, name, t))
            if self.scribble:
                self.undo.append((t, t.clone()))
                self.k += 1
                with torch.no_grad():
                    t.copy_(torch.full_like(t, -3.0 - self.k))
        return fresh

    def restore(self):
        import torch
        with torch.no_grad():
            for t, saved in reversed(self.undo):
                t.copy_(saved)
        del self.undo[:]
        del self.alive[:]


def named_items(out, toks):
    items = [out] if len(toks) == 1 else (list(out) if isinstance(out, (tuple, list)) else [out])
    return [({"x": "x", "class": "label"}.get(t, t), it) for t, it in zip(toks, items)]


def mutated(ds, pristine):
    import torch
    out = []
    for k, (a, b) in enumerate(zip(ds.xs, pristine[0])):
        if not torch.equal(a, b):
            out.append(f"x[{k}]")
    if hasattr(ds.store, "clone"):
        if not torch.equal(ds.store, pristine[1]):
            if ds.store.ndim == 2:
                out.append("stored label rows were overwritten, their sums are now "
                           + str([round(float(v), 4) for v in ds.store.double().sum(1)]))
            else:
                out.append("labels")
    elif list(ds.store) != pristine[1]:
        out.append("labels")
    return out


def summarise(item, tok):
    import torch
    if tok == "x":
        if not isinstance(item, torch.Tensor):
            return ["bad", type(item).__name__]
        return ["x", list(item.shape), [float(v) for v in item.double().flatten()], str(item.dtype)]
    if tok == "class":
        if not (isinstance(item, torch.Tensor) and item.ndim == 1):
            return ["bad", type(item).__name__ + str(getattr(item, "shape", ""))]
        return ["class", [float(v) for v in item.double()], str(item.dtype)]
    if tok == "index":
        if not isinstance(item, int) or isinstance(item, bool):
            return ["bad", type(item).__name__]
        return ["index", int(item)]
    return ["bad", "unknown token"]


def parse_calls(events):
    """-> list of {"seed", "trace", "loads"} per generator created, or None if the access pattern is not
    [x i, class i, default_rng, partner loads...]* """
    pos = [k for k, e in enumerate(events) if e[0] == "rng"]
    calls = []
    prev_end = 0
    for n, r in enumerate(pos):
        start = r - 2
        if start < prev_end:
            return None
        if n == 0 and start != 0:
            return None
        end = (pos[n + 1] - 2) if n + 1 < len(pos) else len(events)
        if end < r + 1:
            return None
        loads = list(events[start:r]) + list(events[r + 1:end])
        spy = events[r][1]
        calls.append({"seed": spy.seed_arg, "trace": spy.trace, "loads": [[e[0], e[1], e[2]] for e in loads],
                      "ctx_objs": [e[3] if len(e) > 3 else None for e in loads]})
        prev_end = end
    if not pos and events:
        return None
    return calls


def classify(e, stage):
    if isinstance(e, NotImplementedError):
        return "NotImplementedError"
    if isinstance(e, AssertionError):
        return "AssertionError@" + stage
    if isinstance(e, TypeError) and stage == "getitem" and "NoneType" in str(e) and "float()" in str(e):
        return "TypeError@beta(None)"
    if isinstance(e, RuntimeError) and stage == "getitem" and "Class values must be" in str(e):
        return "RuntimeError@one_hot"
    return type(e).__name__ + "@" + stage + ": " + str(e)[:160]


def _double(x):
    return x * 2


def _identity_collate(batch):
    return batch


def build_stack(case, ds, kw):
    """the wrapped dataset stack: [XTransformWrapper(recording)] -> [LabelSmoothingWrapper] -> KDMixWrapper -> [XTransformWrapper(x*2)]"""
    from kappadata.transforms.base.kd_transform import KDTransform
    from kappadata.wrappers.sample_wrappers.kd_mix_wrapper import KDMixWrapper
    from kappadata.wrappers.sample_wrappers.label_smoothing_wrapper import LabelSmoothingWrapper
    from kappadata.wrappers.sample_wrappers.x_transform_wrapper import XTransformWrapper
    stack = case.get("stack") or {}
    below = ds
    if stack.get("xt_rec_below"):
        class Recording(KDTransform):
            """a transform that records a parameter of the sample it is applied to (here: which sample it saw)"""

            def __call__(self, x, ctx=None):
                if ctx is not None:
                    ctx["rec_of"] = int(float(x.flatten()[0])) // 8 - 1 if x.numel() else -1
                return x

        below = XTransformWrapper(dataset=below, transform=Recording())
    if stack.get("ls_below"):
        below = LabelSmoothingWrapper(dataset=below, smoothing=stack["ls_below"])
    w = KDMixWrapper(dataset=below, **kw)
    top = w
    if stack.get("xt_above"):
        top = XTransformWrapper(dataset=w, transform=_double)
    elif stack.get("ls_above"):
        # not a supported stack: the smoothing wrapper has no fused getitem_xclass and smooths class ids only
        top = LabelSmoothingWrapper(dataset=w, smoothing=stack["ls_above"])
    return w, top


def run_impl(case):
    box = {}
    try:
        obs = _run_impl(case, box)
        c = box.get("consumer")
        if c is not None and c.problems:
            obs["storage"] = c.problems[:3]
        return obs
    finally:
        c = box.get("consumer")
        if c is not None:
            c.restore()            # the harness's own in-place edits of received tensors are undone


def _run_impl(case, box):
    import gc
    import torch
    import numpy as np
    from torch.utils.data import DataLoader
    from kappadata.wrappers.mode_wrapper import ModeWrapper
    from kappadata.wrappers.sample_wrappers import kd_mix_wrapper as M

    n = len(case["shapes"])
    idx = case["idx"]
    norm_idx = idx + n if idx < 0 else idx
    events = []
    ds, pristine = build_dataset(case, events)
    consumer = box["consumer"] = Consumer(ds, case.get("scribble"))
    kw = {}
    for k in ("mixup_p", "cutmix_p", "mixup_alpha", "cutmix_alpha"):
        if case.get(k) is not None:
            kw[k] = case.get(k)
    if case["unify"] is not None:
        kw["mixup_unify_shapes_mode"] = case["unify"]
    if case["seed"] is not None:
        kw["seed"] = case["seed"]
    obs = {"result": "ok", "total_p": None}
    try:
        w, top = build_stack(case, ds, kw)
    except Exception as e:
        obs["result"] = classify(e, "KDMixWrapper")
        return obs
    obs["total_p"] = float(w.total_p)
    # earlier requests served by the same wrapper stack (their draws are not recorded: whatever they are, the dataset
    # must be what it was afterwards and the recorded request must not notice them)
    hist = case.get("history") or []
    if hist:
        np.random.seed(case["rng"][1] % (2 ** 32))
        kept, raised = [], 0
        for hk, (hidx, hmode) in enumerate(hist):
            hm_ = HISTORY_MODES[hmode % len(HISTORY_MODES)]
            try:
                got = ModeWrapper(dataset=top, mode=hm_)[hidx % n]
            except Exception:
                raised += 1
                continue
            kept.append(got)           # the receiver keeps what it got (and, with scribble, edits it in place)
            consumer.received(f"earlier request #{hk} (mode '{hm_}', index {hidx % n})", named_items(got, hm_.split()))
        obs["history"] = {"n": len(hist), "raised": raised, "mutated": mutated(ds, pristine)}
        del events[:]              # the access log / generator log describe the recorded request only
    mode = " ".join(case["tokens"])
    rc = bool(case.get("rc", False))
    above = bool((case.get("stack") or {}).get("xt_above"))

    def unpack_out(out):
        """-> (items, ctx | None) with the x items un-doubled when an x*2 transform sits above the mix wrapper"""
        ctx = None
        if rc:
            out, ctx = out
        items = [out] if len(case["tokens"]) == 1 else (list(out) if isinstance(out, (tuple, list)) else [out])
        if above:
            items = [it / 2 if (t == "x" and isinstance(it, torch.Tensor)) else it for it, t in zip(items, case["tokens"])]
        return out, items, ctx

    orig_np = M.np
    orig_global = getattr(M, "GlobalRng", None)
    f_default, f_global = make_factory(case, events, norm_idx, orig_global)
    M.np = NpProxy(orig_np, f_default)
    if orig_global is not None:
        M.GlobalRng = f_global           # the name the wrapper looks up when it has no seed
    real_global = case["rng"][0] == "global" and case["seed"] is None and orig_global is not None
    out = None
    try:
        try:
            mw = ModeWrapper(dataset=top, mode=mode, return_ctx=rc)
        except Exception as e:
            obs["result"] = classify(e, "ModeWrapper")
            return obs
        if real_global:
            import random as _random
            np.random.seed(case["rng"][1] % (2 ** 32))
            state_torch, state_random = torch.get_rng_state().clone(), _random.getstate()
            state_numpy = np.random.get_state()
        try:
            out = mw[idx]
        except Exception as e:
            obs["result"] = classify(e, "getitem")
        if real_global:
            drew = any(c[0] == "rng" and c[1].trace for c in events)
            obs["global"] = {
                "torch_untouched": bool(torch.equal(state_torch, torch.get_rng_state())),
                "random_untouched": state_random == _random.getstate(),
                "numpy_consumed": (not drew) or np.random.get_state()[2] != state_numpy[2]
                                  or bool((np.random.get_state()[1] != state_numpy[1]).any()),
            }
        obs["calls"] = parse_calls(events)
        obs["mutated"] = mutated(ds, pristine)
        if obs["result"] != "ok":
            for c in obs["calls"] or []:
                c.pop("ctx_objs", None)
            return obs
        toks = case["tokens"]
        out, items, ctx = unpack_out(out)
        if len(toks) == 1:
            obs["layout"] = "tuple" if isinstance(out, (tuple, list)) else "single"
        else:
            obs["layout"] = "tuple" if isinstance(out, tuple) and len(out) == len(toks) else f"{type(out).__name__}"
        obs["items"] = [summarise(it, t) for it, t in zip(items, toks)]
        obs["n_items"] = len(items)
        if not above:
            for it, t in zip(items, toks):
                if t == "x" and isinstance(it, torch.Tensor):
                    obs["x_shares"] = bool(shares_storage(ds, it))
        # the receiver takes the returned tensors (comparisons below use copies made now)
        raw_named = named_items(out, toks)
        items = [it.clone() if isinstance(it, torch.Tensor) else it for it in items]
        fresh = consumer.received("the request", raw_named)
        if "label" in fresh or any(t == "class" and isinstance(it, torch.Tensor) for t, (_, it) in zip(toks, raw_named)):
            obs["lab_fresh"] = bool(fresh.get("label", True))
        # the context: which calls of the wrapped dataset were handed the dictionary that is returned, what it contains
        for c in obs["calls"] or []:
            objs = c.pop("ctx_objs")
            c["ctx_loads"] = [l for l, o in zip(c["loads"], objs) if ctx is not None and o is ctx]
        if rc:
            obs["ctx"] = {str(k): (int(v) if isinstance(v, int) else repr(v)) for k, v in ctx.items()}
        else:
            obs["ctx"] = None

        # the three requests (and a repetition) under the same seed
        if case["seed"] is not None and any(t in ("x", "class") for t in toks):
            def fetch(m):
                return ModeWrapper(dataset=top, mode=m)[idx]
            try:
                x1 = fetch("x")
                c1 = fetch("class")
                x2, c2 = fetch("x class")
                c3, x3 = fetch("class x")
                x4, c4 = fetch("x class")
                agree = (torch.equal(x1, x2) and torch.equal(x2, x3) and torch.equal(x3, x4)
                         and torch.equal(c1, c2) and torch.equal(c2, c3) and torch.equal(c3, c4))
                for it, t in zip(items, toks):
                    if t == "x":
                        agree = agree and torch.equal(it, x2 / 2 if above else x2)
                    if t == "class":
                        agree = agree and torch.equal(it, c2)
                obs["views_agree"] = bool(agree)
                for tag, nm in (("the repeated request 'x'", [("x", x1)]), ("the repeated request 'class'", [("label", c1)]),
                                ("the repeated request 'x class'", [("x", x2), ("label", c2)]),
                                ("the repeated request 'class x'", [("label", c3), ("x", x3)]),
                                ("the second repeated request 'x class'", [("x", x4), ("label", c4)])):
                    consumer.received(tag, nm)
            except Exception as e:
                obs["views_agree"] = "raised " + type(e).__name__
            obs["mutated"] = mutated(ds, pristine)
    finally:
        M.np = orig_np
        if orig_global is not None:
            M.GlobalRng = orig_global
    # the real GlobalRng without any recording: equal global numpy state gives equal results (twice), equal to the
    # recorded run; torch / random global state is not consumed
    if real_global and obs["result"] == "ok":
        import random as _random
        runs = []
        for _ in range(2):
            np.random.seed(case["rng"][1] % (2 ** 32))
            st_t, st_r = torch.get_rng_state().clone(), _random.getstate()
            _, its, _ = unpack_out(ModeWrapper(dataset=top, mode=mode, return_ctx=rc)[idx])
            runs.append(its)
            if not torch.equal(st_t, torch.get_rng_state()):
                obs["global"]["torch_untouched"] = False
            if st_r != _random.getstate():
                obs["global"]["random_untouched"] = False
        same = True
        for its in runs:
            for a, b in zip(items, its):
                same = same and (torch.equal(a, b) if isinstance(a, torch.Tensor) else a == b)
        obs["global"]["same_state_same_result"] = bool(same)
    # transparency of the spy: the same request with numpy's own default_rng (seeded cases, numpy draws)
    if obs["result"] == "ok" and case["seed"] is not None and case["rng"][0] == "numpy":
        _, items2, _ = unpack_out(ModeWrapper(dataset=top, mode=mode, return_ctx=rc)[idx])
        same = True
        for a, b in zip(items, items2):
            same = same and (torch.equal(a, b) if isinstance(a, torch.Tensor) else a == b)
        obs["unpatched_same"] = bool(same)
    # through a real DataLoader (the stack's own worker_init_fn; samples are returned uncollated)
    ld = case.get("loader")
    if ld and obs["result"] == "ok":
        torch.manual_seed(case["rng"][1])
        mwl = ModeWrapper(dataset=top, mode=mode, return_ctx=rc)
        try:
            # the requested sample three times (other samples of the dataset may raise one of the documented errors)
            loader = DataLoader(mwl, batch_size=ld["bs"], sampler=[norm_idx] * 3, num_workers=ld["workers"],
                                collate_fn=_identity_collate, worker_init_fn=mwl.worker_init_fn if ld["workers"] else None)
            got = [smp for batch in loader for smp in batch]
            del loader
            if ld["workers"]:
                gc.collect() # no stale worker-iterator objects may survive into the next fork
            if len(got) != 3:
                obs["loader"] = f"{len(got)} samples for a sampler of 3"
            else:
                _, items3, ctx3 = unpack_out(got[-1])
                obs["loader_items"] = [summarise(it, t) for it, t in zip(items3, case["tokens"])]
                obs["loader_ctx"] = None if ctx3 is None else {str(k): (int(v) if isinstance(v, int) else repr(v)) for k, v in ctx3.items()}
                if case["seed"] is not None:
                    # reference: the same seeded request in this process with numpy's own generator
                    _, ref, _ = unpack_out(ModeWrapper(dataset=top, mode=mode, return_ctx=rc)[idx])
                    same = len(items3) == len(ref)
                    for a, b in zip(ref, items3):
                        same = same and (torch.equal(a, b) if isinstance(a, torch.Tensor) else a == b)
                    obs["loader"] = "same" if same else "differs from the in-process request with the same seed"
                else:
                    obs["loader"] = "unseeded"
        except Exception as e:
            r = classify(e, "getitem")
            if expected_error(case, {"result": r}):
                obs["loader"] = "documented error"
            else:
                obs["loader"] = "raised " + type(e).__name__ + ": " + str(e)[:300]
    if obs["result"] == "ok":
        obs["mutated"] = mutated(ds, pristine)
    return obs


# ---------------------------------------------------------------------------
# independent Python statement of the property
# ---------------------------------------------------------------------------
def unified_np(case, i, p):
    """sample p seen through the box of sample i (float64 numpy), and sample i"""
    import numpy as np
    si, sp = case["shapes"][i], case["shapes"][p]
    xi = np.array([float(v) for v in sample_values(i, si)]).reshape(si)
    xp = np.array([float(v) for v in sample_values(p, sp)]).reshape(sp)
    u = np.zeros(si)
    if len(si) == len(sp):
        common = tuple(slice(0, min(a, b)) for a, b in zip(si, sp))
        u[common] = xp[common]
    return xi, u


def expected_error(case, obs):
    """is this exception documented behaviour for this configuration?"""
    r = obs["result"]
    toks = case["tokens"]
    ls_above = (case.get("stack") or {}).get("ls_above")
    if r == "AssertionError@ModeWrapper":
        # label smoothing above the mix wrapper: "LabelSmoothingWrapper has no method getitem_x / getitem_xclass" (below a
        # wrapper with fused items ModeWrapper wants every item implemented on the outermost wrapper's class)
        return any(t not in ("x", "class", "index") for t in toks) or (ls_above is not None and "x" in toks)
    if r == "AssertionError@getitem" and ls_above and "class" in toks:
        return True        # LabelSmoothingWrapper asserts a class id, the mix wrapper hands it a vector
    if r == "NotImplementedError":
        return (case["cutmix_p"] or 0.0) > 0.0 or case["unify"] not in (None, "pad_or_cut_end")
    if r == "AssertionError@getitem":
        return case["unify"] is None and len({tuple(s) for s in case["shapes"]}) > 1
    if r == "RuntimeError@one_hot":
        # a class id outside [0, n_classes): torch's one_hot raises as soon as that sample (i or the partner) is loaded
        return any(row[0] == "int" and not (0 <= row[1] < case["ncls"]) for row in label_rows(case))
    if r == "TypeError@beta(None)":
        # cutmix-only configuration (nothing of it is implemented) and apply == cutmix_p == total_p exactly:
        # the draw is not < cutmix_p, so the mixup branch runs with mixup_alpha None
        return not case["mixup_p"] and (case["cutmix_p"] or 0.0) > 0.0
    return False


def call_partner(call):
    """(partner | None, problem | None) from the access log of one getitem_xclass call"""
    loads = call["loads"]
    if len(loads) == 2:
        return None, None
    if len(loads) == 4:
        (k1, p1, _), (k2, p2, _) = loads[2], loads[3]
        if {k1, k2} != {"x", "class"}:
            return None, f"partner loads are {k1}, {k2}"
        if p1 != p2:
            return None, f"data loaded from sample {p1 if k1 == 'x' else p2} but label from sample {p2 if k1 == 'x' else p1}"
        return p1, None
    return None, f"{len(loads)} dataset accesses in one call"


def decode(case, obs, i, p):
    """least-squares weight explaining the returned x / class items with partner p -> (w, max residual x, max residual cls)"""
    import numpy as np
    n = case["ncls"]
    rows = label_rows(case)
    li = np.array([float(v) for v in label_vec(rows[i], n)])
    lp = np.array([float(v) for v in label_vec(rows[p], n)])
    xi, u = unified_np(case, i, p)
    num = den = 0.0
    for it in obs["items"]:
        if it[0] == "class" and len(it[1]) == n:
            r = np.array(it[1])
            num += float(((r - lp) * (li - lp)).sum())
            den += float(((li - lp) ** 2).sum())
    if den == 0.0:
        for it in obs["items"]:
            if it[0] == "x" and list(it[1]) == list(case["shapes"][i]):
                r = np.array(it[2]).reshape(case["shapes"][i])
                num += float(((r - u) * (xi - u)).sum())
                den += float(((xi - u) ** 2).sum())
    w = num / den if den > 0.0 else 1.0
    return w


def check_items(case, obs, i, p, w):
    """None if partner p / weight w (p None: untouched) explains every returned item"""
    import numpy as np
    n = case["ncls"]
    rows = label_rows(case)
    li = np.array([float(v) for v in label_vec(rows[i], n)])
    if p is None:
        ex_x = np.array([float(v) for v in sample_values(i, case["shapes"][i])])
        ex_c = li
    else:
        lp = np.array([float(v) for v in label_vec(rows[p], n)])
        xi, u = unified_np(case, i, p)
        ex_x = (w * xi + (1 - w) * u).flatten()
        ex_c = w * li + (1 - w) * lp
    for it, t in zip(obs["items"], case["tokens"]):
        if it[0] == "bad":
            return f"item '{t}' is a {it[1]}"
        if t == "x":
            if list(it[1]) != list(case["shapes"][i]):
                return f"x has shape {it[1]}, sample {i} has shape {case['shapes'][i]}"
            d = float(np.abs(np.array(it[2]) - ex_x).max()) if len(it[2]) else 0.0
            if d > (0.07 if case.get("dtype") == "float16" and p is not None else 2e-3):
                return (f"x differs by {d:.5f} from " + ("the untouched sample" if p is None else
                                                           f"{w:.6f}*x_{i} + {1 - w:.6f}*x_{p} (padded/cut to x_{i}'s shape)"))
        elif t == "class":
            r = np.array(it[1])
            if len(r) != n:
                return f"label has {len(r)} entries, n_classes = {n}"
            d = float(np.abs(r - ex_c).max())
            if d > 1e-5:
                return (f"label {[round(v, 6) for v in it[1]]} differs by {d:.6f} from " +
                        ("the one-hot label" if p is None else f"{w:.6f}*y_{i} + {1 - w:.6f}*y_{p} = {[round(float(v), 6) for v in ex_c]}"))
            ins = [li] if p is None else [li, lp]
            if all(abs(float(v.sum()) - 1.0) <= 1e-6 and float(v.min()) >= 0.0 for v in ins) and \
                    (float(r.min()) < 0.0 or abs(float(r.sum()) - 1.0) > 1e-5):
                return f"label {[round(v, 6) for v in it[1]]} is not a probability vector (sum {float(r.sum()):.6f})"
        elif t == "index":
            if it[1] != i:
                return f"index item is {it[1]}, expected {i}"
    return None


def witness(case, obs):
    """-> (witness | 'none', message | None): the call whose partner/weight explains the returned items"""
    n = len(case["shapes"])
    i = case["idx"] + n if case["idx"] < 0 else case["idx"]
    calls = obs["calls"]
    wants = any(t in ("x", "class") for t in case["tokens"])
    if not calls:
        if wants:
            return None, "x / class requested but no generator was created"
        msg = check_items(case, obs, i, None, 1.0)
        return "none", msg
    last_msg = None
    for call in reversed(calls):
        p, prob = call_partner(call)
        if prob:
            last_msg = last_msg or prob
            continue
        if p is None:
            msg = check_items(case, obs, i, None, 1.0)
            if msg is None:
                return "none", None
        else:
            if not (0 <= p < n):
                last_msg = last_msg or f"partner index {p} outside the dataset"
                continue
            w = decode(case, obs, i, p)
            if not (-1e-6 <= w <= 1.0 + 1e-6):
                msg = f"weight {w:.6f} decoded for partner {p} is outside [0,1]"
            else:
                w = min(1.0, max(0.0, w))
                msg = check_items(case, obs, i, p, w)
                if msg is None:
                    return [p, w], None
        last_msg = last_msg or msg
    return None, last_msg


def oracle(case, obs):
    if "harness_exception" in obs:
        return "harness exception: " + obs["harness_exception"] + obs.get("tb", "")
    n = len(case["shapes"])
    i = case["idx"] + n if case["idx"] < 0 else case["idx"]
    alias = alias_kind(case)
    hands = {None: "getitem_x hands out clones", "list": "getitem_x hands out the stored tensors",
             "view": "getitem_x hands out views self.x[idx] of one stored tensor"}[alias]
    hm = (obs.get("history") or {}).get("mutated")
    if hm:
        return (f"the wrapped dataset was modified in place by {obs['history']['n']} earlier request(s) through the same "
                f"wrapper: {hm} ({hands}, getitem_class the stored label like tests_util's ClassificationDataset)")
    if obs.get("storage"):
        return ("a returned tensor is not an object of its own: " + "; ".join(obs["storage"])
                + (" [the receiver overwrites what it receives in place: later requests read the garbage]"
                   if case.get("scribble") else ""))
    if obs["result"] != "ok":
        if expected_error(case, obs):
            if obs.get("mutated"):
                return f"the wrapped dataset was modified ({obs['mutated']}) by a request that raised {obs['result']}"
            return None
        return f"ModeWrapper(KDMixWrapper(...), '{' '.join(case['tokens'])}')[{case['idx']}] raised {obs['result']}"
    if obs["mutated"]:
        return (f"the wrapped dataset was modified in place: {obs['mutated']} ({hands}, getitem_class "
                f"the stored label like tests_util's ClassificationDataset)")
    want_dt = "torch." + (case.get("dtype") or "float32")
    for it, t in zip(obs["items"], case["tokens"]):
        if t == "x" and it[0] == "x" and it[3] != want_dt:
            return (f"x has dtype {it[3]}, the samples of the dataset have {want_dt} (an untouched sample keeps its dtype: "
                    f"the dtype of a sample must not depend on the draw)")
    exp_layout = "single" if len(case["tokens"]) == 1 else "tuple"
    if obs["layout"] != exp_layout or obs["n_items"] != len(case["tokens"]):
        return f"returned {obs['layout']} with {obs['n_items']} items for mode {case['tokens']}"
    calls = obs["calls"]
    if calls is None:
        return "access pattern of the wrapped dataset is not [x i, class i, default_rng, partner loads] per request"
    for call in calls:
        exp_seed = None if case["seed"] is None else case["seed"] + i
        if call["seed"] != exp_seed:
            return f"generator created with seed {call['seed']}, expected seed + idx = {exp_seed}"
        if call["loads"][0][:2] != ["x", i] or call["loads"][1][:2] != ["class", i]:
            return f"request for index {i} loaded {call['loads'][:2]}"
        p, prob = call_partner(call)
        if prob:
            return prob
        if p is None and obs["total_p"] >= 1.0:
            return f"probability one configured (total_p = {obs['total_p']}) but no partner was loaded (draws {call['trace']})"
    wit, msg = witness(case, obs)
    if wit is None:
        return f"sample {i}: no (partner, weight) the dataset was asked for explains the returned items: {msg}"
    if msg:
        return msg
    if case["rng"][0] == "global" and case["seed"] is None and "global" in obs:
        g = obs["global"]
        if not g.get("same_state_same_result", True):
            return "no seed: two requests under the same np.random.seed(...) state returned different samples"
        if not g["torch_untouched"] or not g["random_untouched"]:
            return f"no seed: the request consumed global random state other than numpy's ({g})"
        if not g["numpy_consumed"]:
            return "no seed: draws were made but the process-global numpy generator did not advance"
    # the returned context describes the requested sample
    for name, c in (("", obs.get("ctx")), (" (through the DataLoader)", obs.get("loader_ctx"))):
        for k, v in (c or {}).items():
            if v != i:
                return (f"the context returned for sample {i}{name} carries the entry {k!r} = {v} recorded while another "
                        f"sample (the mixing partner) was loaded: {c}")
    if case.get("rc") and any(t in ("x", "class") for t in case["tokens"]) and set(obs.get("ctx") or {}) < {"x_of", "cls_of"}:
        return f"the returned context lacks the entries recorded while sample {i} was loaded: {obs.get('ctx')}"
    if case.get("loader"):
        lo = obs.get("loader")
        if lo not in ("same", "unseeded", "documented error"):
            return f"fetching the dataset through a DataLoader ({case['loader']}): {lo}"
        if lo == "unseeded":
            # no seed: the draw differs, the sample must still be untouched or a convex combination with ONE partner
            o2 = dict(obs, items=obs["loader_items"])
            msgs = []
            for p in [None] + list(range(n)):
                if p is None:
                    m = None if obs["total_p"] < 1.0 or not any(t in ("x", "class") for t in case["tokens"]) else "p=1"
                    m = m or check_items(case, o2, i, None, 1.0)
                else:
                    wgt = decode(case, o2, i, p)
                    m = "weight outside [0,1]" if not (-1e-6 <= wgt <= 1 + 1e-6) else check_items(case, o2, i, p, min(1.0, max(0.0, wgt)))
                if m is None:
                    break
                msgs.append(m)
            else:
                return (f"sample {i} fetched through a DataLoader is neither untouched nor a convex combination with one "
                        f"partner: {msgs[-1]}")
    if case["seed"] is not None and any(t in ("x", "class") for t in case["tokens"]):
        if obs.get("views_agree") is not True:
            return f"seed {case['seed']}: 'x', 'class', 'x class', 'class x' and a repeated request disagree ({obs.get('views_agree')})"
        if obs.get("unpatched_same") is False:
            return "the same seeded request differs with numpy's own default_rng (the recording generator is not transparent)"
    return None


# ---------------------------------------------------------------------------
# rendering for Coq
# ---------------------------------------------------------------------------
def q(x):
    f = Fraction(x)
    nu, d = f.numerator, f.denominator
    return Raw(f"(({nu}) # {d})" if nu < 0 else f"({nu} # {d})")


def tok(t):
    return {"x": Raw("TX"), "class": Raw("TClass"), "index": Raw("TIndex")}.get(t) or C("TOther", Nat(0))


def coq_label(row):
    if row[0] == "int":
        return C("LInt", int(row[1]))
    return C("LVec", [q(v) for v in row[1]])


OUTCOME = {"ok": 0, "AssertionError@getitem": 1, "NotImplementedError": 2, "AssertionError@ModeWrapper": 3,
           "RuntimeError@one_hot": 4, "TypeError@beta(None)": 6}


def coq_applicable(case, obs):
    if "harness_exception" in obs:
        return False
    if case.get("dtype") == "float16" and any(call_partner(c)[0] is not None for c in (obs.get("calls") or [])):
        return False       # float16 rounding of a mixed sample exceeds the model's tolerance (Python oracle only)
    if obs["result"] not in OUTCOME:
        return False
    if (case.get("stack") or {}).get("ls_above") is not None and (obs["result"] != "ok" or "class" in case["tokens"]):
        return False       # rejected by ModeWrapper / LabelSmoothingWrapper (or smoothing 0 passing the vector through)
    if obs["result"] == "ok":
        return obs.get("calls") is not None and obs.get("layout") in ("single", "tuple") \
            and obs["n_items"] == len(case["tokens"])
    return True


def coq_draw(d):
    if d[0] == "unit":
        return C("DUnit", q(d[1]))
    if d[0] == "int":
        return C("DInt", d[1], d[2])
    if d[1] != d[2]:
        return C("DBeta", q(-1.0), q(d[3]))     # beta(a, b) with a != b: not what the model expects
    return C("DBeta", q(d[1]), q(d[3]))


def coq_case(case, obs):
    n = len(case["shapes"])
    i = case["idx"] + n if case["idx"] < 0 else case["idx"]
    unify = {None: "UNone", "pad_or_cut_end": "UPadOrCutEnd"}.get(case["unify"], "UOther")
    cfg = Rec(
        total_p=q(obs["total_p"]), cutmix_p=q(case["cutmix_p"] or 0.0),
        mixup_alpha=Opt(None if case["mixup_alpha"] is None else q(float(case["mixup_alpha"]))),
        cutmix_alpha=Opt(None if case["cutmix_alpha"] is None else q(float(case["cutmix_alpha"]))),
        unify=Raw(unify), seed=Opt(case["seed"]), with_ctx=bool(case.get("rc", False)),
    )
    rows = label_rows(case)
    lit = [([Nat(s) for s in sh], [q(v) for v in sample_values(k, sh)], coq_label(rows[k]))
           for k, sh in enumerate(case["shapes"])]
    calls = []
    for c in (obs.get("calls") or []):
        loads = [C("LdX" if l[0] == "x" else "LdClass", int(l[1])) for l in c["loads"]]
        cl = [C("LdX" if l[0] == "x" else "LdClass", int(l[1])) for l in c.get("ctx_loads", [])]
        calls.append(Rec(oc_seed=Opt(c["seed"]), oc_draws=[coq_draw(d) for d in c["trace"]], oc_loads=loads, oc_ctx=cl))
    items = []
    wit = Raw("None")
    if obs["result"] == "ok":
        for it in obs["items"]:
            if it[0] == "x":
                items.append(C("OX", [Nat(s) for s in it[1]], [q(v) for v in it[2]]))
            elif it[0] == "class":
                items.append(C("OCls", [q(v) for v in it[1]]))
            elif it[0] == "index":
                items.append(C("OIndex", it[1]))
            else:
                items.append(Raw("OBad"))
        w, _ = witness(case, obs)
        if isinstance(w, list):
            wit = Opt((Nat(w[0]), q(w[1])))
        elif w is None:
            # nothing explains the output: hand the last call's partner to the spec (it will say no)
            cs = obs.get("calls") or []
            p = call_partner(cs[-1])[0] if cs else None
            wit = Raw("None") if p is None else Opt((Nat(max(0, p)), q(0.5)))
    ctx_ids = [v if isinstance(v, int) else -1 for v in (obs.get("ctx") or {}).values()] if obs["result"] == "ok" else []
    changed = bool(obs.get("mutated")) or bool((obs.get("history") or {}).get("mutated"))
    shares = obs.get("x_shares") if obs["result"] == "ok" else None
    o = Rec(o_calls=calls, o_items=items, o_wit=wit, o_ctx_ids=ctx_ids, o_alias=alias_kind(case) is not None,
            o_store_changed=changed, o_x_shares=Opt(shares),
            o_lab_fresh=Opt(obs.get("lab_fresh") if obs["result"] == "ok" else None))
    return coq((cfg, (lit, Nat(case["ncls"])), [tok(t) for t in case["tokens"]], Nat(i), Nat(OUTCOME[obs["result"]]), o))


# ---------------------------------------------------------------------------
# cases
# ---------------------------------------------------------------------------
def gen_case(rng, big=False, tier="quick"):
    n = rng.choice([1, 2, 2, 3, 3, 4, 4, 5, 6, 7])
    rank = rng.choice([1, 1, 2, 2, 3])
    hi = 5 if big else 4
    shape_kind = rng.choice(["equal", "equal", "differ", "differ", "differ"])
    base = [rng.randint(1, hi) for _ in range(rank)]
    if shape_kind == "equal":
        shapes = [list(base) for _ in range(n)]
    else:
        shapes = [[rng.randint(1, hi) for _ in range(rank)] for _ in range(n)]
    differ = len({tuple(s) for s in shapes}) > 1
    r = rng.random()
    if r < 0.45:
        mp, cp = 1.0, None
    elif r < 0.8:
        mp, cp = rng.choice([0.3, 0.5, 0.9, 0.05]), None
    elif r < 0.9:
        mp, cp = rng.choice([(0.5, 0.5), (0.75, 0.25), (0.3, 0.1), (0.875, 0.125)])
    elif r < 0.95:
        mp, cp = None, rng.choice([1.0, 0.5])
    else:
        mp, cp = rng.choice([0.5, 1.0]), 0.0
    has_mix = bool(mp)
    if has_mix:
        if differ:
            unify = rng.choice(["pad_or_cut_end"] * 8 + [None, "bogus"])
        else:
            unify = rng.choice([None, None, "pad_or_cut_end", "pad_or_cut_end", "pad_or_cut_end", "bogus"] if rng.random() < 0.3
                               else [None, "pad_or_cut_end"])
    else:
        unify = None
    kind = rng.choice(LABEL_KINDS)
    ncls = max(2, rng.choice([n, n, n + 1, n + 3, rng.randint(2, 5)]))
    if kind == "vec_soft":
        vals = []
        for _ in range(n):
            cuts = sorted(rng.randint(0, 16) for _ in range(ncls - 1))
            vals.append([b - a for a, b in zip([0] + cuts, cuts + [16])])
    elif ncls >= n and rng.random() < 0.8:
        vals = list(range(n))                      # the label identifies the sample
    else:
        vals = [rng.randrange(ncls) for _ in range(n)]
    case = {
        "shapes": shapes, "ncls": ncls, "labels": [kind, vals],
        "mixup_p": mp, "cutmix_p": cp,
        "mixup_alpha": rng.choice(ALPHAS) if has_mix else None,
        "cutmix_alpha": rng.choice(ALPHAS) if cp else None,
        "unify": unify,
        "seed": rng.choice([None, None, rng.randrange(10 ** 6), rng.randrange(50), 0]),
        "tokens": list(rng.choice(TOKSETS)),
        "idx": rng.randrange(-n, n) if rng.random() < 0.2 else rng.randrange(n),
        "rng": [rng.choice(["numpy", "numpy", "script"]), rng.randrange(10 ** 6)],
    }
    if kind == "computed":
        case["label_mul"], case["label_add"] = rng.choice([(1, 0), (1, 1), (2, 1), (3, 0)])
        case["labels"] = [kind, [(k * case["label_mul"] + case["label_add"]) % ncls for k in range(n)]]
    if rng.random() < 0.04:
        case["tokens"] = case["tokens"] + ["aux0"]
    r = rng.random()
    if r < 0.2:
        case["alias_x"] = True                  # getitem_x returns the stored tensor object
    elif r < 0.4:
        case["alias_x"] = "view"                # ... a view self.x[idx] of one stored tensor (equal shapes; else as above)
    if rng.random() < 0.4:
        case["history"] = [[rng.randrange(n), rng.randrange(len(HISTORY_MODES))] for _ in range(rng.randint(1, 4))]
        if rng.random() < 0.5:
            case["history"][-1][0] = case["idx"] % n          # the same index was requested just before
    if rng.random() < 0.6:
        case["scribble"] = True                 # the receiver overwrites every tensor it receives in place
    r = rng.random()
    if r < 0.08:
        case["dtype"] = "float64"
    elif r < 0.14:
        case["dtype"] = "float16"
    if case["seed"] is None and rng.random() < 0.12:
        case["rng"] = ["global", case["rng"][1]]      # the real GlobalRng under np.random.seed(...)
    # return_ctx, wrapper stacks around the mix wrapper
    case["rc"] = rng.random() < 0.5
    stack = {}
    if rng.random() < 0.3:
        stack["xt_rec_below"] = True
    if kind in ("int", "computed", "tensor0") and rng.random() < 0.3:
        stack["ls_below"] = rng.choice([0.1, 0.125, 0.25, 0.5, 1.0, 0])
    if rng.random() < 0.2:
        stack["xt_above"] = True
    elif rng.random() < 0.05:
        stack["ls_above"] = rng.choice([0.1, 0.5, 0])
    if stack:
        case["stack"] = stack
    # class counts / labels outside the usual: one class, class ids out of range, 1-element float vectors
    r = rng.random()
    if r < 0.06 and kind in ("int", "tensor0") and stack.get("ls_below") is not None:
        stack.pop("ls_below")              # the smoothing wrapper has its own ideas about one class / ids out of range
        case["stack"] = stack
    if r < 0.03 and kind in ("int", "tensor0"):
        case["ncls"] = 1
        case["labels"] = [kind, [rng.choice([0, 0, 0, 1]) for _ in range(n)]]
    elif r < 0.06 and kind in ("int", "tensor0"):
        v = list(case["labels"][1])
        v[rng.randrange(n)] = rng.choice([case["ncls"], case["ncls"] + 2, -1])
        case["labels"] = [kind, v]
    elif r < 0.09:
        case["ncls"] = 1
        case["labels"] = ["vec1", [[rng.choice([0, 16, 16, 0, 8, 4])] for _ in range(n)]]
        case.pop("stack", None)
        if stack.get("xt_rec_below") or stack.get("xt_above"):
            case["stack"] = {k: v for k, v in stack.items() if k != "ls_below"}
    if tier_loader(rng, tier):
        case["loader"] = {"bs": rng.randint(1, 3), "workers": 2 if (tier == "thorough" and rng.random() < 0.5) else 0}
    return case


def tier_loader(rng, tier):
    return rng.random() < (1 / 7)


def gen_cases(rng, tier):
    nq = 1000 if tier == "quick" else 8000
    out = [gen_case(rng, tier=tier) for _ in range(nq)]
    out += [gen_case(rng, big=True, tier=tier) for _ in range(100 if tier == "quick" else 1500)]
    return out


def search_cases(rng, tier):
    for _ in range(20000):
        yield gen_case(rng, big=rng.random() < 0.2)


def shrink(case):
    for key in ("loader", "stack", "history", "dtype", "scribble"):
        if case.get(key):
            c = dict(case)
            c.pop(key)
            yield c
    if case.get("history") and len(case["history"]) > 1:
        for k in range(len(case["history"])):
            yield dict(case, history=case["history"][:k] + case["history"][k + 1:])
    if case.get("alias_x") == "view":
        yield dict(case, alias_x=True)
    if case.get("stack") and len(case["stack"]) > 1:
        for k in case["stack"]:
            yield dict(case, stack={a: b for a, b in case["stack"].items() if a != k})
    n = len(case["shapes"])
    i = case["idx"] + n if case["idx"] < 0 else case["idx"]
    kind, vals = case["labels"]
    if case["idx"] < 0:
        yield dict(case, idx=i)
    # drop a sample other than i (the last one, or the first one with idx shifted)
    if n > 1 and kind != "computed":
        if i != n - 1:
            yield dict(case, shapes=case["shapes"][:-1], labels=[kind, vals[:-1]], idx=i)
        if i != 0:
            yield dict(case, shapes=case["shapes"][1:], labels=[kind, vals[1:]], idx=i - 1)
    if n > 1 and kind == "computed" and i != n - 1:
        yield dict(case, shapes=case["shapes"][:-1], labels=[kind, vals[:-1]], idx=i)
    # equal small shapes
    if any(s != [1] for s in case["shapes"]):
        yield dict(case, shapes=[[2] for _ in case["shapes"]])
        yield dict(case, shapes=[[2] if k == i else [1] for k, _ in enumerate(case["shapes"])])
    for k, s in enumerate(case["shapes"]):
        for d in range(len(s)):
            if s[d] > 1:
                t = [list(u) for u in case["shapes"]]
                t[k][d] -= 1
                yield dict(case, shapes=t)
    for t in case["tokens"]:
        if len(case["tokens"]) > 1:
            yield dict(case, tokens=[u for u in case["tokens"] if u != t])
    if case["rng"][1] > 20:
        for s in range(4):
            yield dict(case, rng=[case["rng"][0], s])
    if case["seed"] is not None and case["seed"] > 3:
        for s in range(3):
            yield dict(case, seed=s)
    if kind not in ("int",) and kind != "vec_soft":
        yield dict(case, labels=["int", vals])


def features(case, obs):
    n = len(case["shapes"])
    yield "n=%d" % n
    yield "rank=%d" % len(case["shapes"][0])
    yield "shapes=" + ("differ" if len({tuple(s) for s in case["shapes"]}) > 1 else "equal")
    yield "labels=" + case["labels"][0]
    yield "unify=%s" % case["unify"]
    yield "seeded" if case["seed"] is not None else "unseeded"
    yield "p=%s/%s" % (case["mixup_p"], case["cutmix_p"])
    yield "mode=" + " ".join(case["tokens"])
    yield "rng=" + case["rng"][0]
    if "global" in obs:
        yield "real GlobalRng: " + ("reproducible under np.random.seed, torch/random untouched"
                                    if all(obs["global"].values()) else str(obs["global"]))
    yield "result=" + obs.get("result", "harness_exception")[:40]
    if case["idx"] < 0:
        yield "negative idx"
    calls = obs.get("calls") or []
    yield "generators=%d" % len(calls)
    i = case["idx"] + n if case["idx"] < 0 else case["idx"]
    for c in calls:
        p, _ = call_partner(c)
        yield "untouched" if p is None else ("mixed with itself" if p == i else "mixed")
        for d in c["trace"]:
            if d[0] == "unit" and obs.get("total_p") is not None and d[1] == obs["total_p"]:
                yield "apply == total_p exactly"
            if d[0] == "beta" and d[3] in (0.0, 1.0):
                yield "lambda exactly 0 or 1"
    yield "return_ctx=%s" % bool(case.get("rc"))
    for k in (case.get("stack") or {}):
        yield "stack " + k
    if case.get("loader"):
        yield "loader workers=%d: %s" % (case["loader"]["workers"], str(obs.get("loader"))[:20])
    if case["ncls"] == 1:
        yield "one class"
    yield "dataset hands out " + {None: "clones", "list": "its stored tensors", "view": "views of one stored tensor"}[alias_kind(case)]
    if alias_kind(case) and any(call_partner(c)[0] == i for c in calls):
        yield "aliasing dataset mixed with itself (x2 is x)"
    if obs.get("history"):
        yield "history of %d earlier requests" % obs["history"]["n"]
    if case.get("scribble"):
        yield "receiver overwrites received tensors in place" + (" (after every request of a history)" if obs.get("history") else "")
    if "lab_fresh" in obs:
        yield "returned label " + ("is an object of its own" if obs["lab_fresh"] else "is the dataset's stored vector / shared")
    if "x_shares" in obs:
        yield "returned x " + ("is the dataset's storage" if obs["x_shares"] else "is a new tensor")
    yield "dtype=" + (case.get("dtype") or "float32")


def nontrivial_key(case, obs):
    if obs.get("result") != "ok":
        return None
    calls = obs.get("calls") or []
    ps = [call_partner(c)[0] for c in calls]
    if not any(p is not None for p in ps):
        return None
    n = len(case["shapes"])
    i = case["idx"] + n if case["idx"] < 0 else case["idx"]
    p = [p for p in ps if p is not None][-1]
    if not (0 <= p < n):
        return None
    return (tuple(case["shapes"][i]), tuple(case["shapes"][p]), tuple(case["tokens"]), case["labels"][0], case["unify"],
            case["seed"] is not None, case["mixup_p"], case["cutmix_p"], tuple(sorted(case.get("stack") or {})),
            bool(case.get("rc")), alias_kind(case), bool(case.get("history")))
