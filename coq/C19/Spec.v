(* C19 — what a transparent cache promises, without implementation vocabulary
   (only the observable events of Model.v are used). *)
From Coq Require Import ZArith List Bool.
Import ListNotations.
From KD Require Import C19.Model.
Open Scope Z_scope.

Definition mem (i : Z) (l : list Z) : bool := existsb (Z.eqb i) l.
Definition has (base : Z -> option Z) (i : Z) : bool := match base i with Some _ => true | None => false end.
Definition bump (cnt : nat -> nat) (p : nat) : nat -> nat := fun q => if Nat.eqb q p then S (cnt q) else cnt q.

(* what `cached[i]` must give: the transform (with this access' own draw) of the wrapped
   dataset's sample, or the wrapped dataset's own exception *)
Definition expected (base : Z -> option Z) (tf : Z -> Z -> Z) (draw : Z) (i : Z) : res :=
  match base i with Some v => RVal (tf draw v) | None => RBaseError end.

(* Sequential histories: the complete event list.  [seen] = indices whose sample was
   fetched since the last clear; [cnt p] = transform calls of p so far.  Every access
   returns transform(base[i]) with a fresh draw; the wrapped dataset is asked exactly
   when i was not fetched since the last clear. *)
Fixpoint spec_seq (base : Z -> option Z) (blen : Z) (tf : Z -> Z -> Z) (draws : nat -> nat -> Z)
         (seen : list Z) (cnt : nat -> nat) (hist : list (nat * cmd)) : list ev :=
  match hist with
  | [] => []
  | (p, CClear) :: r => EClear p :: spec_seq base blen tf draws [] cnt r
  | (p, CLen) :: r => ELen p blen :: spec_seq base blen tf draws seen cnt r
  | (p, CMut _) :: r => EMut p :: spec_seq base blen tf draws seen cnt r      (* what a consumer does to its sample concerns nobody else *)
  | (p, CGet i) :: r =>
      (if mem i seen then [] else [ELoad p i])
      ++ ERet p i (cnt p) (expected base tf (draws p (cnt p)) i)
      :: spec_seq base blen tf draws (if has base i then i :: seen else seen)
                  (if has base i then bump cnt p else cnt) r
  end.

(* no existing sample is loaded twice without a clear in between *)
Fixpoint loads_once (base : Z -> option Z) (seen : list Z) (l : list ev) : Prop :=
  match l with
  | [] => True
  | ELoad _ i :: r => (In i seen -> base i = None) /\ loads_once base (i :: seen) r
  | EClear _ :: r => loads_once base [] r
  | _ :: r => loads_once base seen r
  end.

Definition no_get (i : Z) (h : list (nat * cmd)) : Prop := forall p, ~ In (p, CGet i) h.
Definition pids_below (n : nat) (h : list (nat * cmd)) : Prop := Forall (fun pc => (fst pc < n)%nat) h.

(* Concurrent histories (any interleaving). *)
(* every value any process ever gets back is transform(base[i]) with that access' own draw;
   the wrapped dataset's exception comes out only where the wrapped dataset raises *)
Definition values_equal_base (base : Z -> option Z) (tf : Z -> Z -> Z) (draws : nat -> nat -> Z) (l : list ev) : Prop :=
  forall p i k r, In (ERet p i k r) l -> r = RKeyError \/ r = expected base tf (draws p k) i.
Definition no_error (l : list ev) : Prop := forall p i k, ~ In (ERet p i k RKeyError) l.
(* both together: the cache is transparent *)
Definition transparent (base : Z -> option Z) (tf : Z -> Z -> Z) (draws : nat -> nat -> Z) (l : list ev) : Prop :=
  forall p i k r, In (ERet p i k r) l -> r = expected base tf (draws p k) i.

(* the transform runs on every successful access: the accesses of p that returned a value
   carry the call numbers 0, 1, 2, ... in this order *)
Definition calls_of (p : nat) (l : list ev) : list nat :=
  flat_map (fun e => match e with
                     | ERet q _ k (RVal _) => if Nat.eqb q p then [k] else []
                     | _ => [] end) l.
Definition transform_every_access (l : list ev) : Prop :=
  forall p, calls_of p l = seq 0 (length (calls_of p l)).

(* the cache only ever holds samples of the wrapped dataset (by content: [dict_content] of Model.v) *)
Definition dict_ok (base : Z -> option Z) (d : list (Z * Z)) : Prop := Forall (fun kv => base (fst kv) = Some (snd kv)) d.

(* executable versions used by Check.v *)
Definition res_eqb (a b : res) : bool :=
  match a, b with
  | RVal x, RVal y => x =? y
  | RKeyError, RKeyError => true
  | RBaseError, RBaseError => true
  | _, _ => false
  end.
Definition ev_eqb (a b : ev) : bool :=
  match a, b with
  | ELoad p i, ELoad q j => Nat.eqb p q && (i =? j)
  | EClear p, EClear q => Nat.eqb p q
  | ERet p i k r, ERet q j k' r' => Nat.eqb p q && (i =? j) && Nat.eqb k k' && res_eqb r r'
  | ELen p n, ELen q m => Nat.eqb p q && (n =? m)
  | EMut p, EMut q => Nat.eqb p q
  | _, _ => false
  end.
Definition transparentb (base : Z -> option Z) (tf : Z -> Z -> Z) (draws : nat -> nat -> Z) (l : list ev) : bool :=
  forallb (fun e => match e with
                    | ERet p i k r => res_eqb r (expected base tf (draws p k) i)
                    | _ => true end) l.
Definition dict_okb (base : Z -> option Z) (d : list (Z * Z)) : bool :=
  forallb (fun kv => match base (fst kv) with Some v => v =? snd kv | None => false end) d.
