(* Property C05 — interleaved scheduler: side passes run exactly when due, whole,
   and unmixed.  Theorems only. *)
From Coq Require Import ZArith List Bool.
Import ListNotations.
From KD Require Import C04.Model C04.Spec C04.Lists C04.Arith C04.Sides C04.Proofs C04.Corollaries C04.Batches C04.Bounds C04.Loader C04.Passes C04.Order C04.Example.
Open Scope Z_scope.

(* the model IS the spec; in the spec every update is followed by
   [passes_from 0 (sides c) pn k] = for each config in order, its whole pass iff
   due, showing the next not yet consumed iteration of that config's sampler *)
Theorem c05_model_is_spec : forall c mi, WF c mi -> forall n e pn, length pn = length (sides c) ->
  run c mi n (init_state e (upe c * e) (spe c * e) pn) = spec_run c mi e pn n.
Proof. exact model_eq_spec. Qed.
Print Assumptions c05_model_is_spec.

(* after every main update, and only there: the non-main part of an update is
   exactly the passes of the due configs, in config order *)
Theorem c05_update_side_part : forall c e bs pn j,
  filter (fun x => negb (is_main x)) (u_events (upd_at c e bs pn j))
  = passes_from c 0 (sides c) (pn_at c pn e bs j) (counters_at c e bs j).
Proof. exact update_side_part. Qed.
Print Assumptions c05_update_side_part.

(* due = one of the config's intervals was reached or crossed by this update *)
Theorem c05_due_iff_reached_or_crossed : forall sc k, (forall n, ens sc = Some n -> 0 < n) ->
  due sc k = true <->
  (exists n, ene sc = Some n /\ k_epoch_end k = true /\ k_epoch k mod n = 0) \/
  (exists n, enu sc = Some n /\ k_update k mod n = 0) \/
  (exists n m, ens sc = Some n /\ k_prev_sample k < m * n <= k_sample k).
Proof. exact due_iff. Qed.
Print Assumptions c05_due_iff_reached_or_crossed.

(* the implementation's per-config pass (running counter, modulo test) is the
   spec's pass: all indices of the sampler's p-th iteration, shifted into the
   config's range, cut by the config's (else the main) batch size with a short
   final batch *)
Theorem c05_pass_batching : forall c mi, WF c mi -> forall ci sc p, wf_side sc ->
  side_pass c ci (offset_of c ci) sc p = side_events c ci sc p.
Proof. exact side_pass_eq. Qed.
Print Assumptions c05_pass_batching.

Theorem c05_pass_is_whole : forall c ci sc p, 0 < or_default (sbs sc) (cB c) ->
  map ev_idx (side_events c ci sc p) = map (Z.add (offset_of c ci)) (sidx sc p).
Proof. exact side_pass_whole. Qed.
Print Assumptions c05_pass_is_whole.

(* stateful side samplers (shuffling on every iteration, ...): whatever a
   config's sampler yields on its k-th iteration, the passes over that config
   which a run shows are - in stream order, each whole, nothing else of that
   config in between - the iterations number p, p+1, p+2, ... of its sampler,
   p being how often it was iterated before the run *)
Theorem c05_passes_consecutive : forall c mi, WF c mi -> forall ci sc, nth_error (sides c) ci = Some sc ->
  forall n e pn tr p, length pn = length (sides c) -> nth_error pn ci = Some p ->
  run c mi n (start_state c e pn) = Some tr ->
  exists m, filter (is_side ci) tr = concat (map (side_events c ci sc) (seq p m)).
Proof. exact passes_consecutive. Qed.
Print Assumptions c05_passes_consecutive.

(* the closed form of the iteration number used after the (j+1)-th update of an
   epoch: the number at the epoch's start plus the number of earlier updates of
   the epoch at which the config was due *)
Theorem c05_pass_number : forall c ci sc, nth_error (sides c) ci = Some sc ->
  forall e bs pn j p, nth_error pn ci = Some p ->
  filter (is_side ci) (u_events (upd_at c e bs pn j)) =
  if due sc (counters_at c e bs j) then side_events c ci sc (p + due_count c sc e bs j) else [].
Proof. exact update_side. Qed.
Print Assumptions c05_pass_number.

(* index_offsets as the constructor builds it is the list the loops index, and
   its ci-th entry is len(main data source) + the lengths of the data sources
   (not of the samplers) of the configs before ci *)
Theorem c05_index_offsets : forall c, sides c <> [] -> index_offsets c = offsets c.
Proof. exact index_offsets_eq. Qed.
Print Assumptions c05_index_offsets.

Theorem c05_offsets_nth : forall c ci, (ci < length (sides c))%nat -> nth ci (offsets c) 0 = offset_of c ci.
Proof. exact offsets_nth. Qed.
Print Assumptions c05_offsets_nth.

(* every yielded index resolves to the dataset and sample it was drawn for *)
Theorem c05_offset_roundtrip : forall c mi ci sc j, WF c mi ->
  nth_error (sides c) ci = Some sc -> 0 <= j < dslen sc ->
  concat_lookup c (offset_of c ci + j) = Some (S ci, j).
Proof. exact offset_roundtrip. Qed.
Print Assumptions c05_offset_roundtrip.

Theorem c05_main_roundtrip : forall c j, 0 <= j < dsN c -> concat_lookup c j = Some (0%nat, j).
Proof. exact main_roundtrip. Qed.
Print Assumptions c05_main_roundtrip.

(* a zero budget yields exactly one full pass over every config *)
Theorem c05_zero_budget_one_pass : forall c mi, WF c mi -> forall pn, zero_budget c = true ->
  sampler_iter c mi 0 0 0 pn = Some (spec_eval c 0 (sides c) pn).
Proof. exact zero_budget_one_pass. Qed.
Print Assumptions c05_zero_budget_one_pass.

(* no batch mixes datasets: the batches the batch sampler cuts are exactly the
   stream's own single-dataset batches (tag = dataset), nothing lost or reordered *)
Theorem c05_no_mixed_batch : forall c mi, WF c mi -> forall n e pn tr, length pn = length (sides c) ->
  run c mi n (start_state c e pn) = Some tr ->
  exists tagged : list (nat * list Z),
    fst (batches (render tr)) = map snd tagged /\
    flat_map (fun tb => map (pair (fst tb)) (snd tb)) tagged = stream_tags tr.
Proof. exact no_mixed_batch. Qed.
Print Assumptions c05_no_mixed_batch.

(* ... and through the DataLoader (concat dataset lookup, then
   _InterleavedCollator): every batch is handed, whole, to the collator of the
   one dataset it was drawn from, with exactly the samples its indices were drawn
   for; neither a lookup nor the collator's single-dataset assertion can fail *)
Theorem c05_loader_delivers : forall c mi, WF c mi -> idx_ok c mi ->
  forall n e pn tr, length pn = length (sides c) ->
  run c mi n (start_state c e pn) = Some tr ->
  exists tagged : list (nat * list Z),
    fst (batches (render tr)) = map snd tagged /\
    flat_map (fun tb => map (pair (fst tb)) (snd tb)) tagged = stream_tags tr /\
    loader_batches c (fst (batches (render tr))) = Some (map (expected c) tagged).
Proof. exact loader_delivers. Qed.
Print Assumptions c05_loader_delivers.

(* config objects are shared between InterleavedSamplers (a training sampler,
   then an eval-only one with another main batch size): the constructor takes
   the configs as given and writes nothing back - a config without a batch size
   of its own is batched by the batch size of the sampler that iterates it *)
Theorem c05_configs_unchanged : forall a c e u s, ctor a = Ok c e u s ->
  sides c = a_sides a /\ forall ci sc p off, side_pass c ci off sc p
    = side_pass_aux ci (or_default (sbs sc) (lB c)) (slen sc) off 0 (sidx sc p).
Proof. exact ctor_configs_unchanged. Qed.
Print Assumptions c05_configs_unchanged.

Example c05_premises_satisfiable :
  WF ex_cfg ex_iter /\ wf_side ex_side /\ nth_error (sides ex_cfg) 1 = Some ex_side /\ 0 <= 3 < dslen ex_side
  /\ idx_ok ex_cfg ex_iter /\ sides ex_cfg <> [].
Proof.
  split; [exact ex_wf|]. split; [exact ex_side_wf|]. split; [reflexivity|].
  split; [cbn; split; reflexivity || discriminate|]. split; [|discriminate].
  split.
  - intros e i Hi. cbn in Hi. cbn. repeat (destruct Hi as [<-|Hi]; [split; reflexivity || discriminate|]). inversion Hi.
  - cbn. constructor; [|constructor; [|constructor]]; intros p j Hj; cbn in Hj; destruct (Nat.even p); cbn in Hj;
      repeat (destruct Hj as [<-|Hj]; [cbn; split; reflexivity || discriminate|]); inversion Hj.
Qed.
(* the example's second config is iterated in another order on its second pass *)
Example c05_example_passes :
  option_map (filter (is_side 1)) (run ex_cfg ex_iter 4 (start_state ex_cfg 0 [0; 0]%nat))
  = Some (concat (map (side_events ex_cfg 1 ex_side) (seq 0 4))).
Proof. vm_compute. reflexivity. Qed.
