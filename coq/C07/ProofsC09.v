(* Proofs for C09 (worker initialisation over dataset stacks) over RngGraph.v / ModelC09.v. *)
From Coq Require Import ZArith List Bool String Lia PeanoNat.
Import ListNotations.
From KD Require Import C07.RngGraph C07.Proofs C07.ModelC08 C07.ProofsC08 C07.ModelC09.
Close Scope Z_scope.
Open Scope nat_scope.

(* ---------------------------------------------------------------- *)
(* nested induction over dataset stacks                               *)
(* ---------------------------------------------------------------- *)
Section DInd.
  Variable P : dstack -> Prop.
  Hypothesis Hroot : forall cs, P (DRoot cs).
  Hypothesis Hwrap : forall w inner, P inner -> P (DWrap w inner).
  Hypothesis Hfwd : forall c l, Forall P l -> P (DFwd c l).

  Fixpoint dstack_ind' (s : dstack) : P s :=
    match s with
    | DRoot cs => Hroot cs
    | DWrap w inner => Hwrap w inner (dstack_ind' inner)
    | DFwd c l =>
        Hfwd c l ((fix go (l : list dstack) : Forall P l :=
                     match l with
                     | [] => Forall_nil _
                     | x :: r => Forall_cons x (dstack_ind' x) (go r)
                     end) l)
    end.
End DInd.

Lemma wi_list_eq : forall tbl ctbl wt ds l k,
    (fix go (k : nat) (l : list dstack) : nat * list dstack :=
       match l with
       | [] => (k, [])
       | x :: l' => let '(k1, x') := worker_init tbl ctbl wt ds k x in
                    let '(k2, r) := go k1 l' in (k2, x' :: r)
       end) k l = wi_list tbl ctbl wt ds k l.
Proof.
  induction l as [|x l IH]; intros k; [reflexivity|].
  cbn [wi_list]. destruct (worker_init tbl ctbl wt ds k x) as [k1 x']. rewrite IH. reflexivity.
Qed.

Lemma worker_init_fwd : forall tbl ctbl wt ds k c inner,
    worker_init tbl ctbl wt ds k (DFwd c inner) =
    if forwards ds c then let '(k', r) := wi_list tbl ctbl wt ds k inner in (k', DFwd c r) else (k, DFwd c inner).
Proof.
  intros. cbn [worker_init]. destruct (forwards ds c); [|reflexivity]. rewrite wi_list_eq. reflexivity.
Qed.

(* ---------------------------------------------------------------- *)
(* small facts                                                        *)
(* ---------------------------------------------------------------- *)
Lemma is_wrk_in_widen : forall lo hi lo' hi' q,
    is_wrk_in lo hi q = true -> lo' <= lo -> hi <= hi' -> is_wrk_in lo' hi' q = true.
Proof.
  intros lo hi lo' hi' q H Hl Hh. destruct q; simpl in *; try discriminate.
  apply andb_true_iff in H. destruct H as [H1 H2]. apply Nat.leb_le in H1. apply Nat.ltb_lt in H2.
  apply andb_true_iff. split; [apply Nat.leb_le | apply Nat.ltb_lt]; lia.
Qed.

Lemma assoc_In : forall {A} f (l : list (string * A)) v, assoc f l = Some v -> In (f, v) l.
Proof.
  induction l as [|[k x] l IH]; simpl; intros v H; [discriminate|].
  destruct (String.eqb f k) eqn:E.
  - apply String.eqb_eq in E. subst. inversion H. left. reflexivity.
  - right. apply IH. exact H.
Qed.

Definition mwf (tbl : table) (cs : list string) (k : tree) : bool := (is_nil cs || mem (cls_of k) cs) && wf tbl k.

Lemma mwf_wf : forall tbl cs k, mwf tbl cs k = true -> wf tbl k = true.
Proof. unfold mwf. intros tbl cs k H. apply andb_prop in H. tauto. Qed.

Lemma mwf_set_rng : forall tbl cs p k, mwf tbl cs k = true -> mwf tbl cs (set_rng tbl p k) = true.
Proof.
  unfold mwf. intros tbl cs p k H. apply andb_prop in H. destruct H as [Hc Hw].
  rewrite cls_of_set_rng. rewrite Hc. simpl. apply wf_set_rng. exact Hw.
Qed.

(* a tree that was re-seeded by the worker: set_rng (Wrk j) of a well-formed tree, lo <= j < hi *)
Definition Fresh (tbl : table) (lo hi : nat) (t' : tree) : Prop :=
  exists j t0, lo <= j /\ j < hi /\ wf tbl t0 = true /\ t' = set_rng tbl (Wrk j) t0.

Lemma Fresh_widen : forall tbl lo hi lo' hi' t, Fresh tbl lo hi t -> lo' <= lo -> hi <= hi' -> Fresh tbl lo' hi' t.
Proof. intros tbl lo hi lo' hi' t [j [t0 [H1 [H2 [H3 H4]]]]] Hl Hh. exists j, t0. repeat split; try lia; assumption. Qed.

Lemma Fresh_draws : forall tbl, forallb (closed tbl) tbl = true ->
    forall lo hi t, Fresh tbl lo hi t -> forall q, In q (draws tbl t) -> exists j, q = Wrk j /\ lo <= j /\ j < hi.
Proof.
  intros tbl Hc lo hi t [j [t0 [H1 [H2 [H3 H4]]]]] q Hq. subst t.
  exists j. split; [|lia]. eapply closed_table_deterministic_proof; eauto.
Qed.

Lemma wrk_is_wrk_in : forall lo hi j, lo <= j -> j < hi -> is_wrk_in lo hi (Wrk j) = true.
Proof. intros. simpl. apply andb_true_iff. split; [apply Nat.leb_le | apply Nat.ltb_lt]; lia. Qed.

(* ---------------------------------------------------------------- *)
(* the loops of _worker_init_fn                                       *)
(* ---------------------------------------------------------------- *)
Lemma wi_trees_spec : forall tbl g cs ts k k' ts',
    forallb (mwf tbl cs) ts = true ->
    wi_trees tbl g k ts = (k', ts') ->
    k <= k'
    /\ forallb (mwf tbl cs) ts' = true
    /\ (forall t', In t' ts' -> In t' ts \/ Fresh tbl k k' t')
    /\ (forall t', In t' ts' -> admits tbl g (cls_of t') = true -> Fresh tbl k k' t').
Proof.
  intros tbl g cs ts. induction ts as [|t ts IH]; intros k k' ts' Hwf H; simpl in H.
  - inversion H; subst. repeat split; try lia; try reflexivity; intros t' [].
  - simpl in Hwf. apply andb_prop in Hwf. destruct Hwf as [Ht Hts].
    destruct (admits tbl g (cls_of t)) eqn:Ea.
    + destruct (wi_trees tbl g (S k) ts) as [k1 r] eqn:E. inversion H; subst. clear H.
      destruct (IH (S k) k' r Hts E) as [Hle [Hwf' [Hs Hc]]].
      assert (Hf : Fresh tbl k k' (set_rng tbl (Wrk k) t)).
      { exists k, t. repeat split; try lia. eapply mwf_wf; eauto. }
      repeat split.
      * lia.
      * simpl. rewrite (mwf_set_rng _ _ _ _ Ht). exact Hwf'.
      * intros t' [E'|Hin]; [subst; right; exact Hf|].
        destruct (Hs t' Hin) as [H1|H1]; [left; right; exact H1 | right; eapply Fresh_widen; eauto; lia].
      * intros t' [E'|Hin] Ha; [subst; exact Hf|]. eapply Fresh_widen; [apply Hc; eauto| lia | lia].
    + destruct (wi_trees tbl g k ts) as [k1 r] eqn:E. inversion H; subst. clear H.
      destruct (IH k k' r Hts E) as [Hle [Hwf' [Hs Hc]]].
      repeat split.
      * lia.
      * simpl. rewrite Ht. exact Hwf'.
      * intros t' [E'|Hin]; [subst; left; left; reflexivity|].
        destruct (Hs t' Hin) as [H1|H1]; [left; right; exact H1 | right; exact H1].
      * intros t' [E'|Hin] Ha; [subst; rewrite Ea in Ha; discriminate|]. apply Hc; assumption.
Qed.

Lemma kids_wf_cons : forall tbl fields fk l,
    kids_wf tbl fields (fk :: l) = true ->
    (exists cs, assoc (fst fk) fields = Some cs /\ forallb (mwf tbl cs) (snd fk) = true) /\ kids_wf tbl fields l = true.
Proof.
  unfold kids_wf. intros tbl fields fk l H. simpl in H. apply andb_prop in H. destruct H as [H1 H2].
  split; [|exact H2]. destruct (assoc (fst fk) fields) as [cs|]; [|discriminate]. exists cs. split; [reflexivity|exact H1].
Qed.

Lemma kids_wf_cons_intro : forall tbl fields fk l cs,
    assoc (fst fk) fields = Some cs -> forallb (mwf tbl cs) (snd fk) = true -> kids_wf tbl fields l = true ->
    kids_wf tbl fields (fk :: l) = true.
Proof.
  unfold kids_wf. intros tbl fields fk l cs H1 H2 H3. simpl. rewrite H1. unfold mwf in H2. rewrite H2. exact H3.
Qed.

Lemma wi_pass_spec : forall tbl fields f g kids k k' kids',
    kids_wf tbl fields kids = true ->
    wi_pass tbl f g k kids = (k', kids') ->
    k <= k'
    /\ kids_wf tbl fields kids' = true
    /\ (forall fk', In fk' kids' ->
          exists fk, In fk kids /\ fst fk' = fst fk /\ forall t', In t' (snd fk') -> In t' (snd fk) \/ Fresh tbl k k' t')
    /\ (forall fk', In fk' kids' -> fst fk' = f ->
          forall t', In t' (snd fk') -> admits tbl g (cls_of t') = true -> Fresh tbl k k' t').
Proof.
  intros tbl fields f g kids. induction kids as [|fk l IH]; intros k k' kids' Hwf H; simpl in H.
  - inversion H; subst. repeat split; try lia; try reflexivity; intros fk' [].
  - destruct (kids_wf_cons _ _ _ _ Hwf) as [[cs [Hcs Hm]] Hl].
    destruct (String.eqb (fst fk) f) eqn:Ef.
    + destruct (wi_trees tbl g k (snd fk)) as [k1 ts'] eqn:Et.
      destruct (wi_pass tbl f g k1 l) as [k2 r] eqn:Ep. inversion H; subst. clear H.
      destruct (wi_trees_spec tbl g cs (snd fk) k k1 ts' Hm Et) as [Hle1 [Hm' [Hs1 Hc1]]].
      destruct (IH k1 k' r Hl Ep) as [Hle2 [Hwf2 [Hs2 Hc2]]].
      repeat split.
      * lia.
      * eapply kids_wf_cons_intro; eauto.
      * intros fk' [E|Hin].
        -- subst fk'. exists fk. split; [left; reflexivity|]. split; [reflexivity|]. cbn [snd].
           intros t' Ht'. destruct (Hs1 t' Ht') as [H1|H1]; [left; exact H1 | right; eapply Fresh_widen; eauto; lia].
        -- destruct (Hs2 fk' Hin) as [fk0 [Hin0 [En Hm0]]]. exists fk0. split; [right; exact Hin0|]. split; [exact En|].
           intros t' Ht'. destruct (Hm0 t' Ht') as [H1|H1]; [left; exact H1 | right; eapply Fresh_widen; eauto; lia].
      * intros fk' [E|Hin] En t' Ht' Ha.
        -- subst fk'. cbn [snd] in Ht'. eapply Fresh_widen; [apply Hc1; eauto | lia | lia].
        -- eapply Fresh_widen; [eapply Hc2; eauto | lia | lia].
    + destruct (wi_pass tbl f g k l) as [k2 r] eqn:Ep. inversion H; subst. clear H.
      destruct (IH k k' r Hl Ep) as [Hle2 [Hwf2 [Hs2 Hc2]]].
      repeat split.
      * lia.
      * eapply kids_wf_cons_intro; eauto.
      * intros fk' [E|Hin].
        -- subst fk'. exists fk. split; [left; reflexivity|]. split; [reflexivity|]. intros t' Ht'. left. exact Ht'.
        -- destruct (Hs2 fk' Hin) as [fk0 [Hin0 [En Hm0]]]. exists fk0. split; [right; exact Hin0|]. split; [exact En|]. exact Hm0.
      * intros fk' [E|Hin] En t' Ht' Ha.
        -- subst fk'. apply String.eqb_neq in Ef. contradiction.
        -- eapply Hc2; eauto.
Qed.

(* members of fields processed so far (Q) that the processing guard admits are fresh *)
Definition Inv (tbl : table) (Q : string -> guard -> Prop) (lo hi : nat) (kids : list (string * list tree)) : Prop :=
  forall fk, In fk kids -> forall t, In t (snd fk) -> forall g, Q (fst fk) g -> admits tbl g (cls_of t) = true -> Fresh tbl lo hi t.

Lemma wi_fields_spec : forall tbl fields wi Q lo kids k k' kids',
    kids_wf tbl fields kids = true ->
    lo <= k ->
    Inv tbl Q lo k kids ->
    wi_fields tbl wi k kids = (k', kids') ->
    k <= k'
    /\ kids_wf tbl fields kids' = true
    /\ Inv tbl (fun f g => In (f, g) wi \/ Q f g) lo k' kids'.
Proof.
  intros tbl fields wi. induction wi as [|[f g] wi IH]; intros Q lo kids k k' kids' Hwf Hlo HI H; simpl in H.
  - inversion H; subst. repeat split; try lia; try assumption.
    intros fk Hfk t Ht g0 [[]|HQ] Ha. eapply HI; eauto.
  - destruct (wi_pass tbl f g k kids) as [k1 kids1] eqn:Ep.
    destruct (wi_pass_spec tbl fields f g kids k k1 kids1 Hwf Ep) as [Hle1 [Hwf1 [Hs1 Hc1]]].
    assert (HI1 : Inv tbl (fun f0 g0 => (f0, g0) = (f, g) \/ Q f0 g0) lo k1 kids1).
    { intros fk' Hfk' t' Ht' g0 [E|HQ] Ha.
      - inversion E; subst. eapply Fresh_widen; [eapply Hc1; eauto | lia | lia].
      - destruct (Hs1 fk' Hfk') as [fk0 [Hin0 [En Hm0]]].
        destruct (Hm0 t' Ht') as [H1|H1].
        + eapply Fresh_widen; [eapply (HI fk0 Hin0 t' H1 g0); [rewrite <- En; exact HQ | exact Ha] | lia | lia].
        + eapply Fresh_widen; eauto; lia. }
    destruct (IH _ lo kids1 k1 k' kids' Hwf1 ltac:(lia) HI1 H) as [Hle2 [Hwf2 HI2]].
    repeat split; try lia; try assumption.
    intros fk' Hfk' t' Ht' g0 HQ Ha. eapply HI2; eauto.
    destruct HQ as [[E|Hin]|HQ]; [right; left; symmetry; exact E | left; exact Hin | right; right; exact HQ].
Qed.

(* what one wrapper's _worker_init_fn leaves behind: every generator its transforms can draw from is worker-derived *)
Lemma wobj_after_wi : forall tbl d,
    forallb (closed tbl) tbl = true ->
    wiclosed tbl d = true ->
    forall kids k k' kids',
      kids_wf tbl (w_fields d) kids = true ->
      wi_fields tbl (w_wi d) k kids = (k', kids') ->
      k <= k'
      /\ kids_wf tbl (w_fields d) kids' = true
      /\ forall fk', In fk' kids' -> mem (fst fk') (w_calls d) = true ->
           forall t', In t' (snd fk') -> draws tbl t' = [] \/ Fresh tbl k k' t'.
Proof.
  intros tbl d Hc Hwi kids k k' kids' Hwf H.
  destruct (wi_fields_spec tbl (w_fields d) (w_wi d) (fun _ _ => False) k kids k k' kids' Hwf (le_n k)) as [Hle [Hwf' HI]];
    [intros fk Hfk t Ht g [] | exact H |].
  repeat split; try assumption.
  intros fk' Hfk' Hcall t' Ht'.
  unfold wiclosed in Hwi. apply andb_prop in Hwi. destruct Hwi as [_ Hwi].
  rewrite forallb_forall in Hwi. specialize (Hwi _ (mem_In _ _ Hcall)).
  unfold wfield_ok in Hwi.
  pose proof Hwf' as Hwf''. unfold kids_wf in Hwf''. rewrite forallb_forall in Hwf''. specialize (Hwf'' fk' Hfk').
  destruct (assoc (fst fk') (w_fields d)) as [cs|] eqn:Efld; [|discriminate].
  rewrite forallb_forall in Hwf''. specialize (Hwf'' t' Ht').
  destruct (kid_is_candidate tbl cs t' Hwf'') as [Hcand Hwt].
  destruct (assoc (fst fk') (w_wi d)) as [g|] eqn:Eg.
  - rewrite forallb_forall in Hwi. specialize (Hwi _ Hcand).
    destruct (admits tbl g (cls_of t')) eqn:Ea.
    + right. eapply HI; eauto. left. apply assoc_In. exact Eg.
    + rewrite orb_false_r in Hwi. left. apply quiet_draws_nil. exact Hwi.
  - rewrite forallb_forall in Hwi. specialize (Hwi _ Hcand). left. apply quiet_draws_nil. exact Hwi.
Qed.

Lemma called_draws_after_wi : forall tbl d,
    forallb (closed tbl) tbl = true ->
    wiclosed tbl d = true ->
    forall kids k k' kids',
      kids_wf tbl (w_fields d) kids = true ->
      wi_fields tbl (w_wi d) k kids = (k', kids') ->
      forall q, In q (called_draws tbl (w_calls d) kids') -> exists j, q = Wrk j /\ k <= j /\ j < k'.
Proof.
  intros tbl d Hc Hwi kids k k' kids' Hwf H q Hq.
  destruct (wobj_after_wi tbl d Hc Hwi kids k k' kids' Hwf H) as [_ [_ Hm]].
  unfold called_draws in Hq. apply in_flat_map in Hq. destruct Hq as [fk' [Hfk' Hq]].
  destruct (mem (fst fk') (w_calls d)) eqn:Ecall; [|destruct Hq].
  apply in_flat_map in Hq. destruct Hq as [t' [Ht' Hq]].
  destruct (Hm fk' Hfk' Ecall t' Ht') as [Hnil|Hf].
  - rewrite Hnil in Hq. destruct Hq.
  - eapply Fresh_draws; eauto.
Qed.

(* ---------------------------------------------------------------- *)
(* Theorem 1: after worker_init no reachable generator is the inherited copy *)
(* ---------------------------------------------------------------- *)
Lemma dsclosed_parts : forall ds, dsclosed ds = true ->
    (forall c b, In (c, b) (ds_fwd ds) -> b = true) /\ ds_wrapper ds = true /\ ds_root ds = true /\ ds_transform ds = true.
Proof.
  unfold dsclosed. intros ds H. apply andb_prop in H. destruct H as [H Ht]. apply andb_prop in H. destruct H as [H Hr].
  apply andb_prop in H. destruct H as [Hf Hw].
  repeat split; try assumption. intros c b Hin. rewrite forallb_forall in Hf. exact (Hf _ Hin).
Qed.

Lemma forwards_known : forall ds c, dsclosed ds = true ->
    match assoc c (ds_fwd ds) with Some _ => true | None => false end = true -> forwards ds c = true.
Proof.
  intros ds c Hd H. unfold forwards. destruct (assoc c (ds_fwd ds)) as [b|] eqn:E; [|discriminate].
  destruct (dsclosed_parts ds Hd) as [Hf _]. apply (Hf c b). apply assoc_In. exact E.
Qed.

(* worker-derived, as a proposition: seeded from a draw this hook made from the worker's global RNG, or one of the
   worker's process-global generators themselves (never OS entropy) *)
Definition WD (lo hi : nat) (q : prov) : Prop :=
  (exists j, q = Wrk j /\ lo <= j /\ j < hi) \/ (exists g, q = Glob g /\ not_fresh g = true).

Lemma WD_widen : forall lo hi lo' hi' q, WD lo hi q -> lo' <= lo -> hi <= hi' -> WD lo' hi' q.
Proof.
  intros lo hi lo' hi' q [[j [E [H1 H2]]]|H] Hl Hh; [left; exists j; repeat split; [exact E|lia|lia] | right; exact H].
Qed.

Lemma WD_worker_derived : forall lo hi q, WD lo hi q -> worker_derived lo hi q = true.
Proof.
  intros lo hi q [[j [E [H1 H2]]]|[g [E Hg]]]; subst q; simpl; [|exact Hg].
  apply andb_true_iff. split; [apply Nat.leb_le | apply Nat.ltb_lt]; lia.
Qed.

Section Thm1.
  Variables (tbl ctbl : table) (wt : wtable) (ds : dsdesc).
  Hypothesis Hc : forallb (closed tbl) tbl = true.
  Hypothesis Hcc : forallb (closed ctbl) ctbl = true.
  Hypothesis Hwi : forallb (wiclosed tbl) wt = true.
  Hypothesis Hds : dsclosed ds = true.

  Definition wi_ok (s : dstack) : Prop :=
    swf tbl ctbl wt s = true -> fwd_known ds s = true ->
    forall k, let r := worker_init tbl ctbl wt ds k s in
              k <= fst r
              /\ forall q, In q (stack_draws tbl ctbl wt (snd r)) -> WD k (fst r) q.

  Lemma wi_ok_all : forall s, wi_ok s.
  Proof.
    destruct (dsclosed_parts ds Hds) as [Hfw [Hwr [Hrt Htr]]].
    induction s as [cs | [c kids] inner IH | c l IH] using dstack_ind'; unfold wi_ok; intros Hwf Hk k.
    - (* root *)
      cbn [worker_init]. rewrite Hrt. cbn [fst snd]. split; [lia|].
      intros q Hq. cbn [stack_draws] in Hq. apply in_flat_map in Hq. destruct Hq as [t' [Ht' Hq]].
      apply in_map_iff in Ht'. destruct Ht' as [t [E Ht]]. subst t'.
      cbn [swf] in Hwf. rewrite forallb_forall in Hwf.
      left. exists k. split; [|lia]. eapply (closed_table_deterministic_proof ctbl Hcc t (Hwf t Ht)); eauto.
    - (* wrapper *)
      cbn [swf] in Hwf. apply andb_prop in Hwf. destruct Hwf as [Hw Hin]. cbn [fwd_known] in Hk.
      unfold wwf in Hw. destruct (wlookup wt c) as [d|] eqn:El; [|discriminate].
      cbn [worker_init]. rewrite Hwr. rewrite El. rewrite Htr.
      destruct (wi_fields tbl (w_wi d) k kids) as [k1 kids'] eqn:Ef.
      specialize (IH Hin Hk k1). cbv zeta in IH.
      destruct (worker_init tbl ctbl wt ds k1 inner) as [k2 inner'] eqn:Ei. cbn [fst snd] in *.
      destruct IH as [Hle2 IHq].
      destruct (wlookup_In _ _ _ El) as [Hd _].
      rewrite forallb_forall in Hwi. pose proof (Hwi d Hd) as Hwd.
      destruct (wobj_after_wi tbl d Hc Hwd kids k k1 kids' Hw Ef) as [Hle1 _].
      split; [lia|].
      intros q Hq. cbn [stack_draws] in Hq. apply in_app_or in Hq. destruct Hq as [Hq|Hq].
      + (* the wrapper's own draws on the unseeded path *)
        unfold own_draws in Hq. rewrite El in Hq. apply in_map_iff in Hq. destruct Hq as [g [E Hg]].
        right. exists g. split; [symmetry; exact E|].
        unfold wiclosed in Hwd. apply andb_prop in Hwd. destruct Hwd as [Hnf _].
        rewrite forallb_forall in Hnf. exact (Hnf g Hg).
      + rewrite El in Hq. apply in_app_or in Hq. destruct Hq as [Hq|Hq].
        * destruct (called_draws_after_wi tbl d Hc Hwd kids k k1 kids' Hw Ef q Hq) as [j [E [H1 H2]]].
          left. exists j. split; [exact E|lia].
        * eapply WD_widen; [apply IHq; exact Hq | lia | lia].
    - (* forwarding class *)
      cbn [fwd_known] in Hk. apply andb_prop in Hk. destruct Hk as [Hkc Hkl].
      rewrite worker_init_fwd. rewrite (forwards_known ds c Hds Hkc).
      cbn [swf] in Hwf.
      assert (Hlist : forall l, Forall wi_ok l -> forallb (swf tbl ctbl wt) l = true -> forallb (fwd_known ds) l = true ->
                forall k, let r := wi_list tbl ctbl wt ds k l in
                          k <= fst r /\ forall q, In q (flat_map (stack_draws tbl ctbl wt) (snd r)) -> WD k (fst r) q).
      { clear. induction l as [|x l IHl]; intros HF Hw Hk k.
        - cbn. split; [lia|]. intros q [].
        - inversion HF as [|? ? Hx HFl]; subst.
          cbn [forallb] in Hw, Hk. apply andb_prop in Hw. destruct Hw as [Hwx Hwl].
          apply andb_prop in Hk. destruct Hk as [Hkx Hkl].
          cbn [wi_list].
          specialize (Hx Hwx Hkx k). cbv zeta in Hx.
          destruct (worker_init tbl ctbl wt ds k x) as [k1 x'] eqn:Ex. cbn [fst snd] in Hx. destruct Hx as [Hle1 Hq1].
          specialize (IHl HFl Hwl Hkl k1). cbv zeta in IHl.
          destruct (wi_list tbl ctbl wt ds k1 l) as [k2 r] eqn:El. cbn [fst snd] in *. destruct IHl as [Hle2 Hq2].
          split; [lia|]. intros q Hq. cbn [flat_map] in Hq. apply in_app_or in Hq. destruct Hq as [Hq|Hq].
          + eapply WD_widen; [apply Hq1; exact Hq | lia | lia].
          + eapply WD_widen; [apply Hq2; exact Hq | lia | lia]. }
      specialize (Hlist l IH Hwf Hkl k). cbv zeta in Hlist.
      destruct (wi_list tbl ctbl wt ds k l) as [k' r] eqn:El. cbn [fst snd] in *. exact Hlist.
  Qed.
End Thm1.

Theorem after_worker_init_no_copied_slot_proof : forall tbl ctbl wt ds,
    forallb (closed tbl) tbl = true ->
    forallb (closed ctbl) ctbl = true ->
    forallb (wiclosed tbl) wt = true ->
    dsclosed ds = true ->
    forall s, swf tbl ctbl wt s = true -> fwd_known ds s = true ->
    forall k q, In q (stack_draws tbl ctbl wt (snd (worker_init tbl ctbl wt ds k s))) ->
                worker_derived k (fst (worker_init tbl ctbl wt ds k s)) q = true.
Proof.
  intros tbl ctbl wt ds Hc Hcc Hwi Hds s Hwf Hk k q Hq.
  destruct (wi_ok_all tbl ctbl wt ds Hc Hcc Hwi Hds s Hwf Hk k) as [_ H].
  apply WD_worker_derived. exact (H q Hq).
Qed.

(* the transforms' and collators' generators in particular: what is not a process-global source is Wrk j in the window *)
Theorem after_worker_init_slots_are_fresh_proof : forall tbl ctbl wt ds,
    forallb (closed tbl) tbl = true ->
    forallb (closed ctbl) ctbl = true ->
    forallb (wiclosed tbl) wt = true ->
    dsclosed ds = true ->
    forall s, swf tbl ctbl wt s = true -> fwd_known ds s = true ->
    forall k q, In q (stack_draws tbl ctbl wt (snd (worker_init tbl ctbl wt ds k s))) ->
                (forall g, q <> Glob g) ->
                is_wrk_in k (fst (worker_init tbl ctbl wt ds k s)) q = true.
Proof.
  intros tbl ctbl wt ds Hc Hcc Hwi Hds s Hwf Hk k q Hq Hng.
  destruct (wi_ok_all tbl ctbl wt ds Hc Hcc Hwi Hds s Hwf Hk k) as [_ H].
  destruct (H q Hq) as [[j [E [H1 H2]]]|[g [E _]]]; [subst q; apply wrk_is_wrk_in; assumption | exfalso; exact (Hng g E)].
Qed.

(* ---------------------------------------------------------------- *)
(* Theorem 3: every worker seed is owned by at most one unit          *)
(* ---------------------------------------------------------------- *)
(* one left-to-right sweep that re-seeds some units with consecutive fresh seeds *)
Inductive Upd : nat -> nat -> list (list prov) -> list (list prov) -> Prop :=
| U_nil : forall k, Upd k k [] []
| U_keep : forall k k' u us us', Upd k k' us us' -> Upd k k' (u :: us) (u :: us')
| U_set : forall k k' u u' us us', (forall q, In q u' -> q = Wrk k) -> Upd (S k) k' us us' -> Upd k k' (u :: us) (u' :: us')
| U_skip : forall k k' us us', Upd (S k) k' us us' -> Upd k k' us us'.

Lemma Upd_le : forall k k' us us', Upd k k' us us' -> k <= k'.
Proof. induction 1; lia. Qed.

Lemma Upd_refl : forall us k, Upd k k us us.
Proof. induction us; intros; constructor; auto. Qed.

Lemma Upd_skips : forall us n k, Upd k (n + k) us us.
Proof.
  intros us n. induction n as [|n IH]; intros k; [apply Upd_refl|].
  apply U_skip. replace (S n + k) with (n + S k) by lia. apply IH.
Qed.

Lemma Upd_skips_le : forall us k k', k <= k' -> Upd k k' us us.
Proof. intros us k k' H. replace k' with ((k' - k) + k) by lia. apply Upd_skips. Qed.

Lemma Upd_app : forall k k1 a a', Upd k k1 a a' -> forall k2 b b', Upd k1 k2 b b' -> Upd k k2 (a ++ b) (a' ++ b').
Proof.
  induction 1; intros k2 b b' Hb; simpl.
  - exact Hb.
  - apply U_keep. apply IHUpd. exact Hb.
  - apply U_set; [assumption|]. apply IHUpd. exact Hb.
  - apply U_skip. apply IHUpd. exact Hb.
Qed.

Lemma has_wrk_In : forall j u, has_wrk j u = true <-> In (Wrk j) u.
Proof.
  unfold has_wrk. intros j u. rewrite existsb_exists. split.
  - intros [q [Hq E]]. destruct q; simpl in E; try discriminate. apply Nat.eqb_eq in E. subst. exact Hq.
  - intros H. exists (Wrk j). split; [exact H|]. simpl. apply Nat.eqb_refl.
Qed.

Lemma owners_cons : forall j u us, owners j (u :: us) = (if has_wrk j u then 1 else 0) + owners j us.
Proof. unfold owners. intros. simpl. destruct (has_wrk j u); reflexivity. Qed.

Definition ind (k k' j : nat) : nat := if Nat.leb k j && Nat.ltb j k' then 1 else 0.

Lemma ind_cases : forall k k' j, (k <= j /\ j < k' /\ ind k k' j = 1) \/ ((j < k \/ k' <= j) /\ ind k k' j = 0).
Proof.
  intros k k' j. unfold ind. destruct (Nat.leb_spec k j); destruct (Nat.ltb_spec j k'); simpl;
    [left; lia | right; lia | right; lia | right; lia].
Qed.

Lemma Upd_owners : forall k k' us us', Upd k k' us us' -> forall j, owners j us' <= owners j us + ind k k' j.
Proof.
  induction 1; intros j.
  - unfold owners. simpl. lia.
  - rewrite !owners_cons. specialize (IHUpd j). lia.
  - rewrite !owners_cons. specialize (IHUpd j). pose proof (Upd_le _ _ _ _ H0) as Hle.
    assert (Hu : (if has_wrk j u' then 1 else 0) <= (if Nat.eqb j k then 1 else 0)).
    { destruct (has_wrk j u') eqn:E; [|lia]. apply has_wrk_In in E. apply H in E. inversion E. rewrite Nat.eqb_refl. lia. }
    destruct (Nat.eqb_spec j k) as [Ejk|Ejk];
      destruct (ind_cases (S k) k' j) as [[A [B C]]|[A C]]; destruct (ind_cases k k' j) as [[A' [B' C']]|[A' C']];
      destruct (has_wrk j u); destruct (has_wrk j u'); lia.
  - specialize (IHUpd j). pose proof (Upd_le _ _ _ _ H) as Hle.
    destruct (ind_cases (S k) k' j) as [[A [B C]]|[A C]]; destruct (ind_cases k k' j) as [[A' [B' C']]|[A' C']]; lia.
Qed.

(* the invariant: a unit that holds the generator of worker seed j holds nothing else, j is in the window, and no
   seed is held by two units *)
Definition G (lo hi : nat) (us : list (list prov)) : Prop :=
  (forall u, In u us -> forall j, In (Wrk j) u -> lo <= j /\ j < hi /\ forall q, In q u -> q = Wrk j)
  /\ (forall j, owners j us <= 1).

Lemma Upd_units : forall k k' us us', Upd k k' us us' ->
    forall lo, lo <= k ->
    (forall u, In u us -> forall j, In (Wrk j) u -> lo <= j /\ j < k /\ forall q, In q u -> q = Wrk j) ->
    (forall u, In u us' -> forall j, In (Wrk j) u -> lo <= j /\ j < k' /\ forall q, In q u -> q = Wrk j).
Proof.
  induction 1; intros lo Hlo Hold u0 Hu0 j Hj.
  - destruct Hu0.
  - pose proof (Upd_le _ _ _ _ H) as Hle. destruct Hu0 as [E|Hin].
    + subst u0. destruct (Hold u (or_introl eq_refl) j Hj) as [A [B C]]. repeat split; try lia; exact C.
    + eapply (IHUpd lo Hlo); eauto. intros u1 Hu1. apply Hold. right. exact Hu1.
  - pose proof (Upd_le _ _ _ _ H0) as Hle. destruct Hu0 as [E|Hin].
    + subst u0. pose proof (H _ Hj) as E. inversion E; subst. repeat split; try lia. exact H.
    + eapply (IHUpd lo ltac:(lia)); eauto. intros u1 Hu1 j1 Hj1.
      destruct (Hold u1 (or_intror Hu1) j1 Hj1) as [A [B C]]. repeat split; try lia; exact C.
  - eapply (IHUpd lo ltac:(lia)); eauto. intros u1 Hu1 j1 Hj1.
    destruct (Hold u1 Hu1 j1 Hj1) as [A [B C]]. repeat split; try lia; exact C.
Qed.

Lemma owners_zero : forall us j, (forall u, In u us -> ~ In (Wrk j) u) -> owners j us = 0.
Proof.
  induction us as [|u us IH]; intros j H; [reflexivity|]. rewrite owners_cons.
  destruct (has_wrk j u) eqn:E.
  - apply has_wrk_In in E. exfalso. exact (H u (or_introl eq_refl) E).
  - rewrite IH; [reflexivity|]. intros u1 Hu1. apply H. right. exact Hu1.
Qed.

Lemma Upd_G : forall k k' us us', Upd k k' us us' -> forall lo, lo <= k -> G lo k us -> G lo k' us'.
Proof.
  intros k k' us us' HU lo Hlo [HA HB]. split.
  - eapply Upd_units; eauto.
  - intros j. pose proof (Upd_owners _ _ _ _ HU j) as Ho.
    destruct (ind_cases k k' j) as [[A [B C]]|[A C]].
    + rewrite (owners_zero us j) in Ho; [lia|]. intros u Hu Hin. destruct (HA u Hu j Hin) as [_ [Hlt _]]. lia.
    + specialize (HB j). lia.
Qed.

Inductive Upds : nat -> nat -> list (list prov) -> list (list prov) -> Prop :=
| Us_one : forall k k' a b, Upd k k' a b -> Upds k k' a b
| Us_trans : forall k k1 k2 a b c, Upds k k1 a b -> Upds k1 k2 b c -> Upds k k2 a c.

Lemma Upds_le : forall k k' a b, Upds k k' a b -> k <= k'.
Proof. induction 1; [eapply Upd_le; eauto | lia]. Qed.

Lemma Upds_G : forall k k' a b, Upds k k' a b -> forall lo, lo <= k -> G lo k a -> G lo k' b.
Proof.
  induction 1; intros lo Hlo HG; [eapply Upd_G; eauto|].
  apply (IHUpds2 lo); [pose proof (Upds_le _ _ _ _ H); lia|]. apply (IHUpds1 lo Hlo HG).
Qed.

Lemma Upds_frame : forall k k' a a', Upds k k' a a' -> forall p s, Upds k k' (p ++ a ++ s) (p ++ a' ++ s).
Proof.
  induction 1; intros p s.
  - apply Us_one. replace k with (0 + k) by lia.
    eapply (Upd_app k k); [apply Upd_refl|]. eapply Upd_app; [exact H | apply Upd_refl].
  - eapply Us_trans; [apply IHUpds1 | apply IHUpds2].
Qed.

Lemma Upds_refl : forall k a, Upds k k a a.
Proof. intros. apply Us_one. apply Upd_refl. Qed.

Lemma Upds_suffix : forall k k' a a' s, Upds k k' a a' -> Upds k k' (a ++ s) (a' ++ s).
Proof. intros. apply (Upds_frame _ _ _ _ H [] s). Qed.

Lemma Upds_prefix : forall k k' a a' p, Upds k k' a a' -> Upds k k' (p ++ a) (p ++ a').
Proof. intros. pose proof (Upds_frame _ _ _ _ H p []) as H1. rewrite !app_nil_r in H1. exact H1. Qed.

(* the loops as sweeps over the units *)
Lemma wi_trees_Upd : forall tbl, forallb (closed tbl) tbl = true ->
    forall g cs ts k k' ts',
      forallb (mwf tbl cs) ts = true ->
      wi_trees tbl g k ts = (k', ts') ->
      Upd k k' (map (draws tbl) ts) (map (draws tbl) ts').
Proof.
  intros tbl Hc g cs ts. induction ts as [|t ts IH]; intros k k' ts' Hwf H; simpl in H.
  - inversion H; subst. constructor.
  - simpl in Hwf. apply andb_prop in Hwf. destruct Hwf as [Ht Hts].
    destruct (admits tbl g (cls_of t)).
    + destruct (wi_trees tbl g (S k) ts) as [k1 r] eqn:E. inversion H; subst. simpl.
      apply U_set; [|eapply IH; eauto].
      intros q Hq. eapply closed_table_deterministic_proof; eauto. eapply mwf_wf; eauto.
    + destruct (wi_trees tbl g k ts) as [k1 r] eqn:E. inversion H; subst. simpl.
      apply U_keep. eapply IH; eauto.
Qed.

Lemma wi_pass_Upd : forall tbl, forallb (closed tbl) tbl = true ->
    forall fields calls f g kids k k' kids',
      kids_wf tbl fields kids = true ->
      wi_pass tbl f g k kids = (k', kids') ->
      Upd k k' (kids_units tbl calls kids) (kids_units tbl calls kids').
Proof.
  intros tbl Hc fields calls f g kids. induction kids as [|fk l IH]; intros k k' kids' Hwf H; simpl in H.
  - inversion H; subst. constructor.
  - destruct (kids_wf_cons _ _ _ _ Hwf) as [[cs [Hcs Hm]] Hl].
    destruct (String.eqb (fst fk) f).
    + destruct (wi_trees tbl g k (snd fk)) as [k1 ts'] eqn:Et.
      destruct (wi_pass tbl f g k1 l) as [k2 r] eqn:Ep. inversion H; subst. clear H.
      unfold kids_units. cbn [flat_map fst snd]. fold (kids_units tbl calls l). fold (kids_units tbl calls r).
      destruct (mem (fst fk) calls).
      * eapply Upd_app; [eapply wi_trees_Upd; eauto | eapply IH; eauto].
      * destruct (wi_trees_spec tbl g cs (snd fk) k k1 ts' Hm Et) as [Hle _].
        simpl. eapply (Upd_app k k1 [] []); [apply Upd_skips_le; exact Hle | eapply IH; eauto].
    + destruct (wi_pass tbl f g k l) as [k2 r] eqn:Ep. inversion H; subst. clear H.
      unfold kids_units. cbn [flat_map]. fold (kids_units tbl calls l). fold (kids_units tbl calls r).
      eapply (Upd_app k k); [apply Upd_refl | eapply IH; eauto].
Qed.

Lemma wi_fields_Upds : forall tbl, forallb (closed tbl) tbl = true ->
    forall fields calls wi kids k k' kids',
      kids_wf tbl fields kids = true ->
      wi_fields tbl wi k kids = (k', kids') ->
      Upds k k' (kids_units tbl calls kids) (kids_units tbl calls kids').
Proof.
  intros tbl Hc fields calls wi. induction wi as [|[f g] wi IH]; intros kids k k' kids' Hwf H; simpl in H.
  - inversion H; subst. apply Upds_refl.
  - destruct (wi_pass tbl f g k kids) as [k1 kids1] eqn:Ep.
    destruct (wi_pass_spec tbl fields f g kids k k1 kids1 Hwf Ep) as [_ [Hwf1 _]].
    eapply Us_trans; [apply Us_one; eapply wi_pass_Upd; eauto | eapply IH; eauto].
Qed.

Section Thm3.
  Variables (tbl ctbl : table) (wt : wtable) (ds : dsdesc).
  Hypothesis Hc : forallb (closed tbl) tbl = true.
  Hypothesis Hcc : forallb (closed ctbl) ctbl = true.

  Definition wi_sweep (s : dstack) : Prop :=
    swf tbl ctbl wt s = true ->
    forall k, let r := worker_init tbl ctbl wt ds k s in
              Upds k (fst r) (stack_units tbl ctbl wt s) (stack_units tbl ctbl wt (snd r)).

  Lemma wi_sweep_all : forall s, wi_sweep s.
  Proof.
    induction s as [cs | [c kids] inner IH | c l IH] using dstack_ind'; unfold wi_sweep; intros Hwf k.
    - cbn [worker_init]. destruct (ds_root ds); cbn [fst snd]; [|apply Upds_refl].
      cbn [stack_units]. apply Us_one. apply U_set; [|constructor].
      intros q Hq. apply in_flat_map in Hq. destruct Hq as [t' [Ht' Hq]].
      apply in_map_iff in Ht'. destruct Ht' as [t [E Ht]]. subst t'.
      cbn [swf] in Hwf. rewrite forallb_forall in Hwf.
      eapply (closed_table_deterministic_proof ctbl Hcc t (Hwf t Ht)); eauto.
    - cbn [swf] in Hwf. apply andb_prop in Hwf. destruct Hwf as [Hw Hin].
      unfold wwf in Hw. destruct (wlookup wt c) as [d|] eqn:El; [|discriminate].
      cbn [worker_init]. destruct (ds_wrapper ds); cbn [fst snd]; [|apply Upds_refl].
      rewrite El.
      destruct (if ds_transform ds then wi_fields tbl (w_wi d) k kids else (k, kids)) as [k1 kids'] eqn:Ef.
      assert (HUf : Upds k k1 (kids_units tbl (w_calls d) kids) (kids_units tbl (w_calls d) kids')).
      { destruct (ds_transform ds).
        - eapply (wi_fields_Upds tbl Hc (w_fields d) (w_calls d)); eauto.
        - inversion Ef; subst. apply Upds_refl. }
      specialize (IH Hin k1). cbv zeta in IH.
      destruct (worker_init tbl ctbl wt ds k1 inner) as [k2 inner'] eqn:Ei. cbn [fst snd] in *.
      cbn [stack_units wobj_units]. rewrite El.
      change (Upds k k2 ([own_draws wt c] ++ kids_units tbl (w_calls d) kids ++ stack_units tbl ctbl wt inner)
                        (([own_draws wt c] ++ kids_units tbl (w_calls d) kids') ++ stack_units tbl ctbl wt inner')).
      eapply Us_trans.
      + apply Upds_frame. exact HUf.
      + rewrite app_assoc. apply Upds_prefix. exact IH.
    - rewrite worker_init_fwd. destruct (forwards ds c); cbn [fst snd]; [|apply Upds_refl].
      cbn [swf] in Hwf.
      assert (Hlist : forall l, Forall wi_sweep l -> forallb (swf tbl ctbl wt) l = true ->
                forall k, let r := wi_list tbl ctbl wt ds k l in
                          Upds k (fst r) (flat_map (stack_units tbl ctbl wt) l) (flat_map (stack_units tbl ctbl wt) (snd r))).
      { clear. induction l as [|x l IHl]; intros HF Hw k.
        - cbn. apply Upds_refl.
        - inversion HF as [|? ? Hx HFl]; subst.
          cbn [forallb] in Hw. apply andb_prop in Hw. destruct Hw as [Hwx Hwl].
          cbn [wi_list]. specialize (Hx Hwx k). cbv zeta in Hx.
          destruct (worker_init tbl ctbl wt ds k x) as [k1 x'] eqn:Ex. cbn [fst snd] in Hx.
          specialize (IHl HFl Hwl k1). cbv zeta in IHl.
          destruct (wi_list tbl ctbl wt ds k1 l) as [k2 r] eqn:El. cbn [fst snd] in *.
          cbn [flat_map]. eapply Us_trans; [apply Upds_suffix; exact Hx | apply Upds_prefix; exact IHl]. }
      specialize (Hlist l IH Hwf k). cbv zeta in Hlist.
      destruct (wi_list tbl ctbl wt ds k l) as [k' r] eqn:El. cbn [fst snd] in *. cbn [stack_units]. exact Hlist.
  Qed.
End Thm3.

Lemma inherited_G : forall tbl ctbl wt s k, inherited tbl ctbl wt s = true -> G k k (stack_units tbl ctbl wt s).
Proof.
  unfold inherited. intros tbl ctbl wt s k H. rewrite forallb_forall in H.
  assert (Hno : forall u, In u (stack_units tbl ctbl wt s) -> forall j, ~ In (Wrk j) u).
  { intros u Hu j Hj. specialize (H u Hu). rewrite forallb_forall in H. specialize (H _ Hj). discriminate. }
  split.
  - intros u Hu j Hj. exfalso. exact (Hno u Hu j Hj).
  - intros j. rewrite owners_zero; [lia|]. intros u Hu. apply Hno. exact Hu.
Qed.

Theorem worker_seed_owned_by_one_unit_proof : forall tbl ctbl wt ds,
    forallb (closed tbl) tbl = true ->
    forallb (closed ctbl) ctbl = true ->
    forall s, swf tbl ctbl wt s = true -> inherited tbl ctbl wt s = true ->
    forall k,
      let r := worker_init tbl ctbl wt ds k s in
      (forall j, owners j (stack_units tbl ctbl wt (snd r)) <= 1)
      /\ (forall u, In u (stack_units tbl ctbl wt (snd r)) -> forall j, In (Wrk j) u ->
                    k <= j /\ j < fst r /\ forall q, In q u -> q = Wrk j).
Proof.
  intros tbl ctbl wt ds Hc Hcc s Hwf Hinh k r.
  pose proof (wi_sweep_all tbl ctbl wt ds Hc Hcc s Hwf k) as HU. cbv zeta in HU. fold r in HU.
  destruct (Upds_G _ _ _ _ HU k (le_n k) (inherited_G tbl ctbl wt s k Hinh)) as [HA HB].
  split; [exact HB | exact HA].
Qed.

(* stack_draws is the concatenation of the units *)
Lemma kids_units_concat : forall tbl calls kids, List.concat (kids_units tbl calls kids) = called_draws tbl calls kids.
Proof.
  intros tbl calls kids. unfold kids_units, called_draws. induction kids as [|fk l IH]; [reflexivity|].
  cbn [flat_map]. rewrite concat_app. rewrite IH. f_equal.
  destruct (mem (fst fk) calls); [|reflexivity]. rewrite flat_map_concat_map. reflexivity.
Qed.

Lemma stack_units_concat : forall tbl ctbl wt s, List.concat (stack_units tbl ctbl wt s) = stack_draws tbl ctbl wt s.
Proof.
  intros tbl ctbl wt. induction s as [cs | [c kids] inner IH | c l IH] using dstack_ind'.
  - cbn. rewrite app_nil_r. reflexivity.
  - cbn [stack_units stack_draws wobj_units]. rewrite concat_app. cbn [List.concat]. rewrite IH.
    rewrite <- app_assoc. f_equal. f_equal.
    destruct (wlookup wt c); [apply kids_units_concat | reflexivity].
  - cbn [stack_units stack_draws]. induction l as [|x l IHl]; [reflexivity|].
    inversion IH; subst. cbn [flat_map]. rewrite concat_app. rewrite H1. f_equal. apply IHl. exact H2.
Qed.

(* ---------------------------------------------------------------- *)
(* Theorem 2: the streams after worker_init depend on the SHAPE of the stack only *)
(* ---------------------------------------------------------------- *)
Lemma cls_of_erase : forall t, cls_of (erase t) = cls_of t.
Proof. destruct t; reflexivity. Qed.

Lemma forallb_map' : forall {A B} (f : B -> bool) (g : A -> B) l, forallb f (map g l) = forallb (fun x => f (g x)) l.
Proof. induction l as [|a l IH]; simpl; [reflexivity|]. rewrite IH. reflexivity. Qed.

Lemma forallb_ext_in : forall {A} (f g : A -> bool) l, (forall x, In x l -> f x = g x) -> forallb f l = forallb g l.
Proof.
  induction l as [|a l IH]; simpl; intros H; [reflexivity|].
  rewrite (H a (or_introl eq_refl)). rewrite IH; [reflexivity|]. intros x Hx. apply H. right. exact Hx.
Qed.

Lemma wf_erase : forall tbl t, wf tbl (erase t) = wf tbl t.
Proof.
  intros tbl t. induction t as [c s kids IH] using tree_ind'. simpl.
  destruct (lookup tbl c) as [d|]; [|reflexivity].
  rewrite forallb_map'. apply forallb_ext_in. intros fk Hfk. cbn [fst snd].
  rewrite Forall_forall in IH. specialize (IH fk Hfk).
  destruct (assoc (fst fk) (d_fields d)) as [cs|]; [|reflexivity].
  rewrite forallb_map'. apply forallb_ext_in. intros k Hk.
  rewrite Forall_forall in IH. rewrite (IH k Hk). rewrite cls_of_erase. reflexivity.
Qed.

Lemma erase_set_rng : forall tbl p t, erase (set_rng tbl p t) = erase t.
Proof.
  intros tbl p t. induction t as [c s kids IH] using tree_ind'. simpl.
  destruct (lookup tbl c) as [d|]; [|reflexivity]. simpl. f_equal. rewrite map_map.
  apply map_ext_in. intros fk Hfk. rewrite Forall_forall in IH. specialize (IH fk Hfk).
  rewrite inject_kids_entry. cbn [fst snd]. f_equal.
  unfold inject_members. destruct (assoc (fst fk) (d_set_fwd d)) as [g|]; [|reflexivity].
  rewrite map_map. apply map_ext_in. intros k Hk. rewrite Forall_forall in IH.
  destruct (admits tbl g (cls_of k)); [apply IH; exact Hk | reflexivity].
Qed.

Lemma members_draws_erase : forall tbl p cs og ts,
    members_ok tbl cs og = true ->
    forallb (mwf tbl cs) ts = true ->
    Forall (fun k => wf tbl k = true -> forall p, draws tbl (set_rng tbl p k) = draws tbl (set_rng tbl p (erase k))) ts ->
    flat_map (draws tbl) (inject_members tbl og p ts) = flat_map (draws tbl) (inject_members tbl og p (map erase ts)).
Proof.
  intros tbl p cs og ts Hok. induction ts as [|k ts IHts]; intros Hwf IH.
  - destruct og; reflexivity.
  - simpl in Hwf. apply andb_prop in Hwf. destruct Hwf as [Hk Hts].
    inversion IH as [|? ? IHk IHrest]; subst.
    specialize (IHts Hts IHrest).
    destruct (kid_is_candidate tbl cs k Hk) as [Hcand Hwk].
    unfold members_ok in Hok.
    destruct og as [g|]; cbn [inject_members map flat_map] in *.
    + rewrite cls_of_erase. rewrite forallb_forall in Hok. specialize (Hok _ Hcand).
      destruct (admits tbl g (cls_of k)).
      * rewrite (IHk Hwk p). rewrite IHts. reflexivity.
      * rewrite orb_false_r in Hok. rewrite (quiet_draws_nil tbl k Hok).
        rewrite (quiet_draws_nil tbl (erase k)); [|rewrite cls_of_erase; exact Hok]. rewrite IHts. reflexivity.
    + rewrite forallb_forall in Hok. specialize (Hok _ Hcand).
      rewrite (quiet_draws_nil tbl k Hok).
      rewrite (quiet_draws_nil tbl (erase k)); [|rewrite cls_of_erase; exact Hok]. rewrite IHts. reflexivity.
Qed.

Lemma draws_set_rng_erase : forall tbl, forallb (closed tbl) tbl = true ->
    forall t, wf tbl t = true -> forall p, draws tbl (set_rng tbl p t) = draws tbl (set_rng tbl p (erase t)).
Proof.
  intros tbl Hclosed t. induction t as [c s kids IH] using tree_ind'. intros Hwf p.
  simpl in Hwf. simpl. destruct (lookup tbl c) as [d|] eqn:El; [|discriminate]. simpl. rewrite El.
  destruct (lookup_In _ _ _ El) as [Hd _].
  rewrite forallb_forall in Hclosed. specialize (Hclosed d Hd).
  unfold closed in Hclosed. apply andb_prop in Hclosed. destruct Hclosed as [Hcl Hfields].
  apply andb_prop in Hcl. destruct Hcl as [Hglob Hself].
  f_equal.
  - destruct (d_draw_self d); [|reflexivity]. simpl in Hself. rewrite Hself. reflexivity.
  - f_equal. rewrite map_map. rewrite !flat_map_concat_map. f_equal. rewrite !map_map.
    apply map_ext_in. intros fk Hfk. rewrite !inject_kids_entry. cbn [fst snd].
    destruct (mem (fst fk) (d_calls d)) eqn:Ecall; [|reflexivity].
    apply mem_In in Ecall. rewrite forallb_forall in Hfields. specialize (Hfields _ Ecall).
    unfold field_ok in Hfields.
    rewrite forallb_forall in Hwf. specialize (Hwf fk Hfk).
    rewrite Forall_forall in IH. specialize (IH fk Hfk).
    destruct (assoc (fst fk) (d_fields d)) as [cs|] eqn:Efld; [|discriminate].
    eapply members_draws_erase; eauto.
Qed.

Lemma draws_set_rng_same_shape : forall tbl, forallb (closed tbl) tbl = true ->
    forall a b, wf tbl a = true -> erase a = erase b -> forall p, draws tbl (set_rng tbl p a) = draws tbl (set_rng tbl p b).
Proof.
  intros tbl Hc a b Hwa E p.
  assert (Hwb : wf tbl b = true) by (rewrite <- wf_erase, <- E, wf_erase; exact Hwa).
  rewrite (draws_set_rng_erase tbl Hc a Hwa p). rewrite (draws_set_rng_erase tbl Hc b Hwb p). rewrite E. reflexivity.
Qed.

Lemma map_eq_Forall2 : forall {A B} (f : A -> B) l1 l2, map f l1 = map f l2 -> Forall2 (fun a b => f a = f b) l1 l2.
Proof.
  induction l1 as [|a l1 IH]; intros [|b l2] H; simpl in H; try discriminate; [constructor|].
  inversion H. constructor; [assumption | apply IH; assumption].
Qed.

(* two members at the same place of two copies of the stack: same shape, and - once a guard in P that admits their
   class has been processed - the same draws *)
Definition MSim (tbl : table) (P : guard -> Prop) (a b : tree) : Prop :=
  erase a = erase b /\ (forall g, P g -> admits tbl g (cls_of a) = true -> draws tbl a = draws tbl b).

Lemma erase_cls : forall a b, erase a = erase b -> cls_of a = cls_of b.
Proof. intros a b E. rewrite <- (cls_of_erase a), <- (cls_of_erase b), E. reflexivity. Qed.

Lemma wi_trees_sim : forall tbl, forallb (closed tbl) tbl = true ->
    forall g cs P tsA tsB,
      Forall2 (MSim tbl P) tsA tsB ->
      forallb (mwf tbl cs) tsA = true ->
      forall k kA tsA' kB tsB',
        wi_trees tbl g k tsA = (kA, tsA') -> wi_trees tbl g k tsB = (kB, tsB') ->
        kA = kB /\ Forall2 (MSim tbl (fun g' => g' = g \/ P g')) tsA' tsB'.
Proof.
  intros tbl Hc g cs P tsA tsB HF. induction HF as [|a b tsA tsB [He Hd] HF IH]; intros Hwf k kA tsA' kB tsB' HA HB; simpl in HA, HB.
  - inversion HA; inversion HB; subst. split; [reflexivity|constructor].
  - simpl in Hwf. apply andb_prop in Hwf. destruct Hwf as [Ha Hts].
    rewrite <- (erase_cls a b He) in HB.
    destruct (admits tbl g (cls_of a)) eqn:Ea.
    + destruct (wi_trees tbl g (S k) tsA) as [k1 rA] eqn:EA. destruct (wi_trees tbl g (S k) tsB) as [k2 rB] eqn:EB.
      inversion HA; inversion HB; subst. destruct (IH Hts (S k) kA rA kB rB EA EB) as [Ek HF'].
      split; [exact Ek|]. constructor; [|exact HF'].
      split; [rewrite !erase_set_rng; exact He|].
      intros g' _ _. apply draws_set_rng_same_shape; auto. eapply mwf_wf; eauto.
    + destruct (wi_trees tbl g k tsA) as [k1 rA] eqn:EA. destruct (wi_trees tbl g k tsB) as [k2 rB] eqn:EB.
      inversion HA; inversion HB; subst. destruct (IH Hts k kA rA kB rB EA EB) as [Ek HF'].
      split; [exact Ek|]. constructor; [|exact HF'].
      split; [exact He|]. intros g' [E|HP] Hadm; [subst; rewrite Ea in Hadm; discriminate | apply (Hd g' HP Hadm)].
Qed.

Definition KSim (tbl : table) (Q : string -> guard -> Prop) (kidsA kidsB : list (string * list tree)) : Prop :=
  Forall2 (fun fa fb : string * list tree => fst fa = fst fb /\ Forall2 (MSim tbl (Q (fst fa))) (snd fa) (snd fb)) kidsA kidsB.

Lemma MSim_weaken : forall tbl (P P' : guard -> Prop) l1 l2,
    (forall g, P' g -> P g) -> Forall2 (MSim tbl P) l1 l2 -> Forall2 (MSim tbl P') l1 l2.
Proof.
  intros tbl P P' l1 l2 H HF. induction HF as [|a b l1 l2 [He Hd] HF IH]; constructor; [|exact IH].
  split; [exact He|]. intros g Hg. apply Hd. apply H. exact Hg.
Qed.

Lemma wi_pass_sim : forall tbl, forallb (closed tbl) tbl = true ->
    forall fields f g Q kidsA kidsB,
      KSim tbl Q kidsA kidsB ->
      kids_wf tbl fields kidsA = true ->
      forall k kA kidsA' kB kidsB',
        wi_pass tbl f g k kidsA = (kA, kidsA') -> wi_pass tbl f g k kidsB = (kB, kidsB') ->
        kA = kB /\ KSim tbl (fun f' g' => (f', g') = (f, g) \/ Q f' g') kidsA' kidsB'.
Proof.
  intros tbl Hc fields f g Q kidsA kidsB HF. unfold KSim in *.
  induction HF as [|fa fb kidsA kidsB [En Hm] HF IH]; intros Hwf k kA kidsA' kB kidsB' HA HB; simpl in HA, HB.
  - inversion HA; inversion HB; subst. split; [reflexivity|constructor].
  - destruct (kids_wf_cons _ _ _ _ Hwf) as [[cs [Hcs Hmw]] Hl].
    rewrite <- En in HB.
    destruct (String.eqb (fst fa) f) eqn:Ef.
    + apply String.eqb_eq in Ef.
      destruct (wi_trees tbl g k (snd fa)) as [k1 tA] eqn:EtA. destruct (wi_trees tbl g k (snd fb)) as [k1' tB] eqn:EtB.
      destruct (wi_trees_sim tbl Hc g cs _ _ _ Hm Hmw k k1 tA k1' tB EtA EtB) as [Ek1 Hm'].
      subst k1'.
      destruct (wi_pass tbl f g k1 kidsA) as [k2 rA] eqn:EpA. destruct (wi_pass tbl f g k1 kidsB) as [k2' rB] eqn:EpB.
      inversion HA; inversion HB; subst. destruct (IH Hl k1 kA rA kB rB EpA EpB) as [Ek HF'].
      split; [exact Ek|]. constructor; [|exact HF']. cbn [fst snd]. split; [reflexivity|].
      eapply MSim_weaken; [|exact Hm']. intros g0 [E|HQ]; [inversion E; left; reflexivity | right; exact HQ].
    + destruct (wi_pass tbl f g k kidsA) as [k2 rA] eqn:EpA. destruct (wi_pass tbl f g k kidsB) as [k2' rB] eqn:EpB.
      inversion HA; inversion HB; subst. destruct (IH Hl k kA rA kB rB EpA EpB) as [Ek HF'].
      split; [exact Ek|]. constructor; [|exact HF']. split; [exact En|].
      eapply MSim_weaken; [|exact Hm]. intros g0 [E|HQ]; [|exact HQ].
      inversion E. subst. apply String.eqb_neq in Ef. contradiction.
Qed.

Lemma KSim_weaken : forall tbl (Q Q' : string -> guard -> Prop) k1 k2,
    (forall f g, Q' f g -> Q f g) -> KSim tbl Q k1 k2 -> KSim tbl Q' k1 k2.
Proof.
  unfold KSim. intros tbl Q Q' k1 k2 H HF. induction HF as [|fa fb k1 k2 [En Hm] HF IH]; constructor; [|exact IH].
  split; [exact En|]. eapply MSim_weaken; [|exact Hm]. intros g. apply H.
Qed.

Lemma wi_fields_sim : forall tbl, forallb (closed tbl) tbl = true ->
    forall fields wi Q kidsA kidsB,
      KSim tbl Q kidsA kidsB ->
      kids_wf tbl fields kidsA = true ->
      forall k kA kidsA' kB kidsB',
        wi_fields tbl wi k kidsA = (kA, kidsA') -> wi_fields tbl wi k kidsB = (kB, kidsB') ->
        kA = kB /\ KSim tbl (fun f g => In (f, g) wi \/ Q f g) kidsA' kidsB'.
Proof.
  intros tbl Hc fields wi. induction wi as [|[f g] wi IH]; intros Q kidsA kidsB HS Hwf k kA kidsA' kB kidsB' HA HB; simpl in HA, HB.
  - inversion HA; inversion HB; subst. split; [reflexivity|]. eapply KSim_weaken; [|exact HS]. intros f g [[]|H]. exact H.
  - destruct (wi_pass tbl f g k kidsA) as [k1 kA1] eqn:EpA. destruct (wi_pass tbl f g k kidsB) as [k1' kB1] eqn:EpB.
    destruct (wi_pass_sim tbl Hc fields f g Q kidsA kidsB HS Hwf k k1 kA1 k1' kB1 EpA EpB) as [Ek HS1]. subst k1'.
    destruct (wi_pass_spec tbl fields f g kidsA k k1 kA1 Hwf EpA) as [_ [Hwf1 _]].
    destruct (IH _ kA1 kB1 HS1 Hwf1 k1 kA kidsA' kB kidsB' HA HB) as [Ek2 HS2].
    split; [exact Ek2|]. eapply KSim_weaken; [|exact HS2].
    intros f0 g0 [[E|Hin]|HQ]; [right; left; symmetry; exact E | left; exact Hin | right; right; exact HQ].
Qed.

(* after the whole _worker_init_fn the called fields of the two copies have the same units *)
Lemma kids_units_sim : forall tbl d,
    wiclosed tbl d = true ->
    forall kidsA kidsB,
      KSim tbl (fun f g => In (f, g) (w_wi d) \/ False) kidsA kidsB ->
      kids_wf tbl (w_fields d) kidsA = true ->
      kids_units tbl (w_calls d) kidsA = kids_units tbl (w_calls d) kidsB.
Proof.
  intros tbl d Hwi kidsA kidsB HS. unfold KSim in HS.
  induction HS as [|fa fb kidsA kidsB [En Hm] HS IH]; intros Hwf; [reflexivity|].
  destruct (kids_wf_cons _ _ _ _ Hwf) as [[cs [Hcs Hmw]] Hl].
  unfold kids_units. cbn [flat_map]. fold (kids_units tbl (w_calls d) kidsA). fold (kids_units tbl (w_calls d) kidsB).
  rewrite (IH Hl). f_equal. rewrite <- En.
  destruct (mem (fst fa) (w_calls d)) eqn:Ecall; [|reflexivity].
  unfold wiclosed in Hwi. apply andb_prop in Hwi. destruct Hwi as [_ Hwi].
  rewrite forallb_forall in Hwi. specialize (Hwi _ (mem_In _ _ Ecall)).
  unfold wfield_ok in Hwi. rewrite Hcs in Hwi.
  clear IH HS Hwf Hl. induction Hm as [|a b tsA tsB [He Hd] Hm IHm]; [reflexivity|].
  simpl in Hmw. apply andb_prop in Hmw. destruct Hmw as [Ha Hts].
  cbn [map]. rewrite (IHm Hts). f_equal.
  destruct (kid_is_candidate tbl cs a Ha) as [Hcand Hwa].
  destruct (assoc (fst fa) (w_wi d)) as [g|] eqn:Eg.
  - rewrite forallb_forall in Hwi. specialize (Hwi _ Hcand).
    destruct (admits tbl g (cls_of a)) eqn:Ea.
    + apply (Hd g); [left; apply assoc_In; exact Eg | exact Ea].
    + rewrite orb_false_r in Hwi. rewrite (quiet_draws_nil tbl a Hwi).
      rewrite (quiet_draws_nil tbl b); [reflexivity|]. rewrite <- (erase_cls a b He). exact Hwi.
  - rewrite forallb_forall in Hwi. specialize (Hwi _ Hcand). rewrite (quiet_draws_nil tbl a Hwi).
    rewrite (quiet_draws_nil tbl b); [reflexivity|]. rewrite <- (erase_cls a b He). exact Hwi.
Qed.

Lemma werase_KSim : forall tbl c1 kids1 c2 kids2,
    werase (WObj c1 kids1) = werase (WObj c2 kids2) -> c1 = c2 /\ KSim tbl (fun _ _ => False) kids1 kids2.
Proof.
  intros tbl c1 kids1 c2 kids2 H. simpl in H. inversion H as [[Ec Ek]]. split; [reflexivity|].
  apply map_eq_Forall2 in Ek. unfold KSim. clear H Ec.
  induction Ek as [|fa fb l1 l2 E Ek IH]; constructor; [|exact IH].
  injection E as En Em. split; [exact En|].
  apply map_eq_Forall2 in Em. clear En. induction Em as [|a b m1 m2 E Em IHm]; constructor; [|exact IHm].
  split; [exact E|]. intros g [].
Qed.

Section Thm2.
  Variables (tbl ctbl : table) (wt : wtable) (ds : dsdesc).
  Hypothesis Hc : forallb (closed tbl) tbl = true.
  Hypothesis Hcc : forallb (closed ctbl) ctbl = true.
  Hypothesis Hwi : forallb (wiclosed tbl) wt = true.
  Hypothesis Hds : dsclosed ds = true.

  Definition wi_shape (s1 : dstack) : Prop :=
    forall s2, serase s1 = serase s2 ->
    swf tbl ctbl wt s1 = true -> fwd_known ds s1 = true ->
    forall k, let r1 := worker_init tbl ctbl wt ds k s1 in
              let r2 := worker_init tbl ctbl wt ds k s2 in
              fst r1 = fst r2 /\ stack_units tbl ctbl wt (snd r1) = stack_units tbl ctbl wt (snd r2).

  Lemma wi_shape_all : forall s, wi_shape s.
  Proof.
    destruct (dsclosed_parts ds Hds) as [Hfw [Hwr [Hrt Htr]]].
    induction s as [cs | [c kids] inner IH | c l IH] using dstack_ind'; unfold wi_shape; intros s2 He Hwf Hk k.
    - destruct s2 as [cs2 | |]; simpl in He; try discriminate. inversion He as [Hm].
      cbn [worker_init]. rewrite Hrt. cbn [fst snd stack_units]. split; [reflexivity|]. f_equal.
      cbn [swf] in Hwf. apply map_eq_Forall2 in Hm. clear He Hk.
      induction Hm as [|a b l1 l2 E Hm IHm]; [reflexivity|].
      cbn [forallb] in Hwf. apply andb_prop in Hwf. destruct Hwf as [Ha Hl].
      cbn [map flat_map]. rewrite (IHm Hl). f_equal. apply draws_set_rng_same_shape; auto.
    - destruct s2 as [| [c2 kids2] inner2 |]; simpl in He; try discriminate.
      inversion He as [[Ec Ek Ei]].
      subst c2. destruct (werase_KSim tbl c kids c kids2) as [_ HS]; [simpl; rewrite Ek; reflexivity|].
      cbn [swf] in Hwf. apply andb_prop in Hwf. destruct Hwf as [Hw Hin]. cbn [fwd_known] in Hk.
      unfold wwf in Hw. destruct (wlookup wt c) as [d|] eqn:El; [|discriminate].
      cbn [worker_init]. rewrite Hwr. rewrite El. rewrite Htr.
      destruct (wi_fields tbl (w_wi d) k kids) as [k1 kidsA'] eqn:EfA.
      destruct (wi_fields tbl (w_wi d) k kids2) as [k1' kidsB'] eqn:EfB.
      destruct (wi_fields_sim tbl Hc (w_fields d) (w_wi d) _ kids kids2 HS Hw k k1 kidsA' k1' kidsB' EfA EfB) as [Ek1 HS'].
      subst k1'.
      specialize (IH inner2 Ei Hin Hk k1). cbv zeta in IH.
      destruct (worker_init tbl ctbl wt ds k1 inner) as [k2 innerA'] eqn:EiA.
      destruct (worker_init tbl ctbl wt ds k1 inner2) as [k2' innerB'] eqn:EiB. cbn [fst snd] in *.
      destruct IH as [Ek2 Eu]. split; [exact Ek2|].
      cbn [stack_units wobj_units]. rewrite El. rewrite Eu. f_equal. f_equal.
      destruct (wlookup_In _ _ _ El) as [Hd _]. rewrite forallb_forall in Hwi.
      destruct (wi_fields_spec tbl (w_fields d) (w_wi d) (fun _ _ => False) k kids k k1 kidsA' Hw (le_n k)) as [_ [Hwf' _]];
        [intros fk Hfk t Ht g [] | exact EfA |].
      apply (kids_units_sim tbl d (Hwi d Hd) kidsA' kidsB' HS' Hwf').
    - destruct s2 as [| | c2 l2]; simpl in He; try discriminate. inversion He as [[Ec El]]. subst c2.
      cbn [fwd_known] in Hk. apply andb_prop in Hk. destruct Hk as [Hkc Hkl].
      rewrite !worker_init_fwd. rewrite (forwards_known ds c Hds Hkc).
      cbn [swf] in Hwf.
      assert (Hlist : forall l, Forall wi_shape l -> forall l2, map serase l = map serase l2 ->
                forallb (swf tbl ctbl wt) l = true -> forallb (fwd_known ds) l = true ->
                forall k, let r1 := wi_list tbl ctbl wt ds k l in
                          let r2 := wi_list tbl ctbl wt ds k l2 in
                          fst r1 = fst r2 /\ flat_map (stack_units tbl ctbl wt) (snd r1) = flat_map (stack_units tbl ctbl wt) (snd r2)).
      { clear. induction l as [|x l IHl]; intros HF l2 Hm Hw Hk k.
        - destruct l2; [|discriminate]. cbn. split; reflexivity.
        - destruct l2 as [|y l2]; [discriminate|]. simpl in Hm. inversion Hm as [[Ex Eml]].
          inversion HF as [|? ? Hx HFl]; subst.
          cbn [forallb] in Hw, Hk. apply andb_prop in Hw. destruct Hw as [Hwx Hwl].
          apply andb_prop in Hk. destruct Hk as [Hkx Hkl].
          cbn [wi_list]. specialize (Hx y Ex Hwx Hkx k). cbv zeta in Hx.
          destruct (worker_init tbl ctbl wt ds k x) as [k1 x'] eqn:ExA.
          destruct (worker_init tbl ctbl wt ds k y) as [k1' y'] eqn:ExB. cbn [fst snd] in Hx. destruct Hx as [Ek1 Eu1]. subst k1'.
          specialize (IHl HFl l2 Eml Hwl Hkl k1). cbv zeta in IHl.
          destruct (wi_list tbl ctbl wt ds k1 l) as [k2 r] eqn:ElA.
          destruct (wi_list tbl ctbl wt ds k1 l2) as [k2' r'] eqn:ElB. cbn [fst snd] in *. destruct IHl as [Ek2 Eu2].
          split; [exact Ek2|]. cbn [flat_map]. rewrite Eu1, Eu2. reflexivity. }
      specialize (Hlist l IH l2 El Hwf Hkl k). cbv zeta in Hlist.
      destruct (wi_list tbl ctbl wt ds k l) as [k' r] eqn:ElA.
      destruct (wi_list tbl ctbl wt ds k l2) as [k'' r'] eqn:ElB. cbn [fst snd] in *. exact Hlist.
  Qed.
End Thm2.

Theorem worker_streams_function_of_worker_seed_proof : forall tbl ctbl wt ds,
    forallb (closed tbl) tbl = true ->
    forallb (closed ctbl) ctbl = true ->
    forallb (wiclosed tbl) wt = true ->
    dsclosed ds = true ->
    forall s1 s2, serase s1 = serase s2 ->
    swf tbl ctbl wt s1 = true -> fwd_known ds s1 = true ->
    forall k,
      fst (worker_init tbl ctbl wt ds k s1) = fst (worker_init tbl ctbl wt ds k s2)
      /\ stack_units tbl ctbl wt (snd (worker_init tbl ctbl wt ds k s1)) = stack_units tbl ctbl wt (snd (worker_init tbl ctbl wt ds k s2))
      /\ stack_draws tbl ctbl wt (snd (worker_init tbl ctbl wt ds k s1)) = stack_draws tbl ctbl wt (snd (worker_init tbl ctbl wt ds k s2)).
Proof.
  intros tbl ctbl wt ds Hc Hcc Hwi Hds s1 s2 He Hwf Hk k.
  destruct (wi_shape_all tbl ctbl wt ds Hc Hcc Hwi Hds s1 s2 He Hwf Hk k) as [E1 E2].
  split; [exact E1|]. split; [exact E2|]. rewrite <- !stack_units_concat. rewrite E2. reflexivity.
Qed.

(* ---------------------------------------------------------------- *)
(* Theorem 3 without the `inherited` premise: whatever the slots held before (copies inherited from the parent,      *)
(* generators of an earlier worker_init, injected per-item generators), over closed tables every worker seed is owned *)
(* by at most one unit.  Proof: the units after worker_init do not depend on the slots before (Theorem 2), so they   *)
(* are those of the ERASED stack, which is inherited.                                                                *)
(* ---------------------------------------------------------------- *)
Lemma erase_erase : forall t, erase (erase t) = erase t.
Proof.
  induction t as [c s kids IH] using tree_ind'. simpl. f_equal. rewrite map_map.
  apply map_ext_in. intros fk Hfk. cbn [fst snd]. f_equal. rewrite map_map.
  rewrite Forall_forall in IH. specialize (IH fk Hfk). rewrite Forall_forall in IH.
  apply map_ext_in. intros k Hk. apply IH. exact Hk.
Qed.

Lemma werase_werase : forall w, werase (werase w) = werase w.
Proof.
  intros [c kids]. simpl. f_equal. rewrite map_map. apply map_ext. intros fk. cbn [fst snd]. f_equal.
  rewrite map_map. apply map_ext. intros k. apply erase_erase.
Qed.

Lemma serase_serase : forall s, serase (serase s) = serase s.
Proof.
  induction s as [cs | w inner IH | c l IH] using dstack_ind'; simpl.
  - f_equal. rewrite map_map. apply map_ext. intros t. apply erase_erase.
  - rewrite werase_werase, IH. reflexivity.
  - f_equal. rewrite map_map. apply map_ext_in. intros x Hx. rewrite Forall_forall in IH. apply IH. exact Hx.
Qed.

Lemma wwf_werase : forall tbl wt w, wwf tbl wt (werase w) = wwf tbl wt w.
Proof.
  intros tbl wt [c kids]. simpl. destruct (wlookup wt c) as [d|]; [|reflexivity].
  unfold kids_wf. rewrite forallb_map'. apply forallb_ext_in. intros fk Hfk. cbn [fst snd].
  destruct (assoc (fst fk) (w_fields d)) as [cs|]; [|reflexivity].
  rewrite forallb_map'. apply forallb_ext_in. intros k Hk. rewrite cls_of_erase, wf_erase. reflexivity.
Qed.

Lemma swf_serase : forall tbl ctbl wt s, swf tbl ctbl wt (serase s) = swf tbl ctbl wt s.
Proof.
  intros tbl ctbl wt. induction s as [cs | w inner IH | c l IH] using dstack_ind'; simpl.
  - rewrite forallb_map'. apply forallb_ext_in. intros t _. apply wf_erase.
  - rewrite wwf_werase, IH. reflexivity.
  - rewrite forallb_map'. apply forallb_ext_in. intros x Hx. rewrite Forall_forall in IH. apply IH. exact Hx.
Qed.

Lemma draws_erase_no_wrk : forall tbl t q, In q (draws tbl (erase t)) -> is_wrk q = false.
Proof.
  intros tbl t. induction t as [c s kids IH] using tree_ind'. intros q Hq. simpl in Hq.
  destruct (lookup tbl c) as [d|]; [|destruct Hq].
  apply in_app_or in Hq. destruct Hq as [Hq|Hq]; [destruct (d_draw_self d); destruct Hq|].
  apply in_app_or in Hq. destruct Hq as [Hq|Hq].
  - apply in_map_iff in Hq. destruct Hq as [g [E _]]. subst q. reflexivity.
  - apply in_flat_map in Hq. destruct Hq as [fk' [Hfk' Hq]].
    apply in_map_iff in Hfk'. destruct Hfk' as [fk [E Hfk]]. subst fk'. cbn [fst snd] in Hq.
    destruct (mem (fst fk) (d_calls d)); [|destruct Hq].
    apply in_flat_map in Hq. destruct Hq as [k' [Hk' Hq]].
    apply in_map_iff in Hk'. destruct Hk' as [k0 [E Hk0]]. subst k'.
    rewrite Forall_forall in IH. specialize (IH fk Hfk). rewrite Forall_forall in IH. exact (IH k0 Hk0 q Hq).
Qed.

Lemma inherited_serase : forall tbl ctbl wt s, inherited tbl ctbl wt (serase s) = true.
Proof.
  intros tbl ctbl wt s. unfold inherited. apply forallb_forall. intros u Hu. apply forallb_forall. intros q Hq.
  apply negb_true_iff. revert u Hu q Hq.
  induction s as [cs | [c kids] inner IH | c l IH] using dstack_ind'; intros u Hu q Hq.
  - cbn [serase stack_units] in Hu. destruct Hu as [E|[]]. subst u.
    apply in_flat_map in Hq. destruct Hq as [t' [Ht' Hq]]. apply in_map_iff in Ht'. destruct Ht' as [t [E _]]. subst t'.
    eapply draws_erase_no_wrk; eauto.
  - cbn [serase werase stack_units wobj_units] in Hu. apply in_app_or in Hu. destruct Hu as [Hu|Hu]; [|eapply IH; eauto].
    destruct Hu as [E|Hu].
    + subst u. unfold own_draws in Hq. destruct (wlookup wt c); [|destruct Hq].
      apply in_map_iff in Hq. destruct Hq as [g [E _]]. subst q. reflexivity.
    + destruct (wlookup wt c) as [d|]; [|destruct Hu].
      unfold kids_units in Hu. apply in_flat_map in Hu. destruct Hu as [fk' [Hfk' Hu]].
      apply in_map_iff in Hfk'. destruct Hfk' as [fk [E _]]. subst fk'. cbn [fst snd] in Hu.
      destruct (mem (fst fk) (w_calls d)); [|destruct Hu].
      apply in_map_iff in Hu. destruct Hu as [t' [E Ht']]. subst u.
      apply in_map_iff in Ht'. destruct Ht' as [t [E _]]. subst t'.
      eapply draws_erase_no_wrk; eauto.
  - cbn [serase stack_units] in Hu. apply in_flat_map in Hu. destruct Hu as [x' [Hx' Hu]].
    apply in_map_iff in Hx'. destruct Hx' as [x [E Hx]]. subst x'.
    rewrite Forall_forall in IH. eapply (IH x Hx); eauto.
Qed.

Theorem worker_seed_owned_by_one_unit_any_start_proof : forall tbl ctbl wt ds,
    forallb (closed tbl) tbl = true ->
    forallb (closed ctbl) ctbl = true ->
    forallb (wiclosed tbl) wt = true ->
    dsclosed ds = true ->
    forall s, swf tbl ctbl wt s = true -> fwd_known ds s = true ->
    forall k,
      let r := worker_init tbl ctbl wt ds k s in
      (forall j, owners j (stack_units tbl ctbl wt (snd r)) <= 1)
      /\ (forall u, In u (stack_units tbl ctbl wt (snd r)) -> forall j, In (Wrk j) u ->
                    k <= j /\ j < fst r /\ forall q, In q u -> q = Wrk j).
Proof.
  intros tbl ctbl wt ds Hc Hcc Hwi Hds s Hwf Hk k r.
  destruct (wi_shape_all tbl ctbl wt ds Hc Hcc Hwi Hds s (serase s) (eq_sym (serase_serase s)) Hwf Hk k) as [E1 E2].
  assert (Hwf' : swf tbl ctbl wt (serase s) = true) by (rewrite swf_serase; exact Hwf).
  pose proof (worker_seed_owned_by_one_unit_proof tbl ctbl wt ds Hc Hcc (serase s) Hwf'
                (inherited_serase tbl ctbl wt s) k) as H.
  cbv zeta in H. unfold r. rewrite E1, E2. exact H.
Qed.

(* ---------------------------------------------------------------- *)
(* Histories: worker_init is a function of (stack SHAPE, worker seed) only.  The hook writes generator slots and     *)
(* nothing else - in particular nothing a later run of the hook (in the same process, or in a copy of the object      *)
(* made afterwards) could consult - so after ANY history of earlier runs the next run gives the units the first run   *)
(* on a pristine object would have given.                                                                             *)
(* ---------------------------------------------------------------- *)
Definition kerase (kids : list (string * list tree)) : list (string * list tree) :=
  map (fun fk : string * list tree => (fst fk, map erase (snd fk))) kids.

Lemma wi_trees_erase : forall tbl g ts k, map erase (snd (wi_trees tbl g k ts)) = map erase ts.
Proof.
  intros tbl g. induction ts as [|t ts IH]; intros k; simpl; [reflexivity|].
  destruct (admits tbl g (cls_of t)).
  - specialize (IH (S k)). destruct (wi_trees tbl g (S k) ts) as [k1 r]. simpl in *. rewrite erase_set_rng, IH. reflexivity.
  - specialize (IH k). destruct (wi_trees tbl g k ts) as [k1 r]. simpl in *. rewrite IH. reflexivity.
Qed.

Lemma wi_pass_erase : forall tbl f g kids k, kerase (snd (wi_pass tbl f g k kids)) = kerase kids.
Proof.
  intros tbl f g. unfold kerase. induction kids as [|fk l IH]; intros k; simpl; [reflexivity|].
  destruct (String.eqb (fst fk) f).
  - pose proof (wi_trees_erase tbl g (snd fk) k) as Ht.
    destruct (wi_trees tbl g k (snd fk)) as [k1 ts']. specialize (IH k1).
    destruct (wi_pass tbl f g k1 l) as [k2 r]. simpl in *. rewrite Ht, IH. reflexivity.
  - specialize (IH k). destruct (wi_pass tbl f g k l) as [k2 r]. simpl in *. rewrite IH. reflexivity.
Qed.

Lemma wi_fields_erase : forall tbl wi k kids, kerase (snd (wi_fields tbl wi k kids)) = kerase kids.
Proof.
  intros tbl. induction wi as [|[f g] wi IH]; intros k kids; simpl; [reflexivity|].
  pose proof (wi_pass_erase tbl f g kids k) as Hp.
  destruct (wi_pass tbl f g k kids) as [k1 kids1]. simpl in Hp. rewrite IH. exact Hp.
Qed.

Lemma serase_worker_init : forall tbl ctbl wt ds s k, serase (snd (worker_init tbl ctbl wt ds k s)) = serase s.
Proof.
  intros tbl ctbl wt ds. induction s as [cs | [c kids] inner IH | c l IH] using dstack_ind'; intros k.
  - cbn [worker_init]. destruct (ds_root ds); [|reflexivity]. cbn [snd serase]. f_equal.
    rewrite map_map. apply map_ext. intros t. apply erase_set_rng.
  - cbn [worker_init]. destruct (ds_wrapper ds); [|reflexivity].
    assert (Hk : forall r : nat * list (string * list tree),
               r = match wlookup wt c with
                   | Some d => if ds_transform ds then wi_fields tbl (w_wi d) k kids else (k, kids)
                   | None => (k, kids)
                   end -> kerase (snd r) = kerase kids).
    { intros r E. subst r. destruct (wlookup wt c) as [d|]; [|reflexivity].
      destruct (ds_transform ds); [apply wi_fields_erase | reflexivity]. }
    destruct (match wlookup wt c with
              | Some d => if ds_transform ds then wi_fields tbl (w_wi d) k kids else (k, kids)
              | None => (k, kids)
              end) as [k1 kids'] eqn:Ef.
    specialize (Hk (k1, kids') eq_refl). cbn [snd] in Hk.
    specialize (IH k1). destruct (worker_init tbl ctbl wt ds k1 inner) as [k2 inner']. cbn [snd] in *.
    cbn [serase werase]. fold (kerase kids'). fold (kerase kids). rewrite Hk, IH. reflexivity.
  - rewrite worker_init_fwd. destruct (forwards ds c); [|reflexivity].
    assert (Hl : forall k, map serase (snd (wi_list tbl ctbl wt ds k l)) = map serase l).
    { clear k. induction l as [|x l IHl]; intros k; [reflexivity|].
      inversion IH as [|? ? Hx HFl]; subst. cbn [wi_list].
      specialize (Hx k). destruct (worker_init tbl ctbl wt ds k x) as [k1 x']. cbn [snd] in Hx.
      specialize (IHl HFl k1). destruct (wi_list tbl ctbl wt ds k1 l) as [k2 r]. cbn [snd map] in *.
      rewrite Hx, IHl. reflexivity. }
    specialize (Hl k). destruct (wi_list tbl ctbl wt ds k l) as [k' r]. cbn [snd serase] in *. rewrite Hl. reflexivity.
Qed.

Lemma serase_wi_history : forall tbl ctbl wt ds ks s, serase (wi_history tbl ctbl wt ds ks s) = serase s.
Proof.
  intros tbl ctbl wt ds. induction ks as [|k' ks IH]; intros s; [reflexivity|].
  cbn [wi_history]. rewrite IH. apply serase_worker_init.
Qed.

(* being an instance of the tables is a property of the shape: every state a history of hooks leaves is well-formed *)
Lemma swf_wi_history : forall tbl ctbl wt ds ks s,
    swf tbl ctbl wt (wi_history tbl ctbl wt ds ks s) = swf tbl ctbl wt s.
Proof.
  intros. rewrite <- (swf_serase tbl ctbl wt (wi_history tbl ctbl wt ds ks s)), serase_wi_history. apply swf_serase.
Qed.

Theorem worker_init_preserves_shape_proof : forall tbl ctbl wt ds s k,
    serase (snd (worker_init tbl ctbl wt ds k s)) = serase s
    /\ swf tbl ctbl wt (snd (worker_init tbl ctbl wt ds k s)) = swf tbl ctbl wt s.
Proof.
  intros. split; [apply serase_worker_init|].
  exact (swf_wi_history tbl ctbl wt ds [k] s).
Qed.

Theorem worker_init_idempotent_in_history_proof : forall tbl ctbl wt ds,
    forallb (closed tbl) tbl = true ->
    forallb (closed ctbl) ctbl = true ->
    forallb (wiclosed tbl) wt = true ->
    dsclosed ds = true ->
    forall s, swf tbl ctbl wt s = true -> fwd_known ds s = true ->
    forall ks k,
      let h := wi_history tbl ctbl wt ds ks s in
      fst (worker_init tbl ctbl wt ds k h) = fst (worker_init tbl ctbl wt ds k s)
      /\ stack_units tbl ctbl wt (snd (worker_init tbl ctbl wt ds k h)) = stack_units tbl ctbl wt (snd (worker_init tbl ctbl wt ds k s))
      /\ stack_draws tbl ctbl wt (snd (worker_init tbl ctbl wt ds k h)) = stack_draws tbl ctbl wt (snd (worker_init tbl ctbl wt ds k s)).
Proof.
  intros tbl ctbl wt ds Hc Hcc Hwi Hds s Hwf Hk ks k h.
  destruct (worker_streams_function_of_worker_seed_proof tbl ctbl wt ds Hc Hcc Hwi Hds s h
              (eq_sym (serase_wi_history tbl ctbl wt ds ks s)) Hwf Hk k) as [E1 [E2 E3]].
  repeat split; symmetry; assumption.
Qed.

(* the LAST seed wins: whatever hooks ran before, after the run that started at k every generator is derived from
   the draws k .. of the process that ran it *)
Theorem worker_init_last_seed_wins_proof : forall tbl ctbl wt ds,
    forallb (closed tbl) tbl = true ->
    forallb (closed ctbl) ctbl = true ->
    forallb (wiclosed tbl) wt = true ->
    dsclosed ds = true ->
    forall s, swf tbl ctbl wt s = true -> fwd_known ds s = true ->
    forall ks k q,
      let h := wi_history tbl ctbl wt ds ks s in
      In q (stack_draws tbl ctbl wt (snd (worker_init tbl ctbl wt ds k h))) ->
      worker_derived k (fst (worker_init tbl ctbl wt ds k h)) q = true.
Proof.
  intros tbl ctbl wt ds Hc Hcc Hwi Hds s Hwf Hk ks k q h Hq.
  destruct (worker_init_idempotent_in_history_proof tbl ctbl wt ds Hc Hcc Hwi Hds s Hwf Hk ks k) as [E1 [_ E3]].
  fold h in E1, E3. rewrite E1. rewrite E3 in Hq.
  apply after_worker_init_no_copied_slot_proof; assumption.
Qed.

(* ---------------------------------------------------------------- *)
(* from "no open class" (vm_compute on the generated tables) to closedness *)
(* ---------------------------------------------------------------- *)
Lemma wiopen_nil_closed : forall tbl wt, wiopen_classes tbl wt = [] -> forallb (wiclosed tbl) wt = true.
Proof.
  unfold wiopen_classes. intros tbl wt H. apply filter_negb_nil_forallb.
  destruct (filter (fun d => negb (wiclosed tbl d)) wt); [reflexivity|discriminate].
Qed.
