(* C13: the statements of Property.v, derived from ProofsCB / ProofsSemi / ProofsW. *)
From Coq Require Import ZArith List Bool Arith Lia Permutation.
Import ListNotations.
From KD Require Import C12.Model C12.Spec C12.Proofs C13.Model C13.Spec C13.ProofsCB C13.ProofsSemi C13.ProofsW.

Definition cb_streams (c : cbcfg) (draw : oracle) : list (list nat) :=
  map (fun rank => stream_of (r_out (cb_run c draw rank))) (seq 0 (cb_W c)).
Definition w_streams (c : wcfg) (draw : oracle) : list (list nat) :=
  map (fun rank => stream_of (r_out (w_run c draw rank))) (seq 0 (w_W c)).

Lemma p_exact : forall c draw, perm_oracle draw -> cb_ctor_ok c = true ->
    exists G h, cb_global c draw = Ok (G, h) /\ exact_per_class (cb_classes c) (cb_C c) (cb_spc c) G.
Proof.
  intros c draw Hd Hc. destruct (cb_global_ok c draw Hd Hc) as (G & h & HG & _).
  exists G, h. split; auto. eapply cb_exact; eauto.
Qed.

Lemma p_reuse : forall c draw G h, perm_oracle draw -> cb_ctor_ok c = true -> cb_global c draw = Ok (G, h) ->
    reuse_even_spec (cb_classes c) (cb_C c) (cb_spc c) G.
Proof. exact cb_reuse. Qed.

Lemma p_ranks : forall c draw G h, perm_oracle draw -> cb_ctor_ok c = true -> 1 <= cb_W c ->
    cb_global c draw = Ok (G, h) ->
    let E := cb_C c * cb_spc c in let W := cb_W c in
    split_of true W (E / W) G (cb_streams c draw) /\
    interleave (cb_streams c draw) = firstn (W * (E / W)) G /\
    E - W * (E / W) < W /\
    (E mod W = 0 -> interleave (cb_streams c draw) = G /\
                    exact_per_class (cb_classes c) (cb_C c) (cb_spc c) (interleave (cb_streams c draw))).
Proof.
  intros c draw G h Hd Hc HW HG E W.
  destruct (cb_epoch_spec c draw Hd Hc HW) as (G' & h' & HG' & Hex & _ & _ & Hsp & Hpre & _ & _ & Hdiv).
  rewrite HG in HG'. inversion HG'; subst G' h'. fold (cb_streams c draw) in *.
  split; auto. split; auto. split.
  - destruct Hsp as (_ & _ & _ & H1 & H2). destruct Hex as [Hl _]. fold E W in H1, H2, Hl. lia.
  - intro Hm. rewrite (Hdiv Hm). auto.
Qed.

Lemma p_cb_valid : forall c draw G h, perm_oracle draw -> cb_ctor_ok c = true -> 1 <= cb_W c ->
    cb_global c draw = Ok (G, h) ->
    indices_valid (length (cb_classes c)) G /\
    forall rank, rank < cb_W c ->
      exists s, r_out (cb_run c draw rank) = Ok s /\ indices_valid (length (cb_classes c)) s /\
                length s = r_len (cb_run c draw rank) /\
                r_len (cb_run c draw rank) = cb_C c * cb_spc c / cb_W c.
Proof.
  intros c draw G h Hd Hc HW HG.
  destruct (cb_epoch_spec c draw Hd Hc HW) as (G' & h' & HG' & _ & _ & Hv & _ & _ & Hvs & _ & _).
  rewrite HG in HG'. inversion HG'; subst G' h'. split; auto.
  intros rank Hr. destruct (cb_split c draw Hd Hc HW) as (G2 & h2 & _ & _ & Hranks & _).
  destruct (Hranks rank Hr) as (s & Hs & Hl1 & Hl2 & _). exists s. split; auto. split; [|split; auto].
  rewrite Forall_forall in Hvs. apply Hvs. apply in_map_iff. exists rank. rewrite Hs. split; auto.
  apply in_seq. lia.
Qed.

Lemma p_alternation : forall c rank_seed epoch_seed draw rank, perm_oracle draw -> semi_ctor_ok c = true ->
    exists s, r_out (semi_run c rank_seed epoch_seed draw rank) = Ok s /\
              alternation (se_classes c) (se_L c) (se_U c) s.
Proof.
  intros c rs es draw rank Hd Hc. destruct (semi_epoch c rs es draw rank Hd Hc) as (s & H1 & _ & _ & H2 & _).
  exists s. auto.
Qed.

Lemma p_blocks : forall c rank_seed epoch_seed draw rank s, perm_oracle draw -> semi_ctor_ok c = true ->
    r_out (semi_run c rank_seed epoch_seed draw rank) = Ok s ->
    blocks_exhaust (labeled_pool (se_classes c)) (labeled_picks (se_classes c) s) /\
    blocks_exhaust (unlabeled_pool (se_classes c)) (unlabeled_picks (se_classes c) s).
Proof.
  intros c rs es draw rank s Hd Hc Hs.
  destruct (semi_epoch c rs es draw rank Hd Hc) as (s' & H1 & _ & _ & _ & _ & _ & H2 & H3 & _).
  rewrite Hs in H1. inversion H1; subst. auto.
Qed.

Lemma p_cycles : forall c rank_seed epoch_seed draw rank s, perm_oracle draw -> semi_ctor_ok c = true ->
    r_out (semi_run c rank_seed epoch_seed draw rank) = Ok s ->
    cycles_through (labeled_pool (se_classes c)) (labeled_picks (se_classes c) s) /\
    cycles_through (unlabeled_pool (se_classes c)) (unlabeled_picks (se_classes c) s).
Proof.
  intros c rs es draw rank s Hd Hc Hs.
  destruct (semi_epoch c rs es draw rank Hd Hc) as (s' & H1 & _ & _ & _ & H2 & H3 & _).
  rewrite Hs in H1. inversion H1; subst. auto.
Qed.

Lemma p_equal_length : forall c rs1 es1 rs2 es2 draw1 draw2 rank1 rank2,
    perm_oracle draw1 -> perm_oracle draw2 -> semi_ctor_ok c = true ->
    exists s1 s2, r_out (semi_run c rs1 es1 draw1 rank1) = Ok s1 /\ r_out (semi_run c rs2 es2 draw2 rank2) = Ok s2 /\
                  length s1 = length s2 /\ length s1 = r_len (semi_run c rs1 es1 draw1 rank1).
Proof.
  intros c rs1 es1 rs2 es2 draw1 draw2 rank1 rank2 H1 H2 Hc.
  destruct (semi_epoch c rs1 es1 draw1 rank1 H1 Hc) as (s1 & E1 & L1 & L1' & _).
  destruct (semi_epoch c rs2 es2 draw2 rank2 H2 Hc) as (s2 & E2 & L2 & L2' & _).
  exists s1, s2. repeat split; auto; congruence.
Qed.

Lemma p_length_modes : forall c rank_seed epoch_seed draw rank, perm_oracle draw -> semi_ctor_ok c = true ->
    exists m, mode_of (se_mode c) = Some m /\
      r_len (semi_run c rank_seed epoch_seed draw rank) =
      epoch_length m (length (labeled_pool (se_classes c))) (length (unlabeled_pool (se_classes c)))
                   (se_L c) (se_U c) / se_W c.
Proof.
  intros c rs es draw rank Hd Hc. destruct (semi_length_mode c Hc) as (m & Hm & Hl).
  exists m. split; auto.
  destruct (semi_epoch c rs es draw rank Hd Hc) as (s & _ & _ & H & _). rewrite H. exact Hl.
Qed.

Lemma p_semi_seed : forall c rank_seed epoch_seed draw rank, perm_oracle draw -> semi_ctor_ok c = true ->
    r_seeds (semi_run c rank_seed epoch_seed draw rank) =
    [Z.of_nat rank; se_epoch c; (se_seed c + rank_seed + epoch_seed)%Z].
Proof.
  intros c rs es draw rank Hd Hc.
  destruct (semi_epoch c rs es draw rank Hd Hc) as (s & _ & _ & _ & _ & _ & _ & _ & _ & H). exact H.
Qed.

Lemma p_w_norepeat : forall c draw E, multinomial_oracle (w_n c) draw -> 1 <= w_W c -> w_E c = Ok E ->
    NoDup (interleave (w_streams c draw)) /\ Forall (fun s => NoDup s) (w_streams c draw).
Proof.
  intros c draw E Hd HW HE.
  destruct (w_epoch_spec c draw E Hd HW HE) as (_ & _ & _ & _ & _ & H1 & H2 & _).
  split; auto. eapply Forall_impl; [|exact H2]. intros s (Ha & Hb & Hc'); auto.
Qed.

Lemma p_w_valid : forall c draw E, multinomial_oracle (w_n c) draw -> 1 <= w_W c -> w_E c = Ok E ->
    split_of true (w_W c) (E / w_W c) (draw (w_seed c + w_epoch c)%Z [] E) (w_streams c draw) /\
    Forall (fun s => indices_valid (w_n c) s /\ length s = E / w_W c) (w_streams c draw) /\
    (forall rank, r_len (w_run c draw rank) = E / w_W c) /\
    E = match w_size c with Some s => s | None => w_n c end.
Proof.
  intros c draw E Hd HW HE.
  destruct (w_epoch_spec c draw E Hd HW HE) as (_ & _ & _ & H0 & _ & _ & H2 & H3).
  split; auto. split; [|split; auto].
  - eapply Forall_impl; [|exact H2]. intros s (Ha & Hb & Hc'); auto.
  - unfold w_E in HE. destruct (w_size c) as [s|]; [destruct (w_n c <? s)|]; inversion HE; auto.
Qed.
