(* C03 — the binary64 instance of the percent operations of Model.v and the executable
   entry point `run` used by the correspondence check.  No proofs here; the theorems
   (Proofs.v / Property.v) do not depend on this file. *)
From Coq Require Import ZArith List Bool Floats Uint63.
Import ListNotations.
From KD Require Import C03.Model.
Open Scope Z_scope.

(* ---------------- binary64 percent -> index ---------------- *)
Definition fz (n : Z) : float := PrimFloat.of_uint63 (Uint63.of_Z n).

(* int(x) for a finite x *)
Definition ftrunc (f : float) : Z :=
  match Prim2SF f with
  | S754_finite s m e =>
      let v := if 0 <=? e then Zpos m * 2 ^ e else Zpos m / 2 ^ (- e) in if s then - v else v
  | _ => 0
  end.

(* np.ceil(x) for a finite x *)
Definition fceil (f : float) : Z :=
  match Prim2SF f with
  | S754_finite s m e =>
      if 0 <=? e then (if s then - (Zpos m * 2 ^ e) else Zpos m * 2 ^ e)
      else if s then - (Zpos m / 2 ^ (- e)) else (Zpos m + 2 ^ (- e) - 1) / 2 ^ (- e)
  | _ => 0
  end.

(* percent * len(dataset), then int() or np.ceil() *)
Definition fcut (ceil : bool) (p : float) (n : Z) : Z :=
  let x := PrimFloat.mul p (fz n) in if ceil then fceil x else ftrunc x.

Definition pct_ok (p : float) : bool := PrimFloat.leb 0%float p && PrimFloat.leb p 1%float.

Definition float_ops : pct_ops float :=
  {| p_zero := 0%float; p_one := 1%float; p_ok := pct_ok; p_leb := PrimFloat.leb; p_cut := fcut |}.

Definition percent_filter := percent_filter_g float_ops.
Definition subset_percent := subset_percent_g float_ops.
Definition classwise_percent := classwise_percent_g float_ops.

Definition wcase : Type := wcase_g float.
Definition run : list Z -> Z -> wcase -> option (list Z) := run_g float_ops.
