(* Property C04 — interleaved scheduler: main stream, batch cutting and stopping
   point are exact.  Theorems only; proofs live in Proofs.v / Corollaries.v. *)
From Coq Require Import ZArith List Bool.
Import ListNotations.
From KD Require Import C04.Model C04.Spec C04.Lists C04.Arith C04.Proofs C04.Corollaries C04.Batches C04.Example.
Open Scope Z_scope.

(* The model of _training_loop, started at any epoch boundary, IS the closed-form
   run: epoch after epoch, announce e, show the epoch's updates (batch, then due
   passes) up to and including the first one reaching the budget. *)
Theorem c04_model_is_spec : forall c mi, WF c mi -> forall n e,
  run c mi n (init_state e (upe c * e) (spe c * e)) = spec_run c mi e n.
Proof. exact model_eq_spec. Qed.
Print Assumptions c04_model_is_spec.

(* the batches of epoch e: the first samples_per_epoch indices of the main
   sampler's own iteration, cut by batch_size; only the last batch may be short;
   there are updates_per_epoch of them *)
Theorem c04_epoch_batches : forall c mi, WF c mi -> forall e,
  concat (epoch_batches c mi e) = firstn (Z.to_nat (spe c)) (mi e) /\
  shape (Z.to_nat (cB c)) (epoch_batches c mi e) /\
  Z.of_nat (length (epoch_batches c mi e)) = upe c.
Proof.
  intros c mi W e. split; [|split].
  - exact (epoch_batches_concat c mi W e).
  - exact (epoch_batches_shape c mi W e).
  - exact (epoch_batches_count c mi W e).
Qed.
Print Assumptions c04_epoch_batches.

(* what is dropped: nothing without drop_last, else the remainder modulo the
   dropping unit (drop_last_batch_size if given, else batch_size) *)
Theorem c04_samples_per_epoch : forall c mi, WF c mi ->
  if drop_last c
  then let unit := or_default (cD c) (cB c) in spe c mod unit = 0 /\ spe c <= cN c < spe c + unit
  else spe c = cN c.
Proof. exact spe_spec. Qed.
Print Assumptions c04_samples_per_epoch.

(* the main part of every update is exactly its batch with only the last index flagged full *)
Theorem c04_update_main_part : forall c e bs j,
  filter is_main (u_events (upd_at c e bs j)) = emit Main (nth j bs []).
Proof. exact update_main_part. Qed.
Print Assumptions c04_update_main_part.

(* the stop is exact: no shown update before the last reaches the budget; an
   epoch that stops the run ends with an update that does; otherwise the whole
   epoch is shown *)
Theorem c04_stop_exact : forall c mi e,
  let us := fst (take_until (hit c) (epoch_updates c mi e)) in
  Forall (fun u => hit c u = false) (removelast us) /\
  (epoch_hits c mi e = true -> exists u, us = removelast us ++ [u] /\ hit c u = true) /\
  (epoch_hits c mi e = false -> us = epoch_updates c mi e /\ Forall (fun u => hit c u = false) us).
Proof. exact stop_exact. Qed.
Print Assumptions c04_stop_exact.

(* it always ends: from every epoch boundary strictly before the budget the run
   terminates within the fuel the model computes from the remaining budget *)
Theorem c04_always_ends : forall c mi, WF c mi -> forall e, before_budget c e ->
  exists tr, run c mi (default_fuel c (start_state c e)) (start_state c e) = Some tr.
Proof. exact sampler_terminates. Qed.
Print Assumptions c04_always_ends.

(* always on a batch boundary: the batch sampler's trailing assertion cannot fire *)
Theorem c04_ends_on_batch_boundary : forall c mi, WF c mi -> forall n e tr,
  run c mi n (start_state c e) = Some tr -> snd (batches (render tr)) = true.
Proof. exact ends_on_batch_boundary. Qed.
Print Assumptions c04_ends_on_batch_boundary.

(* non-vacuity: a well-formed configuration exists and is before its budget *)
Example c04_premises_satisfiable : WF ex_cfg ex_iter /\ before_budget ex_cfg 0.
Proof. split; [exact ex_wf|]. unfold before_budget. cbn. reflexivity. Qed.
Example c04_example_run :
  option_map (fun l => length l) (run ex_cfg ex_iter 4 (start_state ex_cfg 0)) = Some 40%nat.
Proof. vm_compute. reflexivity. Qed.
