From KD Require Import C03.Model C03.Spec.
Lemma placeholder : True. Proof. exact I. Qed.
