(* Specification of the interleaved scheduler (properties C04, C05, C06) in
   closed form: which updates exist, what every update contains, which side
   passes follow it, where the run stops.  No implementation vocabulary: no
   running counters, only positions (epoch e, j-th batch of that epoch). *)
From Coq Require Import ZArith List Bool.
Import ListNotations.
From KD Require Import C04.Model.
Open Scope Z_scope.

(* cut a list into consecutive pieces of b elements, the last one possibly short *)
Fixpoint chunk_fuel (f : nat) (b : nat) (l : list Z) : list (list Z) :=
  match f with
  | O => []
  | S f' => match l with
            | [] => []
            | _ => firstn b l :: chunk_fuel f' b (skipn b l)
            end
  end.
Definition chunk (b : nat) (l : list Z) : list (list Z) := chunk_fuel (length l) b l.

Definition len (l : list Z) : Z := Z.of_nat (length l).

(* one batch as it appears in the stream: every index not-full except the last *)
Fixpoint emit {E : Type} (mk : bool -> Z -> E) (b : list Z) : list E :=
  match b with
  | [] => []
  | [i] => [mk true i]
  | i :: b' => mk false i :: emit mk b'
  end.

(* some multiple of n lies in (a, b] *)
Definition crossed (n a b : Z) : bool := a / n <? b / n.

Section Spec.
  Variable c : cfg.
  Variable main_iter : Z -> list Z.

  (* the batches of epoch e: the first samples_per_epoch indices of the main
     sampler's iteration, cut by batch_size *)
  Definition epoch_batches (e : Z) : list (list Z) :=
    chunk (Z.to_nat (cB c)) (firstn (Z.to_nat (spe c)) (main_iter e)).

  (* counters right after the (j+1)-th update of epoch e, in closed form;
     a run started at epoch e0 starts at update e0*upe and sample e0*spe *)
  Record counters := {
    k_epoch : Z; k_update : Z; k_sample : Z; k_prev_sample : Z; k_epoch_end : bool }.

  Definition counters_at (e : Z) (bs : list (list Z)) (j : nat) : counters :=
    let last := (S j =? length bs)%nat in
    {| k_epoch := if last then e + 1 else e;
       k_update := e * upe c + Z.of_nat j + 1;
       k_sample := e * spe c + len (concat (firstn (S j) bs));
       k_prev_sample := e * spe c + len (concat (firstn j bs));
       k_epoch_end := last |}.

  (* C05: a config is due after an update iff one of its intervals was reached
     or crossed by that update *)
  Definition due (sc : side_cfg) (k : counters) : bool :=
    (match ene sc with Some n => k_epoch_end k && (k_epoch k mod n =? 0) | None => false end)
    || (match enu sc with Some n => k_update k mod n =? 0 | None => false end)
    || (match ens sc with Some n => crossed n (k_prev_sample k) (k_sample k) | None => false end).

  (* index range of config ci starts after the main data source and all earlier configs *)
  Definition offset_of (ci : nat) : Z :=
    dsN c + fold_right Z.add 0 (map dslen (firstn ci (sides c))).

  (* one whole pass over config ci, the p-th iteration of its sampler (counted
     from 0): all indices of that iteration, shifted, batched by the config's
     (else the main) batch size, short final batch *)
  Definition side_events (ci : nat) (sc : side_cfg) (p : nat) : list event :=
    flat_map (emit (Side ci))
             (chunk (Z.to_nat (or_default (sbs sc) (cB c))) (map (Z.add (offset_of ci)) (sidx sc p))).

  (* pn = for every config, how often its sampler was iterated before this update *)
  Fixpoint passes_from (ci : nat) (l : list side_cfg) (pn : list nat) (k : counters) : list event :=
    match l, pn with
    | sc :: l', p :: pn' => (if due sc k then side_events ci sc p else []) ++ passes_from (S ci) l' pn' k
    | _, _ => []
    end.

  (* how many of the first j updates of epoch e made config sc due *)
  Definition due_count (sc : side_cfg) (e : Z) (bs : list (list Z)) (j : nat) : nat :=
    length (filter (fun j' => due sc (counters_at e bs j')) (seq 0 j)).

  (* pass numbers before the (j+1)-th update of epoch e, given those at its start:
     every earlier update at which a config was due consumed one iteration *)
  Fixpoint pn_at_from (l : list side_cfg) (pn : list nat) (e : Z) (bs : list (list Z)) (j : nat) : list nat :=
    match l, pn with
    | sc :: l', p :: pn' => (p + due_count sc e bs j)%nat :: pn_at_from l' pn' e bs j
    | _, _ => []
    end.
  Definition pn_at (pn : list nat) (e : Z) (bs : list (list Z)) (j : nat) : list nat :=
    pn_at_from (sides c) pn e bs j.

  (* the (j+1)-th update of epoch e: its counters and what the stream shows for it
     (the batch, then the passes of the configs that are due, in config order) *)
  Record upd := { u_k : counters; u_events : list event }.

  Definition upd_at (e : Z) (bs : list (list Z)) (pn : list nat) (j : nat) : upd :=
    let k := counters_at e bs j in
    {| u_k := k; u_events := emit Main (nth j bs []) ++ passes_from 0 (sides c) (pn_at pn e bs j) k |}.

  Definition epoch_updates (e : Z) (pn : list nat) : list upd :=
    let bs := epoch_batches e in map (upd_at e bs pn) (seq 0 (length bs)).

  (* pass numbers at the start of the next epoch *)
  Definition pn_next (e : Z) (pn : list nat) : list nat :=
    let bs := epoch_batches e in pn_at pn e bs (length bs).

  (* one of the given budgets is reached by the update with counters k *)
  Definition hit_k (k : counters) : bool := budget_reached c (k_epoch k) (k_update k) (k_sample k).
  Definition hit (u : upd) : bool := hit_k (u_k u).

  (* everything up to and including the first element satisfying p *)
  Fixpoint take_until {A : Type} (p : A -> bool) (l : list A) : list A * bool :=
    match l with
    | [] => ([], false)
    | x :: l' => if p x then ([x], true)
                 else let '(r, f) := take_until p l' in (x :: r, f)
    end.

  (* what epoch e shows: the announcement, then the start of the main sampler's
     iteration for this epoch, then its updates up to and including the first
     one at which the budget is reached; and whether that happened *)
  Definition epoch_events (e : Z) (pn : list nat) : list event :=
    SetEpoch e :: IterStart e :: flat_map u_events (fst (take_until hit (epoch_updates e pn))).
  Definition epoch_hits (e : Z) : bool :=
    let bs := epoch_batches e in existsb (fun j => hit_k (counters_at e bs j)) (seq 0 (length bs)).

  (* the run from the beginning of epoch e0, looking at most n epochs ahead:
     epoch after epoch until the budget is reached (None: not within n epochs) *)
  Fixpoint spec_run (e0 : Z) (pn : list nat) (n : nat) : option (list event) :=
    match n with
    | O => None
    | S n' =>
        if epoch_hits e0 then Some (epoch_events e0 pn)
        else match spec_run (e0 + 1) (pn_next e0 pn) n' with
             | Some rest => Some (epoch_events e0 pn ++ rest)
             | None => None
             end
    end.

  (* a zero budget: exactly one full pass over every config, in order *)
  Fixpoint spec_eval (ci : nat) (l : list side_cfg) (pn : list nat) : list event :=
    match l, pn with
    | sc :: l', p :: pn' => side_events ci sc p ++ spec_eval (S ci) l' pn'
    | _, _ => []
    end.

  (* which checkpoints the constructor must accept, and the epoch they denote *)
  Definition spec_start (a : start_arg) : start_result :=
    match a with
    | NoStart => Start 0 0 0
    | StartEpoch e => Start e (e * upe c) (e * spe c)
    | StartUpdate u =>
        if drop_last c && (u mod upe c =? 0) then Start (u / upe c) u (u / upe c * spe c) else NotImplemented
    | StartSample s =>
        if negb (s mod cB c =? 0) then AssertFail
        else if drop_last c && (s / cB c mod upe c =? 0)
             then Start (s / cB c / upe c) (s / cB c) (s / cB c / upe c * spe c) else NotImplemented
    end.

  Definition spec_iter (e0 : Z) (pn : list nat) (n : nat) : option (list event) :=
    if zero_budget c then Some (spec_eval 0 (sides c) pn) else spec_run e0 pn n.
End Spec.
