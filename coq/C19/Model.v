(* Implementation model of
     kappadata/caching/shared_dict_dataset.py (SharedDictDataset._cached_getitem, dispose)
     kappadata/caching/cached_dataset.py      (CachedDataset.__getitem__: transform after the cache; __len__)
   with /verif/fixes/C19_clear_race.patch ([fixed] = true) and /verif/fixes/C19_tensor_alias.patch
   ([copyfix] = true) applied.  [fixed] = false / [copyfix] = false are the readers of the code BEFORE
   the respective patch and are kept only to document what the patches repaired.
   No proofs here.

   OBJECTS.  Samples are mutable Python objects: the model has an object store ([heap]: address ->
   current content, objects are never freed) and everything that is passed around is an address.
   A sample can be modified IN PLACE - by the post-cache transform ([inplace] = true: the transform
   overwrites its argument and returns it, e.g. x.sub_(mean).div_(std)) or by whoever received it from
   cached[i] (command [CMut]).  How the Manager connection transports a sample decides who shares an
   object with whom:
     [byref] = false  by value (pickle): the manager process stores a copy, every lookup yields a new copy
     [byref] = true   by reference: torch tensors are sent as shared-memory handles - the stored object,
                      the object the storing process keeps and every object any later lookup (of any
                      process) yields are ONE object.
   The repaired code returns copy.deepcopy(sample) ([copyfix] = true).

   The shared dict is an association list index -> address (latest binding first).  Every operation on
   the Manager dict proxy (`in`, `[]`, `[]=`, `clear`) is one atomic step, and so is one access of the
   wrapped dataset (a load; it yields a fresh object).  A process (a DataLoader worker / any holder of a
   copy of the dataset object: all copies talk to the same Manager dict) runs a program of commands; a
   schedule is an arbitrary list of process ids, each occurrence lets that process perform its next
   atomic step (nothing happens if it has finished or does not exist).

   The wrapped dataset is [base : Z -> option Z]; [None] = the wrapped dataset raises (IndexError),
   which leaves `cached[i]` unchanged and caches nothing.  The post-cache transform may be stateful /
   random: its k-th call in process p computes [tf (draws p k)] of the content with an arbitrary
   recorded draw.  No transform = [inplace] with the identity (the sample itself is returned). *)
From Coq Require Import ZArith List Bool.
Import ListNotations.
Open Scope Z_scope.

Fixpoint set_nth {A} (n : nat) (a : A) (l : list A) : list A :=
  match l, n with
  | [], _ => []
  | _ :: r, O => a :: r
  | x :: r, S n' => x :: set_nth n' a r
  end.

(* ---------------------------------------------------------------- the object store *)
Definition heap := list Z.
Definition hget (a : nat) (h : heap) : Z := nth a h 0.
Definition hset (a : nat) (v : Z) (h : heap) : heap := set_nth a v h.           (* in-place write *)
Definition halloc (v : Z) (h : heap) : heap * nat := (h ++ [v], length h).      (* a new object *)
(* in-place modification of several objects: content += w *)
Definition hbump (w : Z) (l : list nat) (h : heap) : heap :=
  fold_left (fun h a => hset a (hget a h + w) h) l h.

Definition dict := list (Z * nat).       (* index -> the cached raw sample (an object held by the manager) *)

Fixpoint dget (i : Z) (d : dict) : option nat :=
  match d with [] => None | (k, a) :: d' => if i =? k then Some a else dget i d' end.
Definition dset (i : Z) (a : nat) (d : dict) : dict := (i, a) :: d.

Inductive cmd :=
| CGet (i : Z)       (* cached[i] *)
| CClear             (* cached.dispose()  (= shared_dict.clear()) *)
| CLen               (* len(cached) *)
| CMut (w : Z).      (* the consumer modifies, in place, what its last cached[i] returned (content += w) *)

(* where a process stands inside `cached[i]` *)
Inductive pcs :=
| PStart                 (* between commands *)
| PMiss (i : Z)          (* about to run `sample = self.dataset[idx]` *)
| PSet (i : Z) (a : nat) (* holds the loaded object a; about to run `self.shared_dict[idx] = sample` and return *)
| PHit (i : Z).          (* `idx not in self.shared_dict` was False: about to run `self.shared_dict[idx]` *)

Inductive res :=
| RVal (v : Z)           (* content of the returned (transformed) sample at the moment cached[i] returns *)
| RKeyError              (* KeyError out of cached[i] *)
| RBaseError.            (* the wrapped dataset's own exception out of cached[i] *)

(* observable events, in global order.  [ERet p i k r]: process p's cached[i] returned r; k = number of
   transform calls p made before this access *)
Inductive ev :=
| ELoad (p : nat) (i : Z)
| EClear (p : nat)
| ERet (p : nat) (i : Z) (k : nat) (r : res)
| ELen (p : nat) (n : Z)
| EMut (p : nat).

(* [last]: the objects reachable from what the process' last successful cached[i] returned (the consumer
   may write to all of them) *)
Record proc := { pc : pcs; todo : list cmd; nacc : nat; last : list nat }.
Record state := { hp : heap; sd : dict; procs : list proc; log : list ev }.

Definition is_start (c : pcs) : bool := match c with PStart => true | _ => false end.

Section Sem.
  Variable fixed : bool.             (* true = the KeyError fallback of the repaired code *)
  Variable copyfix : bool.           (* true = `return copy.deepcopy(sample)` of the repaired code *)
  Variable byref : bool.             (* the Manager connection transports the samples by reference (torch tensors) *)
  Variable inplace : bool.           (* the transform works in place *)
  Variable base : Z -> option Z.     (* the wrapped dataset *)
  Variable blen : Z.                 (* len(wrapped dataset) *)
  Variable tf : Z -> Z -> Z.         (* the post-cache transform: draw -> content -> content *)
  Variable draws : nat -> nat -> Z.  (* draw of the k-th transform call of process p *)

  (* one trip through the Manager connection (either direction) *)
  Definition transport (h : heap) (a : nat) : heap * nat := if byref then (h, a) else halloc (hget a h) h.
  (* `return copy.deepcopy(sample)` resp. `return sample` *)
  Definition ret_copy (h : heap) (a : nat) : heap * nat := if copyfix then halloc (hget a h) h else (h, a).
  (* `sample = self.transform(sample)`: (heap, result, objects reachable from the result) *)
  Definition apply_tf (h : heap) (d : Z) (a : nat) : heap * nat * list nat :=
    if inplace then (hset a (tf d (hget a h)) h, a, [a])
    else let '(h', a') := halloc (tf d (hget a h)) h in (h', a', [a'; a]).
  (* the tail of cached[i] once `sample` (object a) is in hand *)
  Definition deliver (p : nat) (i : Z) (k : nat) (h : heap) (a : nat) : heap * list nat * ev :=
    let '(h1, a1) := ret_copy h a in
    let '(h2, a2, reach) := apply_tf h1 (draws p k) a1 in
    (h2, reach, ERet p i k (RVal (hget a2 h2))).

  (* one atomic step of process p *)
  Definition pstep (p : nat) (h : heap) (d : dict) (pr : proc) : heap * dict * proc * list ev :=
    let k := nacc pr in
    let l := last pr in
    match pc pr, todo pr with
    | PStart, [] => (h, d, pr, [])
    | PStart, CClear :: r => (h, [], {| pc := PStart; todo := r; nacc := k; last := l |}, [EClear p])   (* shared_dict.clear() *)
    | PStart, CLen :: r => (h, d, {| pc := PStart; todo := r; nacc := k; last := l |}, [ELen p blen])   (* len(self.dataset) *)
    | PStart, CMut w :: r => (hbump w l h, d, {| pc := PStart; todo := r; nacc := k; last := l |}, [EMut p])
    | PStart, CGet i :: _ =>                                                             (* idx not in self.shared_dict *)
        match dget i d with
        | Some _ => (h, d, {| pc := PHit i; todo := todo pr; nacc := k; last := l |}, [])
        | None => (h, d, {| pc := PMiss i; todo := todo pr; nacc := k; last := l |}, [])
        end
    | PMiss i, r =>                                                                      (* sample = self.dataset[idx] *)
        match base i with
        | Some v => let '(h', a) := halloc v h in
                    (h', d, {| pc := PSet i a; todo := r; nacc := k; last := l |}, [ELoad p i])
        | None => (h, d, {| pc := PStart; todo := tl r; nacc := k; last := l |}, [ELoad p i; ERet p i k RBaseError])
        end
    | PSet i a, r =>                               (* self.shared_dict[idx] = sample; return transform(copy(sample)) *)
        let '(h1, ad) := transport h a in
        let '(h2, reach, e) := deliver p i k h1 a in
        (h2, dset i ad d, {| pc := PStart; todo := tl r; nacc := S k; last := reach |}, [e])
    | PHit i, r =>                                                                       (* sample = self.shared_dict[idx] *)
        match dget i d with
        | Some ad => let '(h1, a) := transport h ad in
                     let '(h2, reach, e) := deliver p i k h1 a in
                     (h2, d, {| pc := PStart; todo := tl r; nacc := S k; last := reach |}, [e])
        | None => if fixed
                  then (h, d, {| pc := PMiss i; todo := r; nacc := k; last := l |}, [])  (* except KeyError: load *)
                  else (h, d, {| pc := PStart; todo := tl r; nacc := k; last := l |}, [ERet p i k RKeyError])  (* BEFORE the fix *)
        end
    end.

  Definition step (s : state) (p : nat) : state :=
    match nth_error (procs s) p with
    | None => s
    | Some pr => let '(h', d', pr', evs) := pstep p (hp s) (sd s) pr in
                 {| hp := h'; sd := d'; procs := set_nth p pr' (procs s); log := log s ++ evs |}
    end.

  (* any schedule *)
  Definition run (sched : list nat) (s : state) : state := fold_left step sched s.

  Definition init (h0 : heap) (d0 : dict) (progs : list (list cmd)) : state :=
    {| hp := h0; sd := d0;
       procs := map (fun pg => {| pc := PStart; todo := pg; nacc := O; last := [] |}) progs; log := [] |}.

  (* Sequential histories: a list of (process, command); each command is handed to its process
     and that process alone is scheduled until the command has returned.  A command takes at
     most 4 atomic steps (membership test, failed lookup, load, store). *)
  Definition at_start (s : state) (p : nat) : bool :=
    match nth_error (procs s) p with Some pr => is_start (pc pr) | None => true end.

  Fixpoint finish (fuel : nat) (s : state) (p : nat) : state :=
    match fuel with
    | O => s
    | S f => if at_start s p then s else finish f (step s p) p
    end.

  Definition push (s : state) (p : nat) (c : cmd) : state :=
    match nth_error (procs s) p with
    | None => s
    | Some pr => {| hp := hp s; sd := sd s;
                    procs := set_nth p {| pc := pc pr; todo := todo pr ++ [c]; nacc := nacc pr; last := last pr |} (procs s);
                    log := log s |}
    end.

  Definition do_cmd (s : state) (pc : nat * cmd) : state :=
    finish 3 (step (push s (fst pc) (snd pc)) (fst pc)) (fst pc).

  Definition seq_exec (n : nat) (hist : list (nat * cmd)) : state :=
    fold_left do_cmd hist (init [] [] (repeat [] n)).
End Sem.

(* what the cache holds, by content *)
Definition dict_content (h : heap) (d : dict) : list (Z * Z) := map (fun kv => (fst kv, hget (snd kv) h)) d.
