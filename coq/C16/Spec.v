(* C16 — the property, stated on observable behaviour only:
   (1) coherent : the bulk label accessor, where it is offered, equals the list of per-sample labels;
   (2) in range : every produced label lies in [0, announced shape) or is the -1 "unlabeled" marker
       (only for wrappers that pass unlabeled samples through / create them);
   (3) encodings : smoothed / one-hot vectors are non-negative, sum to one and have the original
       class as (strict, when smoothing < 1) argmax;
   (4) all-gather order : position j = w*S + s of the output shows padded sample s*W + w.
   plus the contracts of the random draws and the domain of the property (as booleans, so the
   correspondence run can evaluate them on the recorded draws). *)
From Coq Require Import ZArith List Bool QArith.
Import ListNotations.
From KD Require Import C16.Model.
Open Scope Z_scope.

(* ---------- (1) coherence ---------- *)
Definition coherent (items : list Z) (bulk : option (list Z)) : Prop :=
  forall l, bulk = Some l -> l = items.

(* ---------- (2) range ---------- *)
Definition in_rangeb (hi y : Z) : bool := (0 <=? y) && (y <? hi).
Definition label_okb (unlabeled_allowed : bool) (shape y : Z) : bool :=
  in_rangeb shape y || (unlabeled_allowed && (y =? -1)).

(* wrappers that create or pass through the -1 marker *)
Definition allows_unlabeled (w : wspec) : bool :=
  match w with
  | WClassGroups _ | WSuperclass _ | WRandomClass _ _ => false
  | _ => true
  end.

(* ---------- contracts of the draws + domain of the property ---------- *)
Definition len_is {A} (n : nat) (l : list A) : bool := Nat.eqb (length l) n.

Fixpoint bools_eqb (a b : list bool) : bool :=
  match a, b with
  | [], [] => true
  | x :: a', y :: b' => Bool.eqb x y && bools_eqb a' b'
  | _, _ => false
  end.

Definition contractb (w : wspec) (C : Z) (labels : list Z) : bool :=
  let n := length labels in
  match w with
  | WClassGroups p =>
      (* domain: group size divides the class count; an unlabeled (-1) sample indexes the tables from the
         end (numpy semantics) and so receives a real class of the last group *)
      (0 <? cg_cpg p) && (0 <? C) && (C mod cg_cpg p =? 0) && forallb (label_okb true C) labels
      && (if cg_shuffle p then forallb (in_rangeb (ceil_div C (cg_cpg p))) (cg_draw p) else true)
  | WSuperclass p =>
      (0 <? sc_cps p) && (1 <=? sc_splits p) && (0 <? C) && forallb (label_okb true C) labels
      && (if sc_shuffle p then forallb (in_rangeb C) (sc_perm p) else true)
  | WSwap p =>
      len_is n (sw_apply p) && len_is n (sw_new p) && forallb (in_rangeb C) (sw_new p)
      && forallb (label_okb true C) labels
  | WOverwrite cl => len_is n cl && forallb (label_okb true C) cl
  | WAllgather W => (1 <=? W)%nat && (W <=? n)%nat && forallb (label_okb true C) labels
  | WPseudo (PLHard pl) => len_is n pl && forallb (label_okb true C) pl
  | WPseudo (PLSoft am) => len_is n am && forallb (in_rangeb C) am
  (* both accessors decide "confidence > threshold" exactly as the rule does (a float comparison on the
     same row and threshold has one outcome, whichever code path evaluates it) *)
  | WPseudo (PLThr am ref dec_item dec_bulk) =>
      len_is n am && len_is n ref && forallb (in_rangeb C) am
      && bools_eqb dec_item ref && bools_eqb dec_bulk ref
  | WPseudo (PLTopk topk choice) =>
      len_is n topk && len_is n choice
      && forallb (fun idx => let row := nth idx topk [] in
                             in_rangeb (Z.of_nat (length row)) (nth idx choice 0) && forallb (in_rangeb C) row)
                 (seq 0 n)
  | WRandomClass nc (RCRandom d) => len_is n d && forallb (in_rangeb nc) d
  | WRandomClass nc (RCRandperm p) => (0 <? nc) && len_is (Z.to_nat nc) p && forallb (in_rangeb nc) p
  | WRandomClass nc (RCGatherbug W) => (0 <? nc) && (1 <=? W)%nat && (W <=? n)%nat
  | WSemi k perm => forallb (label_okb true C) labels
  end.

(* ---------- (3) encodings ---------- *)
Fixpoint Qsum (v : list Q) : Q :=
  match v with
  | [] => 0%Q
  | x :: r => (x + Qsum r)%Q
  end.
Definition vec_nonneg (v : list Q) : Prop := Forall (fun q => (0 <= q)%Q) v.
Definition vec_sums_to_one (v : list Q) : Prop := (Qsum v == 1)%Q.
Definition is_argmax (y : nat) (v : list Q) : Prop :=
  forall j, (j < length v)%nat -> (nth j v 0 <= nth y v 0)%Q.
Definition is_strict_argmax (y : nat) (v : list Q) : Prop :=
  forall j, (j < length v)%nat -> j <> y -> (nth j v 0 < nth y v 0)%Q.

(* ---------- (4) all-gather order ---------- *)
(* sample shown at output position j when n samples are gathered from W ranks *)
Definition ag_spec (n W j : nat) : nat :=
  let S := ((n + pad_of n W) / W)%nat in
  let i := ((j mod S) * W + j / S)%nat in
  if (i <? n)%nat then i else (i - n)%nat.
