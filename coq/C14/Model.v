(* C14 — executable model of the parameter arithmetic of KappaData's geometric
   transforms (repaired tree: KDSemsegRandomCrop.get_params draws scalars).
   No proofs in this file.

   Conventions
   * every rng.integers(lo, hi) the code makes is one element (lo, hi, v) of the
     recorded draw list; the model recomputes (lo, hi) and answers [Mismatch] when
     the record does not fit (a normal-looking value is never produced);
   * float-valued intermediate results (candidate (w,h) of a resized crop / an
     erasing rectangle, the rounded side of the fallback crop, the two float32
     products of a spec-augment mask, the target size of a random resize) enter
     as oracle values; Spec.v states the contract they satisfy;
   * [Reject c] = the explicit library error the real code raises on that input
       1 ValueError "Required crop size ... is larger"      2 numpy: integers(lo, hi) with hi <= lo
       3 AssertionError                                      4 ZeroDivisionError
       5 torchvision ValueError (std evaluated to zero)                                   *)
From Coq Require Import ZArith List Bool QArith.
Import ListNotations.
Open Scope Z_scope.

Inductive res (A : Type) : Type :=
| Ok (a : A)
| Reject (code : nat)
| Mismatch.
Arguments Ok {A} a.
Arguments Reject {A} code.
Arguments Mismatch {A}.

Definition bind {A B} (r : res A) (f : A -> res B) : res B :=
  match r with Ok a => f a | Reject c => Reject c | Mismatch => Mismatch end.

Definition draw : Type := (Z * Z * Z)%type.            (* lo, hi, value *)

Definition next_int {A} (lo hi : Z) (ds : list draw) (k : Z -> list draw -> res A) : res A :=
  if hi <=? lo then Reject 2 else
  match ds with
  | (lo', hi', v) :: ds' => if (lo =? lo') && (hi =? hi') then k v ds' else Mismatch
  | [] => Mismatch
  end.

Definition done {A} (ds : list draw) (a : A) : res A :=
  match ds with [] => Ok a | _ => Mismatch end.

(* ------------------------------------------------------------------ *)
(* KDRandomCrop / KDTwoRandomCrop / KDSimpleRandomCrop                 *)
(* ------------------------------------------------------------------ *)
Definition pad4 : Type := (Z * Z * Z * Z)%type.         (* left, top, right, bottom *)
Definition rect : Type := (Z * Z * Z * Z)%type.         (* i (top), j (lft), h, w *)

Record crop_cfg := { c_th : Z; c_tw : Z; c_padding : option pad4; c_pin : bool }.

Definition pad_dims (hw : Z * Z) (p : pad4) : Z * Z :=
  let '(l, t, r, b) := p in (fst hw + t + b, snd hw + l + r).

(* _pad_image: the paddings applied, in order *)
Definition pad_steps (c : crop_cfg) (H W : Z) : list pad4 :=
  let s1 := match c_padding c with Some p => [p] | None => [] end in
  let hw1 := fold_left pad_dims s1 (H, W) in
  let H1 := fst hw1 in let W1 := snd hw1 in
  let s2 := if c_pin c && (W1 <? c_tw c) then [(c_tw c - W1, 0, c_tw c - W1, 0)] else [] in
  let s3 := if c_pin c && (H1 <? c_th c) then [(0, c_th c - H1, 0, c_th c - H1)] else [] in
  s1 ++ s2 ++ s3.

Definition padded_dims (c : crop_cfg) (H W : Z) : Z * Z :=
  fold_left pad_dims (pad_steps c H W) (H, W).

(* get_params on the padded image (h, w) *)
Definition get_params (th tw h w : Z) (ds : list draw) : res (rect * list draw) :=
  if (h + 1 <? th) || (w + 1 <? tw) then Reject 1 else
  if (w =? tw) && (h =? th) then Ok ((0, 0, h, w), ds) else
  next_int 0 (h - th + 1) ds (fun i ds =>
  next_int 0 (w - tw + 1) ds (fun j ds => Ok ((i, j, th, tw), ds))).

(* result: padded height, padded width, crop rectangle *)
Definition random_crop (c : crop_cfg) (H W : Z) (ds : list draw) : res (Z * Z * rect) :=
  let '(Hp, Wp) := padded_dims c H W in
  bind (get_params (c_th c) (c_tw c) Hp Wp ds) (fun '(p, ds) => done ds (Hp, Wp, p)).

(* torchvision Resize(size) output dims: a pair is taken as is, an int sets the shorter side *)
Definition resize_dims (size : Z + Z * Z) (H W : Z) : Z * Z :=
  match size with
  | inr (a, b) => (a, b)
  | inl s => if W <=? H then (s * H / W, s) else (s, s * W / H)
  end.

Definition simple_random_crop (size : Z + Z * Z) (c : crop_cfg) (H W : Z) (ds : list draw)
  : res (Z * Z * (Z * Z * rect)) :=
  let '(H1, W1) := resize_dims size H W in
  bind (random_crop c H1 W1 ds) (fun r => Ok (H1, W1, r)).

(* bounding_box_utils.intersection_area_ijkl *)
Definition inter_ijkl (i0 j0 k0 l0 i1 j1 k1 l1 : Z) : Z :=
  Z.max 0 (Z.min k0 k1 - Z.max i0 i1) * Z.max 0 (Z.min l0 l1 - Z.max j0 j1).
Definition inter_ijhw (i0 j0 h0 w0 i1 j1 h1 w1 : Z) : Z :=
  Z.max 0 (Z.min (i0 + h0) (i1 + h1) - Z.max i0 i1) * Z.max 0 (Z.min (j0 + w0) (j1 + w1) - Z.max j0 j1).

Definition qz : Type := (Z * Z)%type.                   (* numerator, denominator > 0 *)
Definition qz_le (a b : qz) : bool := fst a * snd b <=? fst b * snd a.
Definition qz_lt (a b : qz) : bool := fst a * snd b <? fst b * snd a.

(* overlap of two rectangles = intersection / union as an exact fraction *)
Definition overlap_parts (p0 p1 : rect) : Z * Z :=
  let '(i0, j0, h0, w0) := p0 in let '(i1, j1, h1, w1) := p1 in
  let inter := inter_ijkl i0 j0 (i0 + h0) (j0 + w0) i1 j1 (i1 + h1) (j1 + w1) in
  (inter, h0 * w0 + h1 * w1 - inter).

Record two_out := { t_p0 : rect; t_p1 : rect; t_oot : bool; t_inter : Z; t_union : Z }.

(* the while-True loop of KDTwoRandomCrop.__call__; cnt = `tries` so far *)
Fixpoint two_loop (fuel : nat) (cnt tries : Z) (omin omax : qz) (th tw h w : Z) (p0 : rect) (ds : list draw)
  : res (two_out * list draw) :=
  match fuel with
  | O => Mismatch
  | S f =>
      bind (get_params th tw h w ds) (fun '(p1, ds) =>
        let '(inter, union) := overlap_parts p0 p1 in
        if union =? 0 then Reject 4 else
        if qz_le omin (inter, union) && qz_le (inter, union) omax
        then Ok ({| t_p0 := p0; t_p1 := p1; t_oot := false; t_inter := inter; t_union := union |}, ds)
        else if cnt + 1 >=? tries
        then Ok ({| t_p0 := p0; t_p1 := p1; t_oot := true; t_inter := inter; t_union := union |}, ds)
        else two_loop f (cnt + 1) tries omin omax th tw h w p0 ds)
  end.

Definition two_random_crop (c : crop_cfg) (tries : Z) (omin omax : qz) (H W : Z) (ds : list draw)
  : res (Z * Z * two_out) :=
  let '(Hp, Wp) := padded_dims c H W in
  bind (get_params (c_th c) (c_tw c) Hp Wp ds) (fun '(p0, ds) =>
  bind (two_loop (S (Z.to_nat tries)) 0 tries omin omax (c_th c) (c_tw c) Hp Wp p0 ds) (fun '(o, ds) =>
  done ds (Hp, Wp, o))).

(* ------------------------------------------------------------------ *)
(* KDRandomResizedCrop                                                  *)
(* ------------------------------------------------------------------ *)
Inductive fb_branch := FbLo | FbHi | FbWhole.

(* the ten attempts; cands = the (w, h) computed from the two uniform draws of each attempt made *)
Fixpoint rrc_attempts (fuel : nat) (H W : Z) (cands : list (Z * Z)) : res (option (Z * Z)) :=
  match fuel with
  | O => match cands with [] => Ok None | _ => Mismatch end
  | S f =>
      match cands with
      | [] => Mismatch
      | (w, h) :: cs =>
          if (0 <? w) && (w <=? W) && (0 <? h) && (h <=? H)
          then match cs with [] => Ok (Some (w, h)) | _ => Mismatch end
          else rrc_attempts f H W cs
      end
  end.

(* fallback to central crop; fb = branch the float comparison took, r = int(round(.)) of that branch *)
Definition rrc_fallback (H W : Z) (fb : fb_branch) (r : Z) : rect :=
  let '(w, h) := match fb with FbLo => (W, r) | FbHi => (r, H) | FbWhole => (W, H) end in
  ((H - h) / 2, (W - w) / 2, h, w).

Definition rrc (H W : Z) (cands : list (Z * Z)) (ds : list draw) (fb : fb_branch) (r : Z) : res rect :=
  bind (rrc_attempts 10 H W cands) (fun o =>
    match o with
    | Some (w, h) =>
        next_int 0 (H - h + 1) ds (fun i ds =>
        next_int 0 (W - w + 1) ds (fun j ds => done ds (i, j, h, w)))
    | None => done ds (rrc_fallback H W fb r)
    end).

(* ------------------------------------------------------------------ *)
(* KDRandomErasing                                                      *)
(* ------------------------------------------------------------------ *)
(* one rectangle: up to [fuel] attempts, candidates are (h, w) *)
Fixpoint erase_rect (fuel : nat) (H W : Z) (cands : list (Z * Z)) (ds : list draw)
  : res (option rect * list (Z * Z) * list draw) :=
  match fuel with
  | O => Ok (None, cands, ds)
  | S f =>
      match cands with
      | [] => Mismatch
      | (h, w) :: cs =>
          if (w <? W) && (h <? H)
          then next_int 0 (H - h + 1) ds (fun top ds =>
               next_int 0 (W - w + 1) ds (fun lft ds => Ok (Some (top, lft, h, w), cs, ds)))
          else erase_rect f H W cs ds
      end
  end.

Fixpoint erase_rects (n : nat) (H W : Z) (cands : list (Z * Z)) (ds : list draw) : res (list rect) :=
  match n with
  | O => match cands with [] => done ds [] | _ => Mismatch end
  | S m =>
      bind (erase_rect 10 H W cands ds) (fun '(o, cs, ds) =>
      bind (erase_rects m H W cs ds) (fun l => Ok (match o with Some r => r :: l | None => l end)))
  end.

(* apply = outcome of rng.random() < p *)
Definition erasing (apply : bool) (minc maxc H W : Z) (cands : list (Z * Z)) (ds : list draw) : res (list rect) :=
  if negb apply then match cands with [] => done ds [] | _ => Mismatch end else
  let k := fun n ds => if n =? 0 then Reject 4 else erase_rects (Z.to_nat n) H W cands ds in
  if minc =? maxc then k minc ds else next_int minc maxc ds k.

(* ------------------------------------------------------------------ *)
(* KDSpecAugment._mask_along_axis                                       *)
(* ------------------------------------------------------------------ *)
(* tensor.long() truncates toward zero *)
Definition q_trunc (q : Q) : Z := Z.quot (Qnum q) (Zpos (Qden q)).

(* value = float32(u1 * P), minv = float32(u2 * float32(size - value)): oracle values, given as the exact
   rationals the float32 results denote *)
Definition mask_axis (P : Z) (value minv : Q) : res (option (Z * Z)) :=
  if P <? 1 then Ok None else
  let s := q_trunc minv in
  let e := s + q_trunc value in
  if e - s <? P then Ok (Some (s, e)) else Reject 3.

Definition masked (size : Z) (m : option (Z * Z)) (k : Z) : bool :=
  match m with
  | Some (s, e) => (0 <=? k) && (k <? size) && (s <=? k) && (k <? e)
  | None => false
  end.

Definition spec_augment (tm fm : option Z) (vals : list (Q * Q)) : res (option (Z * Z) * option (Z * Z)) :=
  let one := fun (pm : option Z) (vals : list (Q * Q)) =>
    match pm with
    | None => Ok (None, vals)
    | Some P => if P <? 1 then Ok (None, vals) else
                match vals with
                | (v, m) :: vs => bind (mask_axis P v m) (fun o => Ok (o, vs))
                | [] => Mismatch
                end
    end in
  bind (one tm vals) (fun '(a, vals) =>
  bind (one fm vals) (fun '(b, vals) =>
  match vals with [] => Ok (a, b) | _ => Mismatch end)).

(* ------------------------------------------------------------------ *)
(* semseg transforms and SemsegTransformWrapper.getitem_xsemseg        *)
(* ------------------------------------------------------------------ *)
(* ---- nearest-neighbour resize as an index map -------------------------------------------------
   Output index i of an axis resized from n_in to n_out entries shows source index
       torch  (tensor inputs, InterpolationMode.NEAREST):  floor(i * n_in / n_out)
       PIL    (PIL inputs,    Image.NEAREST):               floor((i + 1/2) * n_in / n_out)
   NOMINALLY.  Both libraries compute the scale in floating point (torch: float32 scale, PIL: a running double sum),
   and where the nominal quotient is an exact integer (a "tie": the sampling point sits on a pixel border) they
   may return the pixel below.  Measured against torch 2.x / Pillow 12 for all n_in, n_out in 1..70 and some up to
   500: the only deviation is -1 at ties (37 of ~5600 size pairs for torch, 924 for PIL), never elsewhere, and the
   maps of float / int64 / uint8 tensors (resp. modes F / I / L) coincide.
   The model therefore takes the index map of a resize as a recorded oracle value (one list per axis, measured by
   the harness on an id ramp with the very call the code made) and accepts it only if it satisfies nn_okb. *)
Inductive nn_kind := NTorch | NPil.

Definition nn_nominal (k : nn_kind) (n_in n_out i : Z) : Z :=
  match k with
  | NTorch => i * n_in / n_out
  | NPil => (2 * i + 1) * n_in / (2 * n_out)
  end.
Definition nn_tie (k : nn_kind) (n_in n_out i : Z) : bool :=
  match k with
  | NTorch => (i * n_in) mod n_out =? 0
  | NPil => ((2 * i + 1) * n_in) mod (2 * n_out) =? 0
  end.

(* entries i, i+1, ... of a recorded map *)
Fixpoint nn_entries_okb (k : nn_kind) (n_in n_out i : Z) (m : list Z) : bool :=
  match m with
  | [] => true
  | v :: m' =>
      let nom := nn_nominal k n_in n_out i in
      (0 <=? v) && ((v =? nom) || ((v =? nom - 1) && nn_tie k n_in n_out i)) && nn_entries_okb k n_in n_out (i + 1) m'
  end.
Definition nn_okb (k : nn_kind) (n_in n_out : Z) (m : list Z) : bool :=
  (Z.of_nat (length m) =? n_out) && nn_entries_okb k n_in n_out 0 m.

Definition nn_at (m : list Z) (i : Z) : Z := if i <? 0 then -1 else nth (Z.to_nat i) m (-1).

Inductive sop :=
| SPad (th tw : Z)                       (* KDSemsegPad(size) *)
| SRandResize (nh nw : Z) (k : nn_kind) (my mx : list Z)
                                         (* KDSemsegRandomResize: the rounded target size and the nearest index maps
                                            of the two axes are oracle values *)
| SFlip (applied : bool)                 (* KDSemsegRandomHorizontalFlip: outcome of rng.random() < p *)
| SCrop (th tw : Z) (redraws : nat)      (* KDSemsegRandomCrop; redraws made by the category-ratio loop *)
| SResize (nh nw : Z) (k : nn_kind) (my mx : list Z)   (* KDSemsegResize(size); index maps as above *)
| SOther.                                (* any non-semseg transform: applied to x only, geometry-preserving *)

Inductive geom :=
| GPad (p : pad4)
| GCrop (r : rect)
| GResize (nh nw : Z) (my mx : list Z)
| GFlip
| GId.

(* an image seen as an index map: output pixel (y, x) shows source pixel gsrc y x, None = fill value *)
Record gimg := { gh : Z; gw : Z; gsrc : Z -> Z -> option (Z * Z) }.

Definition gimg_id (H W : Z) : gimg := {| gh := H; gw := W; gsrc := fun y x => Some (y, x) |}.

Definition inside (H W y x : Z) : bool := (0 <=? y) && (y <? H) && (0 <=? x) && (x <? W).

(* torchvision.transforms.functional pad / crop / hflip / resize (nearest, recorded index maps) as index maps.
   The mask is always resized with NEAREST.  The image is resized with the transform's `interpolation`; when that is
   not nearest its gsrc under GResize names the source pixel the MASK shows at that output pixel (what the image
   itself samples around is stated by nearest_vs_bilinear_grid_* in Property.v). *)
Definition apply_geom (g : geom) (im : gimg) : gimg :=
  match g with
  | GPad (l, t, r, b) =>
      {| gh := gh im + t + b; gw := gw im + l + r;
         gsrc := fun y x => if inside (gh im) (gw im) (y - t) (x - l) then gsrc im (y - t) (x - l) else None |}
  | GCrop (top, lft, h, w) =>
      {| gh := h; gw := w;
         gsrc := fun y x => if inside (gh im) (gw im) (top + y) (lft + x) then gsrc im (top + y) (lft + x) else None |}
  | GResize nh nw my mx =>
      {| gh := nh; gw := nw; gsrc := fun y x => gsrc im (nn_at my y) (nn_at mx x) |}
  | GFlip => {| gh := gh im; gw := gw im; gsrc := fun y x => gsrc im y (gw im - 1 - x) |}
  | GId => im
  end.

Definition semseg_pad_params (th tw H W : Z) : pad4 :=
  let pad_h := Z.max 0 (th - H) in
  let pad_w := Z.max 0 (tw - W) in
  let pad_top := pad_h / 2 in
  let pad_bot := if pad_h mod 2 =? 1 then pad_top + 1 else pad_top in
  let pad_left := pad_w / 2 in
  let pad_right := if pad_w mod 2 =? 1 then pad_left + 1 else pad_left in
  (pad_left, pad_top, pad_right, pad_bot).

Definition semseg_crop_params (th tw H W : Z) (ds : list draw) : res (rect * list draw) :=
  next_int 0 (Z.max 0 (H - th) + 1) ds (fun top ds =>
  next_int 0 (Z.max 0 (W - tw) + 1) ds (fun lft ds => Ok ((top, lft, Z.min H th, Z.min W tw), ds))).

Fixpoint semseg_crop_loop (n : nat) (th tw H W : Z) (p : rect) (ds : list draw) : res (rect * list draw) :=
  match n with
  | O => Ok (p, ds)
  | S m => bind (semseg_crop_params th tw H W ds) (fun '(p', ds) => semseg_crop_loop m th tw H W p' ds)
  end.

(* parameters are computed from the image x (its current dims) only *)
Definition semseg_step (o : sop) (H W : Z) (ds : list draw) : res (geom * list draw) :=
  match o with
  | SPad th tw => Ok (GPad (semseg_pad_params th tw H W), ds)
  | SRandResize nh nw k my mx | SResize nh nw k my mx =>
      if nn_okb k H nh my && nn_okb k W nw mx then Ok (GResize nh nw my mx, ds) else Mismatch
  | SFlip b => Ok (if b then GFlip else GId, ds)
  | SCrop th tw n =>
      if (10 <? Z.of_nat n) then Mismatch else
      bind (semseg_crop_params th tw H W ds) (fun '(p, ds) =>
      bind (semseg_crop_loop n th tw H W p ds) (fun '(p, ds) => Ok (GCrop p, ds)))
  | SOther => Ok (GId, ds)
  end.

(* the wrapper: every transform gets (x, semseg) and the same parameters are applied to both *)
Fixpoint semseg_run (ops : list sop) (x seg : gimg) (ds : list draw) : res (list geom * gimg * gimg) :=
  match ops with
  | [] => done ds ([], x, seg)
  | o :: ops' =>
      bind (semseg_step o (gh x) (gw x) ds) (fun '(g, ds) =>
      bind (semseg_run ops' (apply_geom g x) (apply_geom g seg) ds) (fun '(gs, x', seg') =>
      Ok (g :: gs, x', seg')))
  end.

(* KDSemsegOverlappedMultiCrop (overlap 0.5): the crop windows *)
Definition multicrop_windows (ch cw H W : Z) : res (list rect) :=
  if negb ((ch mod 2 =? 0) && (cw mod 2 =? 0)) then Reject 3 else      (* __init__: crop_size * 0.5 is an integer *)
  if ch =? 0 then Reject 4 else                                        (* height % crop_height *)
  if negb (H mod ch =? 0) then Reject 3 else
  if cw =? 0 then Reject 4 else
  if negb (W mod cw =? 0) then Reject 3 else
  let oh := ch / 2 in let ow := cw / 2 in
  let rows := 1 + (H - ch) / oh in
  let cols := 1 + (W - cw) / ow in
  Ok (flat_map (fun i => map (fun j => (Z.of_nat i * oh, Z.of_nat j * ow, ch, cw)) (seq 0 (Z.to_nat cols)))
               (seq 0 (Z.to_nat rows))).

(* ------------------------------------------------------------------ *)
(* patchify / unpatchify / patch shuffle as index maps                  *)
(* ------------------------------------------------------------------ *)
Section Tensors.
  Variable A : Type.
  Definition t3 : Type := Z -> Z -> Z -> A.                 (* c, y, x *)
  Definition t4 : Type := Z -> Z -> Z -> Z -> A.            (* c, l, p, q *)
  Definition t5 : Type := Z -> Z -> Z -> Z -> Z -> A.       (* c, a, b, p, q *)

  (* einops "c (lh ph) (lw pw) -> c (lh lw) ph pw" *)
  Definition patchify_image (ph pw lw : Z) (t : t3) : t4 :=
    fun c l p q => t c (l / lw * ph + p) (l mod lw * pw + q).
  (* einops "c (lh lw) ph pw -> c (lh ph) (lw pw)" *)
  Definition unpatchify_image (ph pw lw : Z) (u : t4) : t3 :=
    fun c y x => u c (y / ph * lw + x / pw) (y mod ph) (x mod pw).
  (* einops "c (sh ph) (sw pw) -> c sh sw ph pw" and back *)
  Definition patchify (ph pw : Z) (t : t3) : t5 :=
    fun c a b p q => t c (a * ph + p) (b * pw + q).
  Definition unpatchify (ph pw : Z) (u : t5) : t3 :=
    fun c y x => u c (y / ph) (x / pw) (y mod ph) (x mod pw).

  (* x[:, permutation] *)
  Definition shuffle (perm : list Z) (u : t4) : t4 :=
    fun c l p q => u c (nth (Z.to_nat l) perm (-1)) p q.
End Tensors.
Arguments patchify_image {A}. Arguments unpatchify_image {A}.
Arguments patchify {A}. Arguments unpatchify {A}. Arguments shuffle {A}.

(* PatchwiseTransform.__call__: Patchify -> "c sh sw ph pw -> c (sh sw) ph pw" -> transform(patches[:, i]) for
   i = 0 .. sh*sw-1 -> stack(dim=1) -> "c (sh sw) ph pw -> c sh sw ph pw" -> Unpatchify.
   f i = what the wrapped transform does to the i-th patch it is called on (a c x ph x pw tensor) *)
Section Patchwise.
  Variable A : Type.
  Definition p3 : Type := Z -> Z -> Z -> A.                 (* one patch: c, p, q *)
  Definition merge_seq (sw : Z) (u : t5 A) : t4 A := fun c l p q => u c (l / sw) (l mod sw) p q.
  Definition split_seq (sw : Z) (u : t4 A) : t5 A := fun c a b p q => u c (a * sw + b) p q.
  Definition map_patches (f : Z -> p3 -> p3) (u : t4 A) : t4 A :=
    fun c l p q => f l (fun c' p' q' => u c' l p' q') c p q.
  Definition patchwise (ph pw sw : Z) (f : Z -> p3 -> p3) (t : t3 A) : t3 A :=
    unpatchify ph pw (split_seq sw (map_patches f (merge_seq sw (patchify ph pw t)))).
End Patchwise.
Arguments merge_seq {A}. Arguments split_seq {A}. Arguments map_patches {A}. Arguments patchwise {A}.

(* PatchifyImage / Patchify: the divisibility assertion and the recorded lh, lw *)
Definition patchify_params (ph pw H W : Z) : res (Z * Z) :=
  if (H mod ph =? 0) && (W mod pw =? 0) then Ok (H / ph, W / pw) else Reject 3.

(* position of j in perm = numpy.argsort(perm)[j] for a permutation *)
Fixpoint index_of (j : Z) (perm : list Z) : Z :=
  match perm with
  | [] => 0
  | x :: r => if x =? j then 0 else 1 + index_of j r
  end.
Definition argsort (perm : list Z) : list Z :=
  map (fun j => index_of (Z.of_nat j) perm) (seq 0 (length perm)).

(* ------------------------------------------------------------------ *)
(* norm / denorm over Q                                                 *)
(* ------------------------------------------------------------------ *)
Open Scope Q_scope.
Definition tv_normalize (m s x : Q) : Q := (x - m) / s.     (* torchvision normalize, one channel *)
Definition kd_norm (m s x : Q) : Q := tv_normalize m s x.
Definition kd_denorm (m s x : Q) : Q := tv_normalize (- m) 1 (tv_normalize 0 (1 / s) x).
Definition range_norm (x : Q) : Q := tv_normalize (1 # 2) (1 # 2) x.
Definition range_denorm (x : Q) : Q := tv_normalize (- (1 # 2)) 1 (tv_normalize 0 2 x).
Close Scope Q_scope.
