(* C02 — executable comparison of what the real stack returned with the model
   (code 1 = differs) and with the spec (code >= 2 = spec false on the output). *)
From Coq Require Import ZArith List Bool.
Import ListNotations.
From KD Require Import C02.Model C02.Spec.
Open Scope Z_scope.

Definition sample_eqb (a b : sample) : bool := (fst a =? fst b) && (snd a =? snd b).

Fixpoint list_eqb {A} (eq : A -> A -> bool) (a b : list A) : bool :=
  match a, b with
  | [], [] => true
  | x :: a', y :: b' => eq x y && list_eqb eq a' b'
  | _, _ => false
  end.

Definition opt_eqb {A} (eq : A -> A -> bool) (a b : option A) : bool :=
  match a, b with
  | Some x, Some y => eq x y
  | None, None => true
  | _, _ => false
  end.

(* the kind of container is compared only as "list or not" *)
Definition gres_eqb (a b : gres) : bool :=
  match a, b with
  | GMissing, GMissing => true
  | GErr, GErr => true
  | GOk i l, GOk j m => Bool.eqb i j && list_eqb sample_eqb l m
  | _, _ => false
  end.

Definition gres_is (a : gres) (l : list sample) : bool :=
  match a with GOk _ m => list_eqb sample_eqb l m | _ => false end.

Record obs := {
  o_ctor : bool;                        (* construction succeeded *)
  o_len : option Z;                     (* len(stack), None = raised *)
  o_items : list (option sample);       (* stack.getitem_x(k) for every queried k *)
  o_hasall : bool;                      (* hasattr(stack, "getall_x") *)
  o_getall : gres;                      (* stack.getall_x() *)
  o_util : gres;                        (* utils.getall(stack, "x") *)
  o_root : Z;                           (* stack.root_dataset.id *)
  o_wrappers : list Z;                  (* all_wrapper_types *)
  o_oftype : list (Z * list nat);       (* get_wrappers_of_type(T) as positions in all_wrappers *)
  o_hastype : list (Z * bool);          (* has_wrapper_type(T) *)
  o_dispose : list Z                    (* roots disposed by stack.dispose(), in order *)
}.

Definition case_t : Type := (stack * list Z * obs)%type.

Definition model_agrees (s : stack) (ks : list Z) (o : obs) : bool :=
  opt_eqb Z.eqb (slen s) (o_len o)
  && list_eqb (opt_eqb sample_eqb) (map (resolve s) ks) (o_items o)
  && Bool.eqb (has_getall s) (o_hasall o)
  && gres_eqb (getall s) (o_getall o)
  && gres_eqb (util_getall s) (o_util o)
  && (root s =? o_root o)
  && list_eqb Z.eqb (wrappers s) (o_wrappers o)
  && forallb (fun '(t, ps) => list_eqb Nat.eqb (wrappers_of_type t s) ps) (o_oftype o)
  && forallb (fun '(t, b) => Bool.eqb (has_wrapper_type t s) b) (o_hastype o)
  && list_eqb Z.eqb (dispose s) (o_dispose o).

Definition spec_holds (s : stack) (ks : list Z) (o : obs) : bool :=
  let d := den_of s in
  (* item k = item map(k) *)
  forallb (fun '(k, it) => if in_dom d k then opt_eqb sample_eqb (at_ d k) it else true) (combine ks (o_items o))
  (* len = size of the map *)
  && (if is_fin d then opt_eqb Z.eqb (Some (zlen (map_of s))) (o_len o) else true)
  (* bulk accessor = the map (where getall is offered and no balanced concat is below) *)
  && (if o_hasall o && no_balanced s && lists_ok s then gres_is (o_getall o) (map_of s) else true)
  && (if is_fin d && (negb (o_hasall o) || (no_balanced s && lists_ok s)) then gres_is (o_util o) (map_of s) else true)
  (* every root below is disposed *)
  && list_eqb Z.eqb (roots s) (o_dispose o)
  (* linear chains resolve to their root and list their layers *)
  && (let '(ls, b) := unbuild s in
      match b with
      | Root id _ _ =>
          (o_root o =? id) && list_eqb Z.eqb (map ltag ls) (o_wrappers o)
          && forallb (fun '(t, ps) => list_eqb Nat.eqb (positions t 0 (map ltag ls)) ps) (o_oftype o)
          && forallb (fun '(t, b) => Bool.eqb (existsb (Z.eqb t) (map ltag ls)) b) (o_hastype o)
      | _ => true
      end).

Definition check (c : case_t) : nat :=
  let '(s, ks, o) := c in
  if negb (Bool.eqb (ctor_ok s) (o_ctor o)) then 1%nat
  else if negb (o_ctor o) then 0%nat
  else if valid s && negb (spec_holds s ks o) then 2%nat
  else if negb (model_agrees s ks o) then 1%nat
  else 0%nat.
