"""Live side of the generator-plumbing checks (C07, C08, C09): spy generators, the global-RNG tripwire,
extraction of the live object tree, the registry of constructor arguments, builders for transform trees,
canonical hashing of outputs and contexts, rendering of trees into Coq."""
import hashlib
import random as pyrandom

from .common import C, Nat, Opt, Raw, Str, coq

FOREIGN = "<foreign>"
GEN_METHODS = {
    "random", "integers", "uniform", "beta", "normal", "standard_normal", "permutation", "permuted", "shuffle",
    "choice", "multinomial", "binomial", "poisson", "exponential", "gamma", "bytes", "dirichlet", "laplace",
    "lognormal", "triangular", "standard_exponential", "geometric", "logistic", "multivariate_normal",
}


# ---------------------------------------------------------------------------
# spies and tripwire
# ---------------------------------------------------------------------------
DRAW_HOOK = [None]     # optional callable(spy), called on every draw of every spy (C08/C09 attribute draws to requests)


class Spy:
    """np.random.Generator look-alike: delegates to a real generator and counts the draws"""

    def __init__(self, gen, tag):
        self._gen = gen
        self.tag = tag
        self.n = 0

    def __getattr__(self, name):
        if name.startswith("__") or name in ("_gen", "tag", "n"):
            raise AttributeError(name)
        attr = getattr(self._gen, name)
        if name in GEN_METHODS and callable(attr):
            def counted(*a, **k):
                self.n += 1
                if DRAW_HOOK[0] is not None:
                    DRAW_HOOK[0](self)
                return attr(*a, **k)

            return counted
        return attr


class Tripwire:
    """process-global generators must be neither consumed nor re-seeded"""

    def __init__(self):
        import numpy as np
        import torch
        self.np_state = np.random.get_state()
        self.py_state = pyrandom.getstate()
        self.torch_state = torch.get_rng_state()

    def touched(self):
        import numpy as np
        import torch
        out = []
        a, b = self.np_state, np.random.get_state()
        if a[0] != b[0] or not (a[1] == b[1]).all() or tuple(a[2:]) != tuple(b[2:]):
            out.append("GNumpy")
        if pyrandom.getstate() != self.py_state:
            out.append("GPython")
        if not torch.equal(torch.get_rng_state(), self.torch_state):
            out.append("GTorch")
        return out


def seed_globals(s):
    import numpy as np
    import torch
    np.random.seed(s % (2 ** 31))
    pyrandom.seed(s)
    torch.manual_seed(s)


# ---------------------------------------------------------------------------
# canonical values
# ---------------------------------------------------------------------------
def canon(v):
    """JSON-able canonical form; bulk data is hashed (bit-exactness is the point: equal draws, equal pixels)"""
    import numpy as np
    import torch
    from PIL import Image
    if torch.is_tensor(v):
        t = v.detach().cpu().contiguous()
        if t.numel() <= 4:
            return ["T", str(t.dtype), list(t.shape), [repr(x) for x in t.flatten().tolist()]]
        raw = t.view(torch.int16) if t.dtype == torch.bfloat16 else t     # numpy has no bfloat16: hash the bit pattern
        return ["T", str(t.dtype), list(t.shape), hashlib.sha1(raw.numpy().tobytes()).hexdigest()[:16]]
    if isinstance(v, Image.Image):
        return ["P", v.mode, list(v.size), hashlib.sha1(v.tobytes()).hexdigest()[:16]]
    if isinstance(v, np.ndarray):
        if v.size <= 8:
            return ["A", str(v.dtype), [repr(x) for x in v.flatten().tolist()]]
        return ["A", str(v.dtype), list(v.shape), hashlib.sha1(np.ascontiguousarray(v).tobytes()).hexdigest()[:16]]
    if isinstance(v, (np.generic,)):
        return repr(v.item())
    if isinstance(v, (bool, int, str)) or v is None:
        return v
    if isinstance(v, float):
        return repr(v)
    if isinstance(v, (list, tuple)):
        return [canon(x) for x in v]
    if isinstance(v, dict):
        return {str(k): canon(v[k]) for k in sorted(v, key=str)}
    return "<" + type(v).__name__ + ">"


TENSOR_DTYPES = ["float32", "float64", "float16", "bfloat16", "uint8", "int64"]
PIL_MODES = ["RGB", "L", "RGBA"]
# classes that (by their code / documented `inplace` default) write into the tensor they are HANDED: KDImageNorm and
# KDImageRangeNorm (inplace=True is the documented default), KDThreshold / KDRandomThreshold (x[x < t] = 0),
# KDRandomErasing (x[:, rect] = value), PatchwiseRandomRotation (x[:, i] = rotate(x[:, i])), KDMagnitudeJitter(inplace=True),
# KDColumnwiseNorm(inplace=True), KDBucketize.
# A composition containing one of them may change its input; every other composition must leave its input untouched.
INPLACE_ON_INPUT = {"KDImageNorm", "KDImageRangeNorm", "KDThreshold", "KDRandomThreshold", "KDRandomErasing",
                    "PatchwiseRandomRotation", "KDMagnitudeJitter", "KDColumnwiseNorm", "KDBucketize"}


def _cast(t, dtype):
    import torch
    if dtype in (None, "float32"):
        return t
    if dtype in ("uint8", "int64"):
        return (t * 255).to(getattr(torch, dtype))
    return t.to(getattr(torch, dtype))


def make_input(kind, S, seed, dtype=None):
    """dtype: one of TENSOR_DTYPES for tensor kinds, one of PIL_MODES for kind "pil" (None = float32 / RGB)"""
    import torch
    from torchvision.transforms.functional import to_pil_image
    g = torch.Generator().manual_seed(seed)
    if kind == "img":
        return _cast(torch.rand(3, S, S, generator=g), dtype)
    if kind == "pil":
        img = to_pil_image(torch.rand(3, S, S, generator=g))
        return img if dtype in (None, "RGB") else img.convert(dtype)
    if kind == "patches":
        return _cast(torch.rand(3, 4, S // 2, S // 2, generator=g), dtype)
    if kind == "spec":
        return _cast(torch.rand(1, 12, 10, generator=g), dtype)
    if kind == "semseg":
        return (_cast(torch.rand(3, S, S, generator=g), dtype), torch.randint(0, 4, (S, S), generator=g))
    raise ValueError(kind)


def _byte_range(v):
    """(lo, hi) address range of the memory block that backs a tensor / ndarray (whole storage: views count)"""
    import numpy as np
    import torch
    if torch.is_tensor(v):
        try:
            st = v.untyped_storage()
            return (st.data_ptr(), st.data_ptr() + st.nbytes()) if st.nbytes() > 0 else None
        except Exception:  # noqa
            return None
    if isinstance(v, np.ndarray):
        base = v
        while isinstance(getattr(base, "base", None), np.ndarray):
            base = base.base
        lo = base.__array_interface__["data"][0]
        return (lo, lo + base.nbytes) if base.nbytes > 0 else None
    return None


def bulk_leaves(v, out=None, depth=0):
    """tensors / arrays inside a returned value or a context (lists, tuples, dicts)"""
    import numpy as np
    import torch
    out = [] if out is None else out
    if torch.is_tensor(v) or isinstance(v, np.ndarray):
        out.append(v)
    elif isinstance(v, (list, tuple)) and depth < 4:
        for e in v:
            bulk_leaves(e, out, depth + 1)
    elif isinstance(v, dict) and depth < 4:
        for e in v.values():
            bulk_leaves(e, out, depth + 1)
    return out


def internal_buffers(root):
    """address ranges of every tensor / ndarray reachable through the attributes of the objects of a live transform
    tree (attributes, lists, dicts, helper objects such as magnitude samplers; generators excluded)"""
    import numpy as np
    import torch
    ranges = []
    seen = set()

    def scan(v, where, depth):
        if id(v) in seen or depth > 4:
            return
        if torch.is_tensor(v) or isinstance(v, np.ndarray):
            r = _byte_range(v)
            if r is not None:
                ranges.append((r, where))
            return
        if isinstance(v, (str, bytes, int, float, bool, type(None), Spy, np.random.Generator, np.generic)):
            return
        seen.add(id(v))
        if isinstance(v, (list, tuple)):
            for i, e in enumerate(v):
                scan(e, f"{where}[{i}]", depth + 1)
        elif isinstance(v, dict):
            for k, e in v.items():
                scan(e, f"{where}[{k!r}]", depth + 1)
        elif hasattr(v, "__dict__") and not isinstance(v, type):
            for k, e in list(vars(v).items()):
                scan(e, f"{where}.{k}", depth + (0 if isinstance(v, _node_base()) else 1))

    scan(root, type(root).__name__, 0)
    return ranges


def aliases_internal(value, root):
    """names of internal attributes whose memory overlaps a tensor / array of `value`"""
    bufs = internal_buffers(root)
    hits = []
    for leaf in bulk_leaves(value):
        r = _byte_range(leaf)
        if r is None:
            continue
        for (lo, hi), where in bufs:
            if r[0] < hi and lo < r[1]:
                hits.append(where)
    return sorted(set(hits))


def clone_input(x):
    import torch
    if torch.is_tensor(x):
        return x.clone()
    if isinstance(x, tuple):
        return tuple(clone_input(a) for a in x)
    if hasattr(x, "copy"):
        return x.copy()
    return x


# ---------------------------------------------------------------------------
# registry of constructor arguments:  class -> [(input kind, lambda S: kwargs)]
# ---------------------------------------------------------------------------
def _reg():
    inf = float("inf")
    return {
        "KDAdditiveGaussianNoise": [("img", lambda S: dict(std=0.1)),
                                    ("img", lambda S: dict(std=0.2, magnitude=0.5, magnitude_std=0.1, clip_min=0., clip_max=1.))],
        "KDAdditiveUniformNoise": [("img", lambda S: dict()), ("img", lambda S: dict(magnitude=0.5, magnitude_std=0.2))],
        "KDColorJitter": [("img", lambda S: dict(brightness=0.4, contrast=0.4, saturation=0.2, hue=0.1)),
                          ("pil", lambda S: dict(brightness=0.4, hue=0.1))],
        "KDGaussianBlurPIL": [("pil", lambda S: dict(sigma=(0.1, 2.0)))],
        "KDGaussianBlurTV": [("img", lambda S: dict(kernel_size=3, sigma=(0.1, 2.0)))],
        "KDRandAugment": [("pil", lambda S: dict(num_ops=2, magnitude=9, magnitude_std=0.5, interpolation="random",
                                                 fill_color=(124, 116, 104))),
                          ("pil", lambda S: dict(num_ops=3, magnitude=5, magnitude_std=inf, interpolation="bicubic",
                                                 fill_color=(0, 0, 0), apply_op_p=0.9))],
        "KDRandAugmentCustom": [("pil", lambda S: dict(num_ops=2, magnitude=9, magnitude_std=0.5, interpolation="random",
                                                       fill_color=(124, 116, 104)))],
        "KDRandomAdditiveGaussianNoise": [("img", lambda S: dict(p=0.7, std=0.1)),
                                          ("img", lambda S: dict(p=1.0, std=0.3, magnitude_std=0.2))],
        "KDRandomColorJitter": [("img", lambda S: dict(p=0.7, brightness=0.4, contrast=0.4, saturation=0.2, hue=0.1)),
                                ("pil", lambda S: dict(p=0.8, brightness=0.4, contrast=0.4, saturation=0.2, hue=0.1))],
        "KDRandomCrop": [("img", lambda S: dict(size=S, padding=2)), ("pil", lambda S: dict(size=S - 3))],
        "KDRandomErasing": [("img", lambda S: dict(p=0.7, mode="pixelwise", max_count=2)),
                            ("img", lambda S: dict(p=0.9, mode="channelwise")), ("img", lambda S: dict(p=0.9))],
        "KDRandomGaussianBlurPIL": [("pil", lambda S: dict(p=0.7, sigma=(0.1, 2.0)))],
        "KDRandomGaussianBlurTV": [("img", lambda S: dict(p=0.7, kernel_size=3, sigma=(0.1, 2.0)))],
        "KDRandomGrayscale": [("img", lambda S: dict(p=0.5)), ("pil", lambda S: dict(p=0.5))],
        "KDRandomHorizontalFlip": [("img", lambda S: dict(p=0.5)), ("pil", lambda S: dict())],
        "KDRandomResizedCrop": [("img", lambda S: dict(size=S)), ("pil", lambda S: dict(size=S, scale=(0.3, 1.0)))],
        "KDRandomRotation": [("img", lambda S: dict(degrees=30)), ("pil", lambda S: dict(degrees=(0, 90)))],
        "KDRandomSolarize": [("img", lambda S: dict(p=0.6, threshold=0.5)), ("pil", lambda S: dict(p=0.6, threshold=128))],
        "KDRandomThreshold": [("img", lambda S: dict(p=0.7, threshold=0.3, threshold_std=0.1)),
                              ("img", lambda S: dict(p=1.0, threshold=0.5, threshold_std=inf))],
        "KDThreshold": [("img", lambda S: dict(threshold=0.3, threshold_std=0.1)),
                        ("img", lambda S: dict(threshold=0.5, threshold_std=inf))],
        "KDSimpleRandomCrop": [("img", lambda S: dict(size=S, padding=2))],
        "KDThreeAugment": [("pil", lambda S: dict(threshold=128, sigma=(0.1, 2.0)))],
        "KDTwoRandomCrop": [("img", lambda S: dict(size=S - 4, overlap_min=0.1, tries=5))],
        "PatchwiseRandomRotation": [("patches", lambda S: dict())],
        "PatchwiseShuffle": [("patches", lambda S: dict())],
        "KDMagnitudeJitter": [("img", lambda S: dict(alpha=10))],
        "KDRoll": [("img", lambda S: dict())],
        "KDSpecAugment": [("spec", lambda S: dict(time_masking=4, frequency_masking=3))],
        "KDSemsegRandomCrop": [("semseg", lambda S: dict(size=S // 2)),
                               ("semseg", lambda S: dict(size=S // 2, max_category_ratio=0.6))],
        "KDSemsegRandomHorizontalFlip": [("semseg", lambda S: dict())],
        "KDSemsegRandomResize": [("semseg", lambda S: dict(base_size=(S, S), ratio=(0.5, 2.0)))],
        "KDSemsegRandomResizeOld": [("semseg", lambda S: dict(base_size=(S, S), ratio=(0.5, 2.0)))],
        "KDSemsegOverlappedMultiCrop": [("semseg", lambda S: dict(crop_size=S // 2))],
        "KDMinsize": [("img", lambda S: dict(size=S + 4))],
        "KDResize": [("img", lambda S: dict(size=S))],
        # ready-made pipelines (PIL in, tensor out)
        "BYOLTransform": [("pil", lambda S: dict(size=S, norm=None)),
                          ("pil", lambda S: dict(size=S, norm=((0.5, 0.5, 0.5), (0.2, 0.2, 0.2)), gaussian_blur_p=0.9))],
        "BYOLTransform0": [("pil", lambda S: dict(size=S))],
        "BYOLTransform1": [("pil", lambda S: dict(size=S))],
        "ImagenetMinaugTransform": [("pil", lambda S: dict(size=S))],
        "ImagenetNoaugTransform": [("pil", lambda S: dict(resize_size=S, center_crop_size=S - 4))],
        "MAEFinetuneTransform": [("pil", lambda S: dict())],
        "MUGSStrongTransform": [("pil", lambda S: dict(size=S))],
        "MUGSStrongGlobalTransform": [("pil", lambda S: dict(size=S))],
        "MUGSStrongLocalTransform": [("pil", lambda S: dict(size=S))],
    }


REG = _reg()
CONTAINERS = ["KDComposeTransform", "KDRandomApply", "PatchwiseTransform", "KDScheduledTransform", "KDTransformChoice"]
ABSTRACT = {"KDTransform", "KDStochasticTransform", "KDRandomApplyBase", "KDNormBase", FOREIGN}
# leaves that keep a (3,S,S) float tensor a (3,S,S) float tensor: usable anywhere inside compositions
IMG_SAFE = ["KDAdditiveGaussianNoise", "KDAdditiveUniformNoise", "KDColorJitter", "KDGaussianBlurTV",
            "KDRandomAdditiveGaussianNoise", "KDRandomColorJitter", "KDRandomCrop", "KDRandomErasing",
            "KDRandomGaussianBlurTV", "KDRandomGrayscale", "KDRandomHorizontalFlip", "KDRandomResizedCrop",
            "KDRandomSolarize", "KDRandomThreshold", "KDThreshold", "KDSimpleRandomCrop", "KDMagnitudeJitter",
            "KDRoll", "KDRandomRotation", FOREIGN, "KDSolarize", "KDGrayscale", "KDImageNorm", "KDImageRangeNorm"]
# deterministic leaves built without a registry entry; the two norms work IN PLACE on the tensor they are handed
# (inplace=True is their default): whatever they are handed must not alias state that outlives the request
DET_LEAVES = (FOREIGN, "KDSolarize", "KDGrayscale", "KDImageNorm", "KDImageRangeNorm")


def find_class(name):
    import importlib
    import kappadata.transforms as kdt
    import kappadata.common.transforms as kdc
    for m in (kdt, kdc):
        if hasattr(m, name):
            return getattr(m, name)
    err = None
    for modname in ("kappadata.transforms.kd_random_rotation",
                    "kappadata.transforms.kd_two_random_crop", "kappadata.transforms.kd_solarize",
                    "kappadata.transforms.kd_grayscale", "kappadata.common.transforms.mugs_transforms",
                    "kappadata.transforms.semseg.kd_semseg_overlapped_multi_crop",
                    "kappadata.transforms.semseg.kd_semseg_random_resize_old",
                    "kappadata.common.transforms.norm", "kappadata.transforms.kd_transform_choice"):
        try:
            m = importlib.import_module(modname)
        except Exception as e:  # noqa
            err = e
            continue
        if hasattr(m, name):
            return getattr(m, name)
    if err is not None:
        raise err
    raise KeyError(name)


def build(spec, S):
    """tree spec {"c": class, "a": arg-set index, "k": [children]} -> live object"""
    c = spec["c"]
    kids = spec.get("k", [])
    if c == FOREIGN:
        from torchvision.transforms import CenterCrop
        return CenterCrop(S)
    if c == "KDComposeTransform":
        return find_class(c)([build(k, S) for k in kids])
    if c == "KDRandomApply":
        return find_class(c)(transform=build(kids[0], S), p=[0.7, 1.0][spec.get("a", 0) % 2])
    if c == "PatchwiseTransform":
        return find_class(c)(patch_size=S // 2, transform=build(kids[0], S // 2))
    if c == "KDScheduledTransform":
        return find_class(c)(build(kids[0], S))
    if c == "KDTransformChoice":
        return find_class(c)(transforms=[build(k, S) for k in kids])
    if c == "KDSolarize":
        return find_class(c)(threshold=0.5)
    if c == "KDGrayscale":
        return find_class(c)()
    if c == "KDImageNorm":
        return find_class(c)(mean=(0.5, 0.4, 0.3), std=(0.25, 0.2, 0.3))
    if c == "KDImageRangeNorm":
        return find_class(c)()
    kind, mk = REG[c][spec.get("a", 0) % len(REG[c])]
    return find_class(c)(**mk(S))


def spec_input_kind(spec):
    c = spec["c"]
    if c in CONTAINERS or c in DET_LEAVES:
        return "img"
    return REG[c][spec.get("a", 0) % len(REG[c])][0]


def gen_tree(rng, depth, S, allow_choice=True, no_rot=False, no_foreign=False):
    """random composition of containers over shape-preserving leaves"""
    if depth <= 0 or S < 8 or rng.random() < 0.3:
        pool = [c for c in IMG_SAFE if not (no_rot and c == "KDRandomRotation") and not (no_foreign and c == FOREIGN)]
        c = rng.choice(pool)
        if c in DET_LEAVES:
            return {"c": c}
        opts = [i for i, (kind, _) in enumerate(REG[c]) if kind == "img"]
        return {"c": c, "a": rng.choice(opts)}
    conts = CONTAINERS if allow_choice else CONTAINERS[:-1]
    c = rng.choice(conts + ["KDComposeTransform"])
    if c == "KDComposeTransform":
        n = rng.choice([1, 2, 2, 3, 4])
        return {"c": c, "k": [gen_tree(rng, depth - 1, S, allow_choice, no_rot, False) for _ in range(n)]}
    if c == "KDTransformChoice":
        n = rng.choice([1, 2, 3])
        return {"c": c, "k": [gen_tree(rng, depth - 1, S, allow_choice, no_rot, True) for _ in range(n)]}
    if c == "PatchwiseTransform":
        return {"c": c, "k": [gen_tree(rng, depth - 1, S // 2, allow_choice, no_rot, True)]}
    if c == "KDScheduledTransform":
        return {"c": c, "k": [gen_tree(rng, depth - 1, S, allow_choice, True, True)]}
    return {"c": c, "a": rng.randrange(2), "k": [gen_tree(rng, depth - 1, S, allow_choice, no_rot, True)]}


def spec_sig(spec):
    return spec["c"] + (str(spec.get("a", "")) if "a" in spec else "") + (
        "(" + ",".join(spec_sig(k) for k in spec["k"]) + ")" if spec.get("k") else "")


def spec_size(spec):
    return 1 + sum(spec_size(k) for k in spec.get("k", []))


def shrink_spec(spec):
    """smaller tree specs"""
    for k in spec.get("k", []):
        yield k
    ks = spec.get("k", [])
    if spec["c"] in ("KDComposeTransform", "KDTransformChoice") and len(ks) > 1:
        for i in range(len(ks)):
            yield {**spec, "k": ks[:i] + ks[i + 1:]}
    for i, k in enumerate(ks):
        for k2 in shrink_spec(k):
            if spec["c"] in ("PatchwiseTransform", "KDScheduledTransform", "KDTransformChoice") and k2["c"] == FOREIGN:
                continue
            yield {**spec, "k": ks[:i] + [k2] + ks[i + 1:]}


# ---------------------------------------------------------------------------
# the live object tree
# ---------------------------------------------------------------------------
def _node_base():
    from kappadata.transforms.base.kd_transform import KDTransform
    from kappadata.collators.base.kd_collator_base import KDCollatorBase
    return (KDTransform, KDCollatorBase)


def is_foreign(v):
    import enum
    import inspect
    import torch
    if isinstance(v, enum.Enum) or inspect.isclass(v) or inspect.isroutine(v):
        return False
    if isinstance(v, _node_base()):
        return False
    mod = type(v).__module__ or ""
    return callable(v) and (isinstance(v, torch.nn.Module) or mod.startswith("torchvision"))


def live_children(obj):
    """transform-valued attributes of a live object -> [(field, [members])], sorted by field name"""
    base = _node_base()
    out = []
    for name, v in sorted(vars(obj).items()):
        if isinstance(v, base) or is_foreign(v):
            out.append((name, [v]))
        elif isinstance(v, (list, tuple)) and len(v) > 0 and all(isinstance(e, base) or is_foreign(e) for e in v):
            out.append((name, list(v)))
    return out


def walk_live(obj, fn, path=()):
    """preorder walk; fn(obj, path)"""
    fn(obj, path)
    if isinstance(obj, _node_base()):
        for f, members in live_children(obj):
            for i, m in enumerate(members):
                walk_live(m, fn, path + ((f, i),))


def tag_slots(root, tagname="ctor"):
    """wrap the current generator of every slot into a spy tagged (tagname, preorder index of the slot)"""
    spies = []
    seen = set()

    def visit(o, path):
        if isinstance(o, _node_base()) and "rng" in vars(o) and id(o) not in seen:
            seen.add(id(o))
            sp = Spy(o.rng, (tagname, len(spies)))
            o.rng = sp
            spies.append(sp)

    walk_live(root, visit)
    return spies


def live_tree(obj, slot_of):
    """-> nested ["cls", slot, [[field, [subtrees]]]] ; slot_of(obj) -> canonical slot description or None"""
    if not isinstance(obj, _node_base()):
        return [FOREIGN, None, []]
    return [type(obj).__name__, slot_of(obj),
            [[f, [live_tree(m, slot_of) for m in members]] for f, members in live_children(obj)]]


def slot_desc(o):
    if "rng" not in vars(o):
        return None
    r = o.rng
    if isinstance(r, Spy):
        return list(r.tag)
    return ["other", 0]


def tree_slots(t):
    out = [t[1]]
    for f, members in t[2]:
        for m in members:
            out += tree_slots(m)
    return out


# ---------------------------------------------------------------------------
# Coq rendering
# ---------------------------------------------------------------------------
def coq_prov(p):
    """["ctor",k] | ["inj",s] | ["wrk",k] | ["glob","GNumpy"] | ["other",_]"""
    kind = p[0]
    if kind == "ctor":
        return C("Ctor", Nat(p[1]))
    if kind == "inj":
        return C("Inj", int(p[1]))
    if kind == "wrk":
        return C("Wrk", Nat(p[1]))
    if kind == "glob":
        return C("Glob", Raw(p[1]))
    return C("Glob", Raw("GFresh"))


def coq_slot(p):
    return Raw("None") if p is None else Raw("(Some " + coq(coq_prov(p)) + ")")


def coq_tree(t):
    kids = [Raw("(" + coq(Str(f)) + ", " + coq([coq_tree(m) for m in members]) + ")") for f, members in t[2]]
    return C("Node", Str(t[0]), coq_slot(t[1]), kids)


COQ_PRELUDE = """From Coq Require Import ZArith List Bool String.
Import ListNotations.
From KD Require Import C07.RngGraph C07.gen.RngTable C07.Check.
Open Scope string_scope.
"""

TRUSTED_COMMON = [
    "harness/translate_rng.py (ast -> class descriptors): trusted modulo this run's correspondence (every live object "
    "tree must be an instance of the generated table, the observed slots after the real set_rng must equal the model's, "
    "every generator observed drawing must be predicted by the model)",
    "the translator accepts a closed list of source shapes (translate_rng.ACCEPTS) and aborts on everything else; that "
    "sample wrappers keep no state between requests besides the generator slots of their transforms is checked "
    "syntactically (translate_rng.wrapper_state_writes: no assignment / mutation rooted at self, no caching decorator "
    "in the per-item code), get_rng_from_global and GlobalRng are compared textually with what the model assumes",
    "harness/rnglive.py: spy generators (count draws per generator object), global-RNG tripwire (state snapshots of "
    "np.random / random / torch), live-tree extraction through vars()",
    "`draws` over-approximates reachability (all methods of a class are scanned, all branches assumed taken); library "
    "calls other than numpy.random / random / torch random functions are assumed to be deterministic functions of "
    "their arguments (torchvision functional ops, PIL filters) - observed by the equal-output comparison, not proved",
    "non-KappaData callables placed into compositions are assumed deterministic (class '<foreign>' is quiet)",
]
