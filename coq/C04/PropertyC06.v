(* Property C06 — resuming the interleaved scheduler yields the suffix of the
   uninterrupted run.  Theorems only. *)
From Coq Require Import ZArith List Bool.
Import ListNotations.
From KD Require Import C04.Model C04.Spec C04.Lists C04.Arith C04.Proofs C04.Corollaries C04.Example.
Open Scope Z_scope.

(* the constructor accepts exactly the checkpoints on epoch boundaries (explicit
   NotImplemented otherwise) and derives the epoch / update / sample counters the
   uninterrupted run has there *)
Theorem c06_constructor_checkpoint : forall c mi, WF c mi -> forall a,
  init_checkpoint c a = spec_start c a.
Proof. exact init_checkpoint_spec. Qed.
Print Assumptions c06_constructor_checkpoint.

(* for every checkpoint k epochs after e0 that lies before the budget (no epoch
   in between reaches it), the uninterrupted run is the k whole epochs followed
   by exactly the resumed run — same indices, same announced epoch numbers, same
   passes, same stopping point *)
Theorem c06_resume_is_suffix : forall c mi, WF c mi -> forall k e0 n, no_hit_in c mi e0 k ->
  run c mi (k + n) (start_state c e0) =
  option_map (app (epochs_events c mi e0 k)) (run c mi n (start_state c (e0 + Z.of_nat k))).
Proof. exact resume_is_suffix. Qed.
Print Assumptions c06_resume_is_suffix.

(* start_epoch = e gives exactly the state resume_is_suffix is about *)
Theorem c06_start_epoch_state : forall c e,
  init_checkpoint c (StartEpoch e) = Start e (upe c * e) (spe c * e).
Proof. reflexivity. Qed.
Print Assumptions c06_start_epoch_state.

Example c06_premises_satisfiable : WF ex_cfg ex_iter /\ no_hit_in ex_cfg ex_iter 0 1.
Proof. split; [exact ex_wf|]. vm_compute. auto. Qed.
Example c06_example :
  run ex_cfg ex_iter 3 (start_state ex_cfg 0) =
  option_map (app (epochs_events ex_cfg ex_iter 0 1)) (run ex_cfg ex_iter 2 (start_state ex_cfg 1)).
Proof. vm_compute. reflexivity. Qed.
