"""C10 — KDMixCollator: image and label of sample i are mixed with the same partner and the same weight.

Batches are id-encoded: pixel (ch, r, c) of sample k is  k (r+c even) / k*k (r+c odd)  + 100*ch, the
one-hot label of sample k is k (or a random class / a scalar in [0,1] for the binary path), so partner,
weight and pasted box can be decoded from what the real collator returns.  All draws of the collator's
generator are recorded by a spy injected through the public set_rng and fed to the Coq model.
"""
import random
from fractions import Fraction

from .common import C, Nat, Opt, Raw, Rec, coq

ID = "C10"
COQ_FILES = ["C10/Model.v", "C10/Spec.v", "C10/Check.v", "C10/Proofs.v", "C10/Property.v"]
COQ_PRELUDE = ("From Coq Require Import ZArith QArith List Bool.\nImport ListNotations.\n"
               "From KD Require Import C10.Model C10.Spec C10.Check.\nOpen Scope Z_scope.\n")
COQ_CHECK = "check"
COQ_CASE_TYPE = "case_t"
SHARD = 120
ALLOWED_AXIOMS = []
TRUSTED = [
    "hand-written model coq/C10/Model.v of KDMixCollator.collate/shuffle/get_random_bbox and of "
    "ModeWrapper.get_item/set_item (repaired tree); tied to KD_REPO by this run's correspondence evaluation",
    "pixel/label float32 arithmetic is not modelled: the model emits descriptors (partner, weight | box); the harness "
    "decodes id-encoded outputs (exact equality for pasted pixels, tolerance 2e-3 on mixed pixel values <= 64, "
    "1e-5 on label entries and lambdas)",
    "half box sizes floor(0.5*sqrt(1-lambda)*h) are obtained by calling the implementation's own get_random_bbox "
    "with zero centres on the lambda tensor it was called with; theorems quantify over all non-negative half sizes",
    "generator contract: random() in [0,1), beta in [0,1], integers(h) in [0,h), permutation(n) is a permutation",
    "torch.default_collate, Tensor.roll/flip/fancy indexing/slice assignment behave as documented",
    "harness/c10.py: spy generator, scripted generator (edge draws), id-encoding and decoding",
]
ASSUMPTIONS = [
    "mixup_p + cutmix_p == 1.0 (the constructor raises NotImplementedError otherwise), so `apply` is always true",
    "the batch contains an image item x of shape (B, C, H, W), B >= 1; labels are one-hot rows or 1-d values in [0,1]",
    "flip shuffling is defined for even batch sizes (odd: the collator's assertion fires; counted as expected)",
    "samples handed to the collator are not aliased (default_collate stacks copies)",
]
RULE = ("B in 1..9, 1-3 channels, H,W in 4..17 independently, all apply/lamb/shuffle mode combinations, probability "
        "splits summing to exactly 1.0 incl. pure mixup / pure cutmix, alphas 0.1..5, item orders with index/aux items "
        "and the single-item mode 'x', label kinds one-hot id / one-hot random / binary float / binary int, draws "
        "from numpy default_rng(seed) or a scripted generator injecting edge draws (lambda 0/1, centres at the "
        "border, identity permutation); non-trivial = B >= 2 and outcome ok; distinct by "
        "(B,H,W,modes,probabilities,tokens,label kind,per-sample cut flags)")

PROBS = [(1.0, 0.0), (0.0, 1.0), (0.5, 0.5), (0.25, 0.75), (0.75, 0.25), (0.125, 0.875), (0.9, 0.1), (0.2, 0.8)]
ALPHAS = [0.1, 0.3, 0.8, 1.0, 1, 2.0, 5.0]


# ---------------------------------------------------------------------------
# generators handed to the collator
# ---------------------------------------------------------------------------
class ScriptRng:
    """stands in for numpy's Generator: same methods/return types, values from random.Random with edge
    values injected (all inside the generator's contract)"""

    def __init__(self, seed, edges):
        self.r = random.Random(seed)
        self.edges = edges

    def _unit(self):
        r = self.r
        if r.random() < 0.3:
            return r.choice(self.edges)
        return r.random()

    def _beta(self):
        r = self.r
        if r.random() < 0.35:
            return r.choice([0.0, 1.0, 0.5, 0.75, 0.25, 1e-9, 1.0 - 1e-9, 0.9999999, 0.36])
        return r.random()

    def random(self, size=None):
        import numpy as np
        if size is None:
            return self._unit()
        return np.array([self._unit() for _ in range(size)], dtype=np.float64)

    def beta(self, a, b, size=None):
        import numpy as np
        if size is None:
            return self._beta()
        return np.array([self._beta() for _ in range(size)], dtype=np.float64)

    def integers(self, low, high=None, size=None):
        import numpy as np
        assert high is None
        (n,) = size
        r = self.r
        return np.array([r.choice([0, low - 1, r.randrange(low), r.randrange(low)]) for _ in range(n)], dtype=np.int64)

    def permutation(self, n):
        import numpy as np
        r = self.r
        p = list(range(n))
        k = r.random()
        if k < 0.15:
            pass
        elif k < 0.3:
            i, j = r.randrange(n), r.randrange(n)
            p[i], p[j] = p[j], p[i]
        else:
            r.shuffle(p)
        return np.array(p, dtype=np.int64)


class Spy:
    """records every draw; injected through set_rng"""

    def __init__(self, inner):
        self.inner = inner
        self.trace = []

    def random(self, size=None):
        v = self.inner.random(size) if size is not None else self.inner.random()
        if size is None:
            self.trace.append(["unit", float(v)])
        else:
            self.trace.append(["units", [float(a) for a in v]])
        return v

    def beta(self, a, b, size=None):
        assert a == b
        v = self.inner.beta(a, b, size=size) if size is not None else self.inner.beta(a, b)
        if size is None:
            self.trace.append(["beta", float(a), float(v)])
        else:
            self.trace.append(["betas", float(a), [float(x) for x in v]])
        return v

    def integers(self, low, high=None, size=None):
        assert high is None and size is not None
        v = self.inner.integers(low, size=size)
        self.trace.append(["ints", int(low), [int(x) for x in v]])
        return v

    def permutation(self, n):
        v = self.inner.permutation(n)
        self.trace.append(["perm", [int(x) for x in v]])
        return v

    def __getattr__(self, name):  # any other generator method = protocol change the model does not know
        raise AttributeError(f"SpyGenerator: unmodelled generator method {name}")


class ZeroCentres:
    def integers(self, low, high=None, size=None):
        import numpy as np
        return np.zeros(size, dtype=np.int64)


def make_rng(case):
    import numpy as np
    kind, seed = case["rng"]
    if kind == "numpy":
        return Spy(np.random.default_rng(seed))
    cp = case["cutmix_p"] or 0.0
    import math
    edges = [0.0, 0.5, cp, math.nextafter(cp, 0.0) if cp > 0 else 0.0, math.nextafter(1.0, 0.0)]
    edges = [e for e in edges if 0.0 <= e < 1.0]
    return Spy(ScriptRng(seed, edges))


# ---------------------------------------------------------------------------
# id-encoded batches
# ---------------------------------------------------------------------------
def pattern(k, ch, h, w):
    import torch
    r = torch.arange(h).view(h, 1)
    c = torch.arange(w).view(1, w)
    even = ((r + c) % 2 == 0)
    base = torch.where(even, torch.tensor(float(k)), torch.tensor(float(k * k)))
    return base.unsqueeze(0).repeat(ch, 1, 1) + 100.0 * torch.arange(ch).view(ch, 1, 1).float()


def label_matrix(case):
    """input label rows as Fractions (what the collator sees after .type(float32))"""
    kind, vals = case["labels"]
    if kind in ("onehot_id", "onehot_rand"):
        n = case["ncls"]
        return [[Fraction(1 if j == v else 0) for j in range(n)] for v in vals]
    if kind == "binary":
        return [[Fraction(v, 16)] for v in vals]
    return [[Fraction(v)] for v in vals]


def make_sample(case, k):
    import torch
    items = []
    kind, vals = case["labels"]
    for t in case["tokens"]:
        if t == "x":
            items.append(pattern(k, case["C"], case["H"], case["W"]))
        elif t == "class":
            if kind in ("onehot_id", "onehot_rand"):
                items.append(torch.nn.functional.one_hot(torch.tensor(vals[k]), case["ncls"]).float())
            elif kind == "binary":
                items.append(vals[k] / 16.0)
            else:
                items.append(int(vals[k]))
        elif t == "index":
            items.append(100 + 7 * k)
        else:
            items.append(torch.tensor([k * 3 + int(t[3:]), -k]))
    return tuple(items) if len(items) > 1 else items[0]


def summarise_image(out, i, case):
    """-> ["U", v1, v2] | ["P", q, [top,left,bot,right]] | ["O", why]"""
    import torch
    ch, h, w = case["C"], case["H"], case["W"]
    off = 100.0 * torch.arange(ch).view(ch, 1, 1).float()
    o = out.double() - off.double()
    own = (pattern(i, ch, h, w) - off).double()
    own_mask = (o == own)
    r = torch.arange(h).view(h, 1)
    c = torch.arange(w).view(1, w)
    even = ((r + c) % 2 == 0).unsqueeze(0).expand(ch, h, w)
    if not bool(own_mask.all()):
        foreign = ~own_mask
        for q in range(case["B"]):
            if q == i:
                continue
            pq = (pattern(q, ch, h, w) - off).double()
            if bool((o[foreign] == pq[foreign]).all()):
                if bool(foreign.all()):
                    break  # the whole image is sample q's: reported as uniform
                m0 = foreign[0]
                if not all(bool((foreign[k] == m0).all()) for k in range(ch)):
                    return ["O", "pasted region differs between channels"]
                rows = m0.any(dim=1).nonzero().flatten()
                cols = m0.any(dim=0).nonzero().flatten()
                top, bot = int(rows[0]), int(rows[-1]) + 1
                left, right = int(cols[0]), int(cols[-1]) + 1
                rect = torch.zeros_like(m0)
                rect[top:bot, left:right] = True
                if not bool((rect == m0).all()):
                    return ["O", "pasted region is not a rectangle"]
                return ["P", q, [top, left, bot, right]]
    ev, od = o[even], o[~even]
    v1, v2 = float(ev[0]), float(od[0])
    if float((ev - v1).abs().max()) > 5e-4 or float((od - v2).abs().max()) > 5e-4:
        return ["O", "neither a rectangle of another sample nor uniform per parity"]
    return ["U", v1, v2]


def run_impl(case):
    import torch
    from torch.utils.data import default_collate
    from kappadata.collators.kd_mix_collator import KDMixCollator
    mode = " ".join(case["tokens"])
    b = case["B"]
    coll = KDMixCollator(
        mixup_alpha=case["mixup_alpha"], cutmix_alpha=case["cutmix_alpha"],
        mixup_p=case["mixup_p"], cutmix_p=case["cutmix_p"],
        apply_mode=case["apply_mode"], lamb_mode=case["lamb_mode"], shuffle_mode=case["shuffle_mode"],
        dataset_mode=mode, return_ctx=True,
    )
    spy = make_rng(case)
    coll.set_rng(spy)
    bbox_calls = []
    orig = coll.get_random_bbox

    def recording_bbox(h, w, lamb):
        bbox_calls.append((h, w, lamb.clone()))
        return orig(h=h, w=w, lamb=lamb)

    coll.get_random_bbox = recording_bbox
    samples = [make_sample(case, k) for k in range(b)]
    reference = default_collate([make_sample(case, k) for k in range(b)])
    obs = {"result": "ok"}
    try:
        out, ctx = coll([(s, {"k": k}) for k, s in enumerate(samples)])
    except AssertionError:
        obs["result"] = "AssertionError"
    except NotImplementedError:
        obs["result"] = "NotImplementedError"
    except Exception as e:
        obs["result"] = type(e).__name__ + ": " + str(e)[:200]
    obs["trace"] = spy.trace
    # half box sizes from the implementation's own expression (zero centres: bot = half height, right = half width)
    halves = []
    coll.rng = ZeroCentres()
    for (h, w, lamb) in bbox_calls:
        bb, _ = orig(h=h, w=w, lamb=lamb)
        halves += [[int(r[2]), int(r[3])] for r in bb]
    obs["halves"] = halves
    if obs["result"] != "ok":
        return obs
    toks = case["tokens"]
    if len(toks) == 1:
        obs["layout"] = "tensor" if isinstance(out, torch.Tensor) else f"{type(out).__name__}[{len(out)}]"
        out_items = [out]
        reference = [reference]
    else:
        obs["layout"] = "tuple" if isinstance(out, tuple) and len(out) == len(toks) else f"{type(out).__name__}[{len(out)}]"
        out_items = list(out)
    if obs["layout"] not in ("tensor", "tuple"):
        return obs
    others, others_ok = [], True
    for t, it, ref in zip(toks, out_items, reference):
        if t == "x":
            if not (isinstance(it, torch.Tensor) and tuple(it.shape) == (b, case["C"], case["H"], case["W"])):
                obs["layout"] = "x has shape " + str(getattr(it, "shape", None))
                return obs
            obs["img"] = [summarise_image(it[i], i, case) for i in range(b)]
            others.append("X")
        elif t == "class":
            if it.ndim == 1:
                obs["lab"] = [[float(v)] for v in it]
            else:
                obs["lab"] = [[float(v) for v in row] for row in it]
            obs["lab_ndim"] = it.ndim
            others.append("Y")
        else:
            same = isinstance(it, torch.Tensor) and it.dtype == ref.dtype and it.shape == ref.shape and bool(torch.equal(it, ref))
            others_ok = others_ok and same
            others.append([int(v) for v in it.flatten()] if isinstance(it, torch.Tensor) else ["?"])
    obs["others"] = others
    obs["others_ok"] = others_ok
    obs["ctx_keys"] = sorted(ctx.keys())
    obs["ctx_k_ok"] = bool(torch.equal(ctx["k"], torch.arange(b)))
    obs["apply"] = [bool(v) for v in ctx["apply"]]
    uc = ctx["use_cutmix"]
    obs["cutmix"] = [bool(v) for v in uc] if isinstance(uc, torch.Tensor) else [bool(uc)]
    obs["lambda"] = [float(v) for v in ctx["lambda"]]
    return obs


# ---------------------------------------------------------------------------
# independent Python statement of the property
# ---------------------------------------------------------------------------
def expected_partner(case, obs, i):
    b = case["B"]
    if b == 1:
        return 0
    m = case["shuffle_mode"]
    if m == "roll":
        return (i - 1) % b
    if m == "flip":
        return b - 1 - i
    perms = [d[1] for d in obs["trace"] if d[0] == "perm"]
    if len(perms) != 1:
        return None
    return perms[0][i]


def oracle(case, obs):
    if "harness_exception" in obs:
        return "harness exception: " + obs["harness_exception"] + obs.get("tb", "")
    b, h, w = case["B"], case["H"], case["W"]
    if obs["result"] != "ok":
        if obs["result"] == "AssertionError" and case["shuffle_mode"] == "flip" and b % 2 == 1 and b > 1:
            return None
        return "collator raised " + obs["result"]
    if obs["layout"] not in ("tensor", "tuple"):
        return f"batch layout changed: mode {case['tokens']} returned {obs['layout']}"
    if not obs["others_ok"] or not obs["ctx_k_ok"]:
        return "an item other than x/class (or a propagated ctx entry) was changed by the collator"
    lam_all, cut_all = obs["lambda"], obs["cutmix"]
    n_l = 1 if case["lamb_mode"] == "batch" else b
    if len(lam_all) != n_l or len(cut_all) != n_l:
        return f"ctx lambda/use_cutmix have lengths {len(lam_all)}/{len(cut_all)}, expected {n_l}"
    if not all(obs["apply"]) or len(obs["apply"]) != b:
        return "ctx['apply'] is not all-true although mixup_p + cutmix_p == 1"
    Y = [[float(v) for v in row] for row in label_matrix(case)]
    onehot = case["labels"][0].startswith("onehot")
    for i in range(b):
        lam = lam_all[0] if n_l == 1 else lam_all[i]
        cut = cut_all[0] if n_l == 1 else cut_all[i]
        if not (0.0 <= lam <= 1.0):
            return f"sample {i}: reported lambda {lam} outside [0,1]"
        p = expected_partner(case, obs, i)
        if p is None:
            return "random shuffling drew %d permutations, expected exactly one shared by image and label" % \
                   len([d for d in obs["trace"] if d[0] == "perm"])
        s = obs["img"][i]
        own, oth = (float(i), float(i * i)), (float(p), float(p * p))
        why = None
        if s[0] == "O":
            why = "image is " + s[1]
        elif cut:
            if s[0] == "P":
                top, left, bot, right = s[2]
                if s[1] != p:
                    why = f"box pasted from sample {s[1]}, shuffle mode prescribes {p}"
                elif not (0 <= top < bot <= h and 0 <= left < right <= w):
                    why = f"box {s[2]} out of bounds"
                elif abs(1.0 - (bot - top) * (right - left) / (h * w) - lam) > 1e-5:
                    why = (f"image keeps {1.0 - (bot - top) * (right - left) / (h * w):.4f} of sample {i} "
                           f"(box {s[2]} from sample {s[1]}), ctx lambda says {lam:.4f}")
            else:
                v = (s[1], s[2])
                if v == own and (p == i or abs(lam - 1.0) <= 1e-5):
                    pass
                elif v == oth and abs(lam) <= 1e-5:
                    pass
                else:
                    why = f"cutmix flagged, image is uniform {v}, lambda {lam:.4f}, partner {p}"
        else:
            if s[0] == "P":
                why = f"mixup flagged (use_cutmix false) but a box {s[2]} of sample {s[1]} was pasted; ctx lambda {lam:.4f}"
            else:
                e1, e2 = lam * own[0] + (1 - lam) * oth[0], lam * own[1] + (1 - lam) * oth[1]
                if abs(s[1] - e1) > 2e-3 or abs(s[2] - e2) > 2e-3:
                    why = (f"image pixels ({s[1]:.4f}, {s[2]:.4f}) are not {lam:.4f}*x_{i} + {1 - lam:.4f}*x_{p} "
                           f"= ({e1:.4f}, {e2:.4f})")
        if why:
            return f"sample {i} (partner {p}, ctx lambda {lam:.4f}, use_cutmix {cut}): {why}"
        if "class" in case["tokens"]:
            row = obs["lab"][i]
            exp = [lam * a + (1 - lam) * c for a, c in zip(Y[i], Y[p])]
            if len(row) != len(exp) or any(abs(a - e) > 1e-5 for a, e in zip(row, exp)):
                return (f"sample {i}: label {row} is not {lam:.4f}*y_{i} + {1 - lam:.4f}*y_{p} = {exp} "
                        f"(image uses partner {p} and weight {lam:.4f})")
            if onehot and (abs(sum(row) - 1.0) > 1e-5 or min(row) < 0.0):
                return f"sample {i}: label row {row} is not a probability vector"
            if obs["lab_ndim"] != (2 if onehot else 1):
                return "label tensor changed its number of dimensions"
    return None


# ---------------------------------------------------------------------------
# rendering for Coq
# ---------------------------------------------------------------------------
def q(x):
    f = Fraction(x)
    n, d = f.numerator, f.denominator
    return Raw(f"(({n}) # {d})" if n < 0 else f"({n} # {d})")


def tok(t):
    return {"x": Raw("TX"), "class": Raw("TClass"), "index": Raw("TIndex")}.get(t) or C("TOther", Nat(int(t[3:])))


def draw(d):
    k = d[0]
    if k == "unit":
        return C("DUnit", q(d[1]))
    if k == "units":
        return C("DUnits", [q(v) for v in d[1]])
    if k == "beta":
        return C("DBeta", q(d[1]), q(d[2]))
    if k == "betas":
        return C("DBetas", q(d[1]), [q(v) for v in d[2]])
    if k == "ints":
        return C("DInts", d[1], list(d[2]))
    return C("DPerm", [Nat(v) for v in d[1]])


def coq_applicable(case, obs):
    if "harness_exception" in obs:
        return False
    if obs["result"] == "ok":
        return obs["layout"] in ("tensor", "tuple")
    return obs["result"] == "AssertionError"


def coq_case(case, obs):
    mode = {"batch": Raw("PerBatch"), "sample": Raw("PerSample")}
    cfg = Rec(
        bsz=Nat(case["B"]), img_h=case["H"], img_w=case["W"],
        mixup_p=q(case["mixup_p"] or 0.0), cutmix_p=q(case["cutmix_p"] or 0.0),
        total_p=q((case["mixup_p"] or 0.0) + (case["cutmix_p"] or 0.0)),
        mixup_alpha=Opt(None if case["mixup_alpha"] is None else q(float(case["mixup_alpha"]))),
        cutmix_alpha=Opt(None if case["cutmix_alpha"] is None else q(float(case["cutmix_alpha"]))),
        apply_mode=mode[case["apply_mode"]], lamb_mode=mode[case["lamb_mode"]],
        shuf=Raw({"roll": "Roll", "flip": "Flip", "random": "Random"}[case["shuffle_mode"]]),
        tokens=[tok(t) for t in case["tokens"]],
    )
    halves = [(a, b) for a, b in obs["halves"]]
    tr = [draw(d) for d in obs["trace"]]
    Y = [[q(v) for v in row] for row in label_matrix(case)]
    ok = obs["result"] == "ok"
    if ok:
        batch_in = [C("IOther", [] if o in ("X", "Y") else list(o)) for o in obs["others"]]
        imgs = []
        for s in obs["img"]:
            if s[0] == "U":
                imgs.append(C("OUniform", q(s[1]), q(s[2])))
            elif s[0] == "P":
                imgs.append(C("OPatch", Nat(s[1]), tuple(s[2])))
            else:
                imgs.append(Raw("OOther"))
        labs = Opt([[q(v) for v in row] for row in obs["lab"]]) if "lab" in obs else Raw("None")
        o = Rec(o_imgs=imgs, o_labs=labs, o_apply=obs["apply"], o_cutmix=obs["cutmix"],
                o_lambda=[q(v) for v in obs["lambda"]],
                o_batch=[Raw("BX") if x == "X" else Raw("BY") if x == "Y" else C("BRaw", list(x)) for x in obs["others"]])
    else:
        batch_in = [C("IOther", []) for _ in case["tokens"]]
        o = Rec(o_imgs=[], o_labs=Raw("None"), o_apply=[], o_cutmix=[], o_lambda=[], o_batch=[])
    return coq((cfg, halves, tr, Y, batch_in, Nat(0 if ok else 1), o))


# ---------------------------------------------------------------------------
# cases
# ---------------------------------------------------------------------------
def gen_case(rng, big=False):
    shuffle_mode = rng.choice(["roll", "flip", "random"])
    b = rng.randint(1, 9)
    if shuffle_mode == "flip" and b % 2 == 1 and rng.random() < 0.85:
        b += 1
    hi = 17 if big else 9
    mp, cp = rng.choice(PROBS)
    assert mp + cp == 1.0
    case = {
        "B": b, "C": rng.randint(1, 3), "H": rng.randint(4, hi), "W": rng.randint(4, hi),
        "mixup_p": mp if (mp > 0 or rng.random() < 0.5) else None,
        "cutmix_p": cp if (cp > 0 or rng.random() < 0.5) else None,
        "mixup_alpha": rng.choice(ALPHAS) if mp > 0 else None,
        "cutmix_alpha": rng.choice(ALPHAS) if cp > 0 else None,
        "apply_mode": rng.choice(["batch", "sample"]),
        "lamb_mode": rng.choice(["batch", "sample", "sample"]),
        "shuffle_mode": shuffle_mode,
        "rng": [rng.choice(["numpy", "numpy", "script"]), rng.randrange(10 ** 6)],
    }
    case["mixup_p"] = case["mixup_p"]
    toks = ["x"]
    if rng.random() < 0.9:
        toks.append("class")
    if rng.random() < 0.4:
        toks.append("index")
    for k in range(rng.choice([0, 0, 0, 1, 2])):
        toks.append(f"aux{k}")
    rng.shuffle(toks)
    case["tokens"] = toks
    kind = rng.choice(["onehot_id", "onehot_id", "onehot_id", "onehot_rand", "binary", "binary_int"])
    if kind == "onehot_id":
        case["ncls"] = max(2, b + rng.choice([0, 0, 1, 3]))
        vals = list(range(b))
    elif kind == "onehot_rand":
        case["ncls"] = rng.randint(2, 6)
        vals = [rng.randrange(case["ncls"]) for _ in range(b)]
    elif kind == "binary":
        case["ncls"] = 0
        vals = [rng.randint(0, 16) for _ in range(b)]
    else:
        case["ncls"] = 0
        vals = [rng.randint(0, 1) for _ in range(b)]
    case["labels"] = [kind, vals]
    # the constructor's view of the probabilities
    case["mixup_p"] = case["mixup_p"] if case["mixup_p"] is not None else None
    return case


def _norm(case):
    """cutmix_p / mixup_p None are passed as None to the ctor; keep floats for the Coq side"""
    return case


def gen_cases(rng, tier):
    n = 900 if tier == "quick" else 7000
    out = [gen_case(rng) for _ in range(n)]
    out += [gen_case(rng, big=True) for _ in range(100 if tier == "quick" else 1500)]
    return out


def search_cases(rng, tier):
    for _ in range(30000):
        yield gen_case(rng, big=rng.random() < 0.3)


def shrink(case):
    b = case["B"]
    kind, vals = case["labels"]
    step = 2 if case["shuffle_mode"] == "flip" else 1
    if b - step >= 1:
        c = dict(case, B=b - step, labels=[kind, vals[:b - step]])
        yield c
    for k in ("H", "W"):
        if case[k] > 4:
            yield dict(case, **{k: case[k] - 1})
            yield dict(case, **{k: 4})
    if case["C"] > 1:
        yield dict(case, C=1)
    for t in case["tokens"]:
        if t not in ("x", "class"):
            yield dict(case, tokens=[u for u in case["tokens"] if u != t])
    if case["apply_mode"] != "batch":
        yield dict(case, apply_mode="batch")
    if case["rng"][1] > 20:
        for s in range(5):
            yield dict(case, rng=[case["rng"][0], s])


def features(case, obs):
    yield "B=%d" % case["B"]
    yield "shuffle=" + case["shuffle_mode"]
    yield "lamb_mode=" + case["lamb_mode"]
    yield "apply_mode=" + case["apply_mode"]
    yield "p=%s/%s" % (case["mixup_p"], case["cutmix_p"])
    yield "labels=" + case["labels"][0]
    yield "rng=" + case["rng"][0]
    yield "tokens=%d%s" % (len(case["tokens"]), "" if "class" in case["tokens"] else " (no class)")
    yield "result=" + obs.get("result", "harness_exception")[:30]
    for s in obs.get("img", []):
        yield "img=" + s[0]
    if obs.get("cutmix") and len(set(obs["cutmix"])) == 2:
        yield "mixed mixup+cutmix in one batch"
    for d in obs.get("trace", []):
        if d[0] in ("beta", "betas"):
            vals = [d[2]] if d[0] == "beta" else d[2]
            if any(v in (0.0, 1.0) for v in vals):
                yield "lambda draw exactly 0 or 1"


def nontrivial_key(case, obs):
    if obs.get("result") != "ok" or case["B"] < 2:
        return None
    return (case["B"], case["H"], case["W"], case["apply_mode"], case["lamb_mode"], case["shuffle_mode"],
            case["mixup_p"], case["cutmix_p"], tuple(case["tokens"]), case["labels"][0], tuple(obs.get("cutmix", [])))
