(* C14 — executable comparison of what the real transforms did (recorded draws,
   parameters found in ctx / in the spied torchvision.functional calls, outputs on
   id-encoded inputs) with the model and with the spec.  Used by harness/c14.py.

   check : case_t -> nat
     0   implementation, model and spec agree
     1   the model differs from the implementation (DRIFT)
     2   the spec is false of what the implementation produced (BAD)
     3   an oracle value violates the contract the theorems assume (BAD: the proof no longer applies) *)
From Coq Require Import ZArith List Bool QArith.
Import ListNotations.
From KD Require Import C14.Model C14.Spec.
Open Scope Z_scope.

(* ---- equality tests ---- *)
Fixpoint list_eqb {A} (eq : A -> A -> bool) (a b : list A) : bool :=
  match a, b with
  | [], [] => true
  | x :: a', y :: b' => eq x y && list_eqb eq a' b'
  | _, _ => false
  end.
Definition rect_eqb (a b : rect) : bool :=
  let '(i, j, h, w) := a in let '(i', j', h', w') := b in (i =? i') && (j =? j') && (h =? h') && (w =? w').
Definition geom_eqb (a b : geom) : bool :=
  match a, b with
  | GPad p, GPad q => rect_eqb p q
  | GCrop p, GCrop q => rect_eqb p q
  | GResize a b m1 m2, GResize c d m3 m4 => (a =? c) && (b =? d) && list_eqb Z.eqb m1 m3 && list_eqb Z.eqb m2 m4
  | GFlip, GFlip | GId, GId => true
  | _, _ => false
  end.

(* result code of the model: 0 = returned, 1..5 = the explicit error, 100 = the recorded draws do not fit *)
Definition code_of {A} (r : res A) : nat :=
  match r with Ok _ => 0 | Reject c => c | Mismatch => 100 end%nat.

(* compare a model result with the implementation's (code, output) *)
Definition agree {A} (eq : A -> A -> bool) (m : res A) (code : nat) (out : A) : bool :=
  match m with
  | Ok a => Nat.eqb code 0 && eq a out
  | Reject c => Nat.eqb code c
  | Mismatch => false
  end.

Definition range (n : Z) : list Z := map Z.of_nat (seq 0 (Z.to_nat n)).

(* ---- the cases ---- *)
Inductive case_t :=
| KCrop (c : crop_cfg) (H W : Z) (ds : list draw) (code : nat) (Hp Wp : Z) (p : rect)
| KSimple (size : Z + Z * Z) (c : crop_cfg) (H W : Z) (ds : list draw) (code : nat) (H1 W1 Hp Wp : Z) (p : rect)
| KTwo (c : crop_cfg) (tries : Z) (omin omax : qz) (H W : Z) (ds : list draw) (code : nat)
       (Hp Wp : Z) (p0 p1 : rect) (oot : bool)
| KRrc (H W : Z) (rmin rmax : qz) (cands : list (Z * Z)) (ds : list draw) (fb : fb_branch) (r : Z)
       (code : nat) (p : rect)
| KErase (apply : bool) (minc maxc H W : Z) (cands : list (Z * Z)) (ds : list draw) (code : nat) (rects : list rect)
| KSpec (tm fm : option Z) (st sf : Z) (vals : list (Q * Q * Q)) (code : nat) (rows cols : list Z)
| KSemseg (ops : list sop) (H W : Z) (ds : list draw) (code : nat) (gs : list geom) (oh ow : Z)
          (pix : option (list Z * list Z))
| KMulti (ch cw H W : Z) (code : nat) (wins : list rect)
| KPatch (ph pw C H W : Z) (perm : list Z) (code : nat) (lh lw : Z) (inv : list Z) (out : list Z)
| KPatch5 (ph pw C H W : Z) (code : nat) (out : list Z)
| KPatchwise (ph pw C H W : Z) (code : nat) (out : list Z)
| KNorm (range_norm_p : bool) (entries : list (Q * Q * Q * Q * Q)).

Definition crop_spec (th tw Hp Wp : Z) (p : rect) : bool := in_boundsb Hp Wp p && has_sizeb th tw p.

Definition overlap_okb (omin omax : qz) (p0 p1 : rect) : bool :=
  let '(inter, union) := overlap_parts p0 p1 in
  qz_le omin (inter, union) && qz_le (inter, union) omax.

(* mask of one axis as the list of masked indices *)
Definition mask_list (size : Z) (m : option (Z * Z)) : list Z := filter (masked size m) (range size).

Definition spec_axis_ok (size : Z) (pm : option Z) (idx : list Z) : bool :=
  match pm with
  | None => match idx with [] => true | _ => false end
  | Some P =>
      (* contiguous, inside the axis, shorter than the parameter *)
      match idx with
      | [] => true
      | a :: _ => list_eqb Z.eqb idx (map (fun k => a + k) (range (Z.of_nat (length idx))))
                  && (0 <=? a) && (a + Z.of_nat (length idx) <=? size) && (Z.of_nat (length idx) <? P)
      end
  end.

(* the float32 product u * P is strictly below P (Proofs.fl32_product_below_param) *)
Definition below (P : Z) (v : Q) : bool := negb (Qle_bool (inject_Z P) v).

Definition spec_contracts (tm fm : option Z) (st sf : Z) (vals : list (Q * Q * Q)) : bool :=
  let need := fun (pm : option Z) => match pm with Some P => negb (P <? 1) | None => false end in
  match need tm, need fm, vals with
  | true, true, [(v1, y1, m1); (v2, y2, m2)] =>
      match tm, fm with
      | Some P1, Some P2 => specaug_contractb st P1 v1 y1 m1 && specaug_contractb sf P2 v2 y2 m2
                            && below P1 v1 && below P2 v2
      | _, _ => false end
  | true, false, [(v1, y1, m1)] => match tm with Some P1 => specaug_contractb st P1 v1 y1 m1 && below P1 v1 | None => false end
  | false, true, [(v2, y2, m2)] => match fm with Some P2 => specaug_contractb sf P2 v2 y2 m2 && below P2 v2 | None => false end
  | false, false, [] => true
  | _, _, _ => false
  end.

Definition pix_of (W0 : Z) (im : gimg) : list Z :=
  flat_map (fun y => map (fun x => match gsrc im y x with Some (a, b) => a * W0 + b | None => -1 end) (range (gw im)))
           (range (gh im)).

(* id-encoded tensors *)
Definition idt (H W : Z) : t3 Z := fun c y x => (c * H + y) * W + x.
Definition of_list4 (L ph pw : Z) (l : list Z) : t4 Z :=
  fun c i p q => nth (Z.to_nat (((c * L + i) * ph + p) * pw + q)) l (-7).
Definition of_list5 (lh lw ph pw : Z) (l : list Z) : t5 Z :=
  fun c a b p q => nth (Z.to_nat ((((c * lh + a) * lw + b) * ph + p) * pw + q)) l (-7).
Definition to_list4 (C L ph pw : Z) (u : t4 Z) : list Z :=
  flat_map (fun c => flat_map (fun i => flat_map (fun p => map (fun q => u c i p q) (range pw)) (range ph)) (range L)) (range C).
Definition to_list5 (C lh lw ph pw : Z) (u : t5 Z) : list Z :=
  flat_map (fun c => flat_map (fun a => flat_map (fun b => flat_map (fun p => map (fun q => u c a b p q) (range pw))
           (range ph)) (range lw)) (range lh)) (range C).
Definition to_list3 (C H W : Z) (t : t3 Z) : list Z :=
  flat_map (fun c => flat_map (fun y => map (fun x => t c y x) (range W)) (range H)) (range C).

Definition is_permb (perm : list Z) : bool :=
  forallb (fun l => existsb (Z.eqb l) perm) (range (Z.of_nat (length perm))).

Definition Qabs' (q : Q) : Q := if Qle_bool 0 q then q else Qopp q.
(* |a - b| <= 2e-6 * (1 + scale): float32 results against exact rationals *)
Definition q_close (a b scale : Q) : bool :=
  Qle_bool (Qabs' (a - b)) ((1 # 500000) * (1 + scale)).

Definition check (t : case_t) : nat :=
  match t with
  | KCrop c H W ds code Hp Wp p =>
      if Nat.eqb code 0 && negb (crop_spec (c_th c) (c_tw c) Hp Wp p && forallb draw_okb ds) then 2%nat else
      if agree (fun a b => let '(h, w, r) := a in let '(h', w', r') := b in (h =? h') && (w =? w') && rect_eqb r r')
               (random_crop c H W ds) code (Hp, Wp, p) then 0%nat else 1%nat
  | KSimple size c H W ds code H1 W1 Hp Wp p =>
      if Nat.eqb code 0 && negb (crop_spec (c_th c) (c_tw c) Hp Wp p && forallb draw_okb ds) then 2%nat else
      if agree (fun a b => let '(a1, a2, (h, w, r)) := a in let '(b1, b2, (h', w', r')) := b in
                           (a1 =? b1) && (a2 =? b2) && (h =? h') && (w =? w') && rect_eqb r r')
               (simple_random_crop size c H W ds) code (H1, W1, (Hp, Wp, p)) then 0%nat else 1%nat
  | KTwo c tries omin omax H W ds code Hp Wp p0 p1 oot =>
      if Nat.eqb code 0 && negb (crop_spec (c_th c) (c_tw c) Hp Wp p0 && crop_spec (c_th c) (c_tw c) Hp Wp p1
                                 && forallb draw_okb ds && (oot || overlap_okb omin omax p0 p1)) then 2%nat else
      match two_random_crop c tries omin omax H W ds with
      | Ok (h, w, o) =>
          if Nat.eqb code 0 && (h =? Hp) && (w =? Wp) && rect_eqb (t_p0 o) p0 && rect_eqb (t_p1 o) p1
             && Bool.eqb (t_oot o) oot then 0%nat else 1%nat
      | Reject k => if Nat.eqb code k then 0%nat else 1%nat
      | Mismatch => 1%nat
      end
  | KRrc H W rmin rmax cands ds fb r code p =>
      if negb (fb_contractb H W rmin rmax fb r) then 3%nat else
      if Nat.eqb code 0 && negb (in_boundsb H W p && forallb draw_okb ds) then 2%nat else
      if agree rect_eqb (rrc H W cands ds fb r) code p then 0%nat else 1%nat
  | KErase apply minc maxc H W cands ds code rects =>
      if negb (forallb (fun c => (0 <=? fst c) && (0 <=? snd c)) cands) then 3%nat else
      if Nat.eqb code 0 && negb (forallb (erase_okb H W) rects && forallb draw_okb ds) then 2%nat else
      if agree (list_eqb rect_eqb) (erasing apply minc maxc H W cands ds) code rects then 0%nat else 1%nat
  | KSpec tm fm st sf vals code rows cols =>
      if negb (spec_contracts tm fm st sf vals) then 3%nat else
      if Nat.eqb code 0 && negb (spec_axis_ok st tm rows && spec_axis_ok sf fm cols) then 2%nat else
      match spec_augment tm fm (map (fun '(v, _, m) => (v, m)) vals) with
      | Ok (a, b) => if Nat.eqb code 0 && list_eqb Z.eqb (mask_list st a) rows && list_eqb Z.eqb (mask_list sf b) cols
                     then 0%nat else 1%nat
      | Reject k => if Nat.eqb code k then 0%nat else 1%nat
      | Mismatch => 1%nat
      end
  | KSemseg ops H W ds code gs oh ow pix =>
      if Nat.eqb code 0 && negb (geoms_okb gs (H, W) && forallb draw_okb ds
                                 && match pix with Some (px, ps) => list_eqb Z.eqb px ps | None => true end)
      then 2%nat else
      match semseg_run ops (gimg_id H W) (gimg_id H W) ds with
      | Ok (gs', x', seg') =>
          if Nat.eqb code 0 && list_eqb geom_eqb gs' gs && (gh x' =? oh) && (gw x' =? ow)
             && (gh seg' =? oh) && (gw seg' =? ow)
             && match pix with
                | Some (px, ps) => list_eqb Z.eqb (pix_of W x') px && list_eqb Z.eqb (pix_of W seg') ps
                | None => true end
          then 0%nat else 1%nat
      | Reject k => if Nat.eqb code k then 0%nat else 1%nat
      | Mismatch => 1%nat
      end
  | KMulti ch cw H W code wins =>
      if Nat.eqb code 0 && negb (forallb (fun p => in_boundsb H W p && has_sizeb ch cw p) wins) then 2%nat else
      if agree (list_eqb rect_eqb) (multicrop_windows ch cw H W) code wins then 0%nat else 1%nat
  | KPatch ph pw C H W perm code lh lw inv out =>
      match patchify_params ph pw H W with
      | Ok (lh', lw') =>
          if negb (Nat.eqb code 0) then 1%nat else
          if negb (is_permb perm) then 3%nat else
          (* spec on the implementation's output: un-shuffling with the recorded permutation's argsort and
             un-patchifying gives the input back *)
          let u := of_list4 (lh * lw) ph pw out in
          if negb (list_eqb Z.eqb (to_list3 C H W (unpatchify_image ph pw lw (shuffle inv u))) (to_list3 C H W (idt H W)))
          then 2%nat else
          if (lh =? lh') && (lw =? lw') && list_eqb Z.eqb (argsort perm) inv
             && list_eqb Z.eqb (to_list4 C (lh * lw) ph pw (shuffle perm (patchify_image ph pw lw (idt H W)))) out
          then 0%nat else 1%nat
      | Reject k => if Nat.eqb code k then 0%nat else 1%nat
      | Mismatch => 1%nat
      end
  | KPatch5 ph pw C H W code out =>
      match patchify_params ph pw H W with
      | Ok (lh, lw) =>
          if negb (Nat.eqb code 0) then 1%nat else
          let u := of_list5 lh lw ph pw out in
          if negb (list_eqb Z.eqb (to_list3 C H W (unpatchify ph pw u)) (to_list3 C H W (idt H W))) then 2%nat else
          if list_eqb Z.eqb (to_list5 C lh lw ph pw (patchify ph pw (idt H W))) out then 0%nat else 1%nat
      | Reject k => if Nat.eqb code k then 0%nat else 1%nat
      | Mismatch => 1%nat
      end
  | KPatchwise ph pw C H W code out =>
      (* the wrapped transform of the correspondence run: call number l flips its patch horizontally and adds 1000 * l *)
      match patchify_params ph pw H W with
      | Ok (lh, lw) =>
          if negb (Nat.eqb code 0) then 1%nat else
          let f := fun (l : Z) (u : p3 Z) => fun c p q => u c p (pw - 1 - q) + 1000 * l in
          if list_eqb Z.eqb (to_list3 C H W (patchwise ph pw lw f (idt H W))) out then 0%nat else 1%nat
      | Reject k => if Nat.eqb code k then 0%nat else 1%nat
      | Mismatch => 1%nat
      end
  | KNorm rg entries =>
      (* entry = mean, std, x, normalised x as the implementation returned it, denormalised again *)
      (* float32 conditioning: the way back carries eps * (|x| + |m|), the normalised value eps * (|x| + |m|) / |s| *)
      if negb (forallb (fun '(m, s, x, y, back) => q_close back x (Qabs' x + Qabs' m)) entries) then 2%nat else
      if forallb (fun '(m, s, x, y, back) =>
                    let n := if rg then range_norm x else kd_norm m s x in
                    let d := if rg then range_denorm n else kd_denorm m s n in
                    q_close y n ((Qabs' x + Qabs' m) / Qabs' s) && Qeq_bool d x) entries
      then 0%nat else 1%nat
  end.
