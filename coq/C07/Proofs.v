(* Proofs about the generic generator-plumbing theory (RngGraph.v). *)
From Coq Require Import ZArith List Bool String Lia.
Import ListNotations.
From KD Require Import C07.RngGraph.
Open Scope string_scope.

(* ---------------------------------------------------------------- *)
(* nested induction over object trees (any depth, any width)          *)
(* ---------------------------------------------------------------- *)
Section TreeInd.
  Variable P : tree -> Prop.
  Hypothesis H : forall c s kids, Forall (fun fk : string * list tree => Forall P (snd fk)) kids -> P (Node c s kids).

  Fixpoint tree_ind' (t : tree) : P t :=
    match t with
    | Node c s kids =>
        H c s kids
          ((fix go (l : list (string * list tree)) : Forall (fun fk : string * list tree => Forall P (snd fk)) l :=
              match l with
              | [] => Forall_nil _
              | fk :: l' =>
                  Forall_cons fk
                    ((fix go2 (ts : list tree) : Forall P ts :=
                        match ts with
                        | [] => Forall_nil _
                        | t' :: ts' => Forall_cons t' (tree_ind' t') (go2 ts')
                        end) (snd fk))
                    (go l')
              end) kids)
    end.
End TreeInd.

(* ---------------------------------------------------------------- *)
(* small facts                                                        *)
(* ---------------------------------------------------------------- *)
Lemma mem_In : forall x l, mem x l = true -> In x l.
Proof.
  unfold mem. intros x l H. apply existsb_exists in H. destruct H as [y [Hy He]].
  apply String.eqb_eq in He. subst. exact Hy.
Qed.

Lemma lookup_In : forall tbl c d, lookup tbl c = Some d -> In d tbl /\ d_name d = c.
Proof.
  unfold lookup. intros tbl c d H. apply find_some in H. destruct H as [Hin He].
  apply String.eqb_eq in He. split; [exact Hin | symmetry; exact He].
Qed.

Lemma lookup_name_In : forall tbl c d, lookup tbl c = Some d -> In c (map d_name tbl).
Proof.
  intros tbl c d H. apply lookup_In in H. destruct H as [Hin Hn]. subst c. apply in_map. exact Hin.
Qed.

Lemma flat_map_nil : forall {A B} (f : A -> list B) l, (forall x, In x l -> f x = []) -> flat_map f l = [].
Proof.
  induction l as [|a l IH]; simpl; intros Hf; [reflexivity|].
  rewrite (Hf a (or_introl eq_refl)). simpl. apply IH. intros x Hx. apply Hf. right. exact Hx.
Qed.

Lemma quiet_draws_nil : forall tbl t, quiet_cls tbl (cls_of t) = true -> draws tbl t = [].
Proof.
  intros tbl [c s kids]. unfold quiet_cls. simpl.
  destruct (lookup tbl c) as [d|]; [|discriminate].
  unfold quiet. intros Hq. apply andb_prop in Hq. destruct Hq as [Hq Hc]. apply andb_prop in Hq. destruct Hq as [Hs Hg].
  apply negb_true_iff in Hs. rewrite Hs.
  destruct (d_draw_glob d); [|discriminate]. destruct (d_calls d); [|discriminate]. simpl.
  apply flat_map_nil. intros x _. reflexivity.
Qed.

(* the candidates a field can hold include the class of every well-formed child *)
Lemma kid_is_candidate : forall tbl cs k,
    (is_nil cs || mem (cls_of k) cs) && wf tbl k = true ->
    In (cls_of k) (if is_nil cs then map d_name tbl else cs) /\ wf tbl k = true.
Proof.
  intros tbl cs k H. apply andb_prop in H. destruct H as [Hc Hw]. split; [|exact Hw].
  destruct cs as [|c0 cs'].
  - simpl. destruct k as [c s kids]. simpl in *. destruct (lookup tbl c) as [d|] eqn:E; [|discriminate].
    eapply lookup_name_In. exact E.
  - cbn [is_nil orb] in Hc. cbn [is_nil]. apply mem_In. exact Hc.
Qed.

(* injecting p into the admitted members of a field leaves only p as a draw source,
   given the induction hypothesis for the members *)
Definition inject_members (tbl : table) (og : option guard) (p : prov) (ts : list tree) : list tree :=
  match og with
  | None => ts
  | Some g => map (fun k => if admits tbl g (cls_of k) then set_rng tbl p k else k) ts
  end.

Definition members_ok (tbl : table) (cs : list string) (og : option guard) : bool :=
  let candidates := if is_nil cs then map d_name tbl else cs in
  match og with
  | Some g => forallb (fun c => quiet_cls tbl c || admits tbl g c) candidates
  | None => forallb (quiet_cls tbl) candidates
  end.

Lemma injected_members_draws : forall tbl p cs og ts,
    members_ok tbl cs og = true ->
    forallb (fun k => (is_nil cs || mem (cls_of k) cs) && wf tbl k) ts = true ->
    Forall (fun k => wf tbl k = true -> forall p q, In q (draws tbl (set_rng tbl p k)) -> q = p) ts ->
    forall q, In q (flat_map (draws tbl) (inject_members tbl og p ts)) -> q = p.
Proof.
  intros tbl p cs og ts Hok Hwf IH q Hq. unfold members_ok in Hok. unfold inject_members in Hq.
  rewrite forallb_forall in Hwf. rewrite Forall_forall in IH.
  apply in_flat_map in Hq. destruct Hq as [k' [Hk' Hq]].
  destruct og as [g|].
  - apply in_map_iff in Hk'. destruct Hk' as [k [Ek Hk]]. subst k'.
    destruct (kid_is_candidate tbl cs k (Hwf k Hk)) as [Hcand Hwk].
    rewrite forallb_forall in Hok. specialize (Hok _ Hcand).
    destruct (admits tbl g (cls_of k)) eqn:Ea.
    + eapply IH; eauto.
    + rewrite orb_false_r in Hok. rewrite (quiet_draws_nil _ _ Hok) in Hq. destruct Hq.
  - destruct (kid_is_candidate tbl cs k' (Hwf k' Hk')) as [Hcand Hwk].
    rewrite forallb_forall in Hok. specialize (Hok _ Hcand).
    rewrite (quiet_draws_nil _ _ Hok) in Hq. destruct Hq.
Qed.

(* ---------------------------------------------------------------- *)
(* C07: a closed table makes every tree deterministic after injection *)
(* ---------------------------------------------------------------- *)
Theorem closed_table_deterministic_proof : forall tbl,
    forallb (closed tbl) tbl = true ->
    forall t, wf tbl t = true ->
    forall p q, In q (draws tbl (set_rng tbl p t)) -> q = p.
Proof.
  intros tbl Hclosed t. induction t as [c s kids IH] using tree_ind'.
  intros Hwf p q Hq. simpl in Hwf. simpl in Hq.
  destruct (lookup tbl c) as [d|] eqn:El; [|discriminate].
  simpl in Hq. rewrite El in Hq.
  destruct (lookup_In _ _ _ El) as [Hd _].
  rewrite forallb_forall in Hclosed. specialize (Hclosed d Hd).
  unfold closed in Hclosed. apply andb_prop in Hclosed. destruct Hclosed as [Hcl Hfields].
  apply andb_prop in Hcl. destruct Hcl as [Hglob Hself].
  apply in_app_or in Hq. destruct Hq as [Hq|Hq].
  - destruct (d_draw_self d) eqn:Eds; [|destruct Hq].
    simpl in Hself. rewrite Hself in Hq. simpl in Hq. destruct Hq as [Hq|[]]. symmetry. exact Hq.
  - apply in_app_or in Hq. destruct Hq as [Hq|Hq].
    + destruct (d_draw_glob d); [destruct Hq|discriminate].
    + apply in_flat_map in Hq. destruct Hq as [fk' [Hfk' Hq]].
      apply in_map_iff in Hfk'. destruct Hfk' as [fk [Efk Hfk]].
      rewrite forallb_forall in Hwf. specialize (Hwf fk Hfk).
      rewrite Forall_forall in IH. specialize (IH fk Hfk).
      assert (E' : fk' = (fst fk, inject_members tbl (assoc (fst fk) (d_set_fwd d)) p (snd fk))).
      { subst fk'. unfold inject_members. destruct (assoc (fst fk) (d_set_fwd d)); [reflexivity|].
        destruct fk; reflexivity. }
      clear Efk. subst fk'. cbn [fst snd] in Hq.
      destruct (mem (fst fk) (d_calls d)) eqn:Ecall; [|destruct Hq].
      apply mem_In in Ecall. rewrite forallb_forall in Hfields. specialize (Hfields _ Ecall).
      unfold field_ok in Hfields.
      destruct (assoc (fst fk) (d_fields d)) as [cs|] eqn:Efld; [|discriminate].
      eapply (injected_members_draws tbl p cs (assoc (fst fk) (d_set_fwd d)) (snd fk)); eauto.
Qed.

(* set_rng does not change the shape, so well-formedness is preserved *)
Lemma cls_of_set_rng : forall tbl p t, cls_of (set_rng tbl p t) = cls_of t.
Proof. intros tbl p [c s kids]. simpl. destruct (lookup tbl c); reflexivity. Qed.

Lemma wf_set_rng : forall tbl p t, wf tbl t = true -> wf tbl (set_rng tbl p t) = true.
Proof.
  intros tbl p t. induction t as [c s kids IH] using tree_ind'. intros Hwf.
  simpl in *. destruct (lookup tbl c) as [d|] eqn:El; [|discriminate]. simpl. rewrite El.
  rewrite forallb_forall in *. intros fk' Hfk'.
  apply in_map_iff in Hfk'. destruct Hfk' as [fk [Efk Hfk]].
  specialize (Hwf fk Hfk). rewrite Forall_forall in IH. specialize (IH fk Hfk).
  destruct (assoc (fst fk) (d_set_fwd d)) as [g|]; subst fk'; [|exact Hwf].
  simpl. destruct (assoc (fst fk) (d_fields d)) as [cs|]; [|discriminate].
  rewrite forallb_forall in *. intros k' Hk'.
  apply in_map_iff in Hk'. destruct Hk' as [k [Ek Hk]].
  specialize (Hwf k Hk). rewrite Forall_forall in IH. specialize (IH k Hk).
  apply andb_prop in Hwf. destruct Hwf as [Hc Hw].
  subst k'. destruct (admits tbl g (cls_of k)).
  - rewrite cls_of_set_rng. rewrite Hc. simpl. apply IH. exact Hw.
  - rewrite Hc. exact Hw.
Qed.

Theorem reinject_replays_proof : forall tbl,
    forallb (closed tbl) tbl = true ->
    forall t, wf tbl t = true ->
    forall p0 p q, In q (draws tbl (set_rng tbl p (set_rng tbl p0 t))) -> q = p.
Proof.
  intros tbl Hc t Hwf p0 p q Hq.
  eapply (closed_table_deterministic_proof tbl Hc (set_rng tbl p0 t)); [apply wf_set_rng; exact Hwf | exact Hq].
Qed.


(* ---------------------------------------------------------------- *)
(* from "no open class" (what vm_compute shows on the generated table) to closedness *)
(* ---------------------------------------------------------------- *)
Lemma filter_negb_nil_forallb : forall {A} (f : A -> bool) l, filter (fun x => negb (f x)) l = [] -> forallb f l = true.
Proof.
  induction l as [|a l IH]; simpl; intros H; [reflexivity|].
  destruct (f a); simpl in *; [apply IH; exact H | discriminate].
Qed.

Lemma open_nil_closed : forall tbl, open_classes tbl = [] -> forallb (closed tbl) tbl = true.
Proof.
  unfold open_classes. intros tbl H. apply filter_negb_nil_forallb.
  destruct (filter (fun d => negb (closed tbl d)) tbl); [reflexivity|discriminate].
Qed.

Corollary no_foreign_source_proof : forall tbl,
    forallb (closed tbl) tbl = true ->
    forall t, wf tbl t = true ->
    forall s q, In q (draws tbl (set_rng tbl (Inj s) t)) ->
                (forall g, q <> Glob g) /\ (forall k, q <> Ctor k) /\ (forall k, q <> Wrk k) /\ (forall s', q = Inj s' -> s' = s).
Proof.
  intros tbl Hc t Hwf s q Hq.
  rewrite (closed_table_deterministic_proof tbl Hc t Hwf (Inj s) q Hq).
  repeat split; try (intros; discriminate). intros s' E. injection E. auto.
Qed.
