(* Proofs for property C01 (ModeWrapper): the constructor's fused plan fills every position of the mode
   with the right loader, __getitem__ delivers position by position what those loader calls return on a
   fresh ctx, Python sequence semantics of the index forms, laws of the static helpers. *)
From Coq Require Import ZArith List Bool String Ascii Lia Arith.
Import ListNotations.
From KD Require Import C01.Model C01.Spec C01.Check.
Local Open Scope nat_scope.
Local Notation length := List.length.

(* ------------------------------------------------------------------ *)
(* lists                                                               *)
(* ------------------------------------------------------------------ *)
Lemma set_nth_length : forall A n (v : A) l, length (set_nth n v l) = length l.
Proof. intros A n v l; revert n; induction l; destruct n; simpl; auto. Qed.

Lemma nth_error_set_nth_eq : forall A n (v : A) l, n < length l -> nth_error (set_nth n v l) n = Some v.
Proof.
  intros A n v l; revert n; induction l; intros n H; simpl in *; [lia|].
  destruct n; simpl; auto. apply IHl; lia.
Qed.

Lemma nth_error_set_nth_neq : forall A n (v : A) l q, q <> n -> nth_error (set_nth n v l) q = nth_error l q.
Proof.
  intros A n v l; revert n; induction l; intros n q H; simpl.
  - destruct n; reflexivity.
  - destruct n; destruct q; simpl; auto; try congruence.
Qed.

Lemma nth_error_nth' : forall A (l : list A) n d x, nth_error l n = Some x -> nth n l d = x.
Proof. intros A l; induction l; destruct n; simpl; intros; try discriminate; [congruence|eauto]. Qed.

Lemma nth_error_None_nth : forall A (l : list A) n d, nth_error l n = None -> nth n l d = d.
Proof. intros A l; induction l; destruct n; simpl; intros; try discriminate; eauto. Qed.

Lemma oeqb_eq : forall a b, oeqb a b = true <-> a = b.
Proof.
  intros [a|] [b|]; simpl; split; intro H; try discriminate; try reflexivity.
  - apply String.eqb_eq in H; congruence.
  - inversion H; apply String.eqb_refl.
Qed.

Lemma oeqb_neq : forall a b, oeqb a b = false <-> a <> b.
Proof.
  intros a b; split; intro H.
  - intro E; apply oeqb_eq in E; congruence.
  - destruct (oeqb a b) eqn:E; auto. apply oeqb_eq in E; contradiction.
Qed.

Lemma mem_nth : forall x l, mem oeqb x l = true <-> exists q, nth_error l q = Some x.
Proof.
  intros x l; unfold mem; rewrite existsb_exists; split.
  - intros [y [Hin E]]. apply oeqb_eq in E; subst y. apply In_nth_error in Hin; auto.
  - intros [q H]. exists x; split; [eapply nth_error_In; eauto | apply oeqb_eq; auto].
Qed.

Lemma index_of_spec : forall x l i, index_of oeqb x l = Some i ->
  nth_error l i = Some x /\ forall j, j < i -> nth_error l j <> Some x.
Proof.
  intros x l; induction l as [|y r IH]; intros i H; simpl in H; [discriminate|].
  destruct (oeqb x y) eqn:E.
  - inversion H; subst. apply oeqb_eq in E; subst. split; [reflexivity | intros; lia].
  - destruct (index_of oeqb x r) eqn:Er; simpl in H; [|discriminate]. inversion H; subst.
    destruct (IH n eq_refl) as [H1 H2]. split; [exact H1|].
    intros j Hj. destruct j; simpl.
    + intro Ej; inversion Ej; subst. apply oeqb_neq in E; congruence.
    + apply H2; lia.
Qed.

Lemma index_of_first : forall x l i, nth_error l i = Some x -> (forall j, j < i -> nth_error l j <> Some x) ->
  index_of oeqb x l = Some i.
Proof.
  intros x l; induction l as [|y r IH]; intros i H Hf; [destruct i; discriminate|].
  simpl. destruct i; simpl in H.
  - inversion H; subst. replace (oeqb x x) with true; auto. symmetry; apply oeqb_eq; auto.
  - destruct (oeqb x y) eqn:E.
    + apply oeqb_eq in E; subst. exfalso. apply (Hf 0); [lia | reflexivity].
    + rewrite (IH i H); auto. intros j Hj. apply (Hf (S j)); lia.
Qed.

Lemma mem_index_of : forall x l, mem oeqb x l = true -> exists i, index_of oeqb x l = Some i.
Proof.
  intros x l; induction l as [|y r IH]; simpl; intro H; [discriminate|].
  destruct (oeqb x y) eqn:E; simpl in H; [eauto|].
  destruct (IH H) as [i Hi]. rewrite Hi. simpl; eauto.
Qed.

Lemma index_of_set_nth_other : forall x l n old v,
  nth_error l n = Some old -> oeqb x old = false -> oeqb x v = false ->
  index_of oeqb x (set_nth n v l) = index_of oeqb x l.
Proof.
  intros x l; induction l as [|y r IH]; intros n old v H E1 E2; [destruct n; discriminate|].
  destruct n; simpl in *.
  - inversion H; subst. rewrite E1, E2. reflexivity.
  - destruct (oeqb x y); auto. erewrite IH; eauto.
Qed.

(* ------------------------------------------------------------------ *)
(* the constructor's fused-group detection                             *)
(* ------------------------------------------------------------------ *)
Lemma consume_ok : forall g temp,
  NoDup g -> (forall op, In op g -> mem oeqb (Some op) temp = true) ->
  exists temp' idxs, consume g temp = Some (temp', idxs) /\
    Forall2 (fun idx op => nth_error temp idx = Some (Some op) /\ index_of oeqb (Some op) temp = Some idx) idxs g /\
    length temp' = length temp /\
    (forall q, nth_error temp' q = if existsb (Nat.eqb q) idxs then
                                     (if q <? length temp then Some None else None) else nth_error temp q).
Proof.
  induction g as [|op r IH]; intros temp Hnd Hmem; simpl.
  - exists temp, []. repeat split; auto.
  - inversion Hnd as [|? ? Hnotin Hnd']; subst.
    destruct (mem_index_of _ _ (Hmem op (or_introl eq_refl))) as [idx Hidx].
    rewrite Hidx. destruct (index_of_spec _ _ _ Hidx) as [Hn _].
    assert (Hlt : idx < length temp) by (apply nth_error_Some; congruence).
    destruct (IH (set_nth idx None temp) Hnd') as [temp' [idxs [Hc [Hf [Hl Hq]]]]].
    { intros op' Hin. apply mem_nth. destruct (proj1 (mem_nth _ _) (Hmem op' (or_intror Hin))) as [q Hq].
      exists q. rewrite nth_error_set_nth_neq; auto. intro; subst q. rewrite Hn in Hq. inversion Hq; subst. contradiction. }
    rewrite Hc. exists temp', (idx :: idxs). split; [reflexivity|]. split; [|split].
    + constructor; [split; assumption|].
      clear - Hf Hn Hnotin. induction Hf as [|i o li lo [Ha Hb] _ IHf]; constructor.
      * assert (i <> idx). { intro; subst i. rewrite nth_error_set_nth_eq in Ha; [discriminate|]. apply nth_error_Some; congruence. }
        rewrite nth_error_set_nth_neq in Ha; auto. split; auto.
        rewrite <- Hb. symmetry. apply index_of_set_nth_other with (old := Some op); [exact Hn | | reflexivity].
        apply oeqb_neq. intro E; inversion E; subst. apply Hnotin; left; reflexivity.
      * apply IHf. intro Hin. apply Hnotin. right; exact Hin.
    + rewrite Hl. apply set_nth_length.
    + intro q. rewrite Hq. rewrite set_nth_length. simpl.
      destruct (existsb (Nat.eqb q) idxs) eqn:Ee; [rewrite orb_true_r; reflexivity|]. rewrite orb_false_r.
      destruct (Nat.eqb q idx) eqn:Eq.
      * apply Nat.eqb_eq in Eq; subst q. rewrite nth_error_set_nth_eq; auto.
        apply Nat.ltb_lt in Hlt. rewrite Hlt. reflexivity.
      * apply Nat.eqb_neq in Eq. apply nth_error_set_nth_neq; auto.
Qed.

Lemma try_groups_fire : forall groups it temp g, try_groups groups it temp = Fire g ->
  In g groups /\ exists tl, g = it :: tl /\ forallb (fun op => mem oeqb (Some op) temp) tl = true.
Proof.
  induction groups as [|g0 rest IH]; intros it temp g H; simpl in H; [discriminate|].
  destruct g0 as [|h tl]; [discriminate|].
  destruct (String.eqb h it) eqn:E.
  - destruct (forallb (fun op => mem oeqb (Some op) temp) tl) eqn:Ef.
    + inversion H; subst. apply String.eqb_eq in E; subst. split; [left; reflexivity | eauto].
    + destruct (IH _ _ _ H) as [Hin Hx]. split; [right; exact Hin | exact Hx].
  - destruct (IH _ _ _ H) as [Hin Hx]. split; [right; exact Hin | exact Hx].
Qed.

Lemma try_groups_noerr : forall groups it temp, Forall (fun g => g <> []) groups -> try_groups groups it temp <> TryErr.
Proof.
  induction groups as [|g0 rest IH]; intros it temp Hf; simpl; [discriminate|].
  inversion Hf; subst. destruct g0 as [|h tl]; [congruence|].
  destruct (String.eqb h it); [destruct (forallb _ tl); [discriminate|]|]; apply IH; assumption.
Qed.

Lemma try_groups_mono : forall groups it temp temp',
  (forall op, mem oeqb (Some op) temp' = true -> mem oeqb (Some op) temp = true) ->
  try_groups groups it temp = NoFire -> try_groups groups it temp' = NoFire.
Proof.
  induction groups as [|g0 rest IH]; intros it temp temp' Hm H; simpl in *; [reflexivity|].
  destruct g0 as [|h tl]; [discriminate|].
  destruct (String.eqb h it); [|eapply IH; eauto].
  destruct (forallb (fun op => mem oeqb (Some op) temp) tl) eqn:Ef; [discriminate|].
  replace (forallb (fun op => mem oeqb (Some op) temp') tl) with false; [eapply IH; eauto|].
  symmetry. apply not_true_is_false. intro Ht. rewrite forallb_forall in Ht.
  assert (forallb (fun op => mem oeqb (Some op) temp) tl = true); [|congruence].
  apply forallb_forall. intros x Hx. apply Hm. apply Ht. exact Hx.
Qed.

Lemma writers_app : forall p a e, writers p (a ++ [e]) = writers p a ++ (if slot_writes (snd e) p then [e] else []).
Proof. intros. unfold writers. rewrite filter_app. simpl. destruct (slot_writes (snd e) p); reflexivity. Qed.

(* state of the constructor's loop before looking at position i *)
Record inv (groups : list (list string)) (items : list string) (i : nat)
       (temp : list (option string)) (acc : list entry) : Prop := {
  inv_len : length temp = length items;
  inv_sub : forall q s, nth_error temp q = Some (Some s) -> nth_error items q = Some s;
  inv_ok : Forall (entry_ok groups items) acc;
  inv_w : forall q, q < length items ->
      match nth_error temp q with
      | Some (Some s) => writers q acc = if q <? i then [(s, Plain q)] else []
      | Some None => exists name idxs, In q idxs /\
            (writers q acc = [(name, Fused idxs)] \/
             exists s, nth_error items q = Some s /\ writers q acc = [(s, Plain q); (name, Fused idxs)])
      | None => False
      end;
  inv_nofire : forall q s, q < i -> nth_error temp q = Some (Some s) -> try_groups groups s temp = NoFire
}.

Lemma existsb_eqb_In : forall q l, existsb (Nat.eqb q) l = true <-> In q l.
Proof.
  intros q l. rewrite existsb_exists. split.
  - intros [x [Hin E]]. apply Nat.eqb_eq in E; subst; auto.
  - intro H. exists q. split; auto. apply Nat.eqb_refl.
Qed.

Lemma Forall2_In_left : forall {A B} (R : A -> B -> Prop) l1 l2 a,
  Forall2 R l1 l2 -> In a l1 -> exists b, In b l2 /\ R a b.
Proof.
  intros A B R l1 l2 a H; induction H; intros Hin; [destruct Hin|].
  destruct Hin as [<-|Hin]; [exists y; split; [left; reflexivity|assumption]|].
  destruct (IHForall2 Hin) as [b [Hb Hr]]. exists b; split; [right; assumption|assumption].
Qed.

Lemma Forall2_weaken : forall {A B} (R R' : A -> B -> Prop) l1 l2,
  (forall a b, R a b -> R' a b) -> Forall2 R l1 l2 -> Forall2 R' l1 l2.
Proof. intros A B R R' l1 l2 H F; induction F; constructor; auto. Qed.

Lemma fuse_step_inv : forall groups items i temp acc,
  groups_ok groups -> i < length items -> inv groups items i temp acc ->
  exists temp' acc', fuse_step groups (Some (temp, acc)) i = Some (temp', acc') /\ inv groups items (S i) temp' acc'.
Proof.
  intros groups items i temp acc [Hg Hgd] Hi I. destruct I as [Il Is Io Iw In_].
  unfold fuse_step.
  assert (Hti : i < length temp) by lia.
  destruct (nth_error temp i) as [oi|] eqn:Eti; [|apply nth_error_None in Eti; lia].
  rewrite (nth_error_nth' _ _ _ None _ Eti).
  destruct oi as [it|].
  2:{ (* consumed earlier: continue *)
    exists temp, acc. split; [reflexivity|]. constructor; auto.
    - intros q Hq. specialize (Iw q Hq). destruct (nth_error temp q) as [[s|]|] eqn:Eq; auto.
      assert (q <> i) by (intro; subst; congruence).
      rewrite Iw. destruct (q <? i) eqn:E1; destruct (q <? S i) eqn:E2; auto;
        apply Nat.ltb_lt in E2 || apply Nat.ltb_ge in E2; apply Nat.ltb_lt in E1 || apply Nat.ltb_ge in E1; lia.
    - intros q s Hq Hs. apply In_ with q; auto. assert (q <> i) by (intro; subst; congruence). lia. }
  destruct (try_groups groups it temp) eqn:Et.
  - (* else-branch of the for loop: own loader *)
    exists temp, (acc ++ [(it, Plain i)]). split; [reflexivity|]. constructor; auto.
    + apply Forall_app. split; auto. constructor; auto. simpl. apply Is; auto.
    + intros q Hq. specialize (Iw q Hq). rewrite writers_app. simpl.
      destruct (nth_error temp q) as [[s|]|] eqn:Eq; auto.
      * rewrite Iw. destruct (Nat.eqb i q) eqn:E.
        -- apply Nat.eqb_eq in E; subst q. rewrite Eti in Eq; inversion Eq; subst.
           rewrite Nat.ltb_irrefl. replace (i <? S i) with true; [reflexivity|]. symmetry; apply Nat.ltb_lt; lia.
        -- apply Nat.eqb_neq in E. rewrite app_nil_r.
           destruct (q <? i) eqn:E1; destruct (q <? S i) eqn:E2; auto;
             apply Nat.ltb_lt in E2 || apply Nat.ltb_ge in E2; apply Nat.ltb_lt in E1 || apply Nat.ltb_ge in E1; lia.
      * destruct (Nat.eqb i q) eqn:E; [apply Nat.eqb_eq in E; subst; congruence|]. rewrite app_nil_r. exact Iw.
    + intros q s Hq Hs. destruct (Nat.eq_dec q i) as [->|Hne].
      * rewrite Eti in Hs; inversion Hs; subst; auto.
      * apply In_ with q; auto; lia.
  - (* a group fires *)
    destruct (try_groups_fire _ _ _ _ Et) as [Hin [tl [-> Hall]]].
    rewrite Forall_forall in Hg. destruct (Hg _ Hin) as [Hnd _].
    destruct (consume_ok (it :: tl) temp Hnd) as [temp' [idxs [Hc [Hf [Hl Hq]]]]].
    { intros op [<-|Hop]; [apply mem_nth; eauto|]. rewrite forallb_forall in Hall. apply Hall; auto. }
    rewrite Hc. exists temp', (acc ++ [(String.concat "" (it :: tl), Fused idxs)]). split; [reflexivity|].
    (* the group's first op is consumed at position i itself *)
    assert (Hhead : exists idxs', idxs = i :: idxs').
    { inversion Hf as [|i0 o li lo [Ha Hb] Hf']; subst. exists li. f_equal.
      destruct (index_of_spec _ _ _ Hb) as [_ Hfirst].
      destruct (Nat.lt_trichotomy i0 i) as [Hlt|[->|Hgt]]; auto.
      - exfalso. pose proof (In_ i0 it Hlt Ha). congruence.
      - exfalso. apply (Hfirst i); auto. }
    destruct Hhead as [idxs' ->].
    assert (Hmemsub : forall op, mem oeqb (Some op) temp' = true -> mem oeqb (Some op) temp = true).
    { intros op Hm. apply mem_nth in Hm. destruct Hm as [q Hm]. rewrite Hq in Hm.
      destruct (existsb (Nat.eqb q) (i :: idxs')); [destruct (q <? length temp); discriminate|]. apply mem_nth; eauto. }
    constructor.
    + lia.
    + intros q s Hs. rewrite Hq in Hs. destruct (existsb (Nat.eqb q) (i :: idxs'));
        [destruct (q <? length temp); discriminate|]. auto.
    + apply Forall_app. split; auto. constructor; auto. simpl. exists (it :: tl). repeat split; auto.
      eapply Forall2_weaken; [|exact Hf]. simpl. intros a b [Ha _]. apply Is; auto.
    + intros q Hql. specialize (Iw q Hql). rewrite writers_app. cbn [snd slot_writes]. rewrite Hq.
      destruct (existsb (Nat.eqb q) (i :: idxs')) eqn:Ee.
      * assert (Hqin : In q (i :: idxs')) by (apply existsb_eqb_In; auto).
        replace (q <? length temp) with true by (symmetry; apply Nat.ltb_lt; lia).
        exists (String.concat "" (it :: tl)), (i :: idxs'). split; auto.
        (* q held an op of the group until now *)
        destruct (Forall2_In_left _ _ _ _ Hf Hqin) as [op [_ [Hqop _]]].
        rewrite Hqop in Iw. rewrite Iw.
        destruct (q <? i); [right; exists op; split; [apply Is; auto | reflexivity] | left; reflexivity].
      * destruct (nth_error temp q) as [[s|]|] eqn:Eq; auto.
        -- rewrite app_nil_r. rewrite Iw.
           assert (q <> i). { intro; subst q. simpl in Ee. rewrite Nat.eqb_refl in Ee. discriminate. }
           destruct (q <? i) eqn:E1; destruct (q <? S i) eqn:E2; auto;
             apply Nat.ltb_lt in E2 || apply Nat.ltb_ge in E2; apply Nat.ltb_lt in E1 || apply Nat.ltb_ge in E1; lia.
        -- rewrite app_nil_r. exact Iw.
    + intros q s Hqi Hs. rewrite Hq in Hs.
      destruct (existsb (Nat.eqb q) (i :: idxs')) eqn:Ee; [destruct (q <? length temp); discriminate|].
      assert (q <> i). { intro; subst q. simpl in Ee. rewrite Nat.eqb_refl in Ee. discriminate. }
      eapply try_groups_mono; [exact Hmemsub|]. apply In_ with q; auto; lia.
  - exfalso. eapply try_groups_noerr; [|exact Et]. rewrite Forall_forall in *. intros g Hgin. apply (Hg g Hgin).
Qed.

Lemma nth_error_map' : forall A B (f : A -> B) l n, nth_error (map f l) n = option_map f (nth_error l n).
Proof. intros A B f l; induction l; destruct n; simpl; auto. Qed.

Lemma inv_init : forall groups items, inv groups items 0 (map Some items) [].
Proof.
  intros groups items. constructor.
  - apply map_length.
  - intros q s H. rewrite nth_error_map' in H. destruct (nth_error items q); simpl in H; congruence.
  - constructor.
  - intros q Hq. rewrite nth_error_map'. destruct (nth_error items q) eqn:E; simpl; [reflexivity|].
    apply nth_error_None in E. lia.
  - intros q s Hq. lia.
Qed.

Lemma fuse_loop_inv : forall groups items k i temp acc,
  groups_ok groups -> i + k = length items -> inv groups items i temp acc ->
  exists temp' acc', fold_left (fuse_step groups) (seq i k) (Some (temp, acc)) = Some (temp', acc') /\
                     inv groups items (length items) temp' acc'.
Proof.
  induction k; intros i temp acc Hg Hik I; cbn [seq fold_left].
  - exists temp, acc. replace (length items) with i by lia. auto.
  - destruct (fuse_step_inv groups items i temp acc Hg ltac:(lia) I) as [t' [a' [E I']]].
    rewrite E. apply IHk; auto. lia.
Qed.

(* fuse_positions_partition *)
Lemma fuse_plan_ok : forall groups items, groups_ok groups -> groups <> [] ->
  exists plan, fuse groups items = Some plan /\ plan_ok groups items plan.
Proof.
  intros groups items Hg Hne.
  destruct (fuse_loop_inv groups items (length items) 0 (map Some items) [] Hg eq_refl (inv_init _ _))
    as [temp [acc [E I]]].
  exists acc. split.
  - unfold fuse, fuse_loop. destruct groups; [congruence|]. rewrite E. reflexivity.
  - destruct I as [Il Is Io Iw _]. split; auto.
    intros p Hp. specialize (Iw p Hp). destruct (nth_error temp p) as [[s|]|] eqn:E'; [| |contradiction].
    + rewrite Iw. replace (p <? length items) with true by (symmetry; apply Nat.ltb_lt; auto).
      apply WPlain. apply Is; auto.
    + destruct Iw as [name [idxs [Hin [Hw|[s [Hs Hw]]]]]]; rewrite Hw.
      * apply WFused; auto.
      * apply WBoth; auto.
Qed.

(* ------------------------------------------------------------------ *)
(* the scatter loop of __getitem__ = "last writer wins"                *)
(* ------------------------------------------------------------------ *)
Lemma last_slot_index_cur : forall p idxs j cur,
  last_slot_index p j idxs cur = match last_slot_index p j idxs None with Some x => Some x | None => cur end.
Proof.
  intros p idxs; induction idxs as [|fi r IH]; intros j cur; simpl; [reflexivity|].
  rewrite (IH (S j) (if Nat.eqb fi p then Some j else cur)).
  rewrite (IH (S j) (if Nat.eqb fi p then Some j else None)).
  destruct (last_slot_index p (S j) r None); auto. destruct (Nat.eqb fi p); auto.
Qed.

Section Scatter.
  Variable value : Type.
  Variable proj : value -> nat -> value.

  Lemma scatter_length : forall idxs u v j, length (scatter_fused value proj u v j idxs) = length u.
  Proof. induction idxs; intros; simpl; auto. rewrite IHidxs. apply set_nth_length. Qed.

  Lemma scatter_nth : forall idxs u v j p,
    nth_error (scatter_fused value proj u v j idxs) p =
    match last_slot_index p j idxs None with
    | Some j' => if p <? length u then Some (Some (proj v j')) else None
    | None => nth_error u p
    end.
  Proof.
    induction idxs as [|fi r IH]; intros u v j p; simpl; [reflexivity|].
    rewrite IH. rewrite set_nth_length. rewrite (last_slot_index_cur p r (S j) (if Nat.eqb fi p then Some j else None)).
    destruct (last_slot_index p (S j) r None); [reflexivity|].
    destruct (Nat.eqb fi p) eqn:E.
    - apply Nat.eqb_eq in E; subst fi. destruct (p <? length u) eqn:El.
      + apply Nat.ltb_lt in El. apply nth_error_set_nth_eq; auto.
      + apply Nat.ltb_ge in El. apply nth_error_None. rewrite set_nth_length. auto.
    - apply Nat.eqb_neq in E. apply nth_error_set_nth_neq; auto.
  Qed.

  Lemma unpack_step_length : forall u e, length (unpack_step value proj u e) = length u.
  Proof. intros u [[i|idxs] v]; unfold unpack_step; simpl; [apply set_nth_length | apply scatter_length]. Qed.

  Lemma unpack_step_nth : forall u sl v p, p < length u ->
    nth_error (unpack_step value proj u (sl, v)) p =
    match slot_write sl p with
    | None => nth_error u p
    | Some None => Some (Some v)
    | Some (Some j) => Some (Some (proj v j))
    end.
  Proof.
    intros u [i|idxs] v p Hp; unfold unpack_step; simpl.
    - destruct (Nat.eqb i p) eqn:E.
      + apply Nat.eqb_eq in E; subst. apply nth_error_set_nth_eq; auto.
      + apply Nat.eqb_neq in E. apply nth_error_set_nth_neq; auto.
    - rewrite scatter_nth. destruct (last_slot_index p 0 idxs None); simpl; auto.
      replace (p <? length u) with true by (symmetry; apply Nat.ltb_lt; auto). reflexivity.
  Qed.

  Lemma fold_unpack_length : forall es u, length (fold_left (unpack_step value proj) es u) = length u.
  Proof. induction es; intros; simpl; auto. rewrite IHes. apply unpack_step_length. Qed.

  Lemma fold_unpack_nth : forall es u p, p < length u ->
    nth p (fold_left (unpack_step value proj) es u) None = last_write value proj es p (nth p u None).
  Proof.
    induction es as [|[sl v] r IH]; intros u p Hp; simpl; [reflexivity|].
    rewrite IH by (rewrite unpack_step_length; auto). f_equal.
    pose proof (unpack_step_nth u sl v p Hp) as H.
    destruct (slot_write sl p) as [[j|]|].
    - eapply nth_error_nth'; eauto.
    - eapply nth_error_nth'; eauto.
    - destruct (nth_error u p) eqn:E.
      + rewrite (nth_error_nth' _ _ _ None _ E). eapply nth_error_nth'; eauto.
      + apply nth_error_None in E. lia.
  Qed.

  Lemma map_seq_nth : forall A (l : list A) d, map (fun p => nth p l d) (seq 0 (length l)) = l.
  Proof.
    intros A l d. apply nth_ext with (d := d) (d' := d).
    - rewrite map_length, seq_length. reflexivity.
    - intros n Hn. rewrite map_length, seq_length in Hn.
      rewrite (nth_indep _ d (nth 0 l d)) by (rewrite map_length, seq_length; auto).
      rewrite (map_nth (fun p => nth p l d) (seq 0 (length l)) 0 n). rewrite seq_nth; auto.
  Qed.

  (* unpacked_items after the scatter loop *)
  Lemma unpack_last_write : forall n slots vals,
    unpack value proj n slots vals = map (fun p => last_write value proj (combine slots vals) p None) (seq 0 n).
  Proof.
    intros n slots vals. unfold unpack.
    set (es := combine slots vals).
    assert (Hl : length (fold_left (unpack_step value proj) es (repeat None n)) = n)
      by (rewrite fold_unpack_length; apply repeat_length).
    rewrite <- (map_seq_nth _ (fold_left (unpack_step value proj) es (repeat None n)) None) at 1.
    rewrite Hl. apply map_ext_in. intros p Hp. apply in_seq in Hp.
    rewrite fold_unpack_nth by (rewrite repeat_length; lia).
    f_equal. apply nth_error_nth'. apply nth_error_repeat. lia.
  Qed.
End Scatter.

(* ------------------------------------------------------------------ *)
(* the plan without declared groups                                    *)
(* ------------------------------------------------------------------ *)
Ltac bdestruct_all := repeat match goal with
  | |- context[?a <=? ?b] => let E := fresh "E" in destruct (a <=? b) eqn:E; [apply Nat.leb_le in E | apply Nat.leb_gt in E]
  | |- context[?a <? ?b] => let E := fresh "E" in destruct (a <? b) eqn:E; [apply Nat.ltb_lt in E | apply Nat.ltb_ge in E]
  | |- context[Nat.eqb ?a ?b] => let E := fresh "E" in destruct (Nat.eqb a b) eqn:E; [apply Nat.eqb_eq in E | apply Nat.eqb_neq in E]
  end.

Definition plain_from (base : nat) (items : list string) : list entry :=
  map (fun ps => (snd ps, Plain (fst ps))) (combine (seq base (length items)) items).

Lemma plain_from_cons : forall base s r, plain_from base (s :: r) = (s, Plain base) :: plain_from (S base) r.
Proof. reflexivity. Qed.

Lemma map_fst_plain_from : forall items base, map fst (plain_from base items) = items.
Proof. induction items; intros; [reflexivity|]. rewrite plain_from_cons. simpl. f_equal. apply IHitems. Qed.

Lemma map_snd_plain_from : forall items base, map snd (plain_from base items) = map Plain (seq base (length items)).
Proof. induction items; intros; [reflexivity|]. rewrite plain_from_cons. simpl. f_equal. apply IHitems. Qed.

Lemma writers_plain_from : forall items base p,
  writers p (plain_from base items) =
  if (base <=? p) && (p <? base + length items)
  then match nth_error items (p - base) with Some s => [(s, Plain p)] | None => [] end else [].
Proof.
  induction items as [|s r IH]; intros base p.
  - simpl. destruct ((base <=? p) && (p <? base + 0)) eqn:E; auto.
    apply andb_prop in E. destruct E as [E1 E2]. apply Nat.leb_le in E1. apply Nat.ltb_lt in E2. lia.
  - rewrite plain_from_cons. unfold writers in *. cbn [filter snd slot_writes]. rewrite IH. clear IH.
    change (length (s :: r)) with (S (length r)).
    bdestruct_all; subst; cbn [andb app]; try lia; try reflexivity;
      try (rewrite Nat.sub_diag; reflexivity);
      try (replace (p - base) with (S (p - S base)) by lia; reflexivity).
Qed.

Lemma plain_plan_ok : forall groups items, plan_ok groups items (plain_plan items).
Proof.
  intros groups items. change (plain_plan items) with (plain_from 0 items). split.
  - assert (H : forall r base, (forall q s, nth_error r q = Some s -> nth_error items (base + q) = Some s) ->
                Forall (entry_ok groups items) (plain_from base r)).
    { induction r as [|s r IH]; intros base Hr; [constructor|]. rewrite plain_from_cons. constructor.
      - simpl. rewrite <- (Nat.add_0_r base). apply Hr. reflexivity.
      - apply IH. intros q s' Hq. replace (S base + q) with (base + S q) by lia. apply Hr. exact Hq. }
    apply H. intros q s Hq. exact Hq.
  - intros p Hp. rewrite writers_plain_from. simpl. rewrite Nat.sub_0_r.
    replace (p <? length items) with true by (symmetry; apply Nat.ltb_lt; auto).
    destruct (nth_error items p) eqn:E; [apply WPlain; auto|]. apply nth_error_None in E. lia.
Qed.

Section GetItem.
  Variable value : Type.
  Variable vint : Z -> value.
  Variable proj : value -> nat -> value.

  Lemma last_write_plain : forall vals base p cur,
    last_write value proj (combine (map Plain (seq base (length vals))) vals) p cur =
    if (base <=? p) && (p <? base + length vals) then nth_error vals (p - base) else cur.
  Proof.
    induction vals as [|v r IH]; intros base p cur.
    - simpl. destruct ((base <=? p) && (p <? base + 0)) eqn:E; auto.
      apply andb_prop in E. destruct E as [E1 E2]. apply Nat.leb_le in E1. apply Nat.ltb_lt in E2. lia.
    - change (length (v :: r)) with (S (length r)). cbn [seq map combine last_write slot_write].
      rewrite IH. clear IH.
      bdestruct_all; subst; cbn [andb]; try lia; try reflexivity;
        try (rewrite Nat.sub_diag; reflexivity);
        try (replace (p - base) with (S (p - S base)) by lia; reflexivity).
  Qed.

  Lemma comps_plain : forall items vals, length vals = length items ->
    map (fun p => last_write value proj (combine (map snd (plain_plan items)) vals) p None) (seq 0 (length items)) =
    map Some vals.
  Proof.
    intros items vals Hl. change (plain_plan items) with (plain_from 0 items).
    rewrite map_snd_plain_from. rewrite <- Hl.
    etransitivity; [|apply (map_seq_nth _ (map Some vals) None)]. rewrite map_length.
    apply map_ext_in. intros p Hp. apply in_seq in Hp. rewrite last_write_plain. simpl.
    replace (p <? length vals) with true by (symmetry; apply Nat.ltb_lt; lia). rewrite Nat.sub_0_r.
    destruct (nth_error vals p) eqn:E.
    - symmetry. apply nth_error_nth'. rewrite nth_error_map'. rewrite E. reflexivity.
    - apply nth_error_None in E. lia.
  Qed.

  Lemma run_fns_thread : forall st names idx c,
    run_fns value vint st (map classify names) idx c = thread value vint st names idx c.
  Proof.
    intros st names idx; induction names as [|s r IH]; intros c; simpl; [reflexivity|].
    destruct (call value vint st (classify s) idx c) as [[v c']|]; [|reflexivity]. rewrite IH. reflexivity.
  Qed.

  Lemma thread_length : forall st names idx c vals c',
    thread value vint st names idx c = Some (vals, c') -> length vals = length names.
  Proof.
    intros st names idx; induction names as [|s r IH]; intros c vals c' H; simpl in H.
    - inversion H; reflexivity.
    - destruct (call value vint st (classify s) idx c) as [[v c1]|]; [|discriminate].
      destruct (thread value vint st r idx c1) as [[vs c2]|] eqn:E; [|discriminate].
      inversion H; subst. simpl. f_equal. eapply IH; eauto.
  Qed.

  Lemma existsb_classify : forall names,
    existsb is_ctx (map classify names) = existsb (fun s => is_ctx (classify s)) names.
  Proof. induction names; simpl; auto. rewrite IHnames. reflexivity. Qed.

  (* what a successful constructor leaves behind *)
  Lemma init_items_inv : forall st items rc m, init_items value st items rc = inl m ->
    exists plan, fuse (s_fused_ops value st) items = Some plan /\
      m_items m = items /\ m_plan m = plan /\ m_return_ctx m = rc /\
      m_names m = map fst (eff_plan items plan) /\ m_fns m = map classify (m_names m) /\
      m_propagate m = spec_propagate value st (m_names m) rc.
  Proof.
    intros st items rc m H. unfold init_items in H.
    destruct (negb (forallb (nodupb String.eqb) (s_fused_ops value st))); [discriminate|].
    destruct (negb (nodupb String.eqb (List.concat (s_fused_ops value st)))); [discriminate|].
    destruct (fuse (s_fused_ops value st) items) as [plan|] eqn:Ef; [|discriminate].
    exists plan. split; [reflexivity|].
    match type of H with (if ?c then _ else _) = _ => destruct c; [|discriminate] end.
    inversion H; subst; clear H. cbn [m_items m_plan m_names m_fns m_propagate m_return_ctx].
    assert (Hn : (if 0 <? length plan then map fst plan else items) = map fst (eff_plan items plan)).
    { destruct plan as [|e pl]; [|reflexivity]. cbn [eff_plan]. change (plain_plan items) with (plain_from 0 items).
      rewrite map_fst_plain_from. reflexivity. }
    rewrite Hn. repeat split.
    unfold spec_propagate. rewrite <- existsb_classify. reflexivity.
  Qed.

  (* getitem_positions, first half: __getitem__ is the "last call filling p" reading of the constructor's plan,
     and that plan fills every position with the right loader *)
  Lemma getitem_core_spec : forall st items rc m,
    groups_ok (s_fused_ops value st) -> init_items value st items rc = inl m ->
    plan_ok (s_fused_ops value st) items (eff_plan items (m_plan m)) /\
    forall idx, getitem_core value vint proj st m idx =
                sample_with_plan value vint proj st items (eff_plan items (m_plan m)) rc (norm_idx value st idx).
  Proof.
    intros st items rc m Hg Hinit.
    destruct (init_items_inv _ _ _ _ Hinit) as [plan [Hf [Hi [Hp [Hrc [Hn [Hfn Hpr]]]]]]].
    assert (Hok : plan_ok (s_fused_ops value st) items (eff_plan items plan)).
    { destruct plan as [|e pl]; [apply plain_plan_ok|]. simpl.
      destruct (s_fused_ops value st) as [|g gs] eqn:Eg; [simpl in Hf; discriminate|].
      destruct (fuse_plan_ok (g :: gs) items Hg ltac:(discriminate)) as [plan' [Hf' Hok]].
      rewrite Hf in Hf'. inversion Hf'; subst. exact Hok. }
    rewrite Hp. split; [exact Hok|].
    intro idx. unfold getitem_core, sample_with_plan. rewrite Hfn, Hpr, Hn, Hrc, Hi, Hp.
    rewrite run_fns_thread.
    destruct (thread value vint st (map fst (eff_plan items plan)) (norm_idx value st idx)
                (if spec_propagate value st (map fst (eff_plan items plan)) rc then Some [] else None))
      as [[vals c]|] eqn:Et; [|reflexivity].
    pose proof (thread_length _ _ _ _ _ _ Et) as Hlen.
    destruct plan as [|e pl].
    - simpl in *. change (plain_plan items) with (plain_from 0 items) in Hlen. rewrite map_length in Hlen.
      unfold plain_from in Hlen. rewrite map_length, combine_length, seq_length, Nat.min_id in Hlen.
      rewrite comps_plain by exact Hlen. unfold wrap_out. reflexivity.
    - cbn [eff_plan]. replace (0 <? length (e :: pl)) with true by reflexivity.
      rewrite unpack_last_write. unfold wrap_out. reflexivity.
  Qed.
End GetItem.

(* ------------------------------------------------------------------ *)
(* where every position comes from                                     *)
(* ------------------------------------------------------------------ *)
Lemma nth_error_combine : forall A B (l1 : list A) (l2 : list B) k a b,
  nth_error (combine l1 l2) k = Some (a, b) -> nth_error l1 k = Some a /\ nth_error l2 k = Some b.
Proof.
  intros A B l1; induction l1 as [|x r IH]; intros l2 k a b H; [destruct k; discriminate|].
  destruct l2 as [|y r2]; [destruct k; discriminate|]. destruct k; simpl in *.
  - inversion H; auto.
  - apply IH; auto.
Qed.

Lemma nth_error_combine_some : forall A B (l1 : list A) (l2 : list B) k a b,
  nth_error l1 k = Some a -> nth_error l2 k = Some b -> nth_error (combine l1 l2) k = Some (a, b).
Proof.
  intros A B l1; induction l1 as [|x r IH]; intros l2 k a b H1 H2; [destruct k; discriminate|].
  destruct l2 as [|y r2]; [destruct k; discriminate|]. destruct k; simpl in *.
  - inversion H1; inversion H2; auto.
  - apply IH; auto.
Qed.

Lemma Forall2_nth_error : forall {A B} (R : A -> B -> Prop) l1 l2 j a,
  Forall2 R l1 l2 -> nth_error l1 j = Some a -> exists b, nth_error l2 j = Some b /\ R a b.
Proof.
  intros A B R l1 l2 j a H; revert j; induction H; intros j Hj; [destruct j; discriminate|].
  destruct j; simpl in *; [inversion Hj; subst; eauto | auto].
Qed.

Lemma nth_error_seq : forall n base p, p < n -> nth_error (seq base n) p = Some (base + p).
Proof.
  induction n; intros base p H; [lia|]. destruct p; simpl; [f_equal; lia|].
  rewrite IHn by lia. f_equal; lia.
Qed.

Lemma last_slot_index_some : forall p idxs j j', last_slot_index p j idxs None = Some j' ->
  j <= j' /\ nth_error idxs (j' - j) = Some p.
Proof.
  intros p idxs; induction idxs as [|fi r IH]; intros j j' H; simpl in H; [discriminate|].
  rewrite last_slot_index_cur in H.
  destruct (last_slot_index p (S j) r None) as [x|] eqn:E.
  - inversion H; subst. destruct (IH _ _ E) as [H1 H2]. split; [lia|].
    replace (j' - j) with (S (j' - S j)) by lia. exact H2.
  - destruct (Nat.eqb fi p) eqn:Ep; [|discriminate]. inversion H; subst. apply Nat.eqb_eq in Ep; subst.
    split; [lia|]. rewrite Nat.sub_diag. reflexivity.
Qed.

Lemma last_slot_index_in : forall p idxs j, In p idxs -> last_slot_index p j idxs None <> None.
Proof.
  intros p idxs; induction idxs as [|fi r IH]; intros j Hin; [destruct Hin|]. simpl.
  rewrite last_slot_index_cur. destruct (last_slot_index p (S j) r None) eqn:E; [discriminate|].
  destruct Hin as [->|Hin]; [rewrite Nat.eqb_refl; discriminate|]. exfalso. eapply IH; eauto.
Qed.

Lemma slot_writes_write : forall sl p, slot_writes sl p = true -> slot_write sl p <> None.
Proof.
  intros [i|idxs] p H; simpl in *.
  - rewrite H. discriminate.
  - apply existsb_eqb_In in H. pose proof (last_slot_index_in p idxs 0 H).
    destruct (last_slot_index p 0 idxs None); [discriminate|congruence].
Qed.

Lemma out_list_wrap : forall value (comps : list (option value)), out_list (wrap_out value comps) = comps.
Proof. intros value [|x [|y r]]; reflexivity. Qed.

Lemma is_bare_wrap : forall value (comps : list (option value)), is_bare (wrap_out value comps) = Nat.eqb (length comps) 1.
Proof. intros value [|x [|y r]]; reflexivity. Qed.

Section Positions.
  Variable value : Type.
  Variable vint : Z -> value.
  Variable proj : value -> nat -> value.

  Lemma thread_nth : forall st names idx c0 vals c k name,
    thread value vint st names idx c0 = Some (vals, c) -> nth_error names k = Some name ->
    exists v ct ct', thread value vint st (firstn k names) idx c0 = Some (firstn k vals, ct) /\
                     call value vint st (classify name) idx ct = Some (v, ct') /\ nth_error vals k = Some v.
  Proof.
    intros st names idx; induction names as [|s r IH]; intros c0 vals c k name H Hk; [destruct k; discriminate|].
    simpl in H. destruct (call value vint st (classify s) idx c0) as [[v c1]|] eqn:Ec; [|discriminate].
    destruct (thread value vint st r idx c1) as [[vs c2]|] eqn:Et; [|discriminate]. inversion H; subst; clear H.
    destruct k; simpl in Hk.
    - inversion Hk; subst. exists v, c0, c1. simpl. auto.
    - destruct (IH _ _ _ _ _ Et Hk) as [v' [ct [ct' [H1 [H2 H3]]]]].
      exists v', ct, ct'. simpl. rewrite Ec, H1. auto.
  Qed.

  Lemma last_write_last : forall es p cur,
    (last_write value proj es p cur = cur /\ forall sl v, In (sl, v) es -> slot_write sl p = None) \/
    (exists k sl v, nth_error es k = Some (sl, v) /\ slot_write sl p <> None /\
       last_write value proj es p cur = match slot_write sl p with
                                        | Some None => Some v
                                        | Some (Some j) => Some (proj v j)
                                        | None => cur
                                        end).
  Proof.
    induction es as [|[sl v] r IH]; intros p cur; simpl.
    - left. split; auto. intros ? ? [].
    - destruct (IH p (match slot_write sl p with None => cur | Some None => Some v | Some (Some j) => Some (proj v j) end))
        as [[H1 H2]|[k [sl' [v' [Hk [Hw Hl]]]]]].
      + destruct (slot_write sl p) as [w|] eqn:E.
        * right. exists 0, sl, v. simpl. split; auto. split; [congruence|]. rewrite E. exact H1.
        * left. split; auto. intros sl0 v0 [Heq|Hin]; [inversion Heq; subst; auto | eauto].
      + right. exists (S k), sl', v'. simpl. split; auto. split; auto.
        rewrite Hl. destruct (slot_write sl' p) as [[j|]|]; auto. congruence.
  Qed.

  (* getitem_positions: every position of a sample is delivered by a loader call of this sample that is named for
     the item standing there *)
  Lemma positions_delivered : forall st items plan idx c0 vals c,
    plan_ok (s_fused_ops value st) items plan ->
    thread value vint st (map fst plan) idx c0 = Some (vals, c) ->
    forall p, p < length items ->
      delivered value vint proj st items plan idx c0 p (last_write value proj (combine (map snd plan) vals) p None).
  Proof.
    intros st items plan idx c0 vals c [Hok Hw] Ht p Hp.
    pose proof (thread_length _ _ _ _ _ _ _ _ Ht) as Hlen. rewrite map_length in Hlen.
    destruct (last_write_last (combine (map snd plan) vals) p None) as [[_ Hnone]|[k [sl [v [Hk [Hsw Hl]]]]]].
    - (* no writer: impossible, the plan fills p *)
      exfalso. specialize (Hw p Hp).
      assert (Hex : exists e, In e plan /\ slot_writes (snd e) p = true).
      { unfold writers in Hw. inversion Hw as [s Hs Heq|name idxs Hin Heq|s name idxs Hs Hin Heq];
          match type of Heq with ?e0 :: _ = filter _ _ =>
            assert (Hf : In e0 (filter (fun x => slot_writes (snd x) p) plan)) by (rewrite <- Heq; left; reflexivity)
          end; apply filter_In in Hf; eauto. }
      destruct Hex as [e [Hin Hs]]. apply In_nth_error in Hin. destruct Hin as [k Hk].
      assert (Hkl : k < length vals) . { rewrite Hlen. apply nth_error_Some. intro HH. pose proof (eq_trans (eq_sym Hk) HH) as HX. discriminate HX. }
      destruct (nth_error vals k) as [v|] eqn:Ev; [|apply nth_error_None in Ev; lia].
      assert (Hc : nth_error (combine (map snd plan) vals) k = Some (snd e, v)).
      { apply nth_error_combine_some; auto. rewrite nth_error_map'. unfold entry in *. rewrite Hk. reflexivity. }
      apply nth_error_In in Hc. apply Hnone in Hc. apply slot_writes_write in Hs. contradiction.
    - unfold entry in *. rewrite Hl. apply nth_error_combine in Hk. destruct Hk as [Hk1 Hk2].
      rewrite nth_error_map' in Hk1. destruct (nth_error plan k) as [[name sl']|] eqn:Ek; [|discriminate].
      simpl in Hk1. inversion Hk1; subst sl'. clear Hk1.
      assert (Hname : nth_error (map fst plan) k = Some name) by (rewrite nth_error_map', Ek; reflexivity).
      destruct (thread_nth _ _ _ _ _ _ _ _ Ht Hname) as [v' [ct [ct' [H1 [H2 H3]]]]].
      rewrite Hk2 in H3. inversion H3; subst v'. clear H3.
      rewrite Forall_forall in Hok. pose proof (Hok _ (nth_error_In _ _ Ek)) as He.
      exists k, name, sl, v, (firstn k vals), ct, ct'. split; [exact Ek|]. split; [exact H1|]. split; [exact H2|].
      destruct sl as [i|idxs]; simpl in *.
      + destruct (Nat.eqb i p) eqn:E; [|congruence]. apply Nat.eqb_eq in E; subst i. left. auto.
      + destruct (last_slot_index p 0 idxs None) as [j|] eqn:Ej; [|simpl in Hsw; congruence]. simpl.
        destruct (last_slot_index_some _ _ _ _ Ej) as [_ Hj]. rewrite Nat.sub_0_r in Hj.
        destruct He as [g [Hg [Hn Hf]]].
        destruct (Forall2_nth_error _ _ _ _ _ Hf Hj) as [op [Hop Hitem]].
        right. exists idxs, g, j, op. auto 10.
  Qed.

  Definition res_out (r : res value) : option (out value) :=
    match r with RItems o => Some o | RItemsCtx o _ => Some o | RErr => None | RIndexErr => None end.

  Lemma comps_nth : forall (f : nat -> option value) n p, p < n -> nth p (map f (seq 0 n)) None = f p.
  Proof.
    intros f n p Hp. apply nth_error_nth'. rewrite nth_error_map'. rewrite nth_error_seq by auto. reflexivity.
  Qed.

  Theorem getitem_positions_lemma : forall st items rc m idx o,
    groups_ok (s_fused_ops value st) -> init_items value st items rc = inl m ->
    res_out (getitem_core value vint proj st m idx) = Some o ->
    let plan := eff_plan items (m_plan m) in
    plan_ok (s_fused_ops value st) items plan /\
    length (out_list o) = length items /\
    forall p, p < length items ->
      delivered value vint proj st items plan (norm_idx value st idx)
                (if spec_propagate value st (map fst plan) rc then Some [] else None) p (nth p (out_list o) None).
  Proof.
    intros st items rc m idx o Hg Hinit Hres plan.
    destruct (getitem_core_spec value vint proj st items rc m Hg Hinit) as [Hok Hspec].
    split; [exact Hok|]. rewrite Hspec in Hres. unfold sample_with_plan in Hres. fold plan in Hres.
    destruct (thread value vint st (map fst plan) (norm_idx value st idx)
                (if spec_propagate value st (map fst plan) rc then Some [] else None)) as [[vals c]|] eqn:Et;
      [|discriminate].
    assert (Ho : o = wrap_out value (map (fun p => last_write value proj (combine (map snd plan) vals) p None)
                                         (seq 0 (length items)))).
    { destruct rc; simpl in Hres; inversion Hres; reflexivity. }
    subst o. rewrite out_list_wrap. split; [rewrite map_length, seq_length; reflexivity|].
    intros p Hp. rewrite comps_nth by exact Hp. eapply positions_delivered; eauto.
  Qed.
End Positions.

(* ------------------------------------------------------------------ *)
(* deterministic loaders: position p is item p of the sample           *)
(* ------------------------------------------------------------------ *)
Lemma classify_named : forall s n, classify s = Named n -> n = s.
Proof.
  intros s n H. unfold classify in H. destruct (String.eqb s "index"); [discriminate|].
  destruct (prefix "ctx." s); [discriminate|]. congruence.
Qed.

Section Pure.
  Variable value : Type.
  Variable vint : Z -> value.
  Variable proj : value -> nat -> value.

  Theorem getitem_positions_pure_lemma : forall st items rc m value_of upd idx o,
    groups_ok (s_fused_ops value st) -> groups_named (s_fused_ops value st) ->
    pure_loaders value st value_of upd -> joint_consistent value proj st value_of ->
    init_items value st items rc = inl m ->
    res_out value (getitem_core value vint proj st m idx) = Some o ->
    forall p s, nth_error items p = Some s ->
      match classify s with
      | Index => nth p (out_list o) None = Some (vint (norm_idx value st idx))
      | Named n => nth p (out_list o) None = Some (value_of n (norm_idx value st idx))
      | Ctx key => exists t vs d v,
          thread value vint st (firstn t (m_names m)) (norm_idx value st idx) (Some []) = Some (vs, Some d) /\
          lookup value key d = Some v /\ nth p (out_list o) None = Some v
      end.
  Proof.
    intros st items rc m value_of upd idx o Hg Hgn Hpure Hjoint Hinit Hres p s Hs.
    destruct (getitem_positions_lemma value vint proj st items rc m idx o Hg Hinit Hres) as [Hok [Hlen Hdel]].
    assert (Hp : p < length items) by (apply nth_error_Some; congruence).
    specialize (Hdel p Hp).
    destruct (init_items_inv _ _ _ _ _ Hinit) as [plan [_ [_ [Hpl [_ [Hn _]]]]]].
    rewrite Hpl in *. clear Hpl.
    destruct Hdel as [k [name [sl [v [vs [ct [ct' [Hk [Ht [Hc Hcase]]]]]]]]]].
    destruct Hcase as [[Hsl [Hname Hr]]|[idxs [g [j [op [Hsl [Hgin [Hname [Hj [Hgj [Hop Hr]]]]]]]]]]].
    - rewrite Hs in Hname. inversion Hname; subst name. clear Hname. rewrite Hr.
      destruct (classify s) as [|key|n] eqn:Ecl; simpl in Hc.
      + inversion Hc; subst. reflexivity.
      + destruct ct as [d|]; [|discriminate]. destruct (lookup value key d) as [v0|] eqn:El; [|discriminate].
        inversion Hc; subst. exists k, vs, d, v. rewrite Hn. split; [|auto].
        replace (spec_propagate value st (map fst (eff_plan items plan)) rc) with true in Ht; [exact Ht|].
        symmetry. unfold spec_propagate. apply orb_true_iff. right. apply existsb_exists.
        exists s. split; [|rewrite Ecl; reflexivity].
        apply in_map_iff. exists (s, Plain p). split; [reflexivity | eapply nth_error_In; eauto].
      + rewrite (Hpure n (norm_idx value st idx) ct) in Hc. inversion Hc; subst. reflexivity.
    - rewrite Hs in Hop. inversion Hop; subst op. clear Hop.
      destruct (Hgn g Hgin) as [Hcn Hops]. rewrite Hname in Hc. rewrite Hcn in Hc. simpl in Hc.
      rewrite (Hpure _ (norm_idx value st idx) ct) in Hc. inversion Hc; subst v.
      rewrite (Hops s (nth_error_In _ _ Hgj)). rewrite Hr. f_equal. eapply Hjoint; eauto.
  Qed.

  (* ---------------------------------------------------------------- *)
  (* shape of a sample                                                *)
  (* ---------------------------------------------------------------- *)
  Lemma thread_none : forall st names idx c, thread value vint st names idx c = None ->
    exists s key, In s names /\ classify s = Ctx key.
  Proof.
    intros st names idx; induction names as [|s r IH]; intros c H; simpl in H; [discriminate|].
    destruct (call value vint st (classify s) idx c) as [[v c1]|] eqn:Ec.
    - destruct (thread value vint st r idx c1) as [[vs c2]|] eqn:Et; [discriminate|].
      destruct (IH _ Et) as [s' [key [Hin Hcl]]]. exists s', key. split; [right; auto|auto].
    - destruct (classify s) as [|key|n] eqn:Ecl; simpl in Ec; try discriminate.
      exists s, key. split; [left; reflexivity | exact Ecl].
  Qed.

  Theorem getitem_shape_lemma : forall st items rc m idx,
    groups_ok (s_fused_ops value st) -> init_items value st items rc = inl m ->
    match getitem_core value vint proj st m idx with
    | RErr => exists s key, In s (m_names m) /\ classify s = Ctx key
    | RItems o => rc = false /\ length (out_list o) = length items /\ is_bare o = Nat.eqb (length items) 1
    | RItemsCtx o c => rc = true /\ length (out_list o) = length items /\ is_bare o = Nat.eqb (length items) 1
    | RIndexErr => False
    end.
  Proof.
    intros st items rc m idx Hg Hinit.
    destruct (getitem_core_spec value vint proj st items rc m Hg Hinit) as [_ Hspec]. rewrite Hspec.
    destruct (init_items_inv _ _ _ _ _ Hinit) as [plan [_ [_ [Hpl [_ [Hn _]]]]]]. rewrite Hn, Hpl.
    unfold sample_with_plan.
    destruct (thread value vint st (map fst (eff_plan items plan)) (norm_idx value st idx)
                (if spec_propagate value st (map fst (eff_plan items plan)) rc then Some [] else None))
      as [[vals c]|] eqn:Et.
    - destruct rc; (split; [reflexivity|]); rewrite out_list_wrap, is_bare_wrap, map_length, seq_length; auto.
    - eapply thread_none; eauto.
  Qed.

  (* ---------------------------------------------------------------- *)
  (* the ctx of a sample                                              *)
  (* ---------------------------------------------------------------- *)
  Lemma run_fns_keys : forall st W idx, writes_within value st W ->
    forall fns d0 vals c, run_fns value vint st fns idx (Some d0) = Some (vals, c) ->
    exists d, c = Some d /\ forall k, In k (map fst d) ->
      In k (map fst d0) \/ exists s, In (Named s) fns /\ In k (W s idx).
  Proof.
    intros st W idx HW. induction fns as [|f r IH]; intros d0 vals c H; simpl in H.
    - inversion H; subst. exists d0. auto.
    - destruct (call value vint st f idx (Some d0)) as [[v c1]|] eqn:Ec; [|discriminate].
      destruct (run_fns value vint st r idx c1) as [[vs c2]|] eqn:Er; [|discriminate]. inversion H; subst; clear H.
      assert (Hc1 : exists d1, c1 = Some d1 /\ forall k, In k (map fst d1) ->
                      In k (map fst d0) \/ exists s, f = Named s /\ In k (W s idx)).
      { destruct f as [|key|s]; simpl in Ec.
        - inversion Ec; subst. exists d0. auto.
        - destruct (lookup value key d0); [|discriminate]. inversion Ec; subst. exists d0. auto.
        - destruct (HW s idx d0) as [d' [Hd' Hk]]. inversion Ec as [H0]. rewrite H0 in Hd'. simpl in Hd'. exists d'. split; [exact Hd'|].
          intros k Hin. destruct (Hk k Hin); [left; auto | right; eauto]. }
      destruct Hc1 as [d1 [-> Hk1]]. destruct (IH _ _ _ Er) as [d [-> Hk]]. exists d. split; [reflexivity|].
      intros k Hin. destruct (Hk k Hin) as [H1|[s [Hs Hw]]].
      + destruct (Hk1 k H1) as [H0|[s [-> Hw]]]; [left; auto | right; exists s; split; [left; reflexivity | auto]].
      + right. exists s. split; [right; auto | auto].
  Qed.

  (* ctx_fresh: the returned ctx is a dict that holds nothing but what the loader calls of THIS access recorded
     for THIS index *)
  Theorem ctx_fresh_lemma : forall st W items rc m idx o c,
    writes_within value st W -> init_items value st items rc = inl m ->
    getitem_core value vint proj st m idx = RItemsCtx o c ->
    exists d, c = Some d /\ forall k, In k (map fst d) ->
      exists s, In (Named s) (m_fns m) /\ In k (W s (norm_idx value st idx)).
  Proof.
    intros st W items rc m idx o c HW Hinit H.
    destruct (init_items_inv _ _ _ _ _ Hinit) as [plan [_ [_ [_ [Hrc [_ [_ Hpr]]]]]]].
    unfold getitem_core in H.
    destruct (m_return_ctx m) eqn:Er.
    - assert (Hp : m_propagate m = true) by (rewrite Hpr; unfold spec_propagate; rewrite <- Hrc; reflexivity).
      rewrite Hp in H.
      destruct (run_fns value vint st (m_fns m) (norm_idx value st idx) (Some [])) as [[vals c']|] eqn:E; [|discriminate].
      inversion H; subst. destruct (run_fns_keys st W _ HW _ _ _ _ E) as [d [-> Hk]]. exists d. split; [reflexivity|].
      intros k Hin. destruct (Hk k Hin) as [[]|Hx]. exact Hx.
    - destruct (run_fns value vint st (m_fns m) (norm_idx value st idx) (if m_propagate m then Some [] else None))
        as [[vals c']|]; discriminate.
  Qed.

  (* successive accesses do not influence each other *)
  Theorem history_independent_lemma : forall st m h k i,
    nth_error h k = Some i -> nth_error (history value vint proj st m h) k = Some (getitem value vint proj st m i).
  Proof. intros st m h k i H. unfold history. rewrite nth_error_map'. rewrite H. reflexivity. Qed.
End Pure.

(* ------------------------------------------------------------------ *)
(* static helpers                                                      *)
(* ------------------------------------------------------------------ *)
Section IndexOf.
  Context {A : Type} (eqb : A -> A -> bool) (eqb_ok : forall a b, eqb a b = true <-> a = b).

  Lemma index_of_spec_g : forall x l i, index_of eqb x l = Some i ->
    nth_error l i = Some x /\ forall j, j < i -> nth_error l j <> Some x.
  Proof.
    intros x l; induction l as [|y r IH]; intros i H; simpl in H; [discriminate|].
    destruct (eqb x y) eqn:E.
    - inversion H; subst. apply eqb_ok in E; subst. split; [reflexivity | intros; lia].
    - destruct (index_of eqb x r) eqn:Er; simpl in H; [|discriminate]. inversion H; subst.
      destruct (IH n eq_refl) as [H1 H2]. split; [exact H1|].
      intros j Hj. destruct j; simpl.
      + intro Ej; inversion Ej; subst. assert (eqb x x = true) by (apply eqb_ok; reflexivity). congruence.
      + apply H2; lia.
  Qed.

  Lemma mem_In_g : forall x l, mem eqb x l = true <-> In x l.
  Proof.
    intros x l. unfold mem. rewrite existsb_exists. split.
    - intros [y [Hin E]]. apply eqb_ok in E; subst; auto.
    - intro H. exists x. split; auto. apply eqb_ok; reflexivity.
  Qed.

  Lemma index_of_some_iff_mem : forall x l, mem eqb x l = true <-> exists i, index_of eqb x l = Some i.
  Proof.
    intros x l; induction l as [|y r IH]; simpl.
    - split; [discriminate | intros [i H]; discriminate].
    - destruct (eqb x y); simpl; [split; eauto|]. rewrite IH. split; intros [i H].
      + rewrite H. simpl. eauto.
      + destruct (index_of eqb x r); simpl in H; [eauto | discriminate].
  Qed.
End IndexOf.

Lemma replace_at_length : forall B k i (v : B) l, length (replace_at k i v l) = length l.
Proof. intros B k i v l; revert k; induction l; intros; simpl; auto. Qed.

Lemma replace_at_nth : forall B (v : B) i l k q,
  nth_error (replace_at k i v l) q = if Nat.eqb (k + q) i then option_map (fun _ => v) (nth_error l q) else nth_error l q.
Proof.
  intros B v i l; induction l as [|x r IH]; intros k q; simpl.
  - destruct q; simpl; destruct (Nat.eqb _ i); reflexivity.
  - destruct q; simpl.
    + rewrite Nat.add_0_r. destruct (Nat.eqb k i); reflexivity.
    + rewrite IH. rewrite Nat.add_succ_r. reflexivity.
Qed.

Lemma has_item_In : forall items it, has_item items it = true <-> In it items.
Proof. intros. unfold has_item. apply mem_In_g. apply String.eqb_eq. Qed.

Lemma has_item_index : forall items it, has_item items it = true <-> exists i, get_item_index items it = Some i.
Proof. intros. unfold has_item, get_item_index. apply index_of_some_iff_mem. Qed.

Lemma get_item_index_first : forall items it i, get_item_index items it = Some i ->
  nth_error items i = Some it /\ forall j, j < i -> nth_error items j <> Some it.
Proof. intros items it i. unfold get_item_index. apply index_of_spec_g. apply String.eqb_eq. Qed.

(* single-item mode is decided by the mode: whatever the batch is (bare object, list, tuple), get_item returns the
   batch itself and set_item the value, provided the item is the mode's item (AssertionError otherwise) *)
Lemma single_item_mode : forall B s it (b : batch B) v,
  get_item [s] it b = (if String.eqb s it then Some b else None) /\
  set_item [s] it b v = (if String.eqb s it then Some (BBare v) else None).
Proof. intros. unfold get_item, set_item. simpl. destruct (String.eqb s it); split; reflexivity. Qed.

Lemma set_item_single : forall B s it (b : batch B) v b',
  set_item [s] it b v = Some b' -> s = it /\ b' = BBare v /\ get_item [s] it b' = Some (BBare v).
Proof.
  intros B s it b v b' H. unfold set_item in H. simpl in H.
  destruct (String.eqb s it) eqn:E; [|discriminate]. inversion H; subst.
  split; [now apply String.eqb_eq|]. split; [reflexivity|]. unfold get_item. simpl. now rewrite E.
Qed.

Lemma single_item_none : forall items it, List.length items <> 1 -> single_item items it = None.
Proof. intros [|a [|b r]] it H; simpl in *; try reflexivity. congruence. Qed.

(* several-item modes: the batch must be a list / tuple *)
Lemma several_items_need_sequence : forall B items it (x v : B), List.length items <> 1 ->
  get_item items it (BBare x) = None /\ set_item items it (BBare x) v = None.
Proof. intros. unfold get_item, set_item. now rewrite single_item_none. Qed.

Lemma set_item_tuple : forall B items it (l : list B) v b', List.length items <> 1 ->
  set_item items it (BTuple l) v = Some b' ->
  exists i l', get_item_index items it = Some i /\ b' = BTuple l' /\ length l' = length l /\
    (forall q, nth_error l' q = if Nat.eqb q i then option_map (fun _ => v) (nth_error l q) else nth_error l q) /\
    (i < length l -> get_item items it b' = Some (BBare v)) /\
    (forall it' j, get_item_index items it' = Some j -> j <> i -> get_item items it' b' = get_item items it' (BTuple l)).
Proof.
  intros B items it l v b' HL H. unfold set_item in H. rewrite single_item_none in H by assumption.
  fold (get_item_index items it) in H.
  destruct (get_item_index items it) as [i|] eqn:Ei; [|discriminate]. inversion H; subst; clear H.
  exists i, (replace_at 0 i v l). split; [reflexivity|]. split; [reflexivity|]. split; [apply replace_at_length|].
  assert (Hq : forall q, nth_error (replace_at 0 i v l) q =
                         if Nat.eqb q i then option_map (fun _ => v) (nth_error l q) else nth_error l q)
    by (intro q; rewrite replace_at_nth; reflexivity).
  split; [exact Hq|]. split.
  - intro Hi. unfold get_item. rewrite single_item_none by assumption. rewrite Ei. rewrite Hq. rewrite Nat.eqb_refl.
    destruct (nth_error l i) eqn:E; [reflexivity|]. apply nth_error_None in E. lia.
  - intros it' j Hj Hne. unfold get_item. rewrite !single_item_none by assumption. rewrite Hj. rewrite Hq.
    destruct (Nat.eqb j i) eqn:E; [apply Nat.eqb_eq in E; contradiction | reflexivity].
Qed.

(* TorchWrapper(dataset, mode).getitem_<it>(idx) = dataset[idx][first position of it in mode] *)
Lemma torch_getitem_lemma : forall value tmode (ds : Z -> list value) it idx v,
  torch_getitem value tmode ds it idx = Some v <->
  exists k, get_item_index tmode it = Some k /\ nth_error (ds idx) k = Some v.
Proof.
  intros value tmode ds it idx v. unfold torch_getitem. split.
  - destruct (has_item tmode it); [|discriminate].
    destruct (get_item_index tmode it) as [k|]; [|discriminate]. intro H. exists k. auto.
  - intros [k [Hk Hv]]. replace (has_item tmode it) with true
      by (symmetry; apply has_item_index; eauto). rewrite Hk. exact Hv.
Qed.

(* mode.split(" ") inverts " ".join(items) *)
Lemma split_space_no_space : forall s, no_space s = true -> split_space s = [s].
Proof.
  induction s as [|c r IH]; simpl; intro H; [reflexivity|].
  apply andb_prop in H. destruct H as [Hc Hr]. apply negb_true_iff in Hc. rewrite Hc. rewrite (IH Hr). reflexivity.
Qed.

Lemma split_space_app : forall s r, no_space s = true ->
  split_space (s ++ " " ++ r)%string = s :: split_space r.
Proof.
  induction s as [|c s' IH]; intros r H; simpl in *; [reflexivity|].
  apply andb_prop in H. destruct H as [Hc Hr]. apply negb_true_iff in Hc. rewrite Hc.
  rewrite (IH r Hr). reflexivity.
Qed.

Lemma split_join_lemma : forall items, items <> [] -> forallb no_space items = true ->
  split_space (join_space items) = items.
Proof.
  induction items as [|s r IH]; intros Hne H; [congruence|].
  simpl in H. apply andb_prop in H. destruct H as [Hs Hr].
  destruct r as [|s2 r2].
  - simpl. apply split_space_no_space; auto.
  - change (join_space (s :: s2 :: r2)) with (s ++ " " ++ join_space (s2 :: r2))%string.
    rewrite split_space_app by auto. f_equal. apply IH; [discriminate | exact Hr].
Qed.

Lemma split_space_nonempty : forall s, split_space s <> [].
Proof.
  induction s as [|c r IH]; simpl; [discriminate|].
  destruct (Ascii.eqb c " "); [discriminate|]. destruct (split_space r); discriminate.
Qed.

(* ------------------------------------------------------------------ *)
(* Python sequence semantics of the index forms                        *)
(* ------------------------------------------------------------------ *)
Local Open Scope Z_scope.

Ltac zb := repeat match goal with
  | |- context[?a <? ?b] => destruct (Z.ltb_spec a b)
  | |- context[?a =? ?b] => destruct (Z.eqb_spec a b)
  | H : context[?a <? ?b] |- _ => destruct (Z.ltb_spec a b)
  end.

Lemma slice_clamp_py : forall (len : Z) (neg : bool) (v : Z), 0 <= len ->
  slice_clamp len (if neg then -1 else 0) (if neg then len - 1 else len) v = py_bound len neg v.
Proof. intros len neg v H. unfold slice_clamp, py_bound. destruct neg; zb; lia. Qed.

Lemma py_bound_range : forall (len : Z) (neg : bool) (v : Z), 0 <= len ->
  (if neg then -1 else 0) <= py_bound len neg v <= (if neg then len - 1 else len).
Proof. intros len neg v H. unfold py_bound. destruct neg; zb; lia. Qed.

Lemma range_count_spec : forall (start stop step : Z) (n : nat), step <> 0 ->
  Z.of_nat n < range_count start stop step <-> py_before step (start + Z.of_nat n * step) stop = true.
Proof.
  intros start stop step n Hs. unfold range_count, py_before.
  destruct (Z.ltb_spec 0 step) as [Hp|Hp].
  - rewrite Z.ltb_lt. destruct (Z.ltb_spec start stop) as [Hlt|Hge].
    + pose proof (Z.div_mod (stop - start - 1) step ltac:(lia)) as Hdm.
      pose proof (Z.mod_pos_bound (stop - start - 1) step Hp) as Hmb.
      set (q := (stop - start - 1) / step) in *. set (r := (stop - start - 1) mod step) in *. split; intro H; nia.
    + split; intro H; nia.
  - assert (Hn : 0 < - step) by lia. rewrite Z.ltb_lt. destruct (Z.ltb_spec stop start) as [Hlt|Hge].
    + pose proof (Z.div_mod (start - stop - 1) (- step) ltac:(lia)) as Hdm.
      pose proof (Z.mod_pos_bound (start - stop - 1) (- step) Hn) as Hmb.
      set (q := (start - stop - 1) / - step) in *. set (r := (start - stop - 1) mod - step) in *. split; intro H; nia.
    + split; intro H; nia.
Qed.

Lemma nth_error_range_list : forall (start stop step : Z) (n : nat), step <> 0 ->
  nth_error (range_list start stop step) n =
  if py_before step (start + Z.of_nat n * step) stop then Some (start + Z.of_nat n * step) else None.
Proof.
  intros start stop step n Hs. unfold range_list. rewrite nth_error_map'.
  pose proof (range_count_spec start stop step n Hs) as Hc.
  destruct (lt_dec n (Z.to_nat (range_count start stop step))) as [Hlt|Hge].
  - rewrite nth_error_seq by exact Hlt. simpl.
    replace (py_before step (start + Z.of_nat n * step) stop) with true; [reflexivity|].
    symmetry. apply Hc. lia.
  - replace (nth_error (seq 0 (Z.to_nat (range_count start stop step))) n) with (@None nat)
      by (symmetry; apply nth_error_None; rewrite seq_length; lia).
    simpl. destruct (py_before step (start + Z.of_nat n * step) stop) eqn:E; [|reflexivity].
    exfalso. apply Hge. destruct Hc as [_ Hc2]. specialize (Hc2 eq_refl). lia.
Qed.

Theorem slice_spec_lemma : forall (len : Z) (a b s : option Z), 0 <= len ->
  match slice_range len a b s with
  | None => s = Some 0
  | Some l => py_slice_spec len a b s l /\ Forall (fun x => 0 <= x < len) l
  end.
Proof.
  intros len a b s Hlen. unfold slice_range, slice_indices.
  set (step := match s with None => 1 | Some x => x end).
  destruct (Z.eqb_spec step 0) as [E|Hs].
  - destruct s as [z|]; unfold step in E; [rewrite E; reflexivity | discriminate].
  - set (neg := step <? 0).
    assert (Hstart : match a with
                     | None => if neg then (if neg then len - 1 else len) else (if neg then -1 else 0)
                     | Some v => slice_clamp len (if neg then -1 else 0) (if neg then len - 1 else len) v
                     end = py_start len step a).
    { unfold py_start. fold neg. destruct a; [apply slice_clamp_py; auto | destruct neg; reflexivity]. }
    assert (Hstop : match b with
                    | None => if neg then (if neg then -1 else 0) else (if neg then len - 1 else len)
                    | Some v => slice_clamp len (if neg then -1 else 0) (if neg then len - 1 else len) v
                    end = py_stop len step b).
    { unfold py_stop. fold neg. destruct b; [apply slice_clamp_py; auto | destruct neg; reflexivity]. }
    rewrite Hstart, Hstop.
    assert (Hspec : py_slice_spec len a b s (range_list (py_start len step a) (py_stop len step b) step)).
    { unfold py_slice_spec. fold step. split; [exact Hs|]. intro n. apply nth_error_range_list; auto. }
    split; [exact Hspec|].
    apply Forall_forall. intros x Hin. apply In_nth_error in Hin. destruct Hin as [n Hn].
    rewrite nth_error_range_list in Hn by auto.
    destruct (py_before step (py_start len step a + Z.of_nat n * step) (py_stop len step b)) eqn:Eb; [|discriminate].
    inversion Hn; subst x. clear Hn. unfold py_before in Eb.
    assert (Ha : (if step <? 0 then -1 else 0) <= py_start len step a <= (if step <? 0 then len - 1 else len)
                 /\ (0 < step -> py_start len step a >= 0) /\ (step < 0 -> py_start len step a <= len - 1)).
    { unfold py_start. destruct a as [v|].
      - pose proof (py_bound_range len (step <? 0) v Hlen). destruct (Z.ltb_spec step 0); lia.
      - destruct (Z.ltb_spec step 0); lia. }
    assert (Hb : (if step <? 0 then -1 else 0) <= py_stop len step b <= (if step <? 0 then len - 1 else len)).
    { unfold py_stop. destruct b as [v|].
      - apply py_bound_range; auto.
      - destruct (Z.ltb_spec step 0); lia. }
    destruct (Z.ltb_spec 0 step) as [Hp|Hp].
    + apply Z.ltb_lt in Eb. destruct (Z.ltb_spec step 0); [lia|]. nia.
    + apply Z.ltb_lt in Eb. destruct (Z.ltb_spec step 0); [|lia]. nia.
Qed.

Section Sequence.
  Variable value : Type.
  Variable vint : Z -> value.
  Variable proj : value -> nat -> value.

  Theorem getitem_negative_lemma : forall st m i, - s_len value st <= i < 0 ->
    getitem_int value vint proj st m i = getitem_int value vint proj st m (py_index (s_len value st) i) /\
    0 <= py_index (s_len value st) i < s_len value st.
  Proof.
    intros st m i H. unfold getitem_int, getitem_core, norm_idx, py_index.
    destruct (Z.ltb_spec i 0); [|lia]. destruct (Z.ltb_spec (s_len value st + i) 0); [lia|]. simpl. split; [reflexivity|lia].
  Qed.

  (* the range check of the negative branch *)
  Lemma getitem_int_in_range : forall st m i, - s_len value st <= i ->
    getitem_int value vint proj st m i = getitem_core value vint proj st m i.
  Proof.
    intros st m i H. unfold getitem_int.
    destruct (Z.ltb_spec i 0); [|reflexivity]. destruct (Z.ltb_spec (s_len value st + i) 0); [lia|reflexivity].
  Qed.

  Lemma getitem_core_not_indexerr : forall st m i, getitem_core value vint proj st m i <> RIndexErr.
  Proof.
    intros st m i. unfold getitem_core.
    destruct (run_fns value vint st (m_fns m) (norm_idx value st i) (if m_propagate m then Some [] else None))
      as [[vals c]|]; [|discriminate].
    destruct (m_return_ctx m); discriminate.
  Qed.

  Theorem getitem_below_range_lemma : forall st m i, 0 <= s_len value st ->
    (getitem_int value vint proj st m i = RIndexErr <-> i < - s_len value st).
  Proof.
    intros st m i Hl. unfold getitem_int.
    destruct (Z.ltb_spec i 0); destruct (Z.ltb_spec (s_len value st + i) 0); simpl; split; intro H1;
      try reflexivity; try lia; exfalso; eapply getitem_core_not_indexerr; eauto.
  Qed.

  (* what an in-range or above-range index does: the normalised index is handed to the loaders *)
  Lemma norm_idx_py_index : forall st i, norm_idx value st i = py_index (s_len value st) i.
  Proof. reflexivity. Qed.

  Theorem getitem_slice_lemma : forall st m a b s, 0 <= s_len value st ->
    match getitem value vint proj st m (ISlice a b s) with
    | GValueError => s = Some 0
    | GMany rs => exists l, py_slice_spec (s_len value st) a b s l /\ Forall (fun x => 0 <= x < s_len value st) l /\
                            rs = map (getitem_int value vint proj st m) l
    | GOne _ => False
    end.
  Proof.
    intros st m a b s H. simpl. pose proof (slice_spec_lemma (s_len value st) a b s H) as Hs.
    destruct (slice_range (s_len value st) a b s) as [l|]; [|exact Hs]. destruct Hs. exists l. auto.
  Qed.

  Theorem getitem_list_lemma : forall st m l,
    getitem value vint proj st m (IList l) = GMany (map (fun i => getitem_int value vint proj st m i) l).
  Proof. reflexivity. Qed.

  Lemma full_slice : forall len : Z, 0 <= len -> slice_range len None None None = Some (map Z.of_nat (seq 0 (Z.to_nat len))).
  Proof.
    intros len H. unfold slice_range, slice_indices. simpl. f_equal. unfold range_list, range_count. simpl.
    destruct (Z.ltb_spec 0 len).
    - rewrite Z.div_1_r. replace (len - 0 - 1 + 1) with len by lia. apply map_ext. intro k. lia.
    - replace len with 0 by lia. reflexivity.
  Qed.

  Theorem iter_len_lemma : forall st m, 0 <= s_len value st ->
    List.length (iter value vint proj st m) = Z.to_nat (mw_len value st) /\
    (forall k, (k < Z.to_nat (s_len value st))%nat ->
       nth_error (iter value vint proj st m) k = Some (getitem_int value vint proj st m (Z.of_nat k))) /\
    getitem value vint proj st m (ISlice None None None) = GMany (iter value vint proj st m).
  Proof.
    intros st m H. unfold iter, mw_len. split; [rewrite map_length, seq_length; reflexivity|]. split.
    - intros k Hk. rewrite nth_error_map'. rewrite nth_error_seq by exact Hk. reflexivity.
    - cbn [getitem]. rewrite full_slice by exact H. rewrite map_map. reflexivity.
  Qed.
End Sequence.

(* ------------------------------------------------------------------ *)
(* a declared group whose members all stand in the mode is loaded jointly *)
(* ------------------------------------------------------------------ *)
Local Open Scope nat_scope.

Lemma NoDup_app_disjoint : forall A (a b : list A) x, NoDup (a ++ b) -> In x a -> In x b -> False.
Proof.
  intros A a; induction a as [|y r IH]; intros b x H Ha Hb; [destruct Ha|].
  simpl in H. inversion H; subst. destruct Ha as [->|Ha].
  - apply H2. apply in_or_app. right; auto.
  - eapply IH; eauto.
Qed.

Lemma NoDup_app_right : forall A (a b : list A), NoDup (a ++ b) -> NoDup b.
Proof. intros A a; induction a; intros b H; simpl in H; auto. inversion H; auto. Qed.

Lemma groups_disjoint : forall (groups : list (list string)) g g' op,
  NoDup (List.concat groups) -> In g groups -> In g' groups -> In op g -> In op g' -> g = g'.
Proof.
  induction groups as [|g0 rest IH]; intros g g' op Hnd Hg Hg' Hop Hop'; [destruct Hg|].
  simpl in Hnd. destruct Hg as [<-|Hg]; destruct Hg' as [<-|Hg']; auto.
  - exfalso. eapply NoDup_app_disjoint; [exact Hnd | exact Hop |]. apply in_concat. eauto.
  - exfalso. eapply NoDup_app_disjoint; [exact Hnd | exact Hop' |]. apply in_concat. eauto.
  - eapply IH; eauto. eapply NoDup_app_right; eauto.
Qed.

Lemma try_groups_fires : forall groups h tl temp,
  NoDup (List.concat groups) -> Forall (fun g => g <> []) groups -> In (h :: tl) groups ->
  forallb (fun op => mem oeqb (Some op) temp) tl = true ->
  try_groups groups h temp = Fire (h :: tl).
Proof.
  induction groups as [|g0 rest IH]; intros h tl temp Hnd Hne Hin Hall; [destruct Hin|].
  inversion Hne; subst. simpl. destruct g0 as [|h0 tl0]; [congruence|].
  destruct (String.eqb h0 h) eqn:E.
  - apply String.eqb_eq in E; subst h0.
    assert (Heq : h :: tl0 = h :: tl).
    { eapply (groups_disjoint ((h :: tl0) :: rest)); eauto; left; reflexivity. }
    inversion Heq; subst. rewrite Hall. reflexivity.
  - destruct Hin as [Heq|Hin]; [inversion Heq; subst; rewrite String.eqb_refl in E; discriminate|].
    apply IH; auto. apply (NoDup_app_right _ (h0 :: tl0)). exact Hnd.
Qed.

Definition loaded (groups : list (list string)) (items : list string) (g : list string) (acc : list entry) : Prop :=
  exists idxs, In (String.concat "" g, Fused idxs) acc /\
               Forall2 (fun idx op => nth_error items idx = Some op) idxs g.

Definition pending (items : list string) (g : list string) (h : string) (i : nat) (temp : list (option string)) : Prop :=
  (forall q op, In op g -> nth_error items q = Some op -> nth_error temp q = Some (Some op)) /\
  (forall q, q < i -> nth_error items q <> Some h).

Lemma fuse_step_loaded : forall groups items g h tl i temp acc temp' acc',
  groups_ok groups -> In g groups -> g = h :: tl -> (forall op, In op g -> In op items) ->
  i < length items -> inv groups items i temp acc ->
  loaded groups items g acc \/ pending items g h i temp ->
  fuse_step groups (Some (temp, acc)) i = Some (temp', acc') ->
  loaded groups items g acc' \/ pending items g h (S i) temp'.
Proof.
  intros groups items g h tl i temp acc temp' acc' [Hg Hgd] Hgin Hgeq Hall Hi I HJ Hstep.
  assert (Hne : Forall (fun g => g <> []) groups).
  { rewrite Forall_forall in *. intros x Hx. apply (Hg x Hx). }
  destruct I as [Il Is Io Iw In_]. unfold fuse_step in Hstep.
  destruct (nth_error temp i) as [oi|] eqn:Eti; [|apply nth_error_None in Eti; lia].
  rewrite (nth_error_nth' _ _ _ None _ Eti) in Hstep.
  destruct HJ as [[idxs [Hin Hf]]|[Hun Hnoh]].
  { (* already loaded: entries are only appended *)
    left. destruct oi as [it|]; [|inversion Hstep; subst; exists idxs; auto].
    destruct (try_groups groups it temp); try discriminate.
    - inversion Hstep; subst. exists idxs. split; auto. apply in_or_app; auto.
    - destruct (consume g0 temp) as [[t' ix]|]; [|discriminate]. inversion Hstep; subst.
      exists idxs. split; auto. apply in_or_app; auto. }
  destruct oi as [it|].
  2:{ inversion Hstep; subst. right. split; auto. intros q Hq Hqh.
      destruct (Nat.eq_dec q i) as [->|Hne']; [|apply (Hnoh q); auto; lia].
      rewrite (Hun i h) in Eti; [discriminate | left; reflexivity | exact Hqh]. }
  pose proof (Is _ _ Eti) as Hit.
  assert (Hfire : it = h -> try_groups groups it temp = Fire g).
  { intros ->. subst g. apply try_groups_fires; auto. apply forallb_forall. intros op Hop.
    apply mem_nth. destruct (In_nth_error _ _ (Hall op (or_intror Hop))) as [q Hq]. exists q.
    apply Hun; auto. right; auto. }
  destruct (try_groups groups it temp) eqn:Et; try discriminate.
  - inversion Hstep; subst. right. split; auto. intros q Hq Hqh.
    destruct (Nat.eq_dec q i) as [->|Hne']; [|apply (Hnoh q); auto; lia].
    rewrite Hit in Hqh. inversion Hqh; subst. specialize (Hfire eq_refl). discriminate.
  - destruct (try_groups_fire _ _ _ _ Et) as [Hg0in [tl0 [-> Hall0]]].
    rewrite Forall_forall in Hg. destruct (Hg _ Hg0in) as [Hnd0 _].
    destruct (consume_ok (it :: tl0) temp Hnd0) as [t' [ix [Hc [Hf [Hl Hq]]]]].
    { intros op [<-|Hop]; [apply mem_nth; eauto|]. rewrite forallb_forall in Hall0. apply Hall0; auto. }
    rewrite Hc in Hstep. inversion Hstep; subst temp' acc'. clear Hstep.
    destruct (list_eq_dec string_dec (it :: tl0) g) as [Heq|Hneq].
    + left. exists ix. rewrite <- Heq. split; [apply in_or_app; right; left; reflexivity|].
      eapply Forall2_weaken; [|exact Hf]. simpl. intros a b [Ha _]. apply Is; auto.
    + right. split.
      * intros q op Hop Hqop. rewrite Hq. destruct (existsb (Nat.eqb q) ix) eqn:Ee; [|apply Hun; auto].
        exfalso. apply existsb_eqb_In in Ee.
        destruct (Forall2_In_left _ _ _ _ Hf Ee) as [op' [Hop' [Hqop' _]]].
        rewrite (Hun q op Hop Hqop) in Hqop'. inversion Hqop'; subst op'.
        apply Hneq. eapply groups_disjoint; eauto.
      * intros q Hqi Hqh. destruct (Nat.eq_dec q i) as [->|Hne']; [|apply (Hnoh q); auto; lia].
        rewrite Hit in Hqh. inversion Hqh; subst it. specialize (Hfire eq_refl). rewrite Hfire in Et.
        inversion Et. congruence.
Qed.

Lemma fuse_loop_loaded : forall groups items g h tl k i temp acc,
  groups_ok groups -> In g groups -> g = h :: tl -> (forall op, In op g -> In op items) ->
  i + k = length items -> inv groups items i temp acc ->
  loaded groups items g acc \/ pending items g h i temp ->
  forall temp' acc', fold_left (fuse_step groups) (seq i k) (Some (temp, acc)) = Some (temp', acc') ->
  loaded groups items g acc' \/ pending items g h (length items) temp'.
Proof.
  induction k; intros i temp acc Hg Hgin Hgeq Hall Hik I HJ temp' acc' Hfold; cbn [seq fold_left] in Hfold.
  - inversion Hfold; subst. replace (length items) with i by lia. exact HJ.
  - destruct (fuse_step_inv groups items i temp acc Hg ltac:(lia) I) as [t1 [a1 [E I1]]].
    rewrite E in Hfold.
    eapply (IHk (S i) t1 a1); eauto; [lia|].
    eapply fuse_step_loaded; eauto. lia.
Qed.

Theorem fuse_group_loaded_lemma : forall groups items g plan,
  groups_ok groups -> In g groups -> (forall op, In op g -> In op items) ->
  fuse groups items = Some plan ->
  exists idxs, In (String.concat "" g, Fused idxs) plan /\
               Forall2 (fun idx op => nth_error items idx = Some op) idxs g.
Proof.
  intros groups items g plan Hg Hgin Hall Hf.
  assert (Hgne : g <> []). { destruct Hg as [Hg _]. rewrite Forall_forall in Hg. apply (Hg g Hgin). }
  destruct g as [|h tl]; [congruence|].
  unfold fuse, fuse_loop in Hf. destruct groups as [|g0 gs]; [destruct Hgin|].
  destruct (fold_left (fuse_step (g0 :: gs)) (seq 0 (length items)) (Some (map Some items, [])))
    as [[temp acc]|] eqn:E; [|discriminate]. simpl in Hf. inversion Hf; subst acc. clear Hf.
  destruct (fuse_loop_loaded (g0 :: gs) items (h :: tl) h tl (length items) 0 (map Some items) []
              Hg Hgin eq_refl Hall eq_refl (inv_init _ _)) with (temp' := temp) (acc' := plan) as [Hl|[_ Hno]]; auto.
  - right. split.
    + intros q op _ Hq. rewrite nth_error_map'. rewrite Hq. reflexivity.
    + intros q Hq. lia.
  - exfalso. destruct (In_nth_error _ _ (Hall h (or_introl eq_refl))) as [q Hq].
    apply (Hno q); auto. apply nth_error_Some. congruence.
Qed.

(* ------------------------------------------------------------------ *)
(* witnesses for the non-vacuity examples of Property.v                *)
(* ------------------------------------------------------------------ *)
Definition ex_value_of (s : string) (i : Z) : value :=
  if String.eqb s "xclass" then Tup [Tup [VStr "x"; VInt i]; Tup [VStr "class"; VInt i]] else Tup [VStr s; VInt i].
Definition ex_upd (s : string) (i : Z) (c : octx value) : octx value :=
  match c with Some d => Some (ctx_set "k" (VStr s) d) | None => None end.
(* a 3-sample stack whose outermost wrapper declares [x, class] as jointly loaded; every loader records key k *)
Definition ex_stack : stack value :=
  {| s_len := 3%Z; s_fused_ops := [["x"; "class"]]%string; s_req_ctx := false;
     s_has_type := fun _ => true; s_has := fun _ => true;
     s_load := fun s i c => (ex_value_of s i, ex_upd s i c) |}.
Definition ex_items : list string := ["x"; "index"; "class"; "ctx.k"]%string.

Lemma ex_groups_ok : groups_ok (s_fused_ops value ex_stack).
Proof.
  split.
  - repeat constructor; simpl; try discriminate; intuition discriminate.
  - simpl. repeat constructor; simpl; intuition discriminate.
Qed.

Lemma ex_groups_named : groups_named (s_fused_ops value ex_stack).
Proof.
  intros g [<-|[]]. split; [reflexivity|]. intros op [<-|[<-|[]]]; reflexivity.
Qed.

Lemma ex_pure : pure_loaders value ex_stack ex_value_of ex_upd.
Proof. intros s i c. reflexivity. Qed.

Lemma ex_joint : joint_consistent value cproj ex_stack ex_value_of.
Proof.
  intros g [<-|[]] j op i H. destruct j as [|[|j]]; simpl in H.
  - inversion H; subst. reflexivity.
  - inversion H; subst. reflexivity.
  - destruct j; discriminate.
Qed.

Lemma ctx_set_keys : forall k0 v (d : ctx value) k, In k (map fst (ctx_set k0 v d)) -> In k (map fst d) \/ k = k0.
Proof.
  intros k0 v d; induction d as [|[k' v'] r IH]; intros k H; simpl in H.
  - destruct H as [<-|[]]. right; reflexivity.
  - destruct (String.eqb k0 k') eqn:E; simpl in H.
    + apply String.eqb_eq in E; subst. destruct H as [<-|H]; [right; reflexivity | left; right; exact H].
    + destruct H as [<-|H]; [left; left; reflexivity|]. destruct (IH k H); [left; right; auto | right; auto].
Qed.

Lemma ex_writes : writes_within value ex_stack (fun _ _ => ["k"%string]).
Proof.
  intros s i d. exists (ctx_set "k" (VStr s) d). split; [reflexivity|].
  intros k H. destruct (ctx_set_keys _ _ _ _ H) as [H1| ->]; [left; exact H1 | right; left; reflexivity].
Qed.
