#!/bin/bash
# tools/harmless_run.sh [pattern]  — false-alarm test: applies each /verif/harmless/<Cxx_k>/patch.diff (behaviour-preserving refactorings
# written by independent agents) to /repo, runs the property's quick check, restores /repo, writes harmless/_matrix.txt.
# Expected: exit 0, or at most "no-failing-input-found" (model drift / translator fail-closed, allowed by the brief);
# a VIOLATION with a concrete replay on a behaviour-preserving change is a FALSE ALARM of the check.
cd "$(dirname "$0")/.."
[ -z "$(git -C /repo status --porcelain)" ] || { echo "/repo not clean"; exit 2; }
out=harmless/_matrix.txt; : > $out.tmp
for d in harmless/*${1}*/; do
  [ -f "$d/patch.diff" ] || continue
  id=$(basename $d); prop=${id%%_*}
  if ! git -C /repo apply "$PWD/$d/patch.diff" 2>/dev/null; then echo "$id: patch does not apply" | tee -a $out.tmp; continue; fi
  res=$(./check $prop --tier quick 2>&1); rc=$?
  git -C /repo checkout -- .
  nv=$(echo "$res" | grep -c '^VIOLATION'); nf=$(echo "$res" | grep '^VIOLATION' | grep -c 'no-failing-input-found')
  verdict=ok; [ $rc -ne 0 ] && verdict=drift-only; [ $nv -gt $nf ] && verdict=FALSE-ALARM
  echo "$id property=$prop exit=$rc violations=$nv no-failing-input=$nf verdict=$verdict" | tee -a $out.tmp
  [ $nv -gt $nf ] && echo "$res" | grep -A2 '^VIOLATION' | grep -v no-failing | head -6 | cut -c1-300
done
mv $out.tmp $out
