(* C15 — the property, stated on observable parameter values.

   Strength scaling.  A transform (tree: leaf = one scaling transform class with its parameter record,
   Opaque = a KDTransform without scaling, Foreign = a plain callable, Compose = a container: KDComposeTransform,
   KDTransformChoice, KDRandomApply, PatchwiseTransform) is
   scaled by factors in [0,1].
     * factor 1 gives back the constructed parameters           (tree_eq (scale t 1) t),
     * factor 0 gives the weakest setting                        (tree_weakest (scale t 0)),
     * every scaled parameter moves monotonically with the factor (all3 between on tree_bounds),
     * only the last factor matters                              (scale (scale t f) g = scale t g),
     * every sampled range stays a range                         (tree_ordered (scale t f) for f in [0,1]).
   Scheduled transform.  Full batches of B samples are dealt to W workers round-robin (batch b goes to
   worker b mod W).  Sample n (global order) is in batch n / B, is handled by worker rr_owner n and is
   that worker's rr_local-th sample.  The strength applied to it and written to ctx is schedule(n / B). *)
From Coq Require Import ZArith QArith Qminmax List Bool.
Import ListNotations.
From KD Require Import C15.Base C15.gen.Strength.
Open Scope Q_scope.

(* ---- lifting leaf predicates / relations to trees ---- *)
Fixpoint tree_all (P : leaf -> Prop) (t : tree) : Prop :=
  match t with
  | Leaf l => P l
  | Opaque | Foreign => True
  | Compose ts => (fix go (ts : list tree) : Prop :=
                     match ts with [] => True | c :: r => tree_all P c /\ go r end) ts
  end.
Fixpoint tree_allb (p : leaf -> bool) (t : tree) : bool :=
  match t with
  | Leaf l => p l
  | Opaque | Foreign => true
  | Compose ts => forallb (tree_allb p) ts
  end.
Fixpoint tree_rel (R : leaf -> leaf -> Prop) (a b : tree) : Prop :=
  match a, b with
  | Leaf x, Leaf y => R x y
  | Opaque, Opaque => True
  | Foreign, Foreign => True
  | Compose xs, Compose ys =>
      (fix go (xs ys : list tree) : Prop :=
         match xs, ys with
         | [], [] => True
         | x :: xs, y :: ys => tree_rel R x y /\ go xs ys
         | _, _ => False
         end) xs ys
  | _, _ => False
  end.
Fixpoint tree_relb (r : leaf -> leaf -> bool) (a b : tree) : bool :=
  match a, b with
  | Leaf x, Leaf y => r x y
  | Opaque, Opaque => true
  | Foreign, Foreign => true
  | Compose xs, Compose ys =>
      (fix go (xs ys : list tree) : bool :=
         match xs, ys with
         | [], [] => true
         | x :: xs, y :: ys => tree_relb r x y && go xs ys
         | _, _ => false
         end) xs ys
  | _, _ => false
  end.
Fixpoint tree_bounds (t : tree) : list Q :=
  match t with
  | Leaf l => leaf_bounds l
  | Opaque | Foreign => []
  | Compose ts => flat_map tree_bounds ts
  end.

Definition tree_constructed := tree_all leaf_constructed.
Definition tree_constructedb := tree_allb leaf_constructedb.
Definition tree_eq := tree_rel leaf_eq.
Definition tree_approx := tree_relb leaf_approx.

(* ---- GENERATED per class (gen/Strength.v, from the translator's SPEC table; classes that only forward to members
        inherit from them), lifted to trees here:
        leaf_wf       domain of the constructor arguments (what torchvision's ColorJitter accepts / produces:
                      brightness, contrast, saturation lower bounds >= 0, hue range within [-1/2, 1/2]);
        leaf_dom      the CONSTRUCTED ranges are ordered (og_lb <= og_ub, magnitude_min <= magnitude <= magnitude_max,
                      sigma_lb <= sigma_ub) and the non-negative parameters were constructed >= 0;
        leaf_ordered  the CURRENT ranges are ordered (what rng.uniform(lb, ub) / clip(x, min, max) need);
        leaf_weakest_ every scaled parameter at its weakest value (the identity where the transform has one),
                      abstract in the comparison: Qeq in the theorems, approxQ in the check. ---- *)
Definition tree_wf := tree_all leaf_wf.
Definition tree_wfb := tree_allb leaf_wfb.
Definition tree_dom := tree_all leaf_dom.
Definition tree_domb := tree_allb leaf_domb.
Definition tree_ordered := tree_all leaf_ordered.
Definition tree_orderedb := tree_allb leaf_orderedb.

Definition leaf_weakest : leaf -> Prop := leaf_weakest_ Prop Qeq (@eq Z) and True False.
Definition leaf_weakestb : leaf -> bool := leaf_weakest_ bool approxQ Z.eqb andb true false.
Definition tree_weakest := tree_all leaf_weakest.
Definition tree_weakestb := tree_allb leaf_weakestb.

(* every scaled parameter of t at factor f lies between its value at factor 0 and its value at factor g *)
Definition bounds_between (z x y : tree) : Prop := all3 between (tree_bounds z) (tree_bounds x) (tree_bounds y).
Definition bounds_betweenb (z x y : tree) : bool := all3b betweenb (tree_bounds z) (tree_bounds x) (tree_bounds y).

(* ---- round-robin assignment of full batches ---- *)
Open Scope Z_scope.
Definition rr_batch (B n : Z) : Z := n / B.                       (* global batch of global sample n *)
Definition rr_owner (W B n : Z) : Z := (n / B) mod W.             (* worker that loads that batch *)
Definition rr_local (W B n : Z) : Z := (n / B / W) * B + n mod B. (* how many samples that worker saw before *)
(* the global sample that is the s-th sample of worker r *)
Definition rr_global (W B r s : Z) : Z := ((s / B) * W + r) * B + s mod B.
