(* C15 — executable comparison of what the real transforms showed with the generated model (gen/Strength.v),
   the hand model of the scheduled transform (Sched.v) and the spec (Spec.v).  Used by harness/c15.py.
   Codes: 0 = implementation, model and spec agree; 1 = model differs from the implementation;
          2.. = the spec evaluated on the implementation's output is false. *)
From Coq Require Import ZArith QArith Qminmax List Bool.
Import ListNotations.
From KD Require Import C15.Base C15.gen.Strength C15.Sched C15.Spec.
Open Scope Q_scope.

Inductive case_t : Type :=
  (* state read from a freshly constructed real transform; then (factor, state read back after scale_strength(factor)) *)
  | CScale (t0 : tree) (steps : list (Q * tree))
  (* W workers, batch size B, how n_batches was announced, the n_batches attribute the real object computed, the
     wrapped transform as constructed, the schedule's values at batch 0..NB-1 (asked from an independent copy of the
     schedule), and per global sample in order: the worker that handled it, ctx[strength], wrapped state afterwards *)
  | CSched (W : nat) (B : Z) (i : init_t) (NB : Z) (inner0 : tree) (values : list Q) (obs : list (nat * Q * tree))
  (* interleaved history on shared augmentation objects: W pipeline copies, the scheduled transforms' configurations,
     the n_batches attributes the real objects computed, the members of the outer composition, the heap of augmentation
     objects as constructed, per scheduled transform its schedule's values at batch 0..NB-1 (independent copy of the
     schedule), and per step in time order: what was done (with the copy that did it), the value reported in ctx (the
     factor for scale steps) and the copy's whole heap read back from the real objects afterwards *)
  | CInter (W : nat) (cfgs : list scfg) (NBs : list Z) (outer : list member) (inners0 : list tree)
           (values : list (list Q)) (obs : list (pstep * Q * list tree)).

Fixpoint scan (t : tree) (fs : list Q) : list tree :=
  match fs with [] => [] | f :: r => let t' := tree_scale t f in t' :: scan t' r end.

Fixpoint forall2b {A B} (p : A -> B -> bool) (xs : list A) (ys : list B) : bool :=
  match xs, ys with
  | [], [] => true
  | x :: xs, y :: ys => p x y && forall2b p xs ys
  | _, _ => false
  end.

Definition scale_model_ok (t0 : tree) (steps : list (Q * tree)) : bool :=
  tree_constructedb t0 && tree_wfb t0 && tree_domb t0 && forall2b tree_approx (scan t0 (map fst steps)) (map snd steps).

Definition scale_spec_ok (t0 : tree) (steps : list (Q * tree)) : bool :=
  (* factor 1 restores the constructed parameters, factor 0 gives the weakest setting *)
  forallb (fun '(f, o) => (if Qeq_bool f 1 then tree_approx o t0 else true) &&
                          (if Qeq_bool f 0 then tree_weakestb o else true)) steps &&
  (* every range the sampling draws from is a range (lb <= ub, min <= magnitude <= max), exactly *)
  tree_orderedb t0 && forallb (fun '(_, o) => tree_orderedb o) steps &&
  (* equal factors give equal parameters whatever came in between *)
  forallb (fun '(f, o) => forallb (fun '(g, p) => if Qeq_bool f g then tree_approx o p else true) steps) steps &&
  (* every bound at factor f lies between its value at 0 and its value at g >= f *)
  match find (fun '(f, _) => Qeq_bool f 0) steps with
  | Some (_, z) =>
      forallb (fun '(f, o) => forallb (fun '(g, p) => if Qle_bool f g then bounds_betweenb z o p else true) steps) steps
  | None => true
  end.

Definition table (values : list Q) : Z -> Z -> Q :=
  fun b _ => if (b <? 0)%Z then (-1 # 1) else nth (Z.to_nat b) values (-1 # 1).

Definition sched_model_ok (W : nat) (B : Z) (i : init_t) (NB : Z) (inner0 : tree) (values : list Q)
                          (obs : list (nat * Q * tree)) : bool :=
  Z.eqb (n_batches_of i B) NB &&
  forall2b (fun (m : Q * tree) (o : nat * Q * tree) =>
              let '(_, v, t) := o in Qeq_bool (fst m) v && tree_approx (snd m) t)
           (pool_run (table values) (init_pool W B i inner0) (map (fun o => fst (fst o)) obs)) obs.

Fixpoint sched_spec_from (n : Z) (B : Z) (inner0 : tree) (values : list Q) (obs : list (nat * Q * tree)) : bool :=
  match obs with
  | [] => true
  | (_, v, t) :: r =>
      let want := table values (rr_batch B n) 0%Z in
      Qeq_bool v want && tree_approx (tree_scale inner0 want) t && sched_spec_from (n + 1)%Z B inner0 values r
  end.

Definition tables (values : list (list Q)) : nat -> Z -> Z -> Q := fun k => table (nth k values []).

Definition inter_model_ok (W : nat) (cfgs : list scfg) (NBs : list Z) (outer : list member) (inners0 : list tree)
                          (values : list (list Q)) (obs : list (pstep * Q * list tree)) : bool :=
  forall2b Z.eqb (map (fun c : scfg => let '(B, i, _) := c in n_batches_of i B) cfgs) NBs &&
  forallb tree_constructedb inners0 &&
  forall2b (fun (m : Q * list tree) (o : pstep * Q * list tree) =>
              let '(_, v, h) := o in Qeq_bool (fst m) v && forall2b tree_approx (snd m) h)
           (ipool_run (tables values) outer (iinit_pool W cfgs inners0) (map (fun o => fst (fst o)) obs)) obs.

Definition gstep_of (p : pstep) : gstep :=
  match p with PCall _ k => GCall k | PScale w j f => GScale w j f | PScaleOuter w f => GScaleOuter w f end.
Definition pstep_eqb (a b : pstep) : bool :=
  match a, b with
  | PCall w k, PCall w' k' => Nat.eqb w w' && Nat.eqb k k'
  | PScale w j f, PScale w' j' f' => Nat.eqb w w' && Nat.eqb j j' && Qeq_bool f f'
  | PScaleOuter w f, PScaleOuter w' f' => Nat.eqb w w' && Qeq_bool f f'
  | _, _ => false
  end.

(* the steps as recorded are the round-robin routing of the history (the harness deals the samples itself: self-check) *)
Definition inter_routed (W : nat) (cfgs : list scfg) (obs : list (pstep * Q * list tree)) : bool :=
  let ps := map (fun o => fst (fst o)) obs in
  forall2b pstep_eqb (route W cfgs (fun _ => O) (map gstep_of ps)) ps.

(* the property on the implementation's output: every call of a scheduled transform reports its own schedule's value
   at its own global batch and is applied with every object it reaches at `constructed scaled by that value` *)
Definition inter_spec_ok (W : nat) (cfgs : list scfg) (outer : list member) (inners0 : list tree)
                         (values : list (list Q)) (obs : list (pstep * Q * list tree)) : bool :=
  let gs := map (fun o => gstep_of (fst (fst o))) obs in
  forall2b (fun (m : Q * list tree) (o : pstep * Q * list tree) =>
              let '(p, v, h) := o in
              match p with
              | PCall _ k =>
                  match nth_error cfgs k with
                  | Some (_, _, js) =>
                      Qeq_bool (fst m) v &&
                      forallb (fun j => match nth_error (snd m) j, nth_error h j with
                                        | Some a, Some b => tree_approx a b
                                        | None, None => true
                                        | _, _ => false
                                        end) js
                  | None => false
                  end
              | _ => true
              end)
           (ispec_run W cfgs (tables values) outer inners0 (fun _ => O) (fun _ _ => None) gs) obs.

Definition check (c : case_t) : nat :=
  match c with
  | CScale t0 steps =>
      if negb (scale_spec_ok t0 steps) then 2%nat
      else if negb (scale_model_ok t0 steps) then 1%nat else 0%nat
  | CSched W B i NB inner0 values obs =>
      if negb (sched_spec_from 0%Z B inner0 values obs) then 2%nat
      else if negb (sched_model_ok W B i NB inner0 values obs) then 1%nat else 0%nat
  | CInter W cfgs NBs outer inners0 values obs =>
      if negb (inter_routed W cfgs obs) then 3%nat
      else if negb (inter_spec_ok W cfgs outer inners0 values obs) then 2%nat
      else if negb (inter_model_ok W cfgs NBs outer inners0 values obs) then 1%nat else 0%nat
  end.
