(* C07 - an injected seed fully determines an augmentation, and nothing else does. *)
From Coq Require Import ZArith List Bool String.
Import ListNotations.
From KD Require Import C07.RngGraph C07.Proofs C07.gen.RngTable C07.TableProofs.

(* generic: over a closed table, every generator that any call of any object tree (any depth, any width, any
   slots before) can draw from after set_rng(p) is p *)
Theorem closed_table_deterministic : forall tbl,
    forallb (closed tbl) tbl = true ->
    forall t, wf tbl t = true ->
    forall p q, In q (draws tbl (set_rng tbl p t)) -> q = p.
Proof. exact closed_table_deterministic_proof. Qed.
Print Assumptions closed_table_deterministic.

(* the table generated from today's sources is closed *)
Theorem table_closed : forallb (closed rng_table) rng_table = true.
Proof. exact table_closed_proof. Qed.
Print Assumptions table_closed.

(* hence, for the shipped classes: after injecting seed s, whatever the construction-time seeds and the earlier
   history left in the slots, all draws come from the generator seeded with s ... *)
Theorem injected_seed_determines_every_draw : forall t, wf rng_table t = true ->
    forall s q, In q (draws rng_table (set_rng rng_table (Inj s) t)) -> q = Inj s.
Proof. intros t Hwf s q. apply (closed_table_deterministic_proof rng_table table_closed_proof t Hwf (Inj s) q). Qed.
Print Assumptions injected_seed_determines_every_draw.

(* ... in particular no process-global source, no construction-time generator, no other seed *)
Theorem no_global_no_construction_source : forall t, wf rng_table t = true ->
    forall s q, In q (draws rng_table (set_rng rng_table (Inj s) t)) ->
                (forall g, q <> Glob g) /\ (forall k, q <> Ctor k) /\ (forall k, q <> Wrk k) /\ (forall s', q = Inj s' -> s' = s).
Proof. exact (no_foreign_source_proof rng_table table_closed_proof). Qed.
Print Assumptions no_global_no_construction_source.

(* re-injecting replays: an earlier injection leaves no trace *)
Theorem reinjection_replays : forall t, wf rng_table t = true ->
    forall s0 s q, In q (draws rng_table (set_rng rng_table (Inj s) (set_rng rng_table (Inj s0) t))) -> q = Inj s.
Proof. intros t Hwf s0 s q. apply (reinject_replays_proof rng_table table_closed_proof t Hwf (Inj s0) (Inj s) q). Qed.
Print Assumptions reinjection_replays.

(* non-vacuity: a nested composition over the generated table is well formed and does draw *)
Example nonvacuous :
  let t := Node "KDComposeTransform" None
             [("transforms", [Node "KDRandomColorJitter" (Some (Ctor 0)) [("color_jitter", [Node "KDColorJitter" (Some (Ctor 1)) []])];
                              Node "PatchwiseTransform" None [("transform", [Node "KDRandomHorizontalFlip" (Some (Ctor 2)) []])]])] in
  wf rng_table t = true /\ draws rng_table (set_rng rng_table (Inj 5) t) = [Inj 5; Inj 5; Inj 5]%Z
  /\ draws rng_table t = [Ctor 0; Ctor 1; Ctor 2].
Proof. vm_compute. repeat split. Qed.
