(* Executable comparison of the implementation's observations with model and spec
   (correspondence run of harness/c18.py). *)
From Coq Require Import ZArith List Bool.
Import ListNotations.
From KD Require Import C18.Model C18.Spec.
Open Scope Z_scope.

(* the tiny member collators the harness builds (harness/c18.py: _Member, PadSequencesCollator) *)
(* KAddKeys: a REAL collator (KDMixCollator, KDDinoMaskCollator, KDIjepaMaskCollator) seen through its
   contract only: it keeps the layout of the batch and writes the announced keys into the batched context
   (the contents of the fields it rewrites and of the values it writes are not modelled here) *)
Inductive mkind := KId | KMark (c : Z) | KCtxWrite (key : Z) | KAddKeys (ks : list Z) | KPad.

Definition mark_field (c : Z) (f : field) : field :=
  match f with
  | FScalar d z => FScalar d (z + c)
  | FSeq d tr l => FSeq d tr (map (map (fun v => v + c)) l)
  end.
Definition mark_cfield (c : Z) (f : cfield) : cfield :=
  match f with
  | CVec d l => CVec d (map (fun v => v + c) l)
  | CMat d tr r => CMat d tr (map (map (map (fun v => v + c))) r)
  end.
Definition on_head {A} (f : A -> A) (l : list A) : list A := match l with [] => [] | a :: r => f a :: r end.
Definition mark_batch (c : Z) (b : batch) : option batch :=
  match b with
  | BItems l => Some (BItems (map (on_head (mark_field c)) l))
  | BColl cs => Some (BColl (on_head (mark_cfield c) cs))
  | _ => None
  end.
Fixpoint set_key (k : Z) (v : list Z) (x : bctx) : bctx :=
  match x with
  | [] => [(k, v)]
  | (k', v') :: r => if k =? k' then (k, v) :: r else (k', v') :: set_key k v r
  end.

Definition member_of (mk : cmode * mkind) : member :=
  match snd mk with
  | KId => {| mmode := fst mk; mcollate := fun b x => Some (b, x) |}
  | KMark c => {| mmode := fst mk; mcollate := fun b x => option_map (fun b' => (b', x)) (mark_batch c b) |}
  | KCtxWrite key => {| mmode := fst mk; mcollate := fun b x => Some (b, set_key key [key] x) |}
  | KAddKeys ks => {| mmode := fst mk; mcollate := fun b x => Some (b, fold_left (fun x' k => set_key k [] x') ks x) |}
  | KPad => pad_member
  end.

(* ---- equality tests ---- *)
Fixpoint list_eqb {A} (eq : A -> A -> bool) (a b : list A) : bool :=
  match a, b with
  | [], [] => true
  | x :: a', y :: b' => eq x y && list_eqb eq a' b'
  | _, _ => false
  end.
Definition field_eqb (a b : field) : bool :=
  match a, b with
  | FScalar d x, FScalar e y => dtype_eqb d e && (x =? y)
  | FSeq d tr x, FSeq e ts y => dtype_eqb d e && shape_eqb tr ts && list_eqb (list_eqb Z.eqb) x y
  | _, _ => false
  end.
Definition cfield_eqb (a b : cfield) : bool :=
  match a, b with
  | CVec d x, CVec e y => dtype_eqb d e && list_eqb Z.eqb x y
  | CMat d tr x, CMat e ts y => dtype_eqb d e && shape_eqb tr ts && list_eqb (list_eqb (list_eqb Z.eqb)) x y
  | _, _ => false
  end.
Definition bctx_eqb : bctx -> bctx -> bool :=
  list_eqb (fun a b => (fst a =? fst b) && list_eqb Z.eqb (snd a) (snd b)).
Definition sctx_eqb : sctx -> sctx -> bool := list_eqb (fun a b => (fst a =? fst b) && (snd a =? snd b)).
Definition batch_eqb (a b : batch) : bool :=
  match a, b with
  | BRaw x, BRaw y => list_eqb (fun p q => list_eqb field_eqb (fst p) (fst q) && sctx_eqb (snd p) (snd q)) x y
  | BItems x, BItems y => list_eqb (list_eqb field_eqb) x y
  | BColl x, BColl y => list_eqb cfield_eqb x y
  | BCollCtx x c, BCollCtx y d => list_eqb cfield_eqb x y && bctx_eqb c d
  | _, _ => false
  end.
Definition err_eqb (a b : err) : bool :=
  match a, b with EAssert, EAssert | ECollate, ECollate | EUnpack, EUnpack | EMember, EMember => true | _, _ => false end.
Definition optctx_eqb (a b : option bctx) : bool :=
  match a, b with Some x, Some y => bctx_eqb x y | None, None => true | _, _ => false end.
Definition result_eqb (a b : result) : bool :=
  match a, b with
  | Ok x c, Ok y d => batch_eqb x y && optctx_eqb c d
  | Fail e, Fail f => err_eqb e f
  | _, _ => false
  end.
Definition op_eqb (a b : op) : bool :=
  match a, b with
  | DefaultCollate, DefaultCollate | UnpackCtx, UnpackCtx | SplitCtx, SplitCtx | CollateCtx, CollateCtx => true
  | Call i, Call j => Nat.eqb i j
  | _, _ => false
  end.

(* the harness sees default_collate calls (on the batch / on the contexts) and member calls;
   the tuple unpackings are not observable *)
Definition observable (t : list op) : list op :=
  filter (fun o => match o with SplitCtx | UnpackCtx => false | _ => true end) t.

(* ---- boolean spec on the implementation's output ---- *)
Definition is_pad (k : mkind) : bool := match k with KPad => true | _ => false end.
Definition is_ctxw (k : mkind) : bool := match k with KCtxWrite _ | KAddKeys _ => true | _ => false end.
(* the context keys a member announces to write *)
Definition written_keys (k : mkind) : list Z :=
  match k with KCtxWrite key => [key] | KAddKeys ks => ks | _ => [] end.

Definition items_shapeb (n B : nat) (l : list (list field)) : bool :=
  Nat.eqb (length l) B && forallb (fun s => Nat.eqb (length s) n) l.
Definition coll_shapeb (n B : nat) (c : list cfield) : bool :=
  Nat.eqb (length c) n && forallb (fun f => Nat.eqb (rows_of f) B) c.
Definition has_layoutb (n B : nat) (collated : bool) (b : batch) : bool :=
  match b with
  | BItems l => negb collated && items_shapeb n B l
  | BColl c => collated && coll_shapeb n B c
  | _ => false
  end.

Fixpoint all_zero (l : list Z) : bool := match l with [] => true | z :: r => (z =? 0) && all_zero r end.
(* a padding step: exactly prod(trailing) numbers, every one exactly 0 *)
Definition zero_step (tr : list nat) (e : elem) : bool := Nat.eqb (length e) (numel tr) && all_zero e.
(* p = r ++ zero steps *)
Fixpoint is_zero_padding_of (tr : list nat) (r p : list elem) : bool :=
  match r, p with
  | [], _ => forallb (zero_step tr) p
  | a :: r', b :: p' => list_eqb Z.eqb a b && is_zero_padding_of tr r' p'
  | _ :: _, [] => false
  end.
Fixpoint pairwiseb {A B} (f : A -> B -> bool) (a : list A) (b : list B) : bool :=
  match a, b with
  | [], [] => true
  | x :: a', y :: b' => f x y && pairwiseb f a' b'
  | _, _ => false
  end.
(* same dtype, same trailing shape, all rows M steps long, row i = sample i ++ zero steps,
   M attained by some sample *)
Definition padded_fieldb (col : list field) (out : cfield) : bool :=
  match col with
  | FSeq d tr _ :: _ =>
      match map_opt (get_seq d tr) col, out with
      | Some rows, CMat d' tr' prow =>
          match prow with
          | [] => false
          | p0 :: _ =>
              let M := length p0 in
              dtype_eqb d d' && shape_eqb tr tr'
              && forallb (fun p => Nat.eqb (length p) M) prow
              && pairwiseb (is_zero_padding_of tr) rows prow
              && existsb (fun r => Nat.eqb (length r) M) rows
          end
      | _, _ => false
      end
  | _ => match collate_col col with Some o => cfield_eqb o out | None => false end
  end.
Definition padded_batchb (items : list (list field)) (c : list cfield) : bool :=
  match items with
  | [] => false
  | s0 :: _ =>
      Nat.eqb (length c) (length s0) &&
      forallb (fun i => match column i items, nth_error c i with
                        | Some col, Some out => padded_fieldb col out
                        | _, _ => false end) (seq 0 (length s0))
  end.

Definition keys_incl (a b : list Z) : bool := forallb (fun k => existsb (Z.eqb k) b) a.

(* rc, entry (0 compose, 1 single, 2 wrapper, 3 PadSequencesCollator.collate called directly),
   members, input batch, observed operations, observed result *)
Definition case_t : Type := bool * nat * list (cmode * mkind) * batch * list op * result.

Definition model_run (rc : bool) (entry : nat) (mks : list (cmode * mkind)) (b : batch) : list op * result :=
  match entry with
  | 0%nat => compose_call rc (map member_of mks) b
  | 1%nat => match mks with [mk] => single_call rc (member_of mk) b | _ => ([], Fail EMember) end
  | 2%nat => match mks with [mk] => wrapper_call rc (member_of mk) b | _ => ([], Fail EMember) end
  | _ => match pad_collate b with Some b' => ([], Ok b' None) | None => ([], Fail ECollate) end
  end.

(* 0 = implementation, model and spec agree; 1 = model differs from the implementation;
   >= 2 = the spec is false on the implementation's output (2 collated twice, 3 wrong
   operations/order, 4 ctx returned iff configured, 5 context keys/values, 6 layout, 7 padding) *)
Definition check (t : case_t) : nat :=
  let '(rc, entry, mks, b, otrace, ores) := t in
  let modes := map fst mks in
  let kinds := map snd mks in
  let items := sample_items b in
  let B := length items in
  let n := match items with s0 :: _ => length s0 | [] => 0%nat end in
  let direct := Nat.leb 3 entry in
  let has_pad := existsb is_pad kinds in
  if Nat.ltb 1 (count_dc otrace) then 2%nat else
  let spec_bad :=
    match ores with
    | Fail _ => 0%nat
    | Ok ob oxo =>
        if direct then
          match ob with
          | BCollCtx c x => if negb (padded_batchb items c) then 7%nat
                            else if negb (optctx_eqb (Some x) (collate_ctx (sample_ctxs b))) then 5%nat else 0%nat
          | BColl c => if padded_batchb items c then 0%nat else 7%nat
          | _ => 6%nat
          end
        else
        if negb (well_ordered modes && list_eqb op_eqb otrace (observable (spec_trace rc modes))) then 3%nat else
        if negb (Bool.eqb (match oxo with Some _ => true | None => false end) rc) then 4%nat else
        if rc && negb (if existsb is_ctxw kinds
                       then match oxo, collate_ctx (sample_ctxs b) with
                            | Some x, Some x0 =>
                                (* no sample key lost, no key invented beyond what the members announce *)
                                keys_incl (keys x0) (keys x)
                                && keys_incl (keys x) (keys x0 ++ flat_map written_keys kinds)
                            | _, _ => false end
                       else optctx_eqb oxo (collate_ctx (sample_ctxs b))) then 5%nat else
        if negb (has_layoutb n B (negb (all_none modes) || has_pad) ob) then 6%nat else
        if has_pad && Nat.eqb (length mks) 1 &&
           negb (match ob with BColl c => padded_batchb items c | _ => false end) then 7%nat
        else 0%nat
    end in
  let '(mt, mr) := model_run rc entry mks b in
  if negb (list_eqb op_eqb (observable mt) otrace && result_eqb mr ores) then
    (if Nat.eqb spec_bad 0 then 1%nat else spec_bad)
  else spec_bad.

(* ---------------------------------------------------------------------- *)
(* construction histories on shared member objects (family 'shared' of harness/c18.py) *)
(* the attributes (dataset_mode as a number, return_ctx) read off a real member object *)
Definition mattr := (option nat * option bool)%type.
Definition onat_eqb (a b : option nat) : bool :=
  match a, b with Some x, Some y => Nat.eqb x y | None, None => true | _, _ => false end.
Definition obool_eqb (a b : option bool) : bool :=
  match a, b with Some x, Some y => Bool.eqb x y | None, None => true | _, _ => false end.
Definition mattr_eqb (a b : mattr) : bool := onat_eqb (fst a) (fst b) && obool_eqb (snd a) (snd b).

(* one observed step: an entry point was built / called; [snap] = the members' attributes afterwards.
   A call carries the entry point's OWN dataset mode, the modes its members were handed, and the call as an
   ordinary case of the entry point's own configuration (rc, entry, members, batch, trace, result) *)
Inductive hobs :=
| OBuild (snap : list mattr)
| OCall (own : nat) (passed : list nat) (c : case_t) (snap : list mattr).

Inductive xcase_t :=
| XOne (c : case_t)
| XHist (init : list mattr) (steps : list hobs).

(* 8 = building / calling an entry point changed the configuration attributes of a member collator,
   9 = a member was handed another dataset mode than the entry point's own;
   a call is judged by [check] against the model of a FRESH configuration of the entry point's own
   (theorem entry_point_independent_of_other_entry_points: that is what the object-level model computes) *)
Definition step_code (init : list mattr) (s : hobs) : nat :=
  match s with
  | OBuild snap => if list_eqb mattr_eqb snap init then 0%nat else 8%nat
  | OCall own passed c snap =>
      let r := check c in
      if Nat.leb 2 r then r else
      if negb (forallb (Nat.eqb own) passed) then 9%nat else
      if negb (list_eqb mattr_eqb snap init) then 8%nat else r
  end.
(* the first spec failure (>= 2) if there is one, else 1 if some call drifted from the model, else 0 *)
Definition combine (codes : list nat) : nat :=
  match filter (Nat.leb 2) codes with
  | c :: _ => c
  | [] => if existsb (Nat.eqb 1) codes then 1%nat else 0%nat
  end.
Definition xcheck (t : xcase_t) : nat :=
  match t with
  | XOne c => check c
  | XHist init steps => combine (map (step_code init) steps)
  end.
