(* Main refinement: the model of _training_loop equals the closed-form spec. *)
From Coq Require Import ZArith List Bool Lia.
Import ListNotations.
From KD Require Import C04.Model C04.Spec C04.Lists C04.Arith C04.Sides.
Open Scope Z_scope.

Section Main.
  Variables (c : cfg) (mi : Z -> list Z).
  Hypothesis W : WF c mi.

  Let HlB : lB c = cB c := lB_eq c mi W.
  Let Hlspe : lspe c = spe c := lspe_eq c mi W.

  (* one batch: b is consumed, the last index closes the update *)
  Lemma epoch_loop_batch : forall b rest sie s sample' sie',
    b <> [] -> 0 <= siu s -> siu s + len b <= cB c -> sie + len b <= spe c ->
    (siu s + len b = cB c \/ sie + len b = spe c) ->
    sample' = sample s + len b -> sie' = sie + len b ->
    epoch_loop c (b ++ rest) sie s =
      let epoch_end := sie' =? spe c in
      let epoch' := if epoch_end then epoch s + 1 else epoch s in
      let update' := update s + 1 in
      let pp := sides_pass c 0 (offsets c) (sides c) (pcs s) epoch_end epoch' update' sample' (salu s) in
      let s' := {| epoch := epoch'; update := update'; sample := sample'; siu := 0; salu := sample'; pcs := snd pp |} in
      if budget_reached c epoch' update' sample' then (emit Main b ++ fst pp, s', Done)
      else if epoch_end then (emit Main b ++ fst pp, s', EpochBreak)
      else let '(evs, s'', stt) := epoch_loop c rest sie' s' in (emit Main b ++ fst pp ++ evs, s'', stt).
  Proof.
    induction b as [|i b IH]; intros rest sie s sample' sie' Hne Hq Hle Hle2 Hclose Hs Hsie; [congruence|].
    destruct b as [|j b].
    - rewrite len_cons, len_nil in *.
      assert (sample' = sample s + 1) as -> by lia. assert (sie' = sie + 1) as -> by lia.
      cbn [app epoch_loop]. rewrite HlB, Hlspe.
      assert ((siu s + 1 =? cB c) || (sie + 1 =? spe c) = true) as ->.
      { apply orb_true_iff. destruct Hclose; [left|right]; apply Z.eqb_eq; lia. }
      cbv zeta. cbn [emit app].
      destruct (sides_pass c 0 (offsets c) (sides c) (pcs s) _ _ _ _ _) as [passes pcs']. cbn [fst snd].
      destruct (budget_reached c _ _ _); [reflexivity|].
      destruct (sie + 1 =? spe c); [reflexivity|].
      destruct (epoch_loop c rest (sie + 1) _) as [[evs s''] stt]. reflexivity.
    - rewrite len_cons in *. pose proof (len_nonneg (j :: b)) as Hnn.
      change ((i :: j :: b) ++ rest) with (i :: ((j :: b) ++ rest)).
      cbn [epoch_loop]. rewrite HlB, Hlspe.
      assert ((siu s + 1 =? cB c) || (sie + 1 =? spe c) = false) as ->.
      { rewrite len_cons in *. pose proof (len_nonneg b).
        apply orb_false_iff. split; apply Z.eqb_neq; lia. }
      cbv zeta. rewrite (len_cons j b) in *.
      rewrite (IH rest (sie + 1) _ sample' sie'); cbn [siu sample epoch update salu pcs];
        try lia; try discriminate.
      cbv zeta. rewrite emit_cons2.
      destruct (budget_reached c _ _ _); [reflexivity|].
      destruct (sie' =? spe c); [reflexivity|].
      destruct (epoch_loop c rest sie' _) as [[evs s''] stt]. reflexivity.
  Qed.

  Definition at_pos (s : st) (e : Z) (j : nat) (pre : list (list Z)) (pnj : list nat) : Prop :=
    epoch s = e /\ update s = e * upe c + Z.of_nat j /\ sample s = e * spe c + len (concat pre)
    /\ siu s = 0 /\ salu s = sample s /\ pcs s = pnj.

  (* one more update: every config that was due consumed one iteration *)
  Lemma due_count_S sc e bs j :
    due_count c sc e bs (S j) = (due_count c sc e bs j + (if due sc (counters_at c e bs j) then 1 else 0))%nat.
  Proof.
    unfold due_count. rewrite seq_S, filter_app, app_length. cbn [filter plus].
    destruct (due sc (counters_at c e bs j)); reflexivity.
  Qed.

  Lemma bump_pn_at e bs j : forall l pn,
    bump l (pn_at_from c l pn e bs j) (counters_at c e bs j) = pn_at_from c l pn e bs (S j).
  Proof.
    induction l as [|sc l IH]; intros pn; [reflexivity|]. destruct pn as [|p pn]; [reflexivity|].
    cbn [pn_at_from bump]. rewrite IH, due_count_S. f_equal.
    destruct (due sc (counters_at c e bs j)); lia.
  Qed.

  Lemma pn_at_0 e bs : forall l pn, length pn = length l -> pn_at_from c l pn e bs 0 = pn.
  Proof.
    induction l as [|sc l IH]; intros pn Hl; destruct pn as [|p pn]; try discriminate; [reflexivity|].
    cbn [pn_at_from]. rewrite IH by (simpl in Hl; lia). unfold due_count. cbn. f_equal. lia.
  Qed.

  Lemma pn_at_length e bs j : forall l pn, length pn = length l -> length (pn_at_from c l pn e bs j) = length l.
  Proof.
    induction l as [|sc l IH]; intros pn Hl; destruct pn as [|p pn]; try discriminate; [reflexivity|].
    cbn [pn_at_from length]. rewrite IH by (simpl in Hl; lia). reflexivity.
  Qed.

  Definition is_nil {A} (l : list A) : bool := match l with [] => true | _ => false end.

  Lemma counters_facts e pre x rem' :
    let k := counters_at c e (pre ++ x :: rem') (length pre) in
    k_update k = e * upe c + Z.of_nat (length pre) + 1 /\
    k_sample k = e * spe c + len (concat pre) + len x /\
    k_prev_sample k = e * spe c + len (concat pre) /\
    k_epoch_end k = is_nil rem' /\
    k_epoch k = (if is_nil rem' then e + 1 else e).
  Proof.
    cbv zeta. unfold counters_at. cbn [k_update k_sample k_prev_sample k_epoch_end k_epoch].
    rewrite firstn_app_S, firstn_app_exact, concat_app, len_app. cbn [concat]. rewrite app_nil_r.
    assert ((S (length pre) =? length (pre ++ x :: rem'))%nat = is_nil rem') as ->.
    { rewrite app_length. simpl length. destruct rem'; cbn [is_nil length].
      - apply Nat.eqb_eq. lia.
      - apply Nat.eqb_neq. lia. }
    repeat split; lia.
  Qed.

  Lemma shape_cons_inv b x rem' : (1 <= b)%nat -> shape b (x :: rem') ->
    x <> [] /\ (length x <= b)%nat /\ (rem' <> [] -> length x = b) /\ shape b rem'.
  Proof.
    intros Hb H. destruct rem' as [|y r].
    - destruct H as [H1 H2]. repeat split; auto. congruence.
    - destruct H as [H1 H2]. repeat split; auto; try lia.
      intro E. subst x. simpl in H1. lia.
  Qed.

  Lemma shape_app_r b pre rem : shape b (pre ++ rem) -> rem <> [] -> shape b rem.
  Proof.
    induction pre as [|p pre IH]; intros H Hne; [exact H|].
    apply IH; auto. change ((p :: pre) ++ rem) with (p :: (pre ++ rem)) in H.
    cbn [shape] in H. destruct (pre ++ rem) eqn:E.
    - destruct pre; [simpl in E; congruence|discriminate].
    - destruct H as [_ H]. exact H.
  Qed.

  Lemma shape_concat_pos b rem : (1 <= b)%nat -> shape b rem -> rem <> [] -> 1 <= len (concat rem).
  Proof.
    intros Hb H Hne. destruct rem as [|x r]; [congruence|].
    apply shape_cons_inv in H; auto. destruct H as [Hx _].
    cbn [concat]. rewrite len_app. pose proof (len_nonneg (concat r)).
    destruct x; [congruence|]. rewrite len_cons. pose proof (len_nonneg x). lia.
  Qed.

  (* a whole epoch (from the j-th batch on); pn = pass numbers at the epoch's start *)
  Lemma epoch_loop_epoch e (bs : list (list Z)) (pn : list nat) :
    shape (Z.to_nat (cB c)) bs -> len (concat bs) = spe c -> Z.of_nat (length bs) = upe c ->
    forall rem pre tail s,
    bs = pre ++ rem -> rem <> [] -> at_pos s e (length pre) pre (pn_at c pn e bs (length pre)) ->
    let r := take_until (hit c) (map (upd_at c e bs pn) (seq (length pre) (length rem))) in
    exists sfin,
      epoch_loop c (concat rem ++ tail) (len (concat pre)) s =
        (flat_map u_events (fst r), sfin, if snd r then Done else EpochBreak)
      /\ (snd r = false -> at_pos sfin (e + 1) 0 [] (pn_at c pn e bs (length bs))).
  Proof.
    intros Hshape Hlen Hcount. pose proof (wf_B c mi W) as HB.
    induction rem as [|x rem' IH]; intros pre tail s Hbs Hne Hpos; [congruence|].
    clear Hne. cbv zeta.
    destruct Hpos as (He & Hu & Hsa & Hsiu & Hsalu & Hpcs).
    assert (Hsh : shape (Z.to_nat (cB c)) (x :: rem')).
    { apply (shape_app_r _ pre); [now rewrite <- Hbs|discriminate]. }
    apply shape_cons_inv in Hsh; [|lia]. destruct Hsh as (Hx & Hxle & Hxfull & Hsh').
    assert (Htot : len (concat pre) + len x + len (concat rem') = spe c).
    { rewrite <- Hlen, Hbs, concat_app. cbn [concat]. rewrite !len_app. lia. }
    pose proof (len_nonneg (concat rem')) as Hnn.
    assert (Hxpos : 1 <= len x) by (destruct x; [congruence|rewrite len_cons; pose proof (len_nonneg x); lia]).
    assert (Hrem' : rem' <> [] -> 1 <= len (concat rem')) by (intro; apply (shape_concat_pos (Z.to_nat (cB c))); auto; lia).
    pose proof (counters_facts e pre x rem') as Hk. cbv zeta in Hk. rewrite <- Hbs in Hk.
    set (k := counters_at c e bs (length pre)) in *.
    destruct Hk as (Hku & Hks & Hkp & Hke & Hkep).
    cbn [concat]. rewrite <- app_assoc.
    rewrite (epoch_loop_batch x (concat rem' ++ tail) (len (concat pre)) s (k_sample k)
                              (len (concat pre) + len x)); try lia; auto.
    2:{ rewrite Hsiu. unfold len in *. lia. }
    2:{ rewrite Hsiu. destruct rem' as [|y r].
        - right. cbn [concat] in Htot. rewrite len_nil in Htot. lia.
        - left. unfold len. rewrite Hxfull by discriminate. lia. }
    cbv zeta.
    assert ((len (concat pre) + len x =? spe c) = k_epoch_end k) as ->.
    { rewrite Hke. destruct rem' as [|y r]; cbn [is_nil].
      - apply Z.eqb_eq. cbn [concat] in Htot. rewrite len_nil in Htot. lia.
      - apply Z.eqb_neq. specialize (Hrem' ltac:(discriminate)). lia. }
    assert ((if k_epoch_end k then epoch s + 1 else epoch s) = k_epoch k) as ->.
    { rewrite Hke, Hkep, He. reflexivity. }
    replace (update s + 1) with (k_update k) by lia.
    replace (salu s) with (k_prev_sample k) by lia.
    rewrite Hpcs.
    rewrite (sides_pass_spec c mi W k) by lia. cbn [fst snd].
    assert (Hbump : bump (sides c) (pn_at c pn e bs (length pre)) k = pn_at c pn e bs (S (length pre)))
      by (unfold pn_at; apply bump_pn_at).
    rewrite Hbump.
    cbn [length seq map take_until].
    assert (Hhit : hit c (upd_at c e bs pn (length pre)) = budget_reached c (k_epoch k) (k_update k) (k_sample k)) by reflexivity.
    assert (Hev : u_events (upd_at c e bs pn (length pre))
                  = emit Main x ++ passes_from c 0 (sides c) (pn_at c pn e bs (length pre)) k).
    { unfold upd_at. cbn [u_events]. fold k. rewrite Hbs, nth_app_exact. reflexivity. }
    rewrite Hhit.
    destruct (budget_reached c (k_epoch k) (k_update k) (k_sample k)) eqn:Hb.
    - eexists. cbn [fst snd flat_map]. rewrite Hev, app_nil_r. split; [reflexivity|discriminate].
    - destruct rem' as [|y r].
      + rewrite Hke. cbn [is_nil length seq map take_until fst snd flat_map].
        eexists. rewrite Hev, app_nil_r. split; [reflexivity|]. intros _.
        unfold at_pos. cbn [epoch update sample siu salu pcs concat].
        rewrite Hkep. cbn [is_nil]. rewrite len_nil.
        assert (Z.of_nat (length bs) = Z.of_nat (length pre) + 1) as Hl.
        { rewrite Hbs, app_length. simpl length. lia. }
        cbn [concat] in Htot. rewrite len_nil in Htot.
        assert (length bs = S (length pre)) as -> by lia.
        repeat split; try lia; nia.
      + rewrite Hke. cbn [is_nil].
        specialize (IH (pre ++ [x]) tail
                       {| epoch := k_epoch k; update := k_update k; sample := k_sample k; siu := 0; salu := k_sample k;
                          pcs := pn_at c pn e bs (S (length pre)) |}).
        rewrite app_length in IH. simpl length in IH. rewrite Nat.add_1_r in IH.
        rewrite concat_app in IH. cbn [concat] in IH. rewrite app_nil_r, len_app in IH.
        destruct IH as [sfin [Heq Hfin]].
        * rewrite <- app_assoc. exact Hbs.
        * discriminate.
        * unfold at_pos. cbn [epoch update sample siu salu pcs]. rewrite Hkep. cbn [is_nil].
          rewrite concat_app, len_app. cbn [concat]. rewrite app_nil_r.
          repeat split; lia.
        * cbv zeta in Heq, Hfin. cbn [concat]. rewrite Heq.
          cbn [length] in *.
          destruct (take_until (hit c) (map (upd_at c e bs pn) (seq (S (length pre)) (S (length r))))) as [us found].
          cbn [fst snd] in *. exists sfin. cbn [flat_map]. rewrite Hev, <- app_assoc.
          split; [reflexivity|exact Hfin].
  Qed.

  (* whether an epoch stops the run depends on the counters only *)
  Lemma snd_take_until_updates e bs pn : forall l,
    snd (take_until (hit c) (map (upd_at c e bs pn) l)) = existsb (fun j => hit_k c (counters_at c e bs j)) l.
  Proof.
    induction l as [|j l IH]; [reflexivity|]. cbn [map take_until existsb].
    change (hit c (upd_at c e bs pn j)) with (hit_k c (counters_at c e bs j)).
    destruct (hit_k c (counters_at c e bs j)); [reflexivity|].
    destruct (take_until (hit c) (map (upd_at c e bs pn) l)). exact IH.
  Qed.
  Lemma epoch_hits_eq e pn : snd (take_until (hit c) (epoch_updates c mi e pn)) = epoch_hits c mi e.
  Proof. unfold epoch_updates, epoch_hits. apply snd_take_until_updates. Qed.

  Lemma epoch_step e pn s : length pn = length (sides c) -> at_pos s e 0 [] pn ->
    exists sfin,
      epoch_loop c (mi e) 0 s =
        (flat_map u_events (fst (take_until (hit c) (epoch_updates c mi e pn))), sfin,
         if epoch_hits c mi e then Done else EpochBreak)
      /\ (epoch_hits c mi e = false -> at_pos sfin (e + 1) 0 [] (pn_next c mi e pn)).
  Proof.
    intros Hpl Hpos. set (bs := epoch_batches c mi e).
    pose proof (epoch_batches_shape c mi W e) as Hsh.
    pose proof (epoch_batches_len c mi W e) as Hlen.
    pose proof (epoch_batches_count c mi W e) as Hcnt.
    pose proof (spe_range c mi W) as Hspe.
    assert (bs <> []) as Hne.
    { intro E. fold bs in Hlen. rewrite E in Hlen. cbn in Hlen. lia. }
    assert (at_pos s e (@length (list Z) []) [] (pn_at c pn e bs (@length (list Z) []))) as Hpos'.
    { cbn [length]. unfold pn_at. rewrite pn_at_0 by exact Hpl. exact Hpos. }
    destruct (epoch_loop_epoch e bs pn Hsh Hlen Hcnt bs [] (skipn (Z.to_nat (spe c)) (mi e)) s eq_refl Hne Hpos')
      as [sfin [Heq Hfin]].
    cbv zeta in Heq, Hfin. cbn [concat length] in Heq, Hfin. rewrite len_nil in Heq.
    exists sfin. rewrite <- (epoch_hits_eq e pn). unfold epoch_updates, pn_next. fold bs.
    rewrite (epoch_split c mi W e) at 1. fold bs. split; [exact Heq|exact Hfin].
  Qed.

  Lemma pn_next_length e pn : length pn = length (sides c) -> length (pn_next c mi e pn) = length (sides c).
  Proof. intros H. unfold pn_next, pn_at. now apply pn_at_length. Qed.

  (* the model equals the spec from every epoch boundary, for every fuel *)
  Lemma run_eq_spec : forall n e pn s, length pn = length (sides c) -> at_pos s e 0 [] pn ->
    run c mi n s = spec_run c mi e pn n.
  Proof.
    induction n as [|n IH]; intros e pn s Hpl Hpos; [reflexivity|].
    cbn [run spec_run].
    assert (epoch s = e) as He by (destruct Hpos; auto). rewrite He.
    destruct (epoch_step e pn s Hpl Hpos) as [sfin [Heq Hfin]]. rewrite Heq.
    unfold epoch_events. destruct (epoch_hits c mi e) eqn:Hh.
    - reflexivity.
    - rewrite (IH (e + 1) (pn_next c mi e pn) sfin (pn_next_length e pn Hpl) (Hfin eq_refl)).
      destruct (spec_run c mi (e + 1) (pn_next c mi e pn) n); reflexivity.
  Qed.

  Lemma at_pos_start e pn : at_pos (init_state e (upe c * e) (spe c * e) pn) e 0 [] pn.
  Proof. unfold at_pos, init_state. cbn. repeat split; lia. Qed.

  Theorem model_eq_spec n e pn : length pn = length (sides c) ->
    run c mi n (init_state e (upe c * e) (spe c * e) pn) = spec_run c mi e pn n.
  Proof. intros Hpl. apply run_eq_spec; [exact Hpl|apply at_pos_start]. Qed.
End Main.
