(* C15 — the property, stated on observable parameter values.

   Strength scaling.  A transform (tree: leaf = one scaling transform class with its parameter record,
   Opaque = a KDTransform without scaling, Foreign = a plain callable, Compose = a container: KDComposeTransform,
   KDTransformChoice, KDRandomApply, PatchwiseTransform) is
   scaled by factors in [0,1].
     * factor 1 gives back the constructed parameters           (tree_eq (scale t 1) t),
     * factor 0 gives the weakest setting                        (tree_weakest (scale t 0)),
     * every scaled parameter moves monotonically with the factor (all3 between on tree_bounds),
     * only the last factor matters                              (scale (scale t f) g = scale t g),
     * every sampled range stays a range                         (tree_ordered (scale t f) for f in [0,1]).
   Scheduled transform.  Full batches of B samples are dealt to W workers round-robin (batch b goes to
   worker b mod W).  Sample n (global order) is in batch n / B, is handled by worker rr_owner n and is
   that worker's rr_local-th sample.  The strength applied to it and written to ctx is schedule(n / B). *)
From Coq Require Import ZArith QArith Qminmax List Bool.
Import ListNotations.
From KD Require Import C15.Base C15.gen.Strength C15.Sched.
Open Scope Q_scope.

(* ---- lifting leaf predicates / relations to trees ---- *)
Fixpoint tree_all (P : leaf -> Prop) (t : tree) : Prop :=
  match t with
  | Leaf l => P l
  | Opaque | Foreign => True
  | Compose ts => (fix go (ts : list tree) : Prop :=
                     match ts with [] => True | c :: r => tree_all P c /\ go r end) ts
  end.
Fixpoint tree_allb (p : leaf -> bool) (t : tree) : bool :=
  match t with
  | Leaf l => p l
  | Opaque | Foreign => true
  | Compose ts => forallb (tree_allb p) ts
  end.
Fixpoint tree_rel (R : leaf -> leaf -> Prop) (a b : tree) : Prop :=
  match a, b with
  | Leaf x, Leaf y => R x y
  | Opaque, Opaque => True
  | Foreign, Foreign => True
  | Compose xs, Compose ys =>
      (fix go (xs ys : list tree) : Prop :=
         match xs, ys with
         | [], [] => True
         | x :: xs, y :: ys => tree_rel R x y /\ go xs ys
         | _, _ => False
         end) xs ys
  | _, _ => False
  end.
Fixpoint tree_relb (r : leaf -> leaf -> bool) (a b : tree) : bool :=
  match a, b with
  | Leaf x, Leaf y => r x y
  | Opaque, Opaque => true
  | Foreign, Foreign => true
  | Compose xs, Compose ys =>
      (fix go (xs ys : list tree) : bool :=
         match xs, ys with
         | [], [] => true
         | x :: xs, y :: ys => tree_relb r x y && go xs ys
         | _, _ => false
         end) xs ys
  | _, _ => false
  end.
Fixpoint tree_bounds (t : tree) : list Q :=
  match t with
  | Leaf l => leaf_bounds l
  | Opaque | Foreign => []
  | Compose ts => flat_map tree_bounds ts
  end.

Definition tree_constructed := tree_all leaf_constructed.
Definition tree_constructedb := tree_allb leaf_constructedb.
Definition tree_eq := tree_rel leaf_eq.
Definition tree_approx := tree_relb leaf_approx.

(* ---- GENERATED per class (gen/Strength.v, from the translator's SPEC table; classes that only forward to members
        inherit from them), lifted to trees here:
        leaf_wf       domain of the constructor arguments (what torchvision's ColorJitter accepts / produces:
                      brightness, contrast, saturation lower bounds >= 0, hue range within [-1/2, 1/2]);
        leaf_dom      the CONSTRUCTED ranges are ordered (og_lb <= og_ub, magnitude_min <= magnitude <= magnitude_max,
                      sigma_lb <= sigma_ub) and the non-negative parameters were constructed >= 0;
        leaf_ordered  the CURRENT ranges are ordered (what rng.uniform(lb, ub) / clip(x, min, max) need);
        leaf_weakest_ every scaled parameter at its weakest value (the identity where the transform has one),
                      abstract in the comparison: Qeq in the theorems, approxQ in the check. ---- *)
Definition tree_wf := tree_all leaf_wf.
Definition tree_wfb := tree_allb leaf_wfb.
Definition tree_dom := tree_all leaf_dom.
Definition tree_domb := tree_allb leaf_domb.
Definition tree_ordered := tree_all leaf_ordered.
Definition tree_orderedb := tree_allb leaf_orderedb.

Definition leaf_weakest : leaf -> Prop := leaf_weakest_ Prop Qeq (@eq Z) and True False.
Definition leaf_weakestb : leaf -> bool := leaf_weakest_ bool approxQ Z.eqb andb true false.
Definition tree_weakest := tree_all leaf_weakest.
Definition tree_weakestb := tree_allb leaf_weakestb.

(* every scaled parameter of t at factor f lies between its value at factor 0 and its value at factor g *)
Definition bounds_between (z x y : tree) : Prop := all3 between (tree_bounds z) (tree_bounds x) (tree_bounds y).
Definition bounds_betweenb (z x y : tree) : bool := all3b betweenb (tree_bounds z) (tree_bounds x) (tree_bounds y).

(* ---- round-robin assignment of full batches ---- *)
Open Scope Z_scope.
Definition rr_batch (B n : Z) : Z := n / B.                       (* global batch of global sample n *)
Definition rr_owner (W B n : Z) : Z := (n / B) mod W.             (* worker that loads that batch *)
Definition rr_local (W B n : Z) : Z := (n / B / W) * B + n mod B. (* how many samples that worker saw before *)
(* the global sample that is the s-th sample of worker r *)
Definition rr_global (W B r s : Z) : Z := ((s / B) * W + r) * B + s mod B.

Definition rr_owner_nat (W : nat) (B : Z) (n : nat) : nat := Z.to_nat (rr_owner (Z.of_nat W) B (Z.of_nat n)).

(* ---- interleaved histories on shared augmentation objects (model: Sched.v, second part) ----
   W copies of a pipeline (one per worker): K scheduled transforms (cfgs: batch size, announced length, heap cells
   reached) over a heap of J augmentation objects (inners0 = as constructed), optionally an outer composition.
   What happens, in time order (gstep): scheduled transform k processes ITS next global sample (its samples are dealt
   to the copies in full batches round-robin, like DataLoader batches: k's n-th sample goes to copy (n / B_k) mod W);
   somebody calls scale_strength(f) on object j of copy w; somebody calls scale_strength(f) on copy w's outer
   composition.  The steps of different scheduled transforms and the foreign calls interleave ARBITRARILY.

   The spec keeps, per scheduled transform, how many samples it has processed (counts) and, per copy and heap cell,
   the LAST factor the cell was given by anybody (last; None = never scaled).  It says:
     * the k-th scheduled transform's call on its n-th sample reports v = schedule_k(n / B_k), whatever happened
       in between to anything,
     * and is applied with every cell it reaches at `constructed cell scaled by v` (heap_of ... after upd_cells),
     * every cell always is `constructed cell scaled by the last factor it was given` (no compounding, no stale value,
       nothing leaks from one cell / copy / scheduled transform to another). *)
Inductive gstep : Type :=
  | GCall (k : nat)
  | GScale (w j : nat) (f : Q)
  | GScaleOuter (w : nat) (f : Q).

Definition upd {A : Type} (c : nat -> A) (k : nat) (x : A) : nat -> A := fun y => if Nat.eqb y k then x else c y.

Definition cell_at (t : tree) (o : option Q) : tree := match o with None => t | Some f => tree_scale t f end.
Fixpoint heap_from (j0 : nat) (inners0 : list tree) (l : nat -> option Q) : list tree :=
  match inners0 with
  | [] => []
  | t :: r => cell_at t (l j0) :: heap_from (S j0) r l
  end.
Definition heap_of (inners0 : list tree) (l : nat -> option Q) : list tree := heap_from 0 inners0 l.
Definition upd_cells (l : nat -> option Q) (js : list nat) (f : Q) : nat -> option Q :=
  fold_left (fun l j => upd l j (Some f)) js l.

(* which copy handles which call: k's n-th sample goes to copy rr_owner_nat W B_k n (a step naming a scheduled
   transform that does not exist ends the history) *)
Fixpoint route (W : nat) (cfgs : list scfg) (counts : nat -> nat) (gs : list gstep) : list pstep :=
  match gs with
  | [] => []
  | GCall k :: r =>
      match nth_error cfgs k with
      | None => []
      | Some (B, _, _) => PCall (rr_owner_nat W B (counts k)) k :: route W cfgs (upd counts k (S (counts k))) r
      end
  | GScale w j f :: r => PScale w j f :: route W cfgs counts r
  | GScaleOuter w f :: r => PScaleOuter w f :: route W cfgs counts r
  end.

Fixpoint ispec_run (W : nat) (cfgs : list scfg) (schedules : nat -> Z -> Z -> Q) (outer : list member)
                   (inners0 : list tree) (counts : nat -> nat) (last : nat -> nat -> option Q) (gs : list gstep)
  : list (Q * list tree) :=
  match gs with
  | [] => []
  | GCall k :: r =>
      match nth_error cfgs k with
      | None => []
      | Some (B, i, js) =>
          let n := counts k in
          let w := rr_owner_nat W B n in
          let v := schedules k (rr_batch B (Z.of_nat n)) (n_batches_of i B) in
          let lw := upd_cells (last w) js v in
          (v, heap_of inners0 lw) :: ispec_run W cfgs schedules outer inners0 (upd counts k (S n)) (upd last w lw) r
      end
  | GScale w j f :: r =>
      if (w <? W)%nat then
        let lw := upd (last w) j (Some f) in
        (f, heap_of inners0 lw) :: ispec_run W cfgs schedules outer inners0 counts (upd last w lw) r
      else []
  | GScaleOuter w f :: r =>
      if (w <? W)%nat then
        let lw := upd_cells (last w) (outer_targets outer) f in
        (f, heap_of inners0 lw) :: ispec_run W cfgs schedules outer inners0 counts (upd last w lw) r
      else []
  end.

(* how many of the steps are calls of scheduled transform k *)
Definition count_calls (k : nat) (gs : list gstep) : nat :=
  length (filter (fun g => match g with GCall k' => Nat.eqb k' k | _ => false end) gs).

(* a step that names an existing scheduled transform / pipeline copy (object indices need not exist: scaling through a
   reference nobody holds changes nothing) *)
Definition gstep_valid (W K : nat) (g : gstep) : Prop :=
  match g with
  | GCall k => (k < K)%nat
  | GScale w _ _ => (w < W)%nat
  | GScaleOuter w _ => (w < W)%nat
  end.
