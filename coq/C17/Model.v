(* Implementation model of
     kappadata/collators/kd_dino_mask_collator.py   (collate, _generate_mask, _mask_block)
     kappadata/collators/kd_ijepa_mask_collator.py  (collate, step, _sample_block_size [clamping only],
                                                     _sample_block_mask, _sample_block_mask_constrained)
   Mirrors the code statement by statement; every random draw and every
   float-valued decision (int(round(sqrt(..)))) is read from an explicit trace
   of recorded draws, in the order the code makes them.  No proofs here. *)
From Coq Require Import ZArith List Bool.
Import ListNotations.
Open Scope Z_scope.

Inductive res (A : Type) := Ok (a : A) | Mismatch | OutOfFuel.
Arguments Ok {A} a.
Arguments Mismatch {A}.
Arguments OutOfFuel {A}.

(* an exactly represented float: numerator, positive denominator *)
Definition rat := (Z * Z)%type.

Inductive draw :=
| DUnif (lo hi v : rat)      (* self.rng.uniform(lo, hi) -> v *)
| DRound (v : Z)             (* int(round(<float expression>)) -> v : block height/width candidates *)
| DInt (lo hi v : Z)         (* self.rng.integers(lo, hi) -> v *)
| DPerm (p : list nat)       (* self.rng.shuffle(list): new[i] = old[p[i]] *)
| DSeed (s : Z).             (* torch.Generator().manual_seed(s) *)

Definition is_int (r : rat) (z : Z) : bool := fst r =? z * snd r.
(* a <= b for rationals with positive denominators *)
Definition rat_leb (a b : rat) : bool := fst a * snd b <=? fst b * snd a.

(* ======================================================================== *)
(* DINO                                                                     *)
(* ======================================================================== *)

Definition mask := list (list bool).

Record dcfg := {
  dH : Z; dW : Z;           (* mask_size *)
  dV : Z;                   (* num_views *)
  dMinP : Z;                (* min_num_patches *)
  dPn : Z; dPd : Z;         (* mask_prob = dPn / dPd *)
  dRn : Z; dRd : Z }.       (* upper mask ratio = dRn / dRd: the exact value of float32(mask_ratio[1]), which is the
                               last element of torch.linspace(mask_ratio_min, mask_ratio_max, n + 1) *)

Definition dP (c : dcfg) : Z := dH c * dW c.

Definition in_rng (lo x hi : Z) : bool := (lo <=? x) && (x <? hi).

(* mask[top:bot, left:right].sum(), row part; j = column index of the head *)
Fixpoint row_cnt (j left right : Z) (r : list bool) : Z :=
  match r with
  | [] => 0
  | b :: r' => (if in_rng left j right && b then 1 else 0) + row_cnt (j + 1) left right r'
  end.

Fixpoint blk_cnt (i top bot left right : Z) (m : mask) : Z :=
  match m with
  | [] => 0
  | r :: m' => (if in_rng top i bot then row_cnt 0 left right r else 0) + blk_cnt (i + 1) top bot left right m'
  end.

(* the update loops: set every cell of the block, count the newly set ones *)
Fixpoint row_set (j left right : Z) (r : list bool) : list bool * Z :=
  match r with
  | [] => ([], 0)
  | b :: r' =>
      let '(r'', d) := row_set (j + 1) left right r' in
      if in_rng left j right then (true :: r'', d + (if b then 0 else 1)) else (b :: r'', d)
  end.

Fixpoint blk_set (i top bot left right : Z) (m : mask) : mask * Z :=
  match m with
  | [] => ([], 0)
  | r :: m' =>
      let '(m'', d) := blk_set (i + 1) top bot left right m' in
      if in_rng top i bot then let '(r', dr) := row_set 0 left right r in (r' :: m'', dr + d)
      else (r :: m'', d)
  end.

(* _mask_block: [tries] = remaining iterations of "for _ in range(10)" *)
Fixpoint mask_block (tries : nat) (c : dcfg) (m : mask) (remaining : Z) (tr : list draw)
  : res (mask * Z * list draw) :=
  match tries with
  | O => Ok (m, 0, tr)
  | S t =>
      match tr with
      | DUnif lo hi _ :: DUnif _ _ _ :: DRound h :: DRound w :: tr1 =>
          if negb (is_int lo (Z.min (dMinP c) remaining) && is_int hi (Z.max (dMinP c) remaining)) then Mismatch
          else if (dW c <=? w) || (dH c <=? h) then mask_block t c m remaining tr1
          else
            match tr1 with
            | DInt lo1 hi1 top :: DInt lo2 hi2 lf :: tr2 =>
                if negb ((lo1 =? 0) && (hi1 =? dH c - h + 1) && (lo2 =? 0) && (hi2 =? dW c - w + 1)) then Mismatch
                else
                  let bot := top + h in
                  let rt := lf + w in
                  let unm := h * w - blk_cnt 0 top bot lf rt m in
                  if unm =? 0 then mask_block t c m remaining tr2
                  else if remaining <? unm then mask_block t c m remaining tr2
                  else
                    let '(m', delta) := blk_set 0 top bot lf rt m in
                    if 0 <? delta then Ok (m', delta, tr2) else mask_block t c m' remaining tr2
            | _ => Mismatch
            end
      | _ => Mismatch
      end
  end.

(* _generate_mask: one unit of fuel per iteration of the while loop *)
Fixpoint generate (fuel : nat) (c : dcfg) (m : mask) (num total : Z) (tr : list draw)
  : res (mask * Z * list draw) :=
  if num <? total then
    match fuel with
    | O => OutOfFuel
    | S f =>
        match mask_block 10 c m (total - num) tr with
        | Ok (m', delta, tr') =>
            if delta =? 0 then Ok (m', num, tr') else generate f c m' (num + delta) total tr'
        | Mismatch => Mismatch
        | OutOfFuel => OutOfFuel
        end
    end
  else Ok (m, num, tr).

Definition zero_mask (c : dcfg) : mask :=
  repeat (repeat false (Z.to_nat (dW c))) (Z.to_nat (dH c)).

(* "for i in range(num_masked_samples)": ratio draw, target count, _generate_mask(masks[i]).
   The bounds of the ratio draw are probs[i], probs[i + 1] of the float32 linspace; the linspace itself is not
   modelled, only that the upper bound passed to the generator does not exceed its last element. *)
Fixpoint gen_masks (n : nat) (c : dcfg) (tr : list draw) : res (list mask * list draw) :=
  match n with
  | O => Ok ([], tr)
  | S n' =>
      match tr with
      | DUnif _ hi u :: tr1 =>
          if negb (rat_leb hi (dRn c, dRd c)) then Mismatch else
          let total := fst u * dP c / snd u in
          match generate (Z.to_nat total) c (zero_mask c) 0 total tr1 with
          | Ok (m, _, tr2) =>
              match gen_masks n' c tr2 with
              | Ok (ms, tr3) => Ok (m :: ms, tr3)
              | Mismatch => Mismatch
              | OutOfFuel => OutOfFuel
              end
          | Mismatch => Mismatch
          | OutOfFuel => OutOfFuel
          end
      | _ => Mismatch
      end
  end.

Definition num_masked_samples (c : dcfg) (B : Z) : Z := B * dV c * dPn c / dPd c.

(* collate with a ctx: B = batch size *)
Definition dino_collate (c : dcfg) (B : Z) (tr : list draw) : res (list mask) :=
  let n := B * dV c in
  let nm := num_masked_samples c B in
  match gen_masks (Z.to_nat nm) c tr with
  | Ok (ms, tr1) =>
      let all := ms ++ repeat (zero_mask c) (Z.to_nat (n - nm)) in
      match tr1 with
      | [DPerm p] =>
          if Nat.eqb (length p) (length all) then Ok (map (fun k => nth k all (zero_mask c)) p) else Mismatch
      | _ => Mismatch
      end
  | Mismatch => Mismatch
  | OutOfFuel => OutOfFuel
  end.

(* collate(batch, dataset_mode, ctx): without ctx nothing is drawn *)
Definition dino_call {A : Type} (c : dcfg) (batch : A) (has_ctx : bool) (B : Z) (tr : list draw)
  : res (A * option (list mask)) :=
  if has_ctx then
    match dino_collate c B tr with
    | Ok ms => Ok (batch, Some ms)
    | Mismatch => Mismatch
    | OutOfFuel => OutOfFuel
    end
  else match tr with [] => Ok (batch, None) | _ => Mismatch end.

(* A sequence of collate calls on ONE collator object (an epoch: full batches, a smaller last batch with
   drop_last=False, calls without ctx in between, ...).  KDDinoMaskCollator.collate assigns no attribute of self: the
   number of masked view-samples and the ratio bins are recomputed from the batch at hand in every call, and the only
   thing that lives across calls is self.rng, whose draws are recorded per call.  So the k-th call is [dino_call] of
   its own batch size and its own draws - nothing of the earlier calls enters. *)
Definition dino_seq (c : dcfg) (calls : list (bool * Z * list draw)) : list (res (unit * option (list mask))) :=
  map (fun '(has_ctx, B, tr) => dino_call c tt has_ctx B tr) calls.

(* ======================================================================== *)
(* I-JEPA                                                                   *)
(* ======================================================================== *)

Record jcfg := {
  jH : Z; jW : Z;            (* seqlen_h, seqlen_w *)
  jNEnc : nat; jNPred : nat; (* num_enc_masks, num_pred_masks *)
  jMinKeep : Z; jTries : Z }.

(* what int(round(..)) returned in the two _sample_block_size calls made with a
   generator seeded by s: predictor (h, w), encoder (h, w).  torch.Generator is a
   deterministic function of its seed: the oracle is a function of the seed. *)
Definition raw4 := (Z * Z * Z * Z)%type.

Fixpoint zseq (s : Z) (n : nat) : list Z :=
  match n with O => [] | S n' => s :: zseq (s + 1) n' end.

Fixpoint map2 {A B C : Type} (f : A -> B -> C) (la : list A) (lb : list B) : list C :=
  match la, lb with
  | a :: la', b :: lb' => f a b :: map2 f la' lb'
  | _, _ => []
  end.

(* zeros((H, W)); m[top:bot, left:right] = 1; flattened row-major *)
Definition rect_grid (c : jcfg) (top bot left right : Z) : list bool :=
  flat_map (fun i => map (fun j => in_rng top i bot && in_rng left j right) (zseq 0 (Z.to_nat (jW c))))
           (zseq 0 (Z.to_nat (jH c))).

(* .nonzero() of a flat tensor; i = index of the head *)
Fixpoint nz (i : Z) (l : list bool) : list Z :=
  match l with
  | [] => []
  | b :: l' => if b then i :: nz (i + 1) l' else nz (i + 1) l'
  end.

Definition len {A : Type} (l : list A) : Z := Z.of_nat (length l).

(* _sample_block_size after the rounding: the out-of-bounds clamp *)
Definition clamp_size (c : jcfg) (h w : Z) : Z * Z := (Z.min h (jH c - 1), Z.min w (jW c - 1)).

Definition draw_box (c : jcfg) (bh bw : Z) (tr : list draw) : res (Z * Z * list draw) :=
  match tr with
  | DInt lo1 hi1 top :: DInt lo2 hi2 lf :: tr' =>
      if (lo1 =? 0) && (hi1 =? jH c - bh) && (lo2 =? 0) && (hi2 =? jW c - bw) then Ok (top, lf, tr')
      else Mismatch
  | _ => Mismatch
  end.

(* _sample_block_mask -> (mask indices, complement grid) *)
Definition sample_block_mask (c : jcfg) (bh bw : Z) (tr : list draw)
  : res (list Z * list bool * list draw) :=
  match draw_box c bh bw tr with
  | Ok (top, lf, tr') =>
      let g := rect_grid c top (top + bh) lf (lf + bw) in
      Ok (nz 0 g, map negb g, tr')
  | Mismatch => Mismatch
  | OutOfFuel => OutOfFuel
  end.

(* _sample_block_mask_constrained: one unit of fuel per iteration of "while True" *)
Fixpoint constrained (fuel : nat) (c : jcfg) (bh bw : Z) (acc : list (list bool)) (tries : Z) (tr : list draw)
  : res (list Z * list draw) :=
  match fuel with
  | O => OutOfFuel
  | S f =>
      match draw_box c bh bw tr with
      | Ok (top, lf, tr') =>
          let g := rect_grid c top (top + bh) lf (lf + bw) in
          let k := Z.max (len acc - tries / jTries c) 0 in
          let g' := fold_left (map2 andb) (firstn (Z.to_nat k) acc) g in
          let l := nz 0 g' in
          if jMinKeep c <? len l then Ok (l, tr') else constrained f c bh bw acc (tries + 1) tr'
      | Mismatch => Mismatch
      | OutOfFuel => OutOfFuel
      end
  end.

(* "for _ in range(self.num_pred_masks)" *)
Fixpoint pred_loop (n : nat) (c : jcfg) (ph pw : Z) (mk : Z) (tr : list draw)
  : res (list (list Z) * list (list bool) * Z * list draw) :=
  match n with
  | O => Ok ([], [], mk, tr)
  | S n' =>
      match sample_block_mask c ph pw tr with
      | Ok (m, comp, tr1) =>
          match pred_loop n' c ph pw (Z.min mk (len m)) tr1 with
          | Ok (ms, comps, mk', tr2) => Ok (m :: ms, comp :: comps, mk', tr2)
          | Mismatch => Mismatch
          | OutOfFuel => OutOfFuel
          end
      | Mismatch => Mismatch
      | OutOfFuel => OutOfFuel
      end
  end.

(* "for _ in range(self.num_enc_masks)"; the while loop consumes two draws per
   iteration, so the remaining trace length is always enough fuel *)
Fixpoint enc_loop (n : nat) (c : jcfg) (eh ew : Z) (acc : list (list bool)) (mk : Z) (tr : list draw)
  : res (list (list Z) * Z * list draw) :=
  match n with
  | O => Ok ([], mk, tr)
  | S n' =>
      match constrained (length tr) c eh ew acc 0 tr with
      | Ok (m, tr1) =>
          match enc_loop n' c eh ew acc (Z.min mk (len m)) tr1 with
          | Ok (ms, mk', tr2) => Ok (m :: ms, mk', tr2)
          | Mismatch => Mismatch
          | OutOfFuel => OutOfFuel
          end
      | Mismatch => Mismatch
      | OutOfFuel => OutOfFuel
      end
  end.

(* one sample: its predictor masks and its encoder masks (untruncated) *)
Definition sample := (list (list Z) * list (list Z))%type.

(* "for _ in range(batch_size)" *)
Fixpoint batch_loop (b : nat) (c : jcfg) (ph pw eh ew : Z) (mkp mke : Z) (tr : list draw)
  : res (list sample * Z * Z * list draw) :=
  match b with
  | O => Ok ([], mkp, mke, tr)
  | S b' =>
      match pred_loop (jNPred c) c ph pw mkp tr with
      | Ok (pm, comps, mkp1, tr1) =>
          match enc_loop (jNEnc c) c eh ew comps mke tr1 with
          | Ok (em, mke1, tr2) =>
              match batch_loop b' c ph pw eh ew mkp1 mke1 tr2 with
              | Ok (ss, mkp2, mke2, tr3) => Ok ((pm, em) :: ss, mkp2, mke2, tr3)
              | Mismatch => Mismatch
              | OutOfFuel => OutOfFuel
              end
          | Mismatch => Mismatch
          | OutOfFuel => OutOfFuel
          end
      | Mismatch => Mismatch
      | OutOfFuel => OutOfFuel
      end
  end.

Definition truncate (mp me : Z) (s : sample) : sample :=
  (map (firstn (Z.to_nat mp)) (fst s), map (firstn (Z.to_nat me)) (snd s)).

(* default_collate of [[mask_0 .. mask_{n-1}] per sample] followed by concat:
   row j*B + b = mask j of sample b *)
Definition rows_of (n : nat) (sel : sample -> list (list Z)) (ss : list sample) : list (list Z) :=
  flat_map (fun j => map (fun s => nth j (sel s) []) ss) (seq 0 n).

Record jout := {
  o_ctr : Z;                 (* _itr_counter afterwards *)
  o_psize : Z * Z;           (* predictor_size *)
  o_esize : Z * Z;           (* encoder_size *)
  o_samples : list sample;   (* per sample, truncated to the batch minima *)
  o_enc : list (list Z);     (* ctx["encoder_masks"] rows *)
  o_pred : list (list Z) }.  (* ctx["predictor_masks"] rows *)

(* the sizes used by a call made when the counter is ctr *)
Definition block_sizes (c : jcfg) (sizes : Z -> raw4) (ctr : Z) : (Z * Z) * (Z * Z) :=
  let '(ph0, pw0, eh0, ew0) := sizes (ctr + 1) in
  (clamp_size c ph0 pw0, clamp_size c eh0 ew0).

Definition ijepa_collate (c : jcfg) (sizes : Z -> raw4) (ctr : Z) (B : Z) (tr : list draw) : res jout :=
  let seed := ctr + 1 in
  match tr with
  | DSeed s :: tr0 =>
      if negb (s =? seed) then Mismatch else
      let '((ph, pw), (eh, ew)) := block_sizes c sizes ctr in
      let total := jH c * jW c in
      match batch_loop (Z.to_nat B) c ph pw eh ew total total tr0 with
      | Ok (ss, mkp, mke, tr1) =>
          match tr1 with
          | [] =>
              let ss' := map (truncate mkp mke) ss in
              Ok {| o_ctr := seed; o_psize := (ph, pw); o_esize := (eh, ew); o_samples := ss';
                    o_enc := rows_of (jNEnc c) snd ss'; o_pred := rows_of (jNPred c) fst ss' |}
          | _ => Mismatch
          end
      | Mismatch => Mismatch
      | OutOfFuel => OutOfFuel
      end
  | _ => Mismatch
  end.

(* collate(batch, dataset_mode, ctx): without ctx neither a draw nor a step *)
Definition ijepa_call {A : Type} (c : jcfg) (sizes : Z -> raw4) (ctr : Z) (batch : A) (has_ctx : bool) (B : Z)
           (tr : list draw) : res (A * Z * option jout) :=
  if has_ctx then
    match ijepa_collate c sizes ctr B tr with
    | Ok o => Ok (batch, o_ctr o, Some o)
    | Mismatch => Mismatch
    | OutOfFuel => OutOfFuel
    end
  else match tr with [] => Ok (batch, ctr, None) | _ => Mismatch end.

(* A sequence of collate calls on ONE collator object: the only state is _itr_counter, which a call with ctx advances
   by one before it seeds the block-size generator.  Result per call: the counter before the call and what the call
   returned; the sequence ends at the first call whose recorded draws do not fit. *)
Fixpoint ijepa_seq (c : jcfg) (sizes : Z -> raw4) (ctr : Z) (calls : list (bool * Z * list draw))
  : list (Z * option jout) :=
  match calls with
  | [] => []
  | (has_ctx, B, tr) :: rest =>
      match ijepa_call c sizes ctr tt has_ctx B tr with
      | Ok (_, ctr', o) => (ctr, o) :: ijepa_seq c sizes ctr' rest
      | _ => []
      end
  end.
