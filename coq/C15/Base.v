(* C15 — definitions shared by the GENERATED model (gen/Strength.v), the spec and
   the correspondence check.  No proofs here (lemmas: BaseLemmas.v). *)
From Coq Require Import ZArith QArith Qminmax Qround Qabs List Bool.
Import ListNotations.
Open Scope Q_scope.

(* Python's int(x) on a float: truncation toward zero *)
Definition Qtrunc (q : Q) : Z := if Qle_bool 0 q then Qfloor q else Qceiling q.

(* a value that is a Python int in one configuration and a Python float in another
   (KDSolarize threshold: PIL images use 0..256, tensors use 0..1) *)
Inductive num : Type := NI (z : Z) | NF (q : Q).

Definition num_toQ (n : num) : Q := match n with NI z => inject_Z z | NF q => q end.
Definition num_is_int (n : num) : bool := match n with NI _ => true | NF _ => false end.

(* comparison of a value computed over Q with a value the implementation
   computed in binary64 (shipped as the exact fraction).  Explicit bound in units in the last place: every scaling
   formula is at most three rounded binary64 operations (e.g. 1 - (1 - og) * f, lb + (ub - lb) * f) on intermediates
   bounded by 1 + |result|, each contributing a relative error of at most 2^-53; the check allows
   ulp_slack = 8 * 2^-53 of (1 + |a| + |b|) (about 8.9e-16, formerly 1e-12) *)
Definition ulp_slack : Q := 8 # 9007199254740992.
Definition approxQ (a b : Q) : bool :=
  Qle_bool (Qabs (a - b)) (ulp_slack * (1 + Qabs a + Qabs b)).

Definition approx_optQ (a b : option Q) : bool :=
  match a, b with
  | Some x, Some y => approxQ x y
  | None, None => true
  | _, _ => false
  end.

(* integers are compared exactly (the harness only ships factors whose exact
   pre-truncation value is not within 2^-43 of a non-hit integer: 256 - (256 - og) * f has two rounded operations
   below 512, each off by at most half an ulp = 2^-45) *)
Definition approx_num (a b : num) : bool :=
  match a, b with
  | NI x, NI y => Z.eqb x y
  | NF x, NF y => approxQ x y
  | _, _ => false
  end.

Definition num_eq (a b : num) : Prop :=
  match a, b with
  | NI x, NI y => x = y
  | NF x, NF y => x == y
  | _, _ => False
  end.
Definition num_eqb (a b : num) : bool :=
  match a, b with
  | NI x, NI y => Z.eqb x y
  | NF x, NF y => Qeq_bool x y
  | _, _ => false
  end.

Definition optQ_eq (a b : option Q) : Prop :=
  match a, b with
  | Some x, Some y => x == y
  | None, None => True
  | _, _ => False
  end.
Definition optQ_list (a : option Q) : list Q := match a with Some x => [x] | None => [] end.

(* x lies between a and b (in either direction): how a bound that moves monotonically
   from its factor-0 value a towards its value b at a larger factor relates to the value
   x at an intermediate factor *)
Definition between (a x b : Q) : Prop := (a <= x /\ x <= b) \/ (b <= x /\ x <= a).

(* executable, with the binary64 slack of approxQ *)
Definition leQ_approx (a b : Q) : bool :=
  Qle_bool a (b + ulp_slack * (1 + Qabs a + Qabs b)).
Definition betweenb (a x b : Q) : bool :=
  (leQ_approx a x && leQ_approx x b) || (leQ_approx b x && leQ_approx x a).

(* position-wise ternary relation on three lists of equal length *)
Fixpoint all3 (P : Q -> Q -> Q -> Prop) (l1 l2 l3 : list Q) : Prop :=
  match l1, l2, l3 with
  | [], [], [] => True
  | a :: l1, b :: l2, c :: l3 => P a b c /\ all3 P l1 l2 l3
  | _, _, _ => False
  end.
Fixpoint all3b (P : Q -> Q -> Q -> bool) (l1 l2 l3 : list Q) : bool :=
  match l1, l2, l3 with
  | [], [], [] => true
  | a :: l1, b :: l2, c :: l3 => P a b c && all3b P l1 l2 l3
  | _, _, _ => false
  end.
