From KD Require Import C03.Model C03.Spec C03.Proofs.
Theorem placeholder_C03 : True. Proof. exact placeholder. Qed.
Print Assumptions placeholder_C03.
