"""Regenerates /verif/MANIFEST.json from the table below (kept in one place so
the manifest is always valid)."""
import json
import os

VERIF = os.path.dirname(os.path.dirname(os.path.abspath(__file__)))

CLAIMED = {
    "C04": dict(text="Coq theorems (all N, B, budgets, configs, epoch permutations): the model of _training_loop equals a "
                     "closed-form spec (epoch-wise concatenation cut by batch size, stop at the first update reaching "
                     "the budget, termination within the remaining budget); model tied to /repo by evaluating model, "
                     "spec and real InterleavedSampler on the same generated cases on every run.",
                ref="2 C04/C05/C06", note="Coq kernel+vm_compute; hand-written model coq/C04/Model.v; harness recording "
                "samplers; main sampler yields len(sampler) indices", technique="Coq proof by induction (model = closed-form spec) + vm_compute correspondence with the real sampler"),
    "C05": dict(text="Coq theorems: after every main update exactly the configs whose interval was reached or crossed are "
                     "iterated, whole, in config order, with their own batch size; offsets resolve back (concat lookup); "
                     "zero budget = one pass. Tied to /repo by correspondence on generated cases every run.",
                ref="2 C04/C05/C06", note="as C04; side samplers replay the same list every pass",
                technique="Coq proof by induction (side passes of the model = due-predicate spec) + vm_compute correspondence"),
    "C06": dict(text="Coq theorem: for every checkpoint on an epoch boundary before the budget the constructor's derived "
                     "state equals the state the uninterrupted run has there, hence the resumed run is the suffix; "
                     "correspondence compares resumed and fresh runs of the real code.",
                ref="2 C04/C05/C06", note="as C04", technique="Coq proof (resume = suffix, from model = spec) + differential run fresh vs resumed"),
    "C16": dict(text="Coq theorems for all label layouts / parameters / draw sequences: bulk accessor = map of the per-sample "
                     "accessor for each of the eight label-rewriting wrappers, labels within the announced class shape (or -1 where "
                     "allowed), all-gather permutation shape, smoothing/one-hot vectors over Q are distributions with the original "
                     "class as argmax. Models (per-sample and bulk functions mirrored separately) tied to /repo by running the real "
                     "wrappers with recorded draws on generated layouts every run.",
                ref="2 C16 / 7.3", note="Coq kernel+vm_compute; hand-written model coq/C16/Model.v; torch argmax/topk/softmax, einops "
                "rearrange and np.argsort semantics trusted (decisions shipped by the harness); 'other data untouched' checked on "
                "the real objects only",
                technique="Coq proofs (list induction, QArith) over a hand-written model + vm_compute correspondence with the real wrappers"),
}

ALL = ["C%02d" % i for i in range(1, 21)]


def main():
    checks = []
    for pid in ALL:
        if pid not in CLAIMED:
            continue
        c = CLAIMED[pid]
        checks.append({
            "property_id": pid,
            "quick_cmd": f"./check {pid} --tier quick",
            "thorough_cmd": f"./check {pid} --tier thorough",
            "evidence_file": f"/verif/evidence/{pid}.json",
            "replay_cmd_template": f"./check {pid} --replay {{path}}",
            "engine": "coq-harness",
            "level_claimed": {"category": "proof", "text": c["text"], "design_ref": c["ref"]},
            "level_note": c["note"],
            "technique": c["technique"],
        })
    man = {
        "version": 1,
        "setup_cmd": "cd /verif && ./check setup",
        "hooks": {
            "guard": "BENEDIKTALKIN_KAPPADATA_VERIF",
            "enable": "no source hooks: the harness observes through public setters and recording samplers; "
                      "the variable is exported by ./check for completeness",
            "baseline_off_cmd": "cd /repo && /venv/bin/python -m pytest -ra -q -p no:cacheprovider --timeout=900 "
                                "--continue-on-collection-errors",
            "source_commits": [],
            "add_only": True,
        },
        "engines": [{"name": "coq-harness", "path": "/verif/check", "serves_properties": sorted(CLAIMED),
                     "kind_free_text": "Coq 8.16 theorems over hand-written/generated models + correspondence runs "
                                       "(vm_compute in coqc) against the real code"}],
        "checks": checks,
        "not_applicable": [{"property_id": p, "reason": "machinery for this property is not built yet (work in progress, see DESIGN.md 5)"}
                           for p in ALL if p not in CLAIMED],
        "notes": "see DESIGN.md; known_findings.json lists repaired defects (fixed: entries) and recorded findings",
    }
    with open(os.path.join(VERIF, "MANIFEST.json"), "w") as f:
        json.dump(man, f, indent=1)


if __name__ == "__main__":
    main()
