From Coq Require Import ZArith List Bool Lia.
Import ListNotations.
From KD Require Import C18.Model C18.Spec C18.Check.
Open Scope Z_scope.

Notation loop := (loop_gen true true).

Lemma emit_inv : forall o r t res, emit o r = (t, res) -> exists t', r = (t', res) /\ t = o ++ t'.
Proof. intros o [t' r'] t res H. unfold emit in H. simpl in H. inversion H; subst. eauto. Qed.

Ltac brk :=
  repeat (simpl in *; match goal with
  | H : context[match ?x with _ => _ end] |- _ =>
      match x with
      | loop_gen _ _ _ _ _ _ _ _ _ => fail 1
      | ctl _ _ _ _ _ => fail 1
      | _ => destruct x eqn:?; try discriminate
      end
  | H : (_, _) = (_, _) |- _ => inversion H; subst; clear H
  | H : inl _ = inl _ |- _ => inversion H; subst; clear H
  | H : inr _ = inr _ |- _ => inversion H; subst; clear H
  | H : Some _ = Some _ |- _ => inversion H; subst; clear H
  | H : inl _ = inr _ |- _ => discriminate H
  | H : inr _ = inl _ |- _ => discriminate H
  end).

(* every successful run of the data-carrying loop follows the control skeleton *)
Lemma loop_ok_ctl : forall rc ms k called removed b x t bo xo,
  loop rc k ms called removed b x = (t, Ok bo xo) ->
  ctl rc k (map mmode ms) called removed = (t, true).
Proof.
  induction ms as [|m ms IH]; intros k called removed b x t bo xo H; simpl in *.
  - inversion H; reflexivity.
  - unfold step_before, step_split in H.
    destruct (mmode m) eqn:Em; destruct called; destruct rc; destruct removed; simpl in *;
      try discriminate H; brk;
      try (match goal with H : emit _ _ = _ |- _ =>
             apply emit_inv in H; destruct H as [t' [H ->]]; apply IH in H; rewrite H; reflexivity end);
      try (exfalso; simpl in *; congruence).
Qed.

(* ---- the control skeleton in closed form ---- *)
Lemma calls_S : forall k n, calls k (S n) = Call k :: calls (S k) n.
Proof. reflexivity. Qed.

Lemma ctl_called : forall rc ms k removed,
  forallb is_before ms = true -> ctl rc k ms true removed = (calls k (length ms), true).
Proof.
  induction ms as [|m ms IH]; intros k removed H; simpl in *; [reflexivity|].
  apply andb_prop in H; destruct H as [Hm H]. destruct m; try discriminate Hm. simpl.
  rewrite ?orb_false_r. rewrite (IH (S k) removed H). reflexivity.
Qed.

Lemma ctl_called_bad : forall rc ms k removed,
  forallb is_before ms = false -> snd (ctl rc k ms true removed) = false.
Proof.
  induction ms as [|m ms IH]; intros k removed H; simpl in *; [discriminate|].
  destruct m; simpl in *; try reflexivity. rewrite ?orb_false_r. apply IH; assumption.
Qed.

Lemma ctl_uncollated : forall rc ms k removed,
  well_ordered ms = true -> rc && negb removed = false ->
  ctl rc k ms false removed = (spec_uncollated k ms, true).
Proof.
  induction ms as [|m ms IH]; intros k removed H Hc; simpl in *; [reflexivity|].
  destruct m; simpl.
  - rewrite Hc. simpl. rewrite orb_false_r. rewrite (IH (S k) removed H Hc). reflexivity.
  - rewrite Hc. simpl. rewrite (ctl_called rc ms (S k) (removed || false) H). reflexivity.
  - rewrite Hc. simpl. rewrite (ctl_called rc ms (S k) (removed || false) H). reflexivity.
Qed.

Lemma ctl_uncollated_bad : forall rc ms k removed,
  well_ordered ms = false -> snd (ctl rc k ms false removed) = false.
Proof.
  induction ms as [|m ms IH]; intros k removed H; simpl in *; [discriminate|].
  destruct m; simpl.
  - apply IH; assumption.
  - apply ctl_called_bad; assumption.
  - apply ctl_called_bad; assumption.
Qed.

Lemma ctl_closed_form : forall rc ms,
  well_ordered ms = true -> ctl rc 0 ms false false = (spec_trace rc ms, true).
Proof.
  intros rc ms H. destruct ms as [|m ms]; [reflexivity|].
  destruct rc.
  - destruct m; simpl in *.
    + rewrite (ctl_uncollated true ms 1 true H eq_refl). reflexivity.
    + rewrite (ctl_called true ms 1 false H). reflexivity.
    + rewrite (ctl_called true ms 1 true H). reflexivity.
  - rewrite (ctl_uncollated false (m :: ms) 0 false H eq_refl). destruct m; reflexivity.
Qed.

Lemma count_dc_app : forall a b, count_dc (a ++ b) = (count_dc a + count_dc b)%nat.
Proof. intros. unfold count_dc. rewrite filter_app, app_length. reflexivity. Qed.

Lemma count_dc_calls : forall n k, count_dc (calls k n) = 0%nat.
Proof. induction n; intros; [reflexivity|]. rewrite calls_S. unfold count_dc in *. simpl. apply IHn. Qed.

Lemma count_dc_cons : forall o t, count_dc (o :: t) = ((if is_dc o then 1 else 0) + count_dc t)%nat.
Proof. intros. unfold count_dc. simpl. destruct (is_dc o); reflexivity. Qed.

Lemma count_dc_uncollated : forall ms k,
  count_dc (spec_uncollated k ms) = if all_none ms then 0%nat else 1%nat.
Proof.
  induction ms as [|m ms IH]; intros k; [reflexivity|].
  destruct m; cbn [spec_uncollated all_none forallb is_none andb].
  - rewrite count_dc_cons. cbn [is_dc]. rewrite IH. reflexivity.
  - rewrite count_dc_cons, count_dc_calls. reflexivity.
  - rewrite !count_dc_cons, count_dc_calls. reflexivity.
Qed.

(* spec_trace collates exactly once iff some member asks for it *)
Lemma spec_trace_count : forall rc ms,
  count_dc (spec_trace rc ms) = if all_none ms then 0%nat else 1%nat.
Proof.
  intros rc ms. destruct ms as [|m ms]; [reflexivity|].
  destruct m; unfold spec_trace.
  - rewrite count_dc_app, count_dc_uncollated. destruct rc; reflexivity.
  - rewrite count_dc_cons, count_dc_app, count_dc_calls. destruct rc; reflexivity.
  - rewrite count_dc_app, count_dc_uncollated. destruct rc; reflexivity.
Qed.

(* T: successful call => members were well ordered and the trace is the specified one *)
Lemma ok_trace : forall rc ms b t bo xo,
  call_impl rc ms b = (t, Ok bo xo) ->
  well_ordered (map mmode ms) = true /\ t = spec_trace rc (map mmode ms).
Proof.
  intros rc ms b t bo xo H. unfold call_impl, call_impl_gen in H. apply loop_ok_ctl in H.
  destruct (well_ordered (map mmode ms)) eqn:W.
  - rewrite (ctl_closed_form rc _ W) in H. inversion H. auto.
  - pose proof (ctl_uncollated_bad rc _ 0%nat false W) as Hb. rewrite H in Hb. discriminate Hb.
Qed.

(* ---- at most one DefaultCollate in EVERY run, successful or not ---- *)
Lemma step_before_count : forall gx rc m called removed b x,
  count_dc (fst (step_before gx rc m called removed b x)) = (if is_before m && negb called then 1 else 0)%nat.
Proof.
  intros. unfold step_before. destruct (is_before m && negb called); [|reflexivity].
  destruct (default_collate b) as [b'|]; [|reflexivity].
  destruct (rc && (negb gx || negb removed)); [|reflexivity]. destruct b'; reflexivity.
Qed.

Lemma step_before_called : forall gx rc m called removed b x o c1 b1 x1,
  step_before gx rc m called removed b x = (o, inr (c1, b1, x1)) -> c1 = called || (is_before m && negb called).
Proof.
  intros until x1. unfold step_before. destruct (is_before m && negb called).
  - destruct (default_collate b) as [b'|]; [|discriminate].
    destruct (rc && (negb gx || negb removed)); [destruct b'|]; intros H; inversion H; subst; rewrite orb_true_r; reflexivity.
  - intros H; inversion H; subst. rewrite orb_false_r. reflexivity.
Qed.

Lemma step_split_count : forall rc called removed b x,
  count_dc (fst (step_split rc called removed b x)) = 0%nat.
Proof.
  intros. unfold step_split. destruct (negb called && rc && negb removed); [|reflexivity].
  destruct b; try reflexivity. destruct (collate_ctx (map snd l)); reflexivity.
Qed.

Lemma loop_count : forall rc ms k called removed b x,
  (count_dc (fst (loop rc k ms called removed b x)) <= if called then 0 else 1)%nat.
Proof.
  induction ms as [|m ms IH]; intros k called removed b x.
  - simpl. destruct called; unfold count_dc; simpl; lia.
  - simpl.
    destruct (is_none (mmode m) && called) eqn:En.
    { destruct called; unfold count_dc; simpl; lia. }
    pose proof (step_before_count true rc (mmode m) called removed b x) as Hb.
    destruct (step_before true rc (mmode m) called removed b x) as [o1 [e|[[c1 b1] x1]]] eqn:Es1.
    { simpl in *. rewrite Hb. destruct (mmode m); destruct called; simpl; lia. }
    apply step_before_called in Es1.
    pose proof (step_split_count rc c1 removed b1 x1) as Hs.
    destruct (step_split rc c1 removed b1 x1) as [o2 [e|[[r2 b2] x2]]].
    { simpl in *. rewrite count_dc_app, Hb, Hs. destruct (mmode m); destruct called; simpl; lia. }
    simpl in Hb, Hs.
    assert (Hcall : forall kk, count_dc [Call kk] = 0%nat) by reflexivity.
    assert (Hcalldc : forall kk, count_dc [Call kk; DefaultCollate] = 1%nat) by reflexivity.
    destruct (mcollate m b2 x2) as [[b3 x3]|].
    2:{ simpl. rewrite !count_dc_app, Hb, Hs, Hcall. destruct (mmode m); destruct called; simpl; lia. }
    destruct (is_after (mmode m)) eqn:Ea.
    + destruct c1 eqn:Ec1.
      { simpl. rewrite !count_dc_app, Hb, Hs, Hcall. destruct (mmode m); destruct called; simpl; try lia; discriminate. }
      destruct (default_collate b3) as [b4|].
      2:{ simpl. rewrite !count_dc_app, Hb, Hs, Hcalldc. destruct (mmode m); destruct called; simpl in *; try lia; discriminate. }
      unfold emit; cbn [fst snd]. rewrite !count_dc_app, Hb, Hs, Hcalldc.
      pose proof (IH (S k) true r2 b4 x3) as Hi. simpl in Hi.
      destruct (mmode m); destruct called; simpl in *; try lia; discriminate.
    + unfold emit; cbn [fst snd]. rewrite !count_dc_app, Hb, Hs, Hcall.
      pose proof (IH (S k) c1 r2 b3 x3) as Hi. subst c1.
      destruct (mmode m); destruct called; simpl in *; try lia; discriminate.
Qed.

Lemma at_most_once : forall rc ms b, (count_dc (fst (call_impl rc ms b)) <= 1)%nat.
Proof. intros. unfold call_impl, call_impl_gen. apply (loop_count rc ms 0%nat false false b []). Qed.

(* ---- (batch, ctx) iff configured ---- *)
Lemma loop_ok_ctx : forall rc ms k called removed b x t bo xo,
  loop rc k ms called removed b x = (t, Ok bo xo) -> exists x', xo = if rc then Some x' else None.
Proof.
  induction ms as [|m ms IH]; intros k called removed b x t bo xo H; simpl in H.
  - inversion H; subst. eauto.
  - unfold step_before, step_split in H.
    destruct (mmode m) eqn:Em; destruct called; destruct rc; destruct removed; simpl in *;
      try discriminate H; brk;
      try (match goal with H : emit _ _ = _ |- _ =>
             apply emit_inv in H; destruct H as [t' [H _]]; apply IH in H; exact H end);
      try (exfalso; simpl in *; congruence).
Qed.

(* ---- layout ---- *)
Lemma map_opt_length : forall A B (f : A -> option B) l r, map_opt f l = Some r -> length r = length l.
Proof.
  induction l as [|a l IH]; intros r H; simpl in H.
  - inversion H; reflexivity.
  - destruct (f a); [|discriminate]. destruct (map_opt f l) eqn:E; [|discriminate].
    inversion H; subst. simpl. f_equal. apply IH. reflexivity.
Qed.

Lemma map_opt_Forall : forall A B (f : A -> option B) (P : B -> Prop) l r,
  map_opt f l = Some r -> (forall a b, In a l -> f a = Some b -> P b) -> Forall P r.
Proof.
  induction l as [|a l IH]; intros r H HP; simpl in H.
  - inversion H; constructor.
  - destruct (f a) eqn:Ea; [|discriminate]. destruct (map_opt f l) eqn:E; [|discriminate].
    inversion H; subst. constructor.
    + apply (HP a); [left; reflexivity|assumption].
    + apply IH; [reflexivity|]. intros a' b' Hin. apply HP. right; assumption.
Qed.

Lemma collate_col_rows : forall col f, collate_col col = Some f -> rows_of f = length col.
Proof.
  intros col f H. unfold collate_col in H. destruct col as [|[d z|d tr s] col']; [discriminate| |].
  - destruct (map_opt (get_scalar d) (FScalar d z :: col')) eqn:E; [|discriminate]. inversion H; subst.
    simpl. apply map_opt_length in E. exact E.
  - destruct (map_opt (get_seq d tr) (FSeq d tr s :: col')) eqn:E; [|discriminate].
    destruct (same_len l); [|discriminate]. inversion H; subst. simpl. apply map_opt_length in E. exact E.
Qed.

Lemma collate_items_shape : forall n B l c,
  items_shape n B l -> collate_items l = Some c -> coll_shape n B c.
Proof.
  intros n B l c [HB Hn] H. unfold collate_items in H. destruct l as [|s0 l']; [discriminate|].
  destruct (forallb _ (s0 :: l')); [|discriminate].
  assert (Hs0 : length s0 = n) by (inversion Hn; assumption).
  split.
  - apply map_opt_length in H. rewrite seq_length in H. congruence.
  - eapply map_opt_Forall; [exact H|]. intros i f _ Hi. simpl in Hi.
    destruct (column i (s0 :: l')) as [col|] eqn:Ec; [|discriminate].
    apply collate_col_rows in Hi. rewrite Hi. unfold column in Ec. apply map_opt_length in Ec. congruence.
Qed.

Section Layout.
  Variables (n B : nat) (rc : bool).

  (* what `batch` is bound to, given the two flags *)
  Definition inv (called removed : bool) (b : batch) : Prop :=
    if called then has_layout n B true b
    else if rc && negb removed then exists l, b = BRaw l /\ items_shape n B (map fst l)
    else has_layout n B false b.

  Definition inv' (called removed : bool) (b : batch) : Prop :=
    has_layout n B called b /\ (called = false -> rc && negb removed = false).

  Lemma inv'_inv : forall c r b, inv' c r b -> inv c r b.
  Proof. intros c r b [H1 H2]. unfold inv. destruct c; [assumption|]. rewrite (H2 eq_refl). assumption. Qed.

  Lemma step_before_inv : forall m called removed b x o c1 b1 x1,
    inv called removed b ->
    step_before true rc m called removed b x = (o, inr (c1, b1, x1)) -> inv c1 removed b1.
  Proof.
    intros m called removed b x o c1 b1 x1 Hi H. unfold step_before in H.
    destruct (is_before m && negb called) eqn:Eb.
    2:{ inversion H; subst. assumption. }
    apply andb_prop in Eb. destruct Eb as [_ Ec]. destruct called; [discriminate|]. unfold inv in Hi.
    destruct (default_collate b) as [b'|] eqn:Ed; [|discriminate]. simpl in H.
    destruct (rc && negb removed) eqn:Er.
    - destruct Hi as [l [-> Hl]]. simpl in Ed.
      destruct (collate_items (map fst l)) eqn:Ec1; [|discriminate]. destruct (collate_ctx (map snd l)); [|discriminate].
      inversion Ed; subst. inversion H; subst. simpl. split; [reflexivity|]. eapply collate_items_shape; eauto.
    - inversion H; subst. destruct b; simpl in Hi; try contradiction. destruct Hi as [_ Hl]. simpl in Ed.
      destruct (collate_items l) eqn:Ec1; [|discriminate]. inversion Ed; subst. simpl. split; [reflexivity|].
      eapply collate_items_shape; eauto.
      destruct Hi as [Hf _]. discriminate Hf.
  Qed.

  Lemma step_split_inv : forall c1 removed b1 x1 o r2 b2 x2,
    inv c1 removed b1 ->
    step_split rc c1 removed b1 x1 = (o, inr (r2, b2, x2)) -> inv' c1 r2 b2.
  Proof.
    intros c1 removed b1 x1 o r2 b2 x2 Hi H. unfold step_split in H. unfold inv in Hi. unfold inv'.
    destruct c1; simpl in H.
    - inversion H; subst. split; [assumption|discriminate].
    - destruct (rc && negb removed) eqn:Er.
      + destruct Hi as [l [-> Hl]]. destruct (collate_ctx (map snd l)); [|discriminate]. inversion H; subst.
        split; [simpl; auto|]. intros _. rewrite andb_false_r. reflexivity.
      + inversion H; subst. auto.
  Qed.

  Lemma member_step : forall m ms k called removed b x t bo xo,
    inv called removed b -> keeps_layout n B m ->
    loop rc k (m :: ms) called removed b x = (t, Ok bo xo) ->
    exists k' c' r' b' x' t',
      loop rc k' ms c' r' b' x' = (t', Ok bo xo) /\ inv' c' r' b' /\
      c' = called || negb (is_none (mmode m)).
  Proof.
    intros m ms k called removed b x t bo xo Hi Hk H. simpl in H.
    destruct (is_none (mmode m) && called) eqn:En; [discriminate|].
    destruct (step_before true rc (mmode m) called removed b x) as [o1 [e|[[c1 b1] x1]]] eqn:Es1; [discriminate|].
    pose proof (step_before_called _ _ _ _ _ _ _ _ _ _ _ Es1) as Hc1.
    pose proof (step_before_inv _ _ _ _ _ _ _ _ _ Hi Es1) as Hi1.
    destruct (step_split rc c1 removed b1 x1) as [o2 [e|[[r2 b2] x2]]] eqn:Es2; [discriminate|].
    pose proof (step_split_inv _ _ _ _ _ _ _ _ Hi1 Es2) as [Hl2 Hr2].
    destruct (mcollate m b2 x2) as [[b3 x3]|] eqn:Em; [|discriminate].
    pose proof (Hk _ _ _ _ _ Em Hl2) as Hl3.
    destruct (is_after (mmode m)) eqn:Ea.
    - destruct c1; [discriminate|]. destruct (default_collate b3) as [b4|] eqn:Ed; [|discriminate].
      apply emit_inv in H. destruct H as [t' [H _]].
      exists (S k), true, r2, b4, x3, t'. split; [exact H|]. split.
      + split; [|discriminate]. destruct b3; simpl in Hl3; try contradiction.
        * simpl in Ed. destruct (collate_items l) eqn:Ec; [|discriminate]. inversion Ed; subst.
          simpl. split; [reflexivity|]. destruct Hl3 as [_ Hl3]. eapply collate_items_shape; eauto.
        * destruct Hl3 as [Hf _]; discriminate Hf.
      + destruct (mmode m); try discriminate Ea. simpl. rewrite orb_true_r. reflexivity.
    - apply emit_inv in H. destruct H as [t' [H _]].
      exists (S k), c1, r2, b3, x3, t'. split; [exact H|]. split; [split; assumption|].
      rewrite Hc1. destruct (mmode m); try discriminate Ea; destruct called; reflexivity.
  Qed.

  Lemma loop_layout : forall ms k called removed b x t bo xo,
    inv' called removed b -> Forall (keeps_layout n B) ms ->
    loop rc k ms called removed b x = (t, Ok bo xo) ->
    has_layout n B (called || negb (all_none (map mmode ms))) bo.
  Proof.
    induction ms as [|m ms IH]; intros k called removed b x t bo xo Hi Hk H.
    - simpl in H. inversion H; subst. simpl. rewrite orb_false_r. apply Hi.
    - pose proof (Forall_inv Hk) as Hk1. pose proof (Forall_inv_tail Hk) as Hk2.
      destruct (member_step _ _ _ _ _ _ _ _ _ _ (inv'_inv _ _ _ Hi) Hk1 H) as (k' & c' & r' & b' & x' & t' & Hl & Hi' & Hc).
      apply IH in Hl; try assumption. subst c'. simpl.
      destruct (is_none (mmode m)); simpl in *; [rewrite orb_false_r in Hl; exact Hl|].
      rewrite orb_true_r in *. exact Hl.
  Qed.

  Lemma call_layout : forall ms b t bo xo,
    ms <> [] -> raw_input n B rc b -> Forall (keeps_layout n B) ms ->
    call_impl rc ms b = (t, Ok bo xo) ->
    has_layout n B (negb (all_none (map mmode ms))) bo.
  Proof.
    intros ms b t bo xo Hne Hraw Hk H. destruct ms as [|m ms]; [congruence|].
    unfold call_impl, call_impl_gen in H.
    pose proof (Forall_inv Hk) as Hk1. pose proof (Forall_inv_tail Hk) as Hk2.
    assert (Hi : inv false false b).
    { unfold inv. unfold raw_input in Hraw. destruct b; try contradiction.
      - destruct Hraw as [-> Hs]. simpl. eauto.
      - destruct Hraw as [-> Hs]. simpl. auto. }
    destruct (member_step _ _ _ _ _ _ _ _ _ _ Hi Hk1 H) as (k' & c' & r' & b' & x' & t' & Hl & Hi' & Hc).
    apply loop_layout in Hl; try assumption. subst c'. simpl in *.
    destruct (is_none (mmode m)); simpl in *; exact Hl.
  Qed.
End Layout.

(* ---- the batched context ---- *)
Section Ctx.
  Variable R : bctx -> bctx -> Prop.
  Hypothesis R_refl : forall x, R x x.
  Hypothesis R_trans : forall x y z, R x y -> R y z -> R x z.
  Definition member_R (m : member) : Prop := forall b x b' x', mcollate m b x = Some (b', x') -> R x x'.

  (* once the contexts are out of the batch (collated with it or split off), the
     pipeline itself never touches the batched context again *)
  Lemma loop_ctx_settled : forall ms k called removed b x t bo xo,
    called || removed = true -> Forall member_R ms ->
    loop true k ms called removed b x = (t, Ok bo xo) -> exists x', xo = Some x' /\ R x x'.
  Proof.
    induction ms as [|m ms IH]; intros k called removed b x t bo xo Hcr Hk H; simpl in H.
    - inversion H; subst. eauto.
    - pose proof (Forall_inv Hk) as Hk1. pose proof (Forall_inv_tail Hk) as Hk2. unfold member_R in Hk1.
      unfold step_before, step_split in H.
      destruct (mmode m) eqn:Em; destruct called; destruct removed; simpl in *;
        try discriminate H; try discriminate Hcr; brk;
        try (match goal with
             | Hm : mcollate m _ _ = Some _, H : emit _ _ = _ |- _ =>
                 apply Hk1 in Hm; apply emit_inv in H; destruct H as [t' [H _]];
                 apply IH in H; [|reflexivity|assumption]; destruct H as [x' [-> Hx]]; eauto
             end);
        try (exfalso; simpl in *; congruence).
  Qed.

  Lemma call_ctx : forall m ms l t bo xo,
    Forall member_R (m :: ms) ->
    call_impl true (m :: ms) (BRaw l) = (t, Ok bo xo) ->
    exists x0 x', collate_ctx (map snd l) = Some x0 /\ xo = Some x' /\ R x0 x'.
  Proof.
    intros m ms l t bo xo Hk H. unfold call_impl, call_impl_gen in H. simpl in H.
    pose proof (Forall_inv Hk) as Hk1. pose proof (Forall_inv_tail Hk) as Hk2. unfold member_R in Hk1.
    unfold step_before, step_split in H.
    destruct (mmode m) eqn:Em; simpl in *; brk;
      try (match goal with
           | Hm : mcollate m _ _ = Some _, H : emit _ _ = _ |- _ =>
               apply Hk1 in Hm; apply emit_inv in H; destruct H as [t' [H _]];
               apply loop_ctx_settled in H; [|reflexivity|assumption]; destruct H as [x' [-> Hx]];
               eexists; eexists; split; [reflexivity|split; [reflexivity|eauto]]
           end);
      try (exfalso; simpl in *; congruence).
  Qed.
End Ctx.

Lemma ctx_exact : forall m ms l t bo xo,
  Forall keeps_ctx (m :: ms) ->
  call_impl true (m :: ms) (BRaw l) = (t, Ok bo xo) -> xo = collate_ctx (map snd l).
Proof.
  intros m ms l t bo xo Hk H.
  destruct (call_ctx (fun x y => y = x) (fun x => eq_refl) (fun x y z H1 H2 => eq_trans H2 H1) m ms l t bo xo) as (x0 & x' & E & -> & ->).
  - exact Hk.
  - exact H.
  - symmetry; exact E.
Qed.

Lemma ctx_keys_kept : forall m ms l t bo xo,
  Forall extends_ctx (m :: ms) ->
  call_impl true (m :: ms) (BRaw l) = (t, Ok bo xo) ->
  exists x0 x', collate_ctx (map snd l) = Some x0 /\ xo = Some x' /\ incl (keys x0) (keys x').
Proof.
  intros m ms l t bo xo Hk H.
  apply (call_ctx (fun x y => incl (keys x) (keys y)) (fun x => incl_refl _) (fun x y z => @incl_tran _ _ _ _) m ms l t bo xo Hk H).
Qed.

(* the keys of the batched context are exactly the keys of the (first) sample context *)
Lemma collate_ctx_keys_aux : forall (L : list sctx) (c : sctx) x,
  map_opt (fun kv => option_map (fun vs => (fst kv, vs)) (map_opt (lookup (fst kv)) L)) c = Some x ->
  map fst x = map fst c.
Proof.
  induction c as [|[k v] c IH]; intros x H; simpl in H.
  - inversion H; reflexivity.
  - destruct (map_opt (lookup k) L); simpl in H; [|discriminate].
    destruct (map_opt _ c) eqn:E; [|discriminate]. inversion H; subst. simpl. f_equal. apply IH. reflexivity.
Qed.

Lemma collate_ctx_keys : forall c0 l' x, collate_ctx (c0 :: l') = Some x -> keys x = map fst c0.
Proof. intros c0 l' x H. unfold collate_ctx in H. apply collate_ctx_keys_aux in H. exact H. Qed.

(* ---- padding ---- *)
Lemma max_len_ge : forall A (rows : list (list A)) r, In r rows -> (length r <= max_len rows)%nat.
Proof.
  intros A. induction rows as [|r0 rows IH]; intros r H; [contradiction|]. simpl. destruct H as [->|H].
  - lia.
  - specialize (IH r H). lia.
Qed.

Lemma max_len_attained : forall A (rows : list (list A)), rows <> [] -> exists r, In r rows /\ length r = max_len rows.
Proof.
  intros A. induction rows as [|r0 rows IH]; intros H; [congruence|]. simpl.
  destruct rows as [|r1 rows'].
  - exists r0. split; [left; reflexivity|]. simpl. lia.
  - destruct IH as [r [Hin Hr]]; [discriminate|].
    destruct (Nat.le_ge_cases (length r0) (max_len (r1 :: rows'))) as [Hle|Hge].
    + exists r. split; [right; exact Hin|]. rewrite Hr. lia.
    + exists r0. split; [left; reflexivity|]. lia.
Qed.

Lemma pad_row_length : forall A (z : A) M r, (length r <= M)%nat -> length (pad_row z M r) = M.
Proof. intros. unfold pad_row. rewrite app_length, repeat_length. lia. Qed.

Lemma pad_col_padded : forall col out, pad_col col = Some out -> padded_field col out.
Proof.
  intros col out H. unfold pad_col in H. destruct col as [|[d z|d tr s] col']; [discriminate| |].
  - exact H.
  - unfold padded_field. destruct (map_opt (get_seq d tr) (FSeq d tr s :: col')) as [rows|] eqn:E; [|discriminate].
    simpl in H. inversion H; subst. exists rows, (max_len rows).
    split; [reflexivity|]. split; [apply max_len_ge|]. split.
    + apply max_len_attained. intros ->. apply map_opt_length in E. discriminate E.
    + split; [reflexivity|]. split.
      * intros p Hp. apply in_map_iff in Hp. destruct Hp as [r [<- Hr]].
        apply (pad_row_length _ (zero_elem tr) (max_len rows) r). apply max_len_ge; assumption.
      * intros Hw p e Hp He. apply in_map_iff in Hp. destruct Hp as [r [<- Hr]].
        apply in_app_or in He. destruct He as [He|He].
        -- exact (Hw r e Hr He).
        -- apply repeat_spec in He. subst e. apply repeat_length.
Qed.

Lemma map_opt_nth : forall A B (f : A -> option B) l r i a,
  map_opt f l = Some r -> nth_error l i = Some a -> exists b, nth_error r i = Some b /\ f a = Some b.
Proof.
  induction l as [|a0 l IH]; intros r i a H Hn.
  - destruct i; discriminate.
  - simpl in H. destruct (f a0) eqn:Ea; [|discriminate]. destruct (map_opt f l) eqn:E; [|discriminate].
    inversion H; subst. destruct i; simpl in *.
    + inversion Hn; subst. eauto.
    + eapply IH; eauto.
Qed.

Lemma nth_error_seq0 : forall n i, (i < n)%nat -> nth_error (seq 0 n) i = Some i.
Proof.
  intros n i H. rewrite (nth_error_nth' (seq 0 n) 0%nat) by (rewrite seq_length; exact H).
  rewrite seq_nth by exact H. reflexivity.
Qed.

(* every field of the padding collator's output, position by position *)
Lemma pad_items_fieldwise : forall s0 l cs,
  pad_items (s0 :: l) = Some cs ->
  length cs = length s0 /\
  forall i, (i < length s0)%nat ->
    exists col out, column i (s0 :: l) = Some col /\ nth_error cs i = Some out /\ padded_field col out.
Proof.
  intros s0 l cs H. unfold pad_items in H. split.
  - apply map_opt_length in H. rewrite seq_length in H. exact H.
  - intros i Hi. destruct (map_opt_nth _ _ _ _ _ i i H (nth_error_seq0 _ _ Hi)) as [out [Hn Hf]].
    destruct (column i (s0 :: l)) as [col|] eqn:Ec; [|discriminate].
    exists col, out. split; [reflexivity|]. split; [exact Hn|]. apply pad_col_padded; exact Hf.
Qed.

Lemma pad_pipeline_ctx : forall l t bo xo,
  call_impl true [pad_member] (BRaw l) = (t, Ok bo xo) ->
  exists c, pad_items (map fst l) = Some c /\ bo = BColl c /\ xo = collate_ctx (map snd l).
Proof.
  intros l t bo xo H. unfold call_impl, call_impl_gen in H. simpl in H. unfold step_split in H. simpl in H.
  destruct (collate_ctx (map snd l)) as [x|]; [|discriminate]. simpl in H.
  destruct (pad_items (map fst l)) as [c|]; [|discriminate]. simpl in H. inversion H; subst. eauto.
Qed.

Lemma pad_pipeline_noctx : forall l t bo xo,
  call_impl false [pad_member] (BItems l) = (t, Ok bo xo) ->
  exists c, pad_items l = Some c /\ bo = BColl c /\ xo = None.
Proof.
  intros l t bo xo H. unfold call_impl, call_impl_gen in H. simpl in H.
  destruct (pad_items l) as [c|]; [|discriminate]. simpl in H. inversion H; subst. eauto.
Qed.

(* ---- the merge of the per-sample contexts itself ---- *)
Lemma lookup_in : forall (c : sctx) k v, NoDup (map fst c) -> In (k, v) c -> lookup k c = Some v.
Proof.
  induction c as [|[k' v'] c IH]; intros k v Hnd Hin; [contradiction|]. simpl in *.
  inversion Hnd as [|? ? Hnotin Hnd']; subst. destruct Hin as [E|Hin].
  - inversion E; subst. rewrite Z.eqb_refl. reflexivity.
  - destruct (k =? k') eqn:Ek.
    + apply Z.eqb_eq in Ek. subst. exfalso. apply Hnotin. apply in_map_iff. exists (k', v). auto.
    + apply IH; assumption.
Qed.

Lemma lookup_key : forall (c : sctx) k, In k (map fst c) -> exists v, lookup k c = Some v.
Proof.
  induction c as [|[k' v'] c IH]; intros k Hin; [contradiction|]. simpl in *.
  destruct (k =? k') eqn:Ek; [eauto|]. destruct Hin as [E|Hin]; [subst; rewrite Z.eqb_refl in Ek; discriminate|].
  apply IH; assumption.
Qed.

Lemma map_opt_total : forall A B (f : A -> option B) l,
  (forall a, In a l -> exists b, f a = Some b) -> exists r, map_opt f l = Some r.
Proof.
  induction l as [|a l IH]; intros H; simpl; [eauto|].
  destruct (H a (or_introl eq_refl)) as [b ->]. destruct IH as [r ->]; [intros; apply H; right; assumption|]. eauto.
Qed.

Lemma map_opt_In : forall A B (f : A -> option B) l r a,
  map_opt f l = Some r -> In a l -> exists b, In b r /\ f a = Some b.
Proof.
  intros A B f l r a H Hin. apply In_nth_error in Hin. destruct Hin as [i Hi].
  destruct (map_opt_nth _ _ f l r i a H Hi) as [b [Hb Hf]]. exists b. split; [|exact Hf].
  eapply nth_error_In; exact Hb.
Qed.

(* samples with one common key list (dict keys: no duplicates): the merge succeeds, its keys are
   exactly the samples' keys (none invented, none lost) and under every key it holds, in batch
   order, exactly the value every sample had under that key *)
Lemma collate_ctx_lossless_lem : forall c0 l,
  (forall c, In c (c0 :: l) -> map fst c = map fst c0) -> NoDup (map fst c0) ->
  exists x, collate_ctx (c0 :: l) = Some x /\ keys x = map fst c0 /\
    forall i c k v, nth_error (c0 :: l) i = Some c -> In (k, v) c ->
      exists vs, In (k, vs) x /\ nth_error vs i = Some v /\ length vs = length (c0 :: l).
Proof.
  intros c0 l Hu Hnd.
  assert (Htot : exists x, collate_ctx (c0 :: l) = Some x).
  { unfold collate_ctx. apply map_opt_total. intros [k v0] Hkv. cbn [fst].
    destruct (map_opt_total _ _ (lookup k) (c0 :: l)) as [vs Hvs].
    - intros c Hc. apply lookup_key. rewrite (Hu c Hc). apply in_map_iff. exists (k, v0). auto.
    - rewrite Hvs. simpl. eauto. }
  destruct Htot as [x Hx]. exists x. split; [exact Hx|]. split.
  { apply collate_ctx_keys in Hx. exact Hx. }
  intros i c k v Hi Hin.
  assert (Hc : In c (c0 :: l)) by (eapply nth_error_In; exact Hi).
  assert (Hk : In k (map fst c0)).
  { rewrite <- (Hu c Hc). apply in_map_iff. exists (k, v). auto. }
  apply in_map_iff in Hk. destruct Hk as [[k0 v0] [Ek Hkv0]]. simpl in Ek. subst k0.
  unfold collate_ctx in Hx.
  destruct (map_opt_In _ _ _ _ _ _ Hx Hkv0) as [b [Hb Hf]]. cbn [fst] in Hf.
  destruct (map_opt (lookup k) (c0 :: l)) as [vs|] eqn:Evs; [|discriminate]. simpl in Hf. inversion Hf; subst b.
  exists vs. split; [exact Hb|].
  destruct (map_opt_nth _ _ _ _ _ i c Evs Hi) as [v' [Hv' Hl]].
  rewrite (lookup_in c k v) in Hl.
  - inversion Hl; subst. split; [exact Hv'|]. apply map_opt_length in Evs. exact Evs.
  - rewrite (Hu c Hc). exact Hnd.
  - exact Hin.
Qed.

(* whatever the samples look like: the merge never invents a key or a value *)
Lemma collate_ctx_sound_lem : forall l x k vs,
  collate_ctx l = Some x -> In (k, vs) x ->
  length vs = length l /\
  forall i v, nth_error vs i = Some v -> exists c, nth_error l i = Some c /\ lookup k c = Some v.
Proof.
  intros l x k vs Hx Hin. unfold collate_ctx in Hx. destruct l as [|c0 l]; [discriminate|].
  apply In_nth_error in Hin. destruct Hin as [j Hj].
  assert (Hlen : length x = length c0) by (eapply map_opt_length; exact Hx).
  assert (Hjl : (j < length c0)%nat) by (rewrite <- Hlen; apply nth_error_Some; congruence).
  destruct (nth_error c0 j) as [kv|] eqn:Ekv; [|apply nth_error_None in Ekv; lia].
  destruct (map_opt_nth _ _ _ _ _ j kv Hx Ekv) as [b [Hb Hf]]. rewrite Hj in Hb. inversion Hb; subst b. clear Hb.
  destruct (map_opt (lookup (fst kv)) (c0 :: l)) as [vs'|] eqn:Evs; [|discriminate]. simpl in Hf. inversion Hf; subst.
  split; [eapply map_opt_length; exact Evs|].
  intros i v Hv.
  assert (Hil : (i < length (c0 :: l))%nat).
  { rewrite <- (map_opt_length _ _ _ _ _ Evs). apply nth_error_Some. congruence. }
  destruct (nth_error (c0 :: l) i) as [c|] eqn:Ec; [|apply nth_error_None in Ec; lia].
  exists c. split; [reflexivity|].
  destruct (map_opt_nth _ _ _ _ _ i c Evs Ec) as [v' [Hv' Hl]]. congruence.
Qed.

(* through the pipeline: members that leave the context alone, samples with one key list *)
Lemma pipeline_ctx_lossless_lem : forall m ms s0 l t bo xo,
  Forall keeps_ctx (m :: ms) ->
  (forall s, In s (s0 :: l) -> map fst (snd s) = map fst (snd s0)) -> NoDup (map fst (snd s0)) ->
  call_impl true (m :: ms) (BRaw (s0 :: l)) = (t, Ok bo xo) ->
  exists x, xo = Some x /\ keys x = map fst (snd s0) /\
    forall i s k v, nth_error (s0 :: l) i = Some s -> In (k, v) (snd s) ->
      exists vs, In (k, vs) x /\ nth_error vs i = Some v /\ length vs = length (s0 :: l).
Proof.
  intros m ms s0 l t bo xo Hk Hu Hnd H.
  pose proof (ctx_exact m ms (s0 :: l) t bo xo Hk H) as E. simpl in E.
  destruct (collate_ctx_lossless_lem (snd s0) (map snd l)) as (x & Hx & Hkeys & Hall).
  - intros c Hc. change (snd s0 :: map snd l) with (map snd (s0 :: l)) in Hc.
    apply in_map_iff in Hc. destruct Hc as [s [<- Hs]]. apply Hu; exact Hs.
  - exact Hnd.
  - exists x. split; [rewrite E; exact Hx|]. split; [exact Hkeys|].
    intros i s k v Hi Hin.
    destruct (Hall i (snd s) k v) as (vs & H1 & H2 & H3).
    + change (snd s0 :: map snd l) with (map snd (s0 :: l)). apply map_nth_error. exact Hi.
    + exact Hin.
    + exists vs. split; [exact H1|]. split; [exact H2|]. simpl in *. rewrite map_length in H3. exact H3.
Qed.

(* ---- the member collators of the correspondence run meet the contracts the theorems assume ---- *)
Lemma set_key_keys : forall k v x, incl (keys x) (keys (set_key k v x)) /\ incl (keys (set_key k v x)) (k :: keys x).
Proof.
  intros k v x. induction x as [|[k' v'] x [IH1 IH2]]; simpl.
  - split; [intros a []|apply incl_refl].
  - destruct (k =? k') eqn:E; simpl.
    + apply Z.eqb_eq in E. subst. split; [apply incl_refl|apply incl_tl, incl_refl].
    + split.
      * apply incl_cons; [left; reflexivity|]. apply incl_tl. exact IH1.
      * apply incl_cons; [right; left; reflexivity|].
        intros a Ha. destruct (IH2 a Ha) as [->|Ha']; [left; reflexivity|right; right; exact Ha'].
Qed.

Lemma add_keys_keys : forall ks x,
  incl (keys x) (keys (fold_left (fun x' k => set_key k [] x') ks x)) /\
  incl (keys (fold_left (fun x' k => set_key k [] x') ks x)) (keys x ++ ks).
Proof.
  induction ks as [|k ks IH]; intros x; simpl.
  - split; [apply incl_refl|rewrite app_nil_r; apply incl_refl].
  - destruct (IH (set_key k [] x)) as [H1 H2]. destruct (set_key_keys k [] x) as [S1 S2]. split.
    + eapply incl_tran; eassumption.
    + eapply incl_tran; [exact H2|]. intros a Ha. apply in_app_or in Ha. destruct Ha as [Ha|Ha].
      * destruct (S2 a Ha) as [->|Ha']; [apply in_or_app; right; left; reflexivity|apply in_or_app; left; exact Ha'].
      * apply in_or_app; right; right; exact Ha.
Qed.

Lemma member_of_extends_ctx : forall mk, extends_ctx (member_of mk).
Proof.
  intros [md k] b x b' x' H. unfold member_of in H. cbn [fst snd] in H. destruct k; cbn [mcollate] in H.
  - inversion H; subst. apply incl_refl.
  - destruct (mark_batch c b); inversion H; subst. apply incl_refl.
  - inversion H; subst. apply (set_key_keys key [key] x).
  - inversion H; subst. apply (add_keys_keys ks x).
  - unfold pad_member in H. cbn [mcollate] in H. destruct (pad_collate b); inversion H; subst. apply incl_refl.
Qed.

(* what a member may add to the context is bounded by the keys it announces *)
Lemma member_of_adds_only_announced : forall mk b x b' x',
  mcollate (member_of mk) b x = Some (b', x') -> incl (keys x') (keys x ++ written_keys (snd mk)).
Proof.
  intros [md k] b x b' x' H. unfold member_of in H. cbn [fst snd] in *. destruct k; cbn [mcollate written_keys] in *.
  - inversion H; subst. rewrite app_nil_r. apply incl_refl.
  - destruct (mark_batch c b); inversion H; subst. rewrite app_nil_r. apply incl_refl.
  - inversion H; subst. eapply incl_tran; [apply (set_key_keys key [key] x)|].
    intros a [->|Ha]; apply in_or_app; [right; left; reflexivity|left; exact Ha].
  - inversion H; subst. apply (add_keys_keys ks x).
  - unfold pad_member in H. cbn [mcollate] in H. destruct (pad_collate b); inversion H; subst.
    rewrite app_nil_r. apply incl_refl.
Qed.

Lemma member_of_keeps_ctx : forall mk, is_ctxw (snd mk) = false -> keeps_ctx (member_of mk).
Proof.
  intros [md k] Hk b x b' x' H. unfold member_of in H. cbn [fst snd] in *. destruct k; cbn [mcollate] in H; try discriminate Hk.
  - inversion H; reflexivity.
  - destruct (mark_batch c b); inversion H; reflexivity.
  - unfold pad_member in H. cbn [mcollate] in H. destruct (pad_collate b); inversion H; reflexivity.
Qed.

Lemma on_head_length : forall A (f : A -> A) l, length (on_head f l) = length l.
Proof. intros A f [|a l]; reflexivity. Qed.

Lemma mark_batch_layout : forall n B c cc b b', mark_batch c b = Some b' -> has_layout n B cc b -> has_layout n B cc b'.
Proof.
  intros n B c cc b b' H Hl. destruct b; simpl in H; try discriminate; inversion H; subst; simpl in *.
  - destruct Hl as [Hc [HB Hn]]. split; [exact Hc|]. split; [rewrite map_length; exact HB|].
    apply Forall_map. eapply Forall_impl; [|exact Hn]. intros s Hs. simpl in Hs. rewrite on_head_length. exact Hs.
  - destruct Hl as [Hc [Hn HB]]. split; [exact Hc|]. split; [rewrite on_head_length; exact Hn|].
    destruct c0 as [|f fs]; [exact HB|]. simpl. inversion HB; subst. constructor; [|assumption].
    destruct f; simpl in *; rewrite map_length; first [assumption|reflexivity].
Qed.

Lemma member_of_keeps_layout : forall n B mk, is_pad (snd mk) = false -> keeps_layout n B (member_of mk).
Proof.
  intros n B [md k] Hk b x b' x' cc H Hl. unfold member_of in H. cbn [fst snd] in *.
  destruct k; cbn [mcollate] in H; try discriminate Hk.
  - inversion H; subst. exact Hl.
  - destruct (mark_batch c b) eqn:E; inversion H; subst. eapply mark_batch_layout; eassumption.
  - inversion H; subst. exact Hl.
  - inversion H; subst. exact Hl.
Qed.

(* ---- the boolean padding test of the correspondence run (Check.padded_fieldb) implies the spec ---- *)
Lemma zlist_eqb_eq : forall a b, list_eqb Z.eqb a b = true -> a = b.
Proof.
  induction a as [|x a IH]; intros [|y b] H; simpl in H; try discriminate; [reflexivity|].
  apply andb_prop in H. destruct H as [Hx H]. apply Z.eqb_eq in Hx. subst. f_equal. now apply IH.
Qed.

Lemma dtype_eqb_eq : forall a b, dtype_eqb a b = true -> a = b.
Proof. intros [] []; simpl; intros H; try discriminate; reflexivity. Qed.

Lemma shape_eqb_eq : forall a b, shape_eqb a b = true -> a = b.
Proof.
  induction a as [|x a IH]; intros [|y b] H; simpl in H; try discriminate; [reflexivity|].
  apply andb_prop in H. destruct H as [Hx H]. apply Nat.eqb_eq in Hx. subst. f_equal. now apply IH.
Qed.

Lemma all_zero_repeat : forall e, all_zero e = true -> e = repeat 0 (length e).
Proof.
  induction e as [|z e IH]; intros H; simpl in *; [reflexivity|].
  apply andb_prop in H. destruct H as [Hz H]. apply Z.eqb_eq in Hz. subst. f_equal. now apply IH.
Qed.

Lemma zero_step_eq : forall tr e, zero_step tr e = true -> e = repeat 0 (numel tr).
Proof.
  intros tr e H. unfold zero_step in H. apply andb_prop in H. destruct H as [Hl Hz].
  apply Nat.eqb_eq in Hl. rewrite <- Hl. now apply all_zero_repeat.
Qed.

Lemma zero_steps_eq : forall tr z, forallb (zero_step tr) z = true -> z = repeat (repeat 0 (numel tr)) (length z).
Proof.
  induction z as [|e z IH]; intros H; simpl in *; [reflexivity|].
  apply andb_prop in H. destruct H as [He H]. apply zero_step_eq in He. subst e. f_equal. now apply IH.
Qed.

Lemma zero_padding_eq : forall tr r p, is_zero_padding_of tr r p = true ->
  (length r <= length p)%nat /\ p = r ++ repeat (repeat 0 (numel tr)) (length p - length r).
Proof.
  induction r as [|a r IH]; intros p H; simpl in H.
  - split; [simpl; lia|]. simpl. rewrite Nat.sub_0_r. now apply zero_steps_eq.
  - destruct p as [|b p]; [discriminate|]. apply andb_prop in H. destruct H as [Hab H].
    apply zlist_eqb_eq in Hab. subst b. destruct (IH p H) as [Hl Hp]. split; [simpl; lia|].
    simpl. f_equal. exact Hp.
Qed.

Lemma pairwise_padding_map : forall tr M rows prow,
  pairwiseb (is_zero_padding_of tr) rows prow = true ->
  forallb (fun p => Nat.eqb (length p) M) prow = true ->
  prow = map (fun r => r ++ repeat (repeat 0 (numel tr)) (M - length r)) rows /\
  (forall r, In r rows -> (length r <= M)%nat).
Proof.
  induction rows as [|r rows IH]; intros [|p prow] H HM; simpl in H; try discriminate.
  - split; [reflexivity|intros r []].
  - apply andb_prop in H. destruct H as [Hp H]. simpl in HM. apply andb_prop in HM. destruct HM as [HpM HM].
    apply Nat.eqb_eq in HpM. destruct (zero_padding_eq tr r p Hp) as [Hl Hpe].
    destruct (IH prow H HM) as [E Hle]. split.
    + simpl. rewrite <- E. f_equal. rewrite <- HpM. exact Hpe.
    + intros r' [<-|Hin]; [lia|now apply Hle].
Qed.

Lemma padded_fieldb_sound : forall col out, padded_fieldb col out = true -> padded_field col out.
Proof.
  intros col out H. unfold padded_fieldb in H. unfold padded_field.
  destruct col as [|[d z|d tr s] col'].
  - simpl in H. discriminate.
  - destruct (collate_col (FScalar d z :: col')) as [o|] eqn:E; [|discriminate].
    assert (o = out).
    { assert (Ho : exists l, o = CVec d l).
      { unfold collate_col in E. destruct (map_opt (get_scalar d) (FScalar d z :: col')) as [l|]; [|discriminate E].
        simpl in E. inversion E. eauto. }
      destruct Ho as [l1 ->]. destruct out as [d2 l2|d2 t2 r2]; simpl in H; try discriminate.
      apply andb_prop in H. destruct H as [Hd Hl]. apply dtype_eqb_eq in Hd. apply zlist_eqb_eq in Hl. congruence. }
    subst. reflexivity.
  - destruct (map_opt (get_seq d tr) (FSeq d tr s :: col')) as [rows|] eqn:E; [|discriminate].
    destruct out as [|d' tr' prow]; [discriminate|]. destruct prow as [|p0 prow]; [discriminate|].
    apply andb_prop in H. destruct H as [H Hex].
    apply andb_prop in H. destruct H as [H Hpw].
    apply andb_prop in H. destruct H as [H Hlen].
    apply andb_prop in H. destruct H as [Hd Htr].
    apply dtype_eqb_eq in Hd. apply shape_eqb_eq in Htr. subst d' tr'.
    set (M := length p0) in *.
    destruct (pairwise_padding_map tr M rows (p0 :: prow) Hpw Hlen) as [Emap Hle].
    exists rows, M. split; [reflexivity|]. split; [exact Hle|]. split.
    { apply existsb_exists in Hex. destruct Hex as [r [Hin Hr]]. apply Nat.eqb_eq in Hr. exists r. split; assumption. }
    split; [rewrite Emap; reflexivity|]. split.
    + intros p Hp. apply in_map_iff in Hp. destruct Hp as [r [<- Hr]].
      rewrite app_length, repeat_length. specialize (Hle r Hr). unfold elem in *. lia.
    + intros Hw p e Hp He. apply in_map_iff in Hp. destruct Hp as [r [<- Hr]].
      apply in_app_or in He. destruct He as [He|He]; [exact (Hw r e Hr He)|].
      apply repeat_spec in He. subst e. apply repeat_length.
Qed.

(* the old code (before the two _call_impl patches) *)
Definition id_member (md : cmode) : member := {| mmode := md; mcollate := fun b x => Some (b, x) |}.

(* ---- the statements of Property.v ---- *)
Lemma exactly_once_where_asked :
  forall rc ms b t bo xo,
    call_impl rc ms b = (t, Ok bo xo) ->
    well_ordered (map mmode ms) = true /\
    t = spec_trace rc (map mmode ms) /\
    count_dc t = (if all_none (map mmode ms) then 0 else 1)%nat.
Proof.
  intros rc ms b t bo xo H. destruct (ok_trace rc ms b t bo xo H) as [W E].
  split; [exact W|]. split; [exact E|]. rewrite E. apply spec_trace_count.
Qed.

Lemma ctx_iff_configured :
  forall rc ms b t bo xo, call_impl rc ms b = (t, Ok bo xo) -> (xo <> None <-> rc = true).
Proof.
  intros rc ms b t bo xo H. unfold call_impl, call_impl_gen in H. apply loop_ok_ctx in H.
  destruct H as [x' ->]. destruct rc; split; intros; congruence.
Qed.

Lemma ctx_keys_exact :
  forall m ms c0 l t bo xo,
    Forall keeps_ctx (m :: ms) ->
    call_impl true (m :: ms) (BRaw (c0 :: l)) = (t, Ok bo xo) ->
    xo = collate_ctx (map snd (c0 :: l)) /\
    exists x, xo = Some x /\ keys x = map fst (snd c0).
Proof.
  intros m ms c0 l t bo xo Hk H. pose proof (ctx_exact m ms (c0 :: l) t bo xo Hk H) as E.
  split; [exact E|].
  destruct xo as [x|].
  - exists x. split; [reflexivity|]. simpl in E. symmetry in E. apply collate_ctx_keys in E. exact E.
  - pose proof (proj2 (ctx_iff_configured _ _ _ _ _ _ H) eq_refl) as Hc. congruence.
Qed.

Lemma pad_pipelines :
  (forall l t bo xo, call_impl true [pad_member] (BRaw l) = (t, Ok bo xo) ->
     exists c, pad_items (map fst l) = Some c /\ bo = BColl c /\ xo = collate_ctx (map snd l)) /\
  (forall l t bo xo, call_impl false [pad_member] (BItems l) = (t, Ok bo xo) ->
     exists c, pad_items l = Some c /\ bo = BColl c /\ xo = None).
Proof. split; [exact pad_pipeline_ctx|exact pad_pipeline_noctx]. Qed.

Lemma pad_scalar_as_default :
  forall d z col out, pad_col (FScalar d z :: col) = Some out -> collate_col (FScalar d z :: col) = Some out.
Proof. intros d z col out H. exact H. Qed.

(* ---------------------------------------------------------------------- *)
(* entry points around shared member objects *)
Lemma ep_build_pure : forall h k c ids, ep_build_gen false h k c ids = (h, ep_of k c ids).
Proof. intros h k c ids. unfold ep_build_gen. destruct k; try reflexivity. destruct ids as [|i [|j r]]; reflexivity. Qed.

Lemma run_hist_fresh : forall ops h eps, run_hist h eps ops = (h, calls_fresh h eps ops).
Proof.
  unfold run_hist. induction ops as [|o r IH]; intros h eps; simpl; [reflexivity|].
  destruct o as [k c ids | j b].
  - rewrite ep_build_pure. apply IH.
  - rewrite IH. reflexivity.
Qed.

Lemma run_hist_heap : forall ops h eps, fst (run_hist h eps ops) = h.
Proof. intros. rewrite run_hist_fresh. reflexivity. Qed.

Lemma ep_call_own_cfg : forall h e b,
  ep_kind e <> EKSingle ->
  ep_call h e b = match ep_kind e, ep_ids e with
                  | EKCompose, _ :: _ | EKWrapper, [_] => run_cfg (ep_cfg e) (map (impl_at h) (ep_ids e)) b
                  | _, _ => fail_out
                  end.
Proof.
  intros h e b H. unfold ep_call, ep_call_gen. destruct (ep_kind e).
  - destruct (ep_ids e); reflexivity.
  - destruct (ep_ids e) as [|i l]; [reflexivity|]. destruct l; reflexivity.
  - congruence.
Qed.

(* whatever else was built / called in between (ops1, ops2): calling the entry point built by `HBuild k c ids`
   gives what that entry point gives on the untouched heap *)
Lemma calls_fresh_app : forall ops1 h eps ops2,
  calls_fresh h eps (ops1 ++ ops2) =
  calls_fresh h eps ops1 ++
  calls_fresh h (eps ++ flat_map (fun o => match o with HBuild k c ids => [ep_of k c ids] | _ => [] end) ops1) ops2.
Proof.
  induction ops1 as [|o r IH]; intros h eps ops2; simpl.
  - rewrite app_nil_r. reflexivity.
  - destruct o as [k c ids | j b]; simpl.
    + rewrite IH. rewrite <- app_assoc. reflexivity.
    + rewrite IH. reflexivity.
Qed.
