"""C15 - strength scaling interpolates from identity to the configured augmentation; a scheduled transform applies
the schedule value of the global batch independent of the worker count.

Proof side: coq/C15 (Base/BaseLemmas/Sched/Spec/Check/Proofs/PropertyC15 hand-written, gen/Strength.v regenerated
from KD_REPO's sources by harness/translate_strength.py on every run; the proofs mention no generated name below the
`leaf` level and are re-checked against the regenerated text).
Dynamic side (this module):
  * scale cases: a real transform (every class that defines _scale_strength, aliases, KDComposeTransform trees with
    opaque KDTransforms and foreign callables, the ready-made BYOL pipelines) is constructed, its parameters are
    read back (a) through the translator's schema -> Coq term, (b) through the hand-written registry OBSERVE below ->
    Python oracle; then scale_strength(f) for a factor sequence (0, 1, repeated, non-monotone, random), reading the
    parameters back after every call; for single leaves an injected spy generator records the (low, high) arguments
    of every rng.uniform call of one __call__ (= the ranges really sampled from).
  * sched cases: KDScheduledTransform (optionally inside a KDComposeTransform) is copied once per simulated worker,
    initialised through the public worker_init_fn with get_worker_info patched (as the unit test does), fed global
    batches round-robin; ctx strength and the wrapped transform's parameters are recorded per global sample.  With
    "loader" a real torch DataLoader with that many worker processes produces the same record.
"""
import copy
import math
import re
from fractions import Fraction

from . import translate_strength as T
from .common import Raw, coq

ID = "C15"
COQ_FILES = ["C15/Base.v", "C15/gen/Strength.v", "C15/Sched.v", "C15/Spec.v", "C15/Check.v", "C15/BaseLemmas.v",
             "C15/Proofs.v", "C15/PropertyC15.v"]
COQ_PRELUDE = ("From Coq Require Import ZArith QArith List Bool.\nImport ListNotations.\n"
               "From KD Require Import C15.Base C15.gen.Strength C15.Sched C15.Spec C15.Check.\nOpen Scope Q_scope.\n")
COQ_CHECK = "check"
COQ_CASE_TYPE = "case_t"
SHARD = 60
COQ_SAMPLES = 72
TRUSTED = [
    "harness/translate_strength.py (ast translator, fail closed): its output gen/Strength.v is validated on every run "
    "by comparing the real classes' attributes after every scale_strength call with the generated *_scale over exact "
    "fractions (Base.v approxQ: 1e-12 relative, ints exactly)",
    "binary64 vs rationals: the model computes over Q with the exact value of every float; `lb + (ub - lb) * 1.0` may "
    "differ from ub by an ulp (inside the tolerance); int(...) of KDSolarize is compared exactly, cases whose exact "
    "pre-truncation value is within 1e-9 of an integer it does not hit are only checked by the Python oracle",
    "coq/C15/Sched.v: hand model of KDScheduledTransform._worker_init_fn / __call__ (the schedule object is an opaque "
    "function; its values are asked from an independent copy of the schedule); tied to the code by the simulated "
    "workers and (thorough tier, 2 cases in quick) a real multi-process DataLoader",
    "round-robin assignment of batches to DataLoader workers (torch behaviour, observed in the real-loader cases: the "
    "worker id of every batch is recorded and the strengths are compared with the schedule at the global batch)",
    "torchvision ColorJitter / GaussianBlur / RandomRotation argument normalisation produces lower bounds >= 0 and "
    "hue within [-0.5, 0.5] (Spec.v KDColorJitter_wf; evaluated on every real instance)",
    "harness/c15.py: OBSERVE registry (which attributes are the sampled ranges and their identity values), spy "
    "generator, canonicalisation of floats into exact fractions",
]
ASSUMPTIONS = [
    "factors in [0, 1] (the public scale_strength asserts this)",
    "full batches, one DataLoader iterator, batches dealt to workers round-robin; every worker starts from a copy of "
    "the transform with sample_counter = 0 and worker_init_fn has been called (n_batches known)",
    "compositions are trees of KDComposeTransform (and its subclasses) over scaling leaves, non-scaling KDTransforms "
    "and foreign callables; KDRandomApply / KDTransformChoice / KDScheduledTransform do not forward scale_strength "
    "and count as non-scaling (Opaque)",
    "MagnitudeSampler with magnitude_std = inf (uniform mode): magnitude_std is never read by sampling; its value "
    "(inf, or nan after factor 0) is not part of the claim and is shipped as 0",
    "KDGaussianBlur* have no identity setting: the weakest setting is the constant sigma = sigma_lb",
]
ALLOWED_AXIOMS = []
RULE = ("scale: every scaling class x 2-4 constructor-argument sets as a leaf (with rng.uniform spy), random "
        "KDComposeTransform trees (depth <= 3, opaque / foreign members, BYOL presets), factor sequences of length 2-8 "
        "from {0, 1, 0.5, 0.1, 1e-9, 1-2^-53, random}, repeated and non-monotone, (almost always) containing 0 and 1; "
        "sched: W in 1..5, B in 1..5, n_batches announced via updates / samples / epochs, custom / linear / cosine "
        "schedules, wrapped leaf or compose, optionally nested in a compose, 1..n_batches*B samples dealt round-robin; "
        "non-trivial = at least one scaling leaf and one factor strictly between 0 and 1 (scale) / at least two "
        "workers or two batches (sched); distinct by (tree signature, factor pattern) / (W, B, init kind, wrapped)")

_SCHEMA = None


def pre_build():
    global _SCHEMA
    _SCHEMA = T.regenerate()


def schema():
    if _SCHEMA is None:
        pre_build()
    return _SCHEMA


# ---------------------------------------------------------------------------
# constructor-argument registry (JSON-able; lists of two numbers become tuples)
# ---------------------------------------------------------------------------
def _r(rng, lo, hi, nd=3):
    return round(rng.uniform(lo, hi), nd)


def _rng_pair(rng, lo, hi):
    a, b = sorted([_r(rng, lo, hi), _r(rng, lo, hi)])
    return [a, b]


def _cj_kwargs(rng):
    kw = {}
    for name in ("brightness", "contrast", "saturation"):
        m = rng.choice(["zero", "num", "num", "pair", "big"])
        if m == "num":
            kw[name] = _r(rng, 0.05, 0.95)
        elif m == "big":
            kw[name] = _r(rng, 1.0, 2.5)      # lower bound clipped to 0 by torchvision
        elif m == "pair":
            kw[name] = _rng_pair(rng, 0.0, 2.0)
        else:
            kw[name] = 0
    m = rng.choice(["zero", "num", "num", "pair"])
    if m == "num":
        kw["hue"] = _r(rng, 0.01, 0.5)
    elif m == "pair":
        kw["hue"] = _rng_pair(rng, -0.5, 0.5)
    else:
        kw["hue"] = 0
    return kw


def _sigma(rng):
    return rng.choice([_rng_pair(rng, 0.05, 3.0), [0.1, 2.0], _r(rng, 0.1, 2.0)])


def _mag_kwargs(rng, prefix="magnitude", scale=1.0, allow_inf=True):
    mag = _r(rng, 0, 1) * scale
    mode = rng.choice(["const", "normal", "inf"] if allow_inf else ["const", "normal"])
    std = {"const": 0.0, "normal": _r(rng, 0.05, 0.6) * scale, "inf": "inf"}[mode]
    mn = round(mag * rng.choice([0, 0, 0.5, 1.0]), 4)
    mx = round(mag + (scale - mag) * rng.choice([0, 1, 1, 0.5]), 4) if mag <= scale else mag
    mag = round(mag, 4)
    mn = min(mn, mag)
    mx = max(mx, mag)
    return {prefix: mag, prefix + "_std": std, prefix + "_min": mn, prefix + "_max": mx}


def _p(rng):
    return rng.choice([1.0, 1.0, 0.5, 0.2, _r(rng, 0, 1)])


def _thr(rng):
    return rng.choice([rng.randint(0, 256), 128, 0, 256, _r(rng, 0, 1), 0.5])


REG = {
    "KDColorJitter": lambda rng: _cj_kwargs(rng),
    "KDRandomColorJitter": lambda rng: {**_cj_kwargs(rng), "p": _p(rng)},
    "KDGaussianBlurPIL": lambda rng: {"sigma": _sigma(rng)},
    "KDRandomGaussianBlurPIL": lambda rng: {"sigma": _sigma(rng), "p": _p(rng)},
    "KDGaussianBlurTV": lambda rng: {"kernel_size": rng.choice([3, 5]), "sigma": _sigma(rng)},
    "KDRandomGaussianBlurTV": lambda rng: {"kernel_size": rng.choice([3, 5]), "sigma": _sigma(rng), "p": _p(rng)},
    "KDSolarize": lambda rng: {"threshold": _thr(rng)},
    "KDRandomSolarize": lambda rng: {"threshold": _thr(rng), "p": _p(rng)},
    "KDRandomGrayscale": lambda rng: {"p": rng.choice([0.2, 1.0, 0.0, _r(rng, 0, 1)])},
    "KDRandomRotation": lambda rng: {"degrees": rng.choice([_r(rng, 0, 180), 30, _rng_pair(rng, -90, 90), [10, 40]])},
    "KDAdditiveGaussianNoise": lambda rng: {"std": _r(rng, 0.01, 0.5), **_mag_kwargs(rng)},
    "KDRandomAdditiveGaussianNoise": lambda rng: {"std": _r(rng, 0.01, 0.5), **_mag_kwargs(rng), "p": _p(rng)},
    "KDAdditiveUniformNoise": lambda rng: _mag_kwargs(rng),
    "KDThreshold": lambda rng: _mag_kwargs(rng, "threshold", allow_inf=False),
    "KDRandomThreshold": lambda rng: {**_mag_kwargs(rng, "threshold", allow_inf=False), "p": _p(rng)},
    "KDRandAugment": lambda rng: {"num_ops": 2, "fill_color": [124, 116, 104], "interpolation": "bilinear",
                                  **_mag_kwargs(rng, "magnitude", scale=10.0, allow_inf=False)},
    "KDRandAugmentCustom": lambda rng: {"num_ops": 2, "fill_color": [124, 116, 104], "interpolation": "bicubic",
                                        **_mag_kwargs(rng, "magnitude", scale=10.0, allow_inf=False)},
}
# classes that can be called on a float tensor image in [0, 1] / on a PIL image
FLOAT_OK = ["KDColorJitter", "KDRandomColorJitter", "KDGaussianBlurTV", "KDRandomGaussianBlurTV", "KDSolarize",
            "KDRandomSolarize", "KDRandomGrayscale", "KDRandomRotation", "KDAdditiveGaussianNoise",
            "KDRandomAdditiveGaussianNoise", "KDAdditiveUniformNoise", "KDThreshold", "KDRandomThreshold"]
PIL_OK = ["KDColorJitter", "KDRandomColorJitter", "KDGaussianBlurPIL", "KDRandomGaussianBlurPIL", "KDSolarize",
          "KDRandomSolarize", "KDRandomGrayscale", "KDRandomRotation", "KDRandAugment", "KDRandAugmentCustom"]
PRESETS = ["BYOLTransform0", "BYOLTransform1"]


def leaf_spec(rng, cls, kind=None):
    kw = REG[cls](rng)
    if cls in ("KDSolarize", "KDRandomSolarize") and kind is not None:
        t = kw["threshold"]
        if kind == "f" and isinstance(t, int):
            kw["threshold"] = rng.choice([0.5, _r(rng, 0, 1)])
        if kind == "pil" and isinstance(t, float):
            kw["threshold"] = rng.choice([128, rng.randint(0, 256)])
    return {"c": cls, "kw": kw}


def tree_spec(rng, depth, kind):
    pool = FLOAT_OK if kind == "f" else PIL_OK
    n = rng.choice([1, 2, 2, 3, 4])
    ks = []
    for _ in range(n):
        u = rng.random()
        if depth > 1 and u < 0.25:
            ks.append(tree_spec(rng, depth - 1, kind))
        elif u < 0.37:
            ks.append({"c": "opaque", "p": _r(rng, 0, 1)})
        elif u < 0.47:
            ks.append({"c": "foreign"})
        else:
            ks.append(leaf_spec(rng, rng.choice(pool), kind))
    return {"c": "KDComposeTransform", "k": ks}


SPECIAL_F = [0.0, 1.0, 0.5, 0.1, 0.25, 1e-9, 1.0 - 2.0 ** -53, 0.3, 0.7]


def factor_seq(rng):
    n = rng.choice([2, 3, 4, 5, 6, 8])
    fs = [rng.choice(SPECIAL_F) if rng.random() < 0.45 else rng.random() for _ in range(n)]
    if rng.random() < 0.4 and n >= 3:
        i, j = rng.sample(range(n), 2)
        fs[j] = fs[i]                              # repeated factor with something in between
    if rng.random() < 0.9:
        fs[rng.randrange(n)] = 0.0
        k = rng.randrange(n)
        if fs[k] == 0.0 and fs.count(0.0) == 1:
            fs.append(1.0)
        else:
            fs[k] = 1.0
    return fs


def scale_case(rng, spec, kind, probe):
    return {"kind": "scale", "spec": spec, "input": kind, "factors": factor_seq(rng), "probe": bool(probe),
            "xseed": rng.randrange(10 ** 6)}


def sched_case(rng, big=False, loader=0):
    W = loader or rng.choice([1, 2, 2, 3, 3, 4, 5] + ([7, 8] if big else []))
    B = rng.choice([1, 2, 2, 3, 4, 5] + ([8, 16] if big else []))
    mode = rng.choice(["updates", "updates", "samples", "epochs"])
    nb_target = rng.randint(1, 12 if not big else 30)
    if mode == "updates":
        init = {"updates": nb_target}
        nb = nb_target
    elif mode == "samples":
        s = max(1, nb_target * B - rng.choice([0, 0, 1, B - 1]))
        init = {"samples": s}
        nb = -(-s // B)
    else:
        world = rng.choice([1, 1, 2])
        epochs = rng.choice([1, 2, 3])
        drop = rng.random() < 0.5
        per = max(1, nb_target // epochs)
        dl = (per * B + rng.choice([0, 0, 1, B - 1])) * world + rng.choice([0, world - 1])
        init = {"epochs": epochs, "dataset_len": dl, "world_size": world, "drop_last": drop}
        d = dl // world
        nb = epochs * (d // B if drop else -(-d // B))
    if nb < 1:
        init, nb = {"updates": 3}, 3
    sk = rng.choice(["custom", "custom", "custom", "default", "linear", "cosine", "const"])
    if sk == "custom":
        schedule = [rng.choice([0.0, 1.0, rng.random(), rng.random()]) for _ in range(nb)]
    elif sk == "default":
        schedule = None
    elif sk == "linear":
        schedule = {"kind": "linear_increasing_schedule"}
    elif sk == "cosine":
        schedule = {"kind": "cosine_increasing_schedule"}
    else:
        schedule = rng.choice([0.0, 1.0, _r(rng, 0, 1)])
    kind = "f"
    if rng.random() < 0.6:
        inner = leaf_spec(rng, rng.choice(FLOAT_OK), kind)
    else:
        inner = tree_spec(rng, 2, kind)
    full = nb * B
    n = full if (loader or rng.random() < 0.6) else rng.randint(1, full)
    if loader:
        n = min(n, 40 * B) // B * B or B
    return {"kind": "sched", "W": W, "B": B, "init": init, "schedule": schedule, "inner": inner, "input": kind,
            "wrap": rng.random() < 0.3, "n": n, "loader": bool(loader), "xseed": rng.randrange(10 ** 6)}


def gen_cases(rng, tier):
    S = schema()
    out = []
    if S["errors"]:
        out.append({"kind": "translator", "errors": [list(e) for e in S["errors"]]})
    reps = 3 if tier == "quick" else 12
    for cls in REG:
        for _ in range(reps):
            kind = "f" if cls in FLOAT_OK and (cls not in PIL_OK or rng.random() < 0.6) else "pil"
            out.append(scale_case(rng, leaf_spec(rng, cls, kind), kind, probe=True))
    for name in PRESETS:
        out.append(scale_case(rng, {"c": "preset", "name": name}, "pil", probe=False))
    for _ in range(150 if tier == "quick" else 1200):
        kind = rng.choice(["f", "f", "pil"])
        out.append(scale_case(rng, tree_spec(rng, rng.choice([1, 2, 2, 3]), kind), kind, probe=False))
    for _ in range(120 if tier == "quick" else 700):
        out.append(sched_case(rng, big=(tier != "quick")))
    for _ in range(2 if tier == "quick" else 16):
        out.append(sched_case(rng, loader=rng.choice([2, 2, 3])))
    return out


def search_cases(rng, tier):
    S = schema()
    named = {e[0] for e in S["errors"]}
    first = [c for c in REG if c in named] + [c for c in REG if c not in named]
    seqs = [[1.0], [0.0], [0.5, 1.0], [0.5, 0.5], [0.3, 0.7, 0.3], [0.0, 0.5, 1.0, 0.25, 0.0]]
    for cls in first:
        for _ in range(3):
            kind = "f" if cls in FLOAT_OK else "pil"
            spec = leaf_spec(rng, cls, kind)
            for fs in seqs:
                yield {"kind": "scale", "spec": spec, "input": kind, "factors": list(fs), "probe": True, "xseed": 1}
    for W in (1, 2, 3):
        for B in (1, 2, 3):
            c = sched_case(rng)
            c.update({"W": W, "B": B, "init": {"updates": 6}, "schedule": [0.0, 0.2, 0.4, 0.6, 0.8, 1.0], "n": 6 * B})
            yield c
    for _ in range(3000):
        kind = rng.choice(["f", "pil"])
        yield scale_case(rng, tree_spec(rng, 2, kind), kind, probe=False)
        yield sched_case(rng, big=True)


def shrink(case):
    if case.get("kind") == "scale":
        fs = case["factors"]
        for i in range(len(fs)):
            if len(fs) > 1:
                yield {**case, "factors": fs[:i] + fs[i + 1:]}
        for s in _shrink_spec(case["spec"]):
            yield {**case, "spec": s}
        if case.get("probe"):
            yield {**case, "probe": False}
    elif case.get("kind") == "sched":
        if case["n"] > 1:
            yield {**case, "n": case["n"] // 2}
            yield {**case, "n": case["n"] - 1}
        if case["wrap"]:
            yield {**case, "wrap": False}
        if case["loader"]:
            yield {**case, "loader": False}
        if case["W"] > 1 and not case["loader"]:
            yield {**case, "W": case["W"] - 1}
        for s in _shrink_spec(case["inner"]):
            if s["c"] != "foreign":      # scheduling a plain callable is not a configuration the property speaks about
                yield {**case, "inner": s}


def _shrink_spec(spec):
    if spec["c"] != "KDComposeTransform":
        return
    ks = spec["k"]
    if len(ks) == 1:
        yield ks[0]
    for i in range(len(ks)):
        if len(ks) > 1:
            yield {**spec, "k": ks[:i] + ks[i + 1:]}
    for i, k in enumerate(ks):
        for s in _shrink_spec(k):
            yield {**spec, "k": ks[:i] + [s] + ks[i + 1:]}


# ---------------------------------------------------------------------------
# building real objects
# ---------------------------------------------------------------------------
def _identity_callable(x):
    return x


def _snake(name):
    return re.sub(r"(?<!^)(?=[A-Z])", "_", name.replace("KD", "Kd").replace("PIL", "Pil").replace("TV", "Tv")).lower()


def _cls(name):
    import importlib
    import kappadata.transforms as KT
    if hasattr(KT, name):
        return getattr(KT, name)
    return getattr(importlib.import_module("kappadata.transforms." + _snake(name)), name)


def _kw(kw):
    out = {}
    for k, v in kw.items():
        if v == "inf":
            v = float("inf")
        elif isinstance(v, list) and k != "fill_color":
            v = tuple(v)
        out[k] = v
    return out


def build(spec):
    c = spec["c"]
    if c == "KDComposeTransform":
        from kappadata.transforms.base.kd_compose_transform import KDComposeTransform
        return KDComposeTransform([build(k) for k in spec["k"]])
    if c == "foreign":
        return _identity_callable
    if c == "opaque":
        return _cls("KDRandomHorizontalFlip")(p=spec["p"])
    if c == "preset":
        import kappadata.common.transforms as CT
        return getattr(CT, spec["name"])()
    return _cls(c)(**_kw(spec["kw"]))


def make_input(kind, seed):
    import numpy as np
    import torch
    g = np.random.default_rng(seed)
    if kind == "pil":
        from PIL import Image
        return Image.fromarray(g.integers(0, 256, size=(32, 32, 3), dtype=np.uint8))
    return torch.from_numpy(g.random(size=(3, 12, 12))).float()


# ---------------------------------------------------------------------------
# reading parameters back: (a) through the translator's schema (for Coq)
# ---------------------------------------------------------------------------
def _frac(v):
    if isinstance(v, bool):
        raise TypeError("bool parameter")
    if isinstance(v, int):
        return Fraction(v)
    v = float(v)
    if not math.isfinite(v):
        return None
    return Fraction(v)


def _enc(v, ty):
    if ty == "optQ":
        if v is None:
            return ["N"]
        f = _frac(v)
        return ["S", str(f.numerator), str(f.denominator)]
    if ty == "num":
        if isinstance(v, int) and not isinstance(v, bool):
            return ["I", int(v)]
        f = _frac(v)
        return ["F", str(f.numerator), str(f.denominator)]
    f = _frac(v) if v is not None else None      # absent (group not configured) or non-finite: unobservable, 0
    if f is None:
        return ["Q", "0", "1"]
    return ["Q", str(f.numerator), str(f.denominator)]


def read_state(obj, cname, S):
    out = {}
    for fd in S["classes"][cname]["fields"]:
        if fd["type"] == "child":
            out[fd["name"]] = read_state(getattr(obj, fd["name"]), fd["child"], S)
        else:
            out[fd["name"]] = _enc(getattr(obj, fd["name"], None), fd["type"])
    return out


def live_tree(t, S):
    from kappadata.transforms.base.kd_transform import KDTransform
    if not isinstance(t, KDTransform):
        return {"n": "Foreign"}
    definer = next(k for k in type(t).__mro__ if "_scale_strength" in k.__dict__)
    if definer is KDTransform:
        return {"n": "Opaque"}
    if definer.__name__ in S["compose"]:
        return {"n": "Compose", "k": [live_tree(c, S) for c in getattr(t, S["compose_field"])]}
    if definer.__name__ in S["leaf"]:
        return {"n": "Leaf", "c": definer.__name__, "s": read_state(t, definer.__name__, S)}
    raise KeyError(f"{type(t).__name__}: scaling class {definer.__name__} was not translated")


def try_live_tree(t):
    S = schema()
    if S["errors"]:
        return None
    try:
        return live_tree(t, S)
    except Exception as e:  # noqa
        return {"n": "Error", "why": f"{type(e).__name__}: {e}"}


# ---------------------------------------------------------------------------
# reading parameters back: (b) the oracle's own registry (independent of the translator)
#   entries: [path, value, identity value or None]; "const" entries must never change
# ---------------------------------------------------------------------------
def _mag_bounds(ms, path):
    out = []
    for a in ("magnitude", "magnitude_min", "magnitude_max", "magnitude_std"):
        if a == "magnitude_std" and not math.isfinite(float(ms.og_magnitude_std)):
            continue
        out.append([path + a, float(getattr(ms, a)), 0.0])
    return out


def observe(t, path=""):
    """-> {"bounds": [[name, value, identity]], "const": [[name, repr]], "uniform": expected rng.uniform ranges or None}"""
    from kappadata.transforms.base.kd_transform import KDTransform
    from kappadata.transforms.base.kd_compose_transform import KDComposeTransform
    n = type(t).__name__
    b, c = [], []
    if not isinstance(t, KDTransform):
        return {"bounds": b, "const": c}
    if isinstance(t, KDComposeTransform):
        for i, m in enumerate(t.transforms):
            o = observe(m, f"{path}{i}.")
            b += o["bounds"]
            c += o["const"]
        return {"bounds": b, "const": c}
    wrappers = {"KDRandomColorJitter": "color_jitter", "KDRandomGaussianBlurPIL": "gaussian_blur",
                "KDRandomGaussianBlurTV": "gaussian_blur", "KDRandomSolarize": "solarize",
                "KDRandomAdditiveGaussianNoise": "noise", "KDRandomThreshold": "threshold"}
    if n in wrappers:
        o = observe(getattr(t, wrappers[n]), path + wrappers[n] + ".")
        return {"bounds": o["bounds"], "const": o["const"] + [[path + "p", repr(t.p)]]}
    if n == "KDColorJitter":
        for a, ident in (("brightness", 1.0), ("contrast", 1.0), ("saturation", 1.0), ("hue", 0.0)):
            if getattr(t, a + "_lb") is not None:
                b.append([path + a + "_lb", float(getattr(t, a + "_lb")), ident])
                b.append([path + a + "_ub", float(getattr(t, a + "_ub")), ident])
            else:
                c.append([path + a + "_lb", "None"])
    elif n in ("KDGaussianBlurPIL", "KDGaussianBlurTV"):
        b.append([path + "sigma_ub", float(t.sigma_ub), float(t.sigma_lb)])
        c.append([path + "sigma_lb", repr(float(t.sigma_lb))])
    elif n == "KDSolarize":
        th = t.threshold
        c.append([path + "threshold.type", type(th).__name__])
        b.append([path + "threshold", th if isinstance(th, int) else float(th), 256 if isinstance(th, int) else 1.0])
    elif n == "KDRandomGrayscale":
        b.append([path + "p", float(t.p), 0.0])
    elif n == "KDRandomRotation":
        b.append([path + "degree_lb", float(t.degree_lb), 0.0])
        b.append([path + "degree_ub", float(t.degree_ub), 0.0])
    elif n in ("KDAdditiveGaussianNoise", "KDAdditiveUniformNoise", "KDThreshold", "KDRandAugment",
               "KDRandAugmentCustom"):
        b += _mag_bounds(t.magnitude_sampler, path + "magnitude_sampler.")
    elif type(t).supports_scale_strength():
        raise KeyError(f"{n} supports strength scaling but the oracle registry does not know its parameters")
    else:
        for k, v in sorted(vars(t).items()):
            if isinstance(v, (int, float, str, tuple, bool)) or v is None:
                c.append([path + n + "." + k, repr(v)])
    return {"bounds": b, "const": c}


class UniformSpy:
    """np.random.Generator stand-in that records the (low, high) arguments of uniform()"""

    def __init__(self, seed):
        import numpy as np
        self._g = np.random.default_rng(seed)
        self.calls = []

    def uniform(self, low=0.0, high=1.0, size=None):
        self.calls.append([float(low), float(high)])
        return self._g.uniform(low, high, size)

    def __getattr__(self, name):
        return getattr(self._g, name)


def expected_uniform(t):
    """the ranges one __call__ must draw from, in order (None = not checked for this class)"""
    n = type(t).__name__
    wrappers = {"KDRandomColorJitter": "color_jitter", "KDRandomGaussianBlurPIL": "gaussian_blur",
                "KDRandomGaussianBlurTV": "gaussian_blur", "KDRandomAdditiveGaussianNoise": "noise"}
    if n in wrappers:
        if t.p != 1.0:
            return None
        return expected_uniform(getattr(t, wrappers[n]))
    if n == "KDColorJitter":
        return [[float(getattr(t, a + "_lb")), float(getattr(t, a + "_ub"))]
                for a in ("brightness", "contrast", "saturation", "hue") if getattr(t, a + "_lb") is not None]
    if n in ("KDGaussianBlurPIL", "KDGaussianBlurTV"):
        return [[float(t.sigma_lb), float(t.sigma_ub)]]
    if n == "KDRandomRotation":
        return [[float(t.degree_lb), float(t.degree_ub)]]
    if n in ("KDAdditiveGaussianNoise", "KDAdditiveUniformNoise"):
        ms = t.magnitude_sampler
        if float(ms.og_magnitude_std) == float("inf"):
            return [[float(ms.magnitude_min), float(ms.magnitude)]]
        return []
    return None


# ---------------------------------------------------------------------------
# running the real code
# ---------------------------------------------------------------------------
def run_impl(case):
    """never raises: anything unexpected (e.g. a scaling class the oracle registry does not know) becomes an
    observation the oracle reports (fail closed)"""
    import traceback
    kind = case.get("kind")
    if kind == "translator":
        return {"skipped": "translator"}
    try:
        if kind == "scale":
            return run_scale(case)
        return run_sched(case)
    except Exception as e:  # noqa
        return {"harness_exception": f"{type(e).__name__}: {e}", "tb": traceback.format_exc()[-1200:]}


def run_scale(case):
    import numpy as np
    import torch
    np.random.seed(case["xseed"] % (2 ** 31))
    torch.manual_seed(case["xseed"])
    try:
        t = build(case["spec"])
    except Exception as e:  # noqa
        return {"construct_error": f"{type(e).__name__}: {e}"}
    obs = {"init": observe(t), "tree0": try_live_tree(t), "steps": []}
    if hasattr(t, "ctx_prefix") and case["spec"]["c"] in REG:
        obs["expected_init"] = expected_init(case["spec"])
    x = make_input(case["input"], case["xseed"])
    for i, f in enumerate(case["factors"]):
        st = {"f": f}
        try:
            t.scale_strength(f)
        except Exception as e:  # noqa
            st["error"] = f"{type(e).__name__}: {e}"
            obs["steps"].append(st)
            break
        st["obs"] = observe(t)
        st["tree"] = try_live_tree(t)
        if case.get("probe"):
            want = expected_uniform(t)
            spy = UniformSpy(case["xseed"] + i)
            t.set_rng(spy)
            try:
                xx = x.clone() if hasattr(x, "clone") else x.copy()
                t(xx, ctx={})
                st["uniform"] = [spy.calls, want]
            except Exception as e:  # noqa
                st["call_error"] = f"{type(e).__name__}: {e}"
        obs["steps"].append(st)
    return obs


def expected_init(spec):
    """constructed ranges implied by the constructor arguments (independent of the og_* bookkeeping)"""
    c, kw = spec["c"], spec["kw"]
    out = {}
    if c in ("KDColorJitter", "KDRandomColorJitter"):
        pre = "color_jitter." if c == "KDRandomColorJitter" else ""
        for a in ("brightness", "contrast", "saturation"):
            v = kw.get(a, 0)
            lo, hi = (max(0.0, 1 - v), 1 + v) if not isinstance(v, list) else (v[0], v[1])
            if not (lo == hi == 1):
                out[pre + a + "_lb"], out[pre + a + "_ub"] = float(lo), float(hi)
        v = kw.get("hue", 0)
        lo, hi = (-v, v) if not isinstance(v, list) else (v[0], v[1])
        if not (lo == hi == 0):
            out[pre + "hue_lb"], out[pre + "hue_ub"] = float(lo), float(hi)
    elif c in ("KDGaussianBlurPIL", "KDGaussianBlurTV", "KDRandomGaussianBlurPIL", "KDRandomGaussianBlurTV"):
        pre = "gaussian_blur." if "Random" in c else ""
        s = kw["sigma"]
        out[pre + "sigma_ub"] = float(s[1] if isinstance(s, list) else s)
    elif c in ("KDSolarize", "KDRandomSolarize"):
        out[("solarize." if "Random" in c else "") + "threshold"] = kw["threshold"]
    elif c == "KDRandomGrayscale":
        out["p"] = float(kw["p"])
    elif c == "KDRandomRotation":
        d = kw["degrees"]
        lo, hi = (d[0], d[1]) if isinstance(d, list) else (-d, d)
        out["degree_lb"], out["degree_ub"] = float(lo), float(hi)
    else:
        pre = {"KDRandomAdditiveGaussianNoise": "noise.magnitude_sampler.",
               "KDRandomThreshold": "threshold.magnitude_sampler."}.get(c, "magnitude_sampler.")
        key = "threshold" if "Threshold" in c else "magnitude"
        div = 10 if "RandAugment" in c else 1
        out[pre + "magnitude"] = kw[key] / div
        out[pre + "magnitude_min"] = kw[key + "_min"] / div
        out[pre + "magnitude_max"] = kw[key + "_max"] / div
        if kw[key + "_std"] != "inf":
            out[pre + "magnitude_std"] = kw[key + "_std"] / div
    return out


class _WorkerInfo:
    def __init__(self, num_workers):
        self.num_workers = num_workers
        self.seed = 1293
        self.id = 0


def _schedule_obj(cfg):
    from kappaschedules import object_to_schedule
    return object_to_schedule(copy.deepcopy(cfg))


def _find_sched(t):
    from kappadata.transforms.base.kd_scheduled_transform import KDScheduledTransform
    if isinstance(t, KDScheduledTransform):
        return t
    return next(m for m in t.transforms if isinstance(m, KDScheduledTransform))


class _LoaderDataset:
    def __init__(self, outer, n, kind, xseed):
        self.outer, self.n, self.kind, self.xseed = outer, n, kind, xseed

    def __len__(self):
        return self.n

    def __getitem__(self, i):
        from torch.utils.data import get_worker_info
        ctx = {}
        self.outer(make_input(self.kind, self.xseed + i), ctx=ctx)
        s = _find_sched(self.outer)
        return [i, get_worker_info().id, ctx.get(s.ctx_key), observe(s.transform), try_live_tree(s.transform)]


def _as_list(batch):
    return batch


def run_sched(case):
    import numpy as np
    import torch
    from unittest.mock import patch
    from kappadata.transforms.base.kd_compose_transform import KDComposeTransform
    from kappadata.transforms.base.kd_scheduled_transform import KDScheduledTransform
    np.random.seed(case["xseed"] % (2 ** 31))
    torch.manual_seed(case["xseed"])
    W, B, n = case["W"], case["B"], case["n"]
    try:
        inner = build(case["inner"])
        ref = copy.deepcopy(inner)
        sched = KDScheduledTransform(inner, schedule=_schedule_obj(case["schedule"]))
        outer = KDComposeTransform([sched]) if case["wrap"] else sched
    except Exception as e:  # noqa
        return {"construct_error": f"{type(e).__name__}: {e}"}
    obs = {"inner0": try_live_tree(inner), "init_obs": observe(inner), "samples": []}
    rows = []
    if case["loader"]:
        from functools import partial
        from torch.utils.data import DataLoader
        ds = _LoaderDataset(outer, n, case["input"], case["xseed"])
        wi = partial(outer.worker_init_fn, batch_size=B, **case["init"])
        it = None
        try:
            loader = DataLoader(ds, batch_size=B, num_workers=W, worker_init_fn=wi, collate_fn=_as_list, shuffle=False)
            it = iter(loader)
            for batch in it:
                rows += batch
        except Exception as e:  # noqa
            return {**obs, "loader_error": f"{type(e).__name__}: {str(e)[-600:]}"}
        finally:
            if it is not None:      # no stale iterator (with live worker handles) may survive into later forks
                try:
                    it._shutdown_workers()
                except Exception:  # noqa
                    pass
            it = loader = None
        # n_batches as computed by a worker: ask a local copy initialised the same way
        probe = copy.deepcopy(outer)
        with patch("kappadata.transforms.base.kd_transform.get_worker_info", new=lambda: _WorkerInfo(W)):
            probe.worker_init_fn(0, batch_size=B, **case["init"])
        obs["n_batches"] = _find_sched(probe).n_batches
    else:
        workers = [copy.deepcopy(outer) for _ in range(W)]
        try:
            with patch("kappadata.transforms.base.kd_transform.get_worker_info", new=lambda: _WorkerInfo(W)):
                for r, w in enumerate(workers):
                    w.worker_init_fn(r, batch_size=B, **case["init"])
        except Exception as e:  # noqa
            return {**obs, "init_error": f"{type(e).__name__}: {e}"}
        obs["n_batches"] = _find_sched(workers[0]).n_batches
        obs["worker_fields"] = [[_find_sched(w).rank, _find_sched(w).num_workers, _find_sched(w).batch_size,
                                 _find_sched(w).n_batches] for w in workers]
        for i in range(n):
            r = (i // B) % W
            w = workers[r]
            s = _find_sched(w)
            ctx = {}
            try:
                w(make_input(case["input"], case["xseed"] + i), ctx=ctx)
            except Exception as e:  # noqa
                obs["call_error"] = f"sample {i} worker {r}: {type(e).__name__}: {e}"
                break
            rows.append([i, r, ctx.get(s.ctx_key), observe(s.transform), try_live_tree(s.transform)])
    nb = obs["n_batches"]
    try:
        indep = _schedule_obj(case["schedule"])
        if indep is None:
            from kappaschedules import LinearIncreasingSchedule
            indep = LinearIncreasingSchedule()
        obs["values"] = [float(indep.get_value(b, nb)) for b in range(nb)]
    except Exception as e:  # noqa
        obs["values_error"] = f"{type(e).__name__}: {e}"
        obs["values"] = []
    # reference: a fresh copy of the wrapped transform scaled directly by the schedule's value at the global batch
    refs = {}
    for i, r, strength, ob, tree in rows:
        b = i // B
        if b not in refs and b < len(obs["values"]):
            c = copy.deepcopy(ref)
            try:
                c.scale_strength(obs["values"][b])
                refs[b] = observe(c)["bounds"]
            except Exception as e:  # noqa
                refs[b] = f"{type(e).__name__}: {e}"
        obs["samples"].append({"i": i, "rank": r, "strength": strength, "bounds": ob["bounds"], "tree": tree,
                               "ref": refs.get(b)})
    return obs


# ---------------------------------------------------------------------------
# independent Python statement of the property
# ---------------------------------------------------------------------------
def _close(a, b):
    if isinstance(a, int) and isinstance(b, int):
        return a == b
    return abs(a - b) <= 1e-12 * (1 + abs(a) + abs(b))


def _le(a, b):
    return a <= b + 1e-12 * (1 + abs(a) + abs(b))


def oracle(case, obs):
    if "harness_exception" in obs:
        return "harness exception: " + obs["harness_exception"] + obs.get("tb", "")
    kind = case.get("kind")
    if kind == "translator":
        return None      # reported through the broken build; the search looks for the concrete failing input
    if "construct_error" in obs:
        return f"construction failed: {obs['construct_error']}"
    if kind == "scale":
        return oracle_scale(case, obs)
    return oracle_sched(case, obs)


def oracle_scale(case, obs):
    sig = spec_sig(case["spec"])
    init = obs["init"]
    names = [b[0] for b in init["bounds"]]
    exp = obs.get("expected_init")
    if exp is not None:
        got = {b[0]: b[1] for b in init["bounds"]}
        for k, v in exp.items():
            if k not in got or not _close(got[k], v):
                return f"{sig}: constructed parameter {k} is {got.get(k)!r}, the constructor arguments say {v!r}"
        extra = [k for k in got if k not in exp and not k.endswith("sigma_lb")]
        if extra:
            return f"{sig}: parameters {extra} exist although the constructor arguments configure no such range"
    steps = obs["steps"]
    for k, st in enumerate(steps):
        hist = case["factors"][:k + 1]
        if "error" in st:
            return f"{sig}: scale_strength({st['f']!r}) raised {st['error']} (factors so far {hist})"
        if "call_error" in st:
            return f"{sig}: calling the transform after scale_strength({st['f']!r}) raised {st['call_error']}"
        ob = st["obs"]
        if [b[0] for b in ob["bounds"]] != names:
            return f"{sig}: the set of parameters changed after scale_strength({st['f']!r}): {[b[0] for b in ob['bounds']]} vs {names}"
        if ob["const"] != init["const"]:
            diff = [(a, b) for a, b in zip(init["const"], ob["const"]) if a != b][:3]
            return f"{sig}: scale_strength({st['f']!r}) changed something that is not a strength parameter: {diff}"
        f = st["f"]
        for (name, v, ident), (_, v0, _) in zip(ob["bounds"], init["bounds"]):
            if f == 1.0 and not _close(v, v0):
                return (f"{sig}: after factors {hist} (last = 1) {name} = {v!r}, constructed with {v0!r}: "
                        "factor 1 does not restore the constructed range")
            if f == 0.0 and not _close(v, ident):
                return (f"{sig}: after factors {hist} (last = 0) {name} = {v!r}, weakest setting is {ident!r}")
        vals = {b[0]: b[1] for b in ob["bounds"]}
        consts = {c[0]: c[1] for c in ob["const"]}
        for name, v in vals.items():
            lo = hi = None
            if name.endswith("_lb") and name[:-3] + "_ub" in vals:
                lo, hi = v, vals[name[:-3] + "_ub"]
            elif name.endswith("sigma_ub") and name[:-2] + "lb" in consts:
                lo, hi = float(consts[name[:-2] + "lb"]), v
            elif name.endswith("magnitude_sampler.magnitude"):
                lo, hi = vals[name + "_min"], v
                if not _le(v, vals[name + "_max"]):
                    return f"{sig}: after scale_strength({f!r}) {name} = {v!r} exceeds {name}_max = {vals[name + '_max']!r}"
            if lo is not None and not _le(lo, hi):
                return (f"{sig}: after scale_strength({f!r}) the range of {name} is inverted: [{lo!r}, {hi!r}] "
                        "(sampling from it raises)")
        if "uniform" in st and st["uniform"][1] is not None:
            calls, want = st["uniform"]
            if calls != want:
                return (f"{sig}: after scale_strength({f!r}) one call drew rng.uniform from {calls}, the scaled "
                        f"parameters say {want}")
    for i, a in enumerate(steps):
        for j, b in enumerate(steps):
            if i < j and a["f"] == b["f"]:
                for (name, va, _), (_, vb, _) in zip(a["obs"]["bounds"], b["obs"]["bounds"]):
                    if not _close(va, vb):
                        return (f"{sig}: factor {a['f']!r} gave {name} = {va!r} at step {i} and {vb!r} at step {j} "
                                f"(factors {case['factors']}): the result depends on earlier factors")
            if a["f"] <= b["f"]:
                for (name, va, ident), (_, vb, _) in zip(a["obs"]["bounds"], b["obs"]["bounds"]):
                    ok = (_le(ident, va) and _le(va, vb)) or (_le(vb, va) and _le(va, ident))
                    if not ok:
                        return (f"{sig}: {name} is {va!r} at factor {a['f']!r} and {vb!r} at factor {b['f']!r} "
                                f"(weakest {ident!r}): not monotone between the weakest setting and the larger factor")
    return None


def oracle_sched(case, obs):
    W, B = case["W"], case["B"]
    sig = f"KDScheduledTransform[{spec_sig(case['inner'])}] W={W} B={B} init={case['init']}"
    for k in ("init_error", "loader_error", "call_error", "values_error"):
        if k in obs:
            return f"{sig}: {k}: {obs[k]}"
    exp_nb = expected_n_batches(case["init"], B)
    if obs["n_batches"] != exp_nb:
        return f"{sig}: n_batches = {obs['n_batches']}, the announced training length means {exp_nb} batches"
    vals = obs["values"]
    if len(obs["samples"]) != case["n"]:
        return f"{sig}: {len(obs['samples'])} samples observed, {case['n']} expected"
    for s in obs["samples"]:
        b = s["i"] // B
        if s["strength"] is None:
            return f"{sig}: sample {s['i']} (global batch {b}, worker {s['rank']}): no strength reported in ctx"
        if s["strength"] != vals[b]:
            return (f"{sig}: sample {s['i']} of global batch {b} (worker {s['rank']}) reports strength "
                    f"{s['strength']!r}, the schedule's value at batch {b} of {obs['n_batches']} is {vals[b]!r}")
        if isinstance(s["ref"], str):
            return f"{sig}: scaling a copy of the wrapped transform by {vals[b]!r} raised {s['ref']}"
        if s["ref"] is not None:
            for (name, v, _), (_, vr, _) in zip(s["bounds"], s["ref"]):
                if not _close(v, vr):
                    return (f"{sig}: sample {s['i']} of global batch {b}: wrapped {name} = {v!r}, scaling the "
                            f"constructed transform by the schedule value {vals[b]!r} gives {vr!r}")
    return None


def expected_n_batches(init, B):
    if "updates" in init:
        return init["updates"]
    if "samples" in init:
        return -(-init["samples"] // B)
    d = init["dataset_len"] // init["world_size"]
    per = d // B if init["drop_last"] else -(-d // B)
    return init["epochs"] * per


# ---------------------------------------------------------------------------
# Coq side
# ---------------------------------------------------------------------------
def _q(n, d):
    n, d = int(n), int(d)
    return f"({n} # {d})" if n >= 0 else f"(({n}) # {d})"


def _qf(x):
    f = Fraction(x)
    return _q(f.numerator, f.denominator)


def _val(v):
    if v[0] == "Q":
        return _q(v[1], v[2])
    if v[0] == "N":
        return "None"
    if v[0] == "S":
        return f"(Some {_q(v[1], v[2])})"
    if v[0] == "I":
        return f"(NI ({v[1]})%Z)"
    if v[0] == "F":
        return f"(NF {_q(v[1], v[2])})"
    raise ValueError(v)


def _state(cname, st, S):
    parts = []
    for fd in S["classes"][cname]["fields"]:
        v = st[fd["name"]]
        parts.append(_state(fd["child"], v, S) if fd["type"] == "child" else _val(v))
    return f"({cname}_mk " + " ".join(parts) + ")"


def coq_tree(t, S):
    if t["n"] == "Leaf":
        return f"(Leaf (L_{t['c']} {_state(t['c'], t['s'], S)}))"
    if t["n"] == "Compose":
        return "(Compose [" + "; ".join(coq_tree(k, S) for k in t["k"]) + "])"
    return t["n"]


def _tree_ok(t):
    if t is None or t.get("n") == "Error":
        return False
    return all(_tree_ok(k) for k in t.get("k", []))


def _solarize_ints(t, out):
    if t["n"] == "Leaf":
        def walk(st):
            for k, v in st.items():
                if isinstance(v, dict):
                    walk(v)
                elif k == "og_threshold" and v[0] == "I":
                    out.append(v[1])
        walk(t["s"])
    for k in t.get("k", []):
        _solarize_ints(k, out)


def _trunc_safe(tree0, factors):
    """False when int(256 - (256 - og) * f) is decided by binary64 rounding (exact value within 1e-9 of an integer it
    does not hit): such a case is compared by the Python oracle only"""
    ogs = []
    _solarize_ints(tree0, ogs)
    for og in ogs:
        for f in factors:
            v = 256 - (256 - og) * Fraction(f)
            d = abs(v - round(v))
            if 0 < d < Fraction(1, 10 ** 9):
                return False
    return True


def coq_applicable(case, obs):
    if case.get("kind") == "scale":
        if not _tree_ok(obs.get("tree0")) or not obs.get("steps"):
            return False
        if any("tree" not in st or not _tree_ok(st["tree"]) for st in obs["steps"]):
            return False
        return _trunc_safe(obs["tree0"], case["factors"])
    if case.get("kind") == "sched":
        if not _tree_ok(obs.get("inner0")) or not obs.get("samples") or "values" not in obs:
            return False
        if any(k in obs for k in ("init_error", "loader_error", "call_error", "values_error")):
            return False
        if any(s["strength"] is None or not _tree_ok(s["tree"]) for s in obs["samples"]):
            return False
        return _trunc_safe(obs["inner0"], obs["values"])
    return False


def coq_case(case, obs):
    S = schema()
    if case["kind"] == "scale":
        steps = "[" + "; ".join(f"({_qf(st['f'])}, {coq_tree(st['tree'], S)})" for st in obs["steps"]) + "]"
        return f"(CScale {coq_tree(obs['tree0'], S)} {steps})"
    init = case["init"]
    if "updates" in init:
        i = f"(IUpdates {init['updates']}%Z)"
    elif "samples" in init:
        i = f"(ISamples {init['samples']}%Z)"
    else:
        i = (f"(IEpochs {init['epochs']}%Z {init['dataset_len']}%Z {init['world_size']}%Z "
             f"{'true' if init['drop_last'] else 'false'})")
    vals = "[" + "; ".join(_qf(v) for v in obs["values"]) + "]"
    # long runs: Coq replays the first COQ_SAMPLES global samples (the Python oracle checks all of them)
    ob = "[" + "; ".join(f"({s['rank']}%nat, {_qf(s['strength'])}, {coq_tree(s['tree'], S)})"
                         for s in obs["samples"][:COQ_SAMPLES]) + "]"
    return (f"(CSched {case['W']}%nat {case['B']}%Z {i} {obs['n_batches']}%Z {coq_tree(obs['inner0'], S)} "
            f"{vals} {ob})")


# ---------------------------------------------------------------------------
# evidence
# ---------------------------------------------------------------------------
def spec_sig(spec):
    if spec["c"] == "KDComposeTransform":
        return "[" + ",".join(spec_sig(k) for k in spec["k"]) + "]"
    if spec["c"] == "preset":
        return spec["name"]
    return spec["c"]


def _leaves(spec):
    if spec["c"] == "KDComposeTransform":
        return [x for k in spec["k"] for x in _leaves(k)]
    return [spec["c"]]


def features(case, obs):
    kind = case.get("kind")
    yield "kind=" + str(kind)
    if kind == "scale":
        for c in sorted(set(_leaves(case["spec"]))):
            yield "class=" + c
        yield "factors=%d" % len(case["factors"])
        fs = case["factors"]
        yield "has0=%s" % (0.0 in fs)
        yield "has1=%s" % (1.0 in fs)
        yield "repeat=%s" % (len(set(fs)) < len(fs))
        yield "nonmonotone=%s" % (fs != sorted(fs))
        yield "root=" + case["spec"]["c"]
        if any("uniform" in st for st in obs.get("steps", [])):
            yield "uniform_spied"
        if _tree_ok(obs.get("tree0")) and not _trunc_safe(obs["tree0"], fs):
            yield "trunc_decided_by_rounding"
    elif kind == "sched":
        yield "W=%d" % case["W"]
        yield "B=%d" % case["B"]
        yield "init=" + sorted(case["init"])[0]
        yield "loader=%s" % case["loader"]
        yield "wrap=%s" % case["wrap"]
        yield "schedule=" + (type(case["schedule"]).__name__ if not isinstance(case["schedule"], dict)
                             else case["schedule"]["kind"])
        yield "partial_run=%s" % (case["n"] < obs.get("n_batches", 0) * case["B"])


def nontrivial_key(case, obs):
    kind = case.get("kind")
    if kind == "scale":
        lv = [c for c in _leaves(case["spec"]) if c not in ("opaque", "foreign")]
        if not lv or not any(0.0 < f < 1.0 for f in case["factors"]) or not obs.get("steps"):
            return None
        if any("error" in st for st in obs["steps"]):
            return None
        pat = tuple("0" if f == 0 else "1" if f == 1 else "m" for f in case["factors"])
        return ("scale", spec_sig(case["spec"]), pat, tuple(round(f, 6) for f in case["factors"]))
    if kind == "sched":
        if not obs.get("samples") or (case["W"] < 2 and len(obs["samples"]) <= case["B"]):
            return None
        return ("sched", case["W"], case["B"], sorted(case["init"])[0], spec_sig(case["inner"]), case["wrap"],
                case["loader"], case["n"])
    return None
