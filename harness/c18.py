"""C18 — collator pipeline keeps the batch layout and context contract; padding collator.

Real objects: KDComposeCollator / KDSingleCollator.__call__ / KDSingleCollatorWrapper over tiny member
collators of every default_collate_mode (identity, marking, ctx-writing) and the real PadSequencesCollator,
fed with real ModeWrapper samples (with / without return_ctx).  `default_collate` as imported by
kd_collator_base is wrapped to observe the operation trace."""
import random as random_mod

from .common import C, Nat, Opt, Raw, coq

ID = "C18"
COQ_FILES = ["C18/Model.v", "C18/Spec.v", "C18/Check.v", "C18/Proofs.v", "C18/Property.v"]
COQ_PRELUDE = ("From Coq Require Import ZArith List Bool.\nImport ListNotations.\n"
               "From KD Require Import C18.Model C18.Spec C18.Check.\nOpen Scope Z_scope.\n")
COQ_CHECK = "xcheck"
COQ_CASE_TYPE = "xcase_t"
SHARD = 250
TRUSTED = [
    "hand-written model coq/C18/Model.v of KDCollatorBase._call_impl, the three entry points and "
    "PadSequencesCollator.collate (repaired code); tied to KD_REPO by this run's correspondence evaluation",
    "cited behaviour of torch default_collate (column-wise; scalars -> vector of their dtype, Python int -> int64, Python "
    "float -> float64, equally shaped tensors -> stacked, ragged -> RuntimeError; dicts: keys of the first element) and "
    "pad_sequence(batch_first=True) (tensors (L_i, *trailing) -> (B, max L_i, *trailing), zero steps appended, dtype and "
    "trailing shape kept) -- exercised against the real torch on every case, element by element incl. dtype, trailing shape "
    "and the sign of the zeros",
    "harness/c18.py: member collators, default_collate spy, canonicalisation of tensors into (dtype, trailing shape, exact "
    "integer lists); float fields only hold integral values so that they are exact",
    "the harness' own members (identity / marking / ctx-writing) ARE the Coq functions Check.member_of; theorem "
    "harness_members_meet_their_contracts proves the contracts (keeps_layout / keeps_ctx / extends_ctx / writes only "
    "announced keys) for them.  REAL collators as members (KDMixCollator, KDDinoMaskCollator, KDIjepaMaskCollator, "
    "MAEFinetuneMixCollator) are seen through that contract only (Check.KAddKeys): the image / one-hot label they rewrite and "
    "the values they put into the context are opaque placeholders in the model (their content is C10 / C17's subject); "
    "place, shape, dtype, finiteness of those items, every other item exactly, the exact key set of the context and the "
    "operation trace are checked",
    "family 'shared' (construction histories on shared member objects): the member collators are built once, 2-3 entry "
    "points (KDComposeCollator / KDSingleCollatorWrapper / the member itself called standalone with its own constructor "
    "configuration) with different dataset_mode / return_ctx are built around them and called in random order, some several "
    "times, on batches of their own mode; every call is rendered as an ordinary case of the entry point's OWN configuration "
    "and judged by Check.check against the model of a FRESH configuration (theorem "
    "entry_point_independent_of_other_entry_points: that is what the object-level model Model.run_hist computes; that the "
    "real constructors / calls do not write into the member objects is checked here, not proved): Check.xcheck also "
    "compares the members' (dataset_mode, return_ctx) after every step with the initial ones (code 8) and the dataset_mode "
    "every member was handed with the entry point's own (code 9); the Python oracle additionally compares every plain "
    "attribute of every member and of every entry point built so far; MUTATION steps (half of the shared cases + 70 "
    "directed ones): a member's default_collate_mode attribute is switched after construction (the harness's own members: "
    "property backed by an attribute), members are inserted into / removed from / swapped in the list object a compose "
    "holds -- every later call is judged against a FRESH entry point of the members and member modes it has NOW "
    "(harness state_at replays the mutations; in Coq a mutation step is an OBuild step: dataset_mode / return_ctx untouched)",
    "DataLoader runs (family 'loader': the pipeline as collate_fn of a real torch DataLoader over the ModeWrapper, 0 / 2 forked "
    "workers, batch sizes 1-4, drop_last) are judged by the Python oracle only (no operation trace from worker processes)",
]
ASSUMPTIONS = [
    "ModeWrapper.return_ctx equals the collator's return_ctx (the code asserts this)",
    "items are Python ints / floats, 0-d tensors or tensors of shape (L, *trailing) with rank 1..3 (trailing dims 1..4) and "
    "dtype int64 / int32 / float32 / float64 holding integral values; all samples of a batch agree in the dtype and "
    "trailing shape of a field (what one dataset produces); string items are not generated",
    "all samples of a batch have the same ctx keys; with different key sets the real code is only compared with the model "
    "(keys of the first sample; KeyError if a later sample lacks one) -- that the property's 'without losing keys' fails "
    "there is the recorded finding fixes/C18_ragged_ctx_keys.txt (reproduce: C18_PROBE_RAGGED_CTX_KEYS=1 ./check C18)",
    "a None-mode member that collates by itself (PadSequencesCollator) followed by a member that asks for default "
    "collation is an ambiguity of the contract: counted in the evidence (feature 'ambiguous'), not claimed",
    "a member list whose order the call rejects by its assertions (None/After after collation) counts as rejected input",
]
ALLOWED_AXIOMS = []
RULE = ("random modes of 1-4 items (Python int / float, 0-d tensor, sequence tensor of rank 1-3 with trailing dims 1-4 and dtype "
        "int64/int32/float32/float64, fixed-length next to ragged fields, empty sequences, index), batch sizes 1-5 with repeated "
        "indices, contexts with 0-3 keys (6% with ragged key sets), 1-4 members over {None,before,after} x "
        "{identity,mark,ctx-write,pad} (70% well-ordered), entries compose/single/wrapper/direct-pad; directed: every mode list up to "
        "length 3, the padding collator over every rank/dtype/length profile through every entry; family 'real': the package's "
        "own collators (mix, dino mask, ijepa mask, MAE-finetune mix) as members over image/one-hot/index/scalar items; family "
        "'loader': real DataLoader runs (quick 6, thorough 160); family 'shared': 1-3 member objects, 2-3 entry points "
        "(compose / wrapper / standalone member) around one shared member with different dataset_mode (sub-permutations of the "
        "items) and / or return_ctx, members with / without a standalone configuration of their own, builds and calls "
        "interleaved (40%) or all built first, 1-3 calls per entry point on batches of 1-4 samples in random order "
        "(quick 300 + directed, thorough 3000), half of them with 1-3 mutation steps after construction (member mode "
        "switched / compose member list edited in place: insert, remove, swap) each followed by a call; non-trivial = at least one member call observed; distinct by "
        "(entry, rc, member modes+kinds, item kinds incl. dtype/rank/length profile, profile)")

MODES = {"none": "MNone", "before": "MBefore", "after": "MAfter"}

# a defect recorded instead of repaired (see fixes/C18_ragged_ctx_keys.txt): proposed entry for known_findings.json
KNOWN_FINDINGS_PROPOSED = [
    {"property": "C18", "match": {"probe": "ragged_ctx_keys"},
     "what": "per-sample contexts with different key sets (reachable through KDRandomApply / KDTransformChoice, whose "
             "skipped / other branch writes no key): the batched context follows the FIRST sample -- keys only later "
             "samples have are silently lost, a key a later sample lacks raises KeyError inside default_collate "
             "(see fixes/C18_ragged_ctx_keys.txt)"},
]


# ---------------------------------------------------------------------------
# generation
# ---------------------------------------------------------------------------
DTYPES = {"i64": "DI64", "i32": "DI32", "f32": "DF32", "f64": "DF64"}


def kind_of(case, it):
    """normalised description of one item: {'k': 'scalar'|'seq', 'd': dtype, 'py': bool, 'tr': [trailing dims]}
    (legacy corpus cases say just 'scalar' / 'seq' = int64, rank 1, Python int unless case['scalar_tensor'])"""
    k = case["kinds"][it]
    if isinstance(k, str):
        return {"k": k, "d": "i64", "py": not case["scalar_tensor"], "tr": []}
    if k["k"] == "opaque":
        return {"k": "opaque", "shape": list(k["shape"])}
    return {"k": k["k"], "d": k.get("d", "i64"), "py": k.get("py", not case["scalar_tensor"]), "tr": list(k.get("tr", []))}


def numel(tr):
    n = 1
    for d in tr:
        n *= d
    return n


def steps_of(v):
    """a sequence value of a case -> list of flat steps (a bare int is a step of a rank-1 sequence)"""
    return [[e] if isinstance(e, int) else list(e) for e in v]


def gen_kind(rng, pad_case):
    """scalar (Python int / Python float / 0-d tensor of any dtype) or a sequence of rank 1, 2 or 3"""
    if rng.random() < 0.35:
        py = rng.random() < 0.6
        d = rng.choice(["i64", "i64", "f64"]) if py else rng.choice(list(DTYPES))
        return {"k": "scalar", "d": d, "py": py}
    rank = rng.choice([1, 1, 2, 2, 3]) if pad_case else rng.choice([1, 1, 1, 2, 3])
    tr = [rng.randint(1, 4) for _ in range(rank - 1)]
    return {"k": "seq", "d": rng.choice(["i64", "i64", "f32", "f32", "i32", "f64"]), "tr": tr}


def gen_case(rng, big=False):
    n = rng.choice([1, 1, 2, 2, 3, 4])
    names = ["f0", "f1", "f2", "f3"]
    items = names[:n]
    if rng.random() < 0.3:
        items[rng.randrange(n)] = "index"
    B = rng.choice([1, 1, 2, 2, 3, 3, 4, 5] + ([6, 8] if big else []))
    rows_n = rng.choice([B, B, B + 1])
    order = [rng.randrange(rows_n) for _ in range(B)] if rng.random() < 0.4 else rng.sample(range(rows_n), B)
    entry = rng.choice(["compose"] * 6 + ["single", "wrapper", "direct", "direct"])
    pad_case = entry == "direct" or rng.random() < 0.3
    profile = rng.choice(["ragged", "ragged", "equal"]) if pad_case else rng.choice(["equal"] * 5 + ["ragged"])
    kinds = {}
    fixed_len = {}
    for it in items:
        if it == "index":
            continue
        kinds[it] = gen_kind(rng, pad_case)
        # a "fixed-shape tensor" field: the same length in every sample, next to ragged ones; length 0 = empty sequences
        if kinds[it]["k"] == "seq" and (profile == "equal" or rng.random() < 0.25):
            fixed_len[it] = rng.choice([0, 1, 1, 2, 3, 4])
    rows = []
    for r in range(rows_n):
        vals = {}
        for it in items:
            if it == "index":
                continue
            kd = kinds[it]
            if kd["k"] == "scalar":
                vals[it] = rng.randint(-5, 20)
            else:
                ln = fixed_len[it] if it in fixed_len else rng.randint(0, 5 if not big else 9)
                ne = numel(kd["tr"])
                if kd["tr"]:
                    vals[it] = [[rng.randint(-3, 9) for _ in range(ne)] for _ in range(ln)]
                else:
                    vals[it] = [rng.randint(-3, 9) for _ in range(ln)]
        rows.append(vals)
    rc = rng.random() < 0.5
    nkeys = rng.choice([0, 1, 1, 2, 3])
    keyset = rng.sample(range(1, 7), nkeys)
    ctx = []
    for r in range(rows_n):
        ks = list(keyset)
        if nkeys and rng.random() < 0.06:
            ks = ks[:-1] if rng.random() < 0.5 else ks + [9]
        ctx.append([[k, rng.randint(0, 50)] for k in ks])
    members = []
    if entry == "direct":
        members = [["none", "pad", 0]]
    else:
        m = 1 if entry in ("single", "wrapper") else rng.choice([1, 1, 2, 2, 3, 4])
        if rng.random() < 0.7:
            a = rng.randint(0, m)
            modes = ["none"] * a
            if a < m:
                modes.append(rng.choice(["before", "after"]))
                modes += ["before"] * (m - a - 1)
        else:
            modes = [rng.choice(["none", "before", "after"]) for _ in range(m)]
        for md in modes:
            kind = rng.choice(["id", "mark", "mark", "ctxw"])
            arg = rng.randint(1, 9) if kind != "id" else 0
            if md == "none" and pad_case and rng.random() < 0.6:
                kind, arg = "pad", 0
            members.append([md, kind, arg])
    return {"items": items, "kinds": kinds, "rows": rows, "ctx": ctx, "order": order, "rc": rc, "entry": entry,
            "members": members, "scalar_tensor": rng.random() < 0.4, "profile": profile}


def gen_shared_case(rng, big=False):
    """CONSTRUCTION HISTORIES on shared member objects: the same member collator instances are used to build 2-3 entry
    points (KDComposeCollator / KDSingleCollatorWrapper / the member called standalone with its own constructor
    configuration) that differ in dataset_mode and / or return_ctx; builds and calls are interleaved, the calls come in
    random order, some several times, on batches of different sizes of the entry point's own mode.  Every entry point must
    behave like a FRESH configuration of its own (dataset_mode, return_ctx, member list)."""
    while True:
        base = gen_case(rng, big)
        if base["entry"] == "direct" or len({tuple(k for k, _ in cx) for cx in base["ctx"]}) != 1:
            continue
        break
    pool = list(base["items"])
    n_members = rng.choice([1, 1, 2, 2, 3])
    members = []
    for _ in range(n_members):
        md = rng.choice(["none", "before", "before", "after"])
        kind = rng.choice(["id", "mark", "mark", "ctxw"])
        arg = rng.randint(1, 9) if kind != "id" else 0
        if md == "none" and base["profile"] == "ragged" and rng.random() < 0.6:
            kind, arg = "pad", 0
        members.append([md, kind, arg])
    shared = rng.randrange(n_members)           # the member every entry point is built around

    def gen_items():
        k = rng.randint(1, len(pool))
        return rng.sample(pool, k)

    cfgs = [(gen_items(), rng.random() < 0.5)]
    n_eps = rng.choice([2, 2, 2, 3])
    while len(cfgs) < n_eps:
        it0, rc0 = cfgs[rng.randrange(len(cfgs))]
        r = rng.random()
        if r < 0.4:
            cfg = (list(it0), not rc0)                              # the same mode with / without contexts
        elif r < 0.7:
            cfg = (gen_items(), rc0)                                # another dataset mode
        elif r < 0.9:
            cfg = (gen_items(), not rc0)
        else:
            cfg = (list(it0), rc0)                                  # control: the same configuration twice
        cfgs.append(cfg)
    mcfg = [None] * n_members
    eps = []
    for items, rc in cfgs:
        entry = rng.choice(["wrapper", "wrapper", "wrapper", "compose", "compose", "single"])
        if entry == "single" and mcfg[shared] is not None:
            entry = "wrapper"
        if entry == "single":
            mcfg[shared] = [list(items), rc]                        # a member configured for standalone use
            sel = [shared]
        elif entry == "wrapper":
            sel = [shared]
        else:
            others = [i for i in range(n_members) if i != shared]
            sel = rng.sample(others, rng.randint(0, len(others))) + [shared]
            if rng.random() < 0.7:
                # keep the members' order None* [(before|after) before*] that a call accepts
                rank = {"none": 0, "after": 1, "before": 2}
                sel.sort(key=lambda i: (rank[members[i][0]], i))
                if sum(1 for i in sel if members[i][0] == "after") > 1:
                    first = next(i for i in sel if members[i][0] == "after")
                    sel = [i for i in sel if members[i][0] != "after" or i == first]
                    if shared not in sel:
                        sel = [shared]
            else:
                rng.shuffle(sel)
        eps.append({"entry": entry, "items": list(items), "rc": rc, "sel": sel})
    for k in range(n_members):
        if mcfg[k] is None and rng.random() < 0.3:
            mcfg[k] = [gen_items(), rng.random() < 0.5]             # configured for standalone use, never used that way
    # script: every entry point is built before its first call; other builds and calls may come in between
    rows_n = len(base["rows"])
    calls = []
    for j in range(len(eps)):
        for _ in range(rng.choice([1, 1, 2, 3])):
            B = rng.choice([1, 2, 2, 3, 4])
            order = [rng.randrange(rows_n) for _ in range(B)] if rng.random() < 0.4 else rng.sample(range(rows_n), min(B, rows_n))
            calls.append(["call", j, order])
    rng.shuffle(calls)
    script = []
    if rng.random() < 0.6:
        script = [["build", j] for j in range(len(eps))] + calls    # all built first (typical: one loader per config)
    else:
        pending = list(range(len(eps)))
        built = set()
        rest = list(calls)
        while rest or pending:
            ready = [c for c in rest if c[1] in built]
            if pending and (not ready or rng.random() < 0.5):
                j = pending.pop(0)
                built.add(j)
                script.append(["build", j])
            else:
                c = rng.choice(ready)
                rest.remove(c)
                script.append(c)
    case = {"family": "shared", "items": pool, "kinds": base["kinds"], "rows": base["rows"], "ctx": base["ctx"],
            "order": [], "rc": False, "entry": "shared", "members": members, "mcfg": mcfg, "eps": eps, "script": script,
            "scalar_tensor": base["scalar_tensor"], "profile": base["profile"]}
    if rng.random() < 0.5:
        add_mutations(rng, case)
    return case


def add_mutations(rng, case):
    """MUTATION steps after construction: a member's default_collate_mode attribute is switched (the harness's own members
    allow it), members are inserted into / removed from / swapped in the list object a compose holds; every mutation is
    followed by a call of an entry point it concerns.  From then on the entry point must behave like a FRESH entry point
    of the members (and member modes) it has NOW."""
    script = case["script"]
    eps, members = case["eps"], case["members"]
    rows_n = len(case["rows"])
    first_build = next((i for i, st in enumerate(script) if st[0] == "build"), None)
    if first_build is None:
        return
    places = sorted(rng.randint(first_build + 1, len(script)) for _ in range(rng.choice([1, 1, 2, 3])))
    for n_done, at in enumerate(places):
        at += n_done
        cur_members, sels = state_at({**case, "script": script}, at)
        built = [st[1] for st in script[:at] if st[0] == "build"]
        composes = [j for j in built if eps[j]["entry"] == "compose"]
        switchable = [k for k, m in enumerate(cur_members) if m[1] in SWITCHABLE]
        if composes and (not switchable or rng.random() < 0.5):
            j = rng.choice(composes)
            outside = [k for k in range(len(members)) if k not in sels[j]]
            r = rng.random()
            if outside and (r < 0.5 or len(sels[j]) == 1):
                step = ["edit", j, "insert", rng.randint(0, len(sels[j])), rng.choice(outside)]
            elif len(sels[j]) > 1 and r < 0.75:
                step = ["edit", j, "remove", rng.randrange(len(sels[j]))]
            elif len(sels[j]) > 1:
                p = rng.randrange(len(sels[j]))
                step = ["edit", j, "swap", p, rng.choice([q for q in range(len(sels[j])) if q != p])]
            else:
                continue
            concerned = [j]
        elif switchable:
            k = rng.choice(switchable)
            step = ["setmode", k, rng.choice([m for m in ("none", "before", "after") if m != cur_members[k][0]])]
            concerned = [j for j in built if k in sels[j]] or built
        else:
            continue
        script.insert(at, step)
        if not any(st[0] == "call" and st[1] in concerned for st in script[at + 1:]) or rng.random() < 0.3:
            B = rng.choice([1, 2, 2, 3])
            script.append(["call", rng.choice(concerned), [rng.randrange(rows_n) for _ in range(B)]])


def directed_mutations():
    """the typical mutation histories: compose built, called, then a member's mode switched / the member list the caller
    still holds edited, then called again (with and without contexts)"""
    out = []
    rows = [{"f0": [1, 2], "f1": 10}, {"f0": [3], "f1": 11}, {"f0": [5, 6, 7], "f1": 12}]
    ctx = [[[1, 7]], [[1, 8]], [[1, 9]]]
    kinds = {"f0": "seq", "f1": "scalar"}

    def case(members, eps, script, items=("f1",)):
        return {"family": "shared", "items": ["f0", "f1"], "kinds": kinds, "rows": rows, "ctx": ctx, "order": [], "rc": False,
                "entry": "shared", "members": members, "mcfg": [None] * len(members), "eps": eps, "script": script,
                "scalar_tensor": False, "profile": "ragged"}

    for rc in (False, True):
        for a in ("none", "before", "after"):
            for b in ("none", "before", "after"):
                if a != b:
                    for entry in ("compose", "wrapper"):
                        out.append(case([[a, "mark", 3]], [{"entry": entry, "items": ["f1"], "rc": rc, "sel": [0]}],
                                        [["build", 0], ["call", 0, [0, 1]], ["setmode", 0, b], ["call", 0, [1, 2]]]))
        for m0, m1 in (("none", "before"), ("before", "none"), ("none", "none"), ("before", "before"), ("after", "before"),
                       ("none", "after")):
            members = [[m0, "mark", 2], [m1, "mark", 5]]
            ep = [{"entry": "compose", "items": ["f1"], "rc": rc, "sel": [0]}]
            for pos in (0, 1):
                out.append(case(members, ep, [["build", 0], ["call", 0, [0, 1]], ["edit", 0, "insert", pos, 1],
                                              ["call", 0, [1, 2]], ["edit", 0, "remove", pos], ["call", 0, [0, 2]]]))
            ep2 = [{"entry": "compose", "items": ["f1"], "rc": rc, "sel": [0, 1]}]
            out.append(case(members, ep2, [["build", 0], ["edit", 0, "swap", 0, 1], ["call", 0, [0, 1]],
                                           ["edit", 0, "remove", 0], ["call", 0, [2]]]))
        # the padding collator composed alone, then another None-mode member put in front of / behind it
        members = [["none", "pad", 0], ["none", "id", 0]]
        ep = [{"entry": "compose", "items": ["f0", "f1"], "rc": rc, "sel": [0]}]
        for pos in (0, 1):
            out.append(case(members, ep, [["build", 0], ["edit", 0, "insert", pos, 1], ["call", 0, [0, 1, 2]]]))
    return out


def directed_shared():
    """the typical histories: the collators registered on a dataset wrapped once for a loader with contexts and once for a
    loader without; for two dataset modes; a member configured for standalone use and wrapped later; wrapper next to compose"""
    out = []
    rows = [{"f0": [1, 2], "f1": 10}, {"f0": [3, 4], "f1": 11}, {"f0": [5, 6], "f1": 12}]
    ctx = [[[1, 7]], [[1, 8]], [[1, 9]]]
    kinds = {"f0": "seq", "f1": "scalar"}

    def case(members, mcfg, eps, script):
        return {"family": "shared", "items": ["f0", "f1"], "kinds": kinds, "rows": rows, "ctx": ctx, "order": [], "rc": False,
                "entry": "shared", "members": members, "mcfg": mcfg, "eps": eps, "script": script, "scalar_tensor": False,
                "profile": "fixed"}

    def ep(entry, items, rc, sel=(0,)):
        return {"entry": entry, "items": list(items), "rc": rc, "sel": list(sel)}

    both = [["build", 0], ["build", 1], ["call", 0, [0, 1, 2]], ["call", 1, [0, 1]], ["call", 0, [2]], ["call", 1, [1, 2, 0]]]
    late = [["build", 0], ["call", 0, [0, 1]], ["build", 1], ["call", 1, [0, 1, 2]], ["call", 0, [1, 2]]]
    for md in ("none", "before", "after"):
        for kind, arg in (("mark", 3), ("ctxw", 4)):
            m = [[md, kind, arg]]
            for script in (both, late):
                for a, b in (("wrapper", "wrapper"), ("wrapper", "compose"), ("compose", "wrapper"), ("compose", "compose")):
                    for first in (True, False):
                        out.append(case(m, [None], [ep(a, ["f0", "f1"], first), ep(b, ["f0", "f1"], not first)], script))
                    out.append(case(m, [None], [ep(a, ["f0", "f1"], False), ep(b, ["f1", "f0"], False)], script))
                    out.append(case(m, [None], [ep(a, ["f0"], True), ep(b, ["f1", "f0"], True)], script))
                # configured for standalone use (with contexts), wrapped later for a loader without (and the reverse)
                for first in (True, False):
                    out.append(case(m, [[["f0", "f1"], first]],
                                    [ep("single", ["f0", "f1"], first), ep("wrapper", ["f0", "f1"], not first)], script))
                    out.append(case(m, [[["f0", "f1"], first]],
                                    [ep("wrapper", ["f1"], not first), ep("single", ["f0", "f1"], first)], script))
    return out


REAL_KEYS = {"mix": ["apply", "use_cutmix", "lambda"], "dino": ["mask"], "ijepa": ["encoder_masks", "predictor_masks"]}
KEY_IDS = {"apply": 101, "use_cutmix": 102, "lambda": 103, "mask": 111, "encoder_masks": 121, "predictor_masks": 122}


def gen_real_case(rng):
    """pipelines whose members are the REAL collators of the package (KDMixCollator, KDDinoMaskCollator,
    KDIjepaMaskCollator, all 'before' members that write context keys), alone / stacked / mixed with the harness'
    identity and context-writing members of every mode, and the ready-made MAEFinetuneMixCollator; the batch carries an
    image `x`, a one-hot `class` and optionally the index / a scalar field (their content after mixing is C10's subject:
    here x and class are opaque, only their place, shape and dtype are checked)"""
    entry = rng.choice(["compose"] * 5 + ["single", "wrapper", "mae", "mae"])
    H, K = rng.choice([4, 6, 8]), rng.randint(2, 5)
    if entry == "mae":
        items = ["x", "class"]
    else:
        items = ["x"] + rng.sample(["class", "index", "f0"], rng.randint(0, 3))
        rng.shuffle(items)
    B = rng.choice([1, 2, 2, 3, 4, 4, 5, 6])
    if entry == "mae" and B % 2 and B > 1:
        B += 1
    kinds = {"x": {"k": "opaque", "shape": [1, H, H]}, "class": {"k": "opaque", "shape": [K]},
             "f0": {"k": "scalar", "d": rng.choice(["i64", "f64"]), "py": True}}
    rows_n = B + rng.choice([0, 1])
    rows = [{"x": r, "class": rng.randrange(K), "f0": rng.randint(-5, 20)} for r in range(rows_n)]
    order = rng.sample(range(rows_n), B)
    rc = rng.random() < 0.6 and entry != "mae"
    keyset = rng.sample(range(1, 7), rng.choice([0, 1, 2]))
    ctx = [[[k, rng.randint(0, 50)] for k in keyset] for _ in range(rows_n)]

    def real_member():
        kind = rng.choice(["mix", "mix", "dino", "ijepa"])
        return ["before", kind, rng.randint(0, 999)]

    if entry == "mae":
        members = [["before", "mix", rng.randint(0, 999)]]
    elif entry in ("single", "wrapper"):
        members = [real_member()]
    else:
        m = rng.choice([1, 2, 2, 3, 4])
        if rng.random() < 0.8:
            a = rng.randint(0, m - 1)
            modes = ["none"] * a + [rng.choice(["before", "before", "after"])] + ["before"] * (m - a - 1)
        else:
            modes = [rng.choice(["none", "before", "after"]) for _ in range(m)]
        members = []
        for md in modes:
            if md == "before" and rng.random() < 0.75:
                members.append(real_member())
            else:
                kind = rng.choice(["id", "ctxw"])
                members.append([md, kind, rng.randint(1, 9) if kind == "ctxw" else 0])
        if not any(mm[1] in REAL_KEYS for mm in members):
            members.append(real_member())
    return {"family": "real", "items": items, "kinds": kinds, "rows": rows, "ctx": ctx, "order": order, "rc": rc,
            "entry": entry, "members": members, "scalar_tensor": False, "profile": "equal", "H": H, "K": K}


def _fixed(items, kinds, rows, ctx, order, rc, entry, members, st=False):
    return {"items": items, "kinds": kinds, "rows": rows, "ctx": ctx, "order": order, "rc": rc, "entry": entry,
            "members": members, "scalar_tensor": st, "profile": "fixed"}


def directed_cases():
    """every list of modes up to length 3 (identity members), both rc, a 2-item mode"""
    out = []
    rows = [{"f0": [1, 2], "f1": 10}, {"f0": [3, 4], "f1": 11}, {"f0": [5, 6], "f1": 12}]
    ctx = [[[1, 7]], [[1, 8]], [[1, 9]]]
    import itertools
    for ln in (1, 2, 3):
        for modes in itertools.product(["none", "before", "after"], repeat=ln):
            for rc in (False, True):
                out.append(_fixed(["f0", "f1"], {"f0": "seq", "f1": "scalar"}, rows, ctx, [0, 1, 2], rc, "compose",
                                  [[m, "mark" if i == 0 else "id", 3 if i == 0 else 0] for i, m in enumerate(modes)]))
    # the padding collator on sequences of every rank / dtype next to scalars of every kind, through every entry point:
    # batch size 1, equal lengths, ragged lengths, only empty sequences
    for tr in ([], [1], [3], [2, 2], [4, 1]):
        ne = numel(tr)
        for d in ("i64", "f32"):
            for lens in ([2], [3, 3], [1, 3, 2], [0, 2], [0, 0]):
                rws = [{"f0": [[r + 1 + j + e for e in range(ne)] if tr else r + 1 + j for j in range(ln)],
                        "f1": 10 + r, "f2": [r, r + 1]} for r, ln in enumerate(lens)]
                kinds = {"f0": {"k": "seq", "d": d, "tr": tr}, "f1": {"k": "scalar", "d": "f64", "py": True},
                         "f2": {"k": "seq", "d": "i32", "tr": []}}
                cx = [[[1, r]] for r in range(len(lens))]
                for entry, rc in (("direct", False), ("direct", True), ("compose", True), ("single", False), ("wrapper", True)):
                    out.append(_fixed(["f0", "f1", "f2"], kinds, rws, cx, list(range(len(lens))), rc, entry,
                                      [["none", "pad", 0]]))
    return out


def probe_ragged_ctx_keys():
    """the recorded finding: sample 1 has a context key sample 0 lacks (silently lost) / the other way round (KeyError)"""
    rows = [{"f0": 1}, {"f0": 2}]
    base = dict(items=["f0"], kinds={"f0": "scalar"}, rows=rows, order=[0, 1], rc=True, entry="compose",
                members=[["before", "id", 0]], scalar_tensor=False, profile="fixed", probe="ragged_ctx_keys")
    return [{**base, "ctx": [[[1, 7]], [[1, 8], [2, 5]]]}, {**base, "ctx": [[[1, 7], [2, 5]], [[1, 8]]]}]


def gen_cases(rng, tier):
    import os
    n = 900 if tier == "quick" else 9000
    out = directed_cases()
    if os.environ.get("C18_PROBE_RAGGED_CTX_KEYS"):
        out += probe_ragged_ctx_keys()
    out += [gen_case(rng) for _ in range(n)]
    out += [gen_real_case(rng) for _ in range(n // 6)]
    out += directed_shared()[::1 if tier == "thorough" else 3]
    out += directed_mutations()
    out += [gen_shared_case(rng, big=tier == "thorough" and rng.random() < 0.3) for _ in range(n // 3)]
    if tier == "thorough":
        out += [gen_case(rng, big=True) for _ in range(3000)]
        out += [gen_loader_case(rng) for _ in range(160)]
    else:
        out += [gen_loader_case(rng) for _ in range(6)]
    return out


def search_cases(rng, tier):
    for c in directed_cases():
        yield c
    for c in directed_mutations() + directed_shared():
        yield c
    for _ in range(30000):
        r = rng.random()
        yield gen_real_case(rng) if r < 0.15 else gen_shared_case(rng) if r < 0.4 else gen_case(rng, big=rng.random() < 0.3)


def shrink_shared(c):
    script = c["script"]
    # drop a call / a mutation step
    for i, st in enumerate(script):
        if st[0] == "call" or st[0] in MUTATIONS:
            yield {**c, "script": script[:i] + script[i + 1:]}
    # drop an entry point that is no longer called (keep the numbering: only its build step goes)
    called = {st[1] for st in script if st[0] == "call"}
    for i, st in enumerate(script):
        if st[0] == "build" and st[1] not in called and c["eps"][st[1]]["entry"] != "single":
            yield {**c, "script": script[:i] + script[i + 1:]}
    # smaller batches
    for i, st in enumerate(script):
        if st[0] == "call" and len(st[2]) > 1:
            for j in range(len(st[2])):
                yield {**c, "script": script[:i] + [["call", st[1], st[2][:j] + st[2][j + 1:]]] + script[i + 1:]}
    # members no entry point uses any more: plain identity members
    for k, m in enumerate(c["members"]):
        if m[1] in ("mark", "ctxw"):
            yield {**c, "members": c["members"][:k] + [[m[0], "id", 0]] + c["members"][k + 1:]}
    # a standalone configuration nobody needs
    for k, cfg in enumerate(c["mcfg"]):
        if cfg is not None and not any(e["entry"] == "single" and e["sel"] == [k] for e in c["eps"]):
            yield {**c, "mcfg": c["mcfg"][:k] + [None] + c["mcfg"][k + 1:]}
    if any(c["ctx"]):
        yield {**c, "ctx": [[] for _ in c["ctx"]]}


def shrink(case):
    if case.get("family") == "shared":
        yield from shrink_shared(case)
        return
    c = case
    for i in range(len(c["members"])):
        if len(c["members"]) > 1 and c["entry"] != "mae":
            yield {**c, "members": c["members"][:i] + c["members"][i + 1:]}
    for i, m in enumerate(c["members"]):
        if m[1] in ("mark", "ctxw"):
            yield {**c, "members": c["members"][:i] + [[m[0], "id", 0]] + c["members"][i + 1:]}
    if len(c["order"]) > 1:
        for i in range(len(c["order"])):
            yield {**c, "order": c["order"][:i] + c["order"][i + 1:]}
    if len(c["items"]) > 1 and c["entry"] != "mae":
        for i in range(len(c["items"])):
            if c["items"][i] == "x" and c.get("family") == "real":
                continue            # the real collators need the image
            yield {**c, "items": c["items"][:i] + c["items"][i + 1:]}
    if any(c["ctx"]):
        yield {**c, "ctx": [[] for _ in c["ctx"]]}
    if c["scalar_tensor"]:
        yield {**c, "scalar_tensor": False}


# ---------------------------------------------------------------------------
# the inputs as the property sees them
# ---------------------------------------------------------------------------
def writer_item(case):
    """the item whose getitem writes the per-sample context"""
    for it in case["items"]:
        if it != "index":
            return it
    return None


def sample_field(case, it, i):
    """item `it` of sample i in canonical form: ['s', dtype, value] | ['q', dtype, trailing, steps]"""
    if it == "index":
        return ["s", "i64", i]
    kd = kind_of(case, it)
    v = case["rows"][i][it]
    if kd["k"] == "opaque":
        return ["s", "i64", 0]          # content not modelled: placeholder
    if kd["k"] == "scalar":
        return ["s", kd["d"], v]
    return ["q", kd["d"], kd["tr"], steps_of(v)]


def samples_of(case):
    """[(items, ctx)] in batch order, items in canonical form, ctx as [[key, value]]"""
    out = []
    w = writer_item(case)
    for i in case["order"]:
        vals = [sample_field(case, it, i) for it in case["items"]]
        out.append((vals, [list(kv) for kv in case["ctx"][i]] if w is not None else []))
    return out


def well_ordered(modes):
    seen = False
    for m in modes:
        if seen and m != "before":
            return False
        if m != "none":
            seen = True
    return True


def is_ambiguous(case):
    """a self-collating None member (pad) followed by a member that asks for default collation, or pad applied twice"""
    seen_pad = False
    for md, kind, _ in case["members"]:
        if seen_pad and (md != "none" or kind == "pad"):
            return True
        if kind == "pad":
            seen_pad = True
    return False


# ---------------------------------------------------------------------------
# running the implementation
# ---------------------------------------------------------------------------
def _build(case, log, with_members=True):
    import torch
    from kappadata.collators.base.kd_single_collator import KDSingleCollator
    from kappadata.collators.pad_sequences_collator import PadSequencesCollator
    from kappadata.datasets.kd_dataset import KDDataset
    from kappadata.wrappers.mode_wrapper import ModeWrapper

    w = writer_item(case)
    tdt = {"i64": torch.int64, "i32": torch.int32, "f32": torch.float32, "f64": torch.float64}

    def make_getitem(name):
        def getitem(self, idx, ctx=None):
            if ctx is not None and name == w:
                for k, v in case["ctx"][idx]:
                    ctx[f"k{k}"] = v
            v = case["rows"][idx][name]
            kd = kind_of(case, name)
            if kd["k"] == "opaque":
                if name == "x":      # an image that identifies its sample
                    return torch.arange(numel(kd["shape"]), dtype=torch.float32).reshape(kd["shape"]) / 64 + v
                return torch.nn.functional.one_hot(torch.tensor(v), kd["shape"][0]).float()
            if kd["k"] == "seq":
                st = steps_of(v)
                return torch.tensor(st, dtype=tdt[kd["d"]]).reshape(len(st), *kd["tr"])
            if kd["py"]:
                return float(v) if kd["d"] == "f64" else int(v)
            return torch.tensor(v, dtype=tdt[kd["d"]])
        return getitem

    ns = {"__len__": lambda self: len(case["rows"])}
    for name in case["kinds"]:
        ns["getitem_" + name] = make_getitem(name)
    DS = type("C18Dataset", (KDDataset,), ns)

    class Member(KDSingleCollator):
        def __init__(self, k, mode, kind, arg, **kw):
            super().__init__(**kw)
            self.k, self.mode, self.kind, self.arg = k, mode, kind, arg

        @property
        def default_collate_mode(self):
            return None if self.mode == "none" else self.mode

        def collate(self, batch, dataset_mode, ctx=None):
            log.append(["call", self.k, dataset_mode])
            if self.kind == "id":
                return batch
            if self.kind == "ctxw":
                ctx[f"k{self.arg}"] = torch.tensor([self.arg])
                return batch
            n = len(dataset_mode.split(" "))
            if torch.is_tensor(batch):
                return batch + self.arg
            if n == 1:
                return [b + self.arg for b in batch]
            if all(torch.is_tensor(e) for e in batch):
                return [batch[0] + self.arg] + list(batch[1:])
            return [(s[0] + self.arg,) + tuple(s[1:]) for s in batch]

    class LoggedPad(PadSequencesCollator):
        def __init__(self, k, **kw):
            super().__init__(**kw)
            self.k = k

        def collate(self, batch, _, ctx=None):
            if self.k is not None:
                log.append(["call", self.k, _])
                k, self.k = self.k, None       # the recursion of collate() must not log again
                try:
                    return super().collate(batch, _, ctx)
                finally:
                    self.k = k
            return super().collate(batch, _, ctx)

    def real_member(k, kind, arg, **kw):
        """a real collator of the package; its collate() is logged, nothing else is touched"""
        import numpy as np
        from kappadata.collators import KDDinoMaskCollator, KDIjepaMaskCollator, KDMixCollator
        r = random_mod.Random(arg)
        B = len(case["order"])
        if kind == "mix":
            which = r.choice(["mixup", "cutmix", "both"])
            cfg = dict(mixup_alpha=0.8 if which != "cutmix" else None, cutmix_alpha=1.0 if which != "mixup" else None,
                       mixup_p={"mixup": 1.0, "cutmix": None, "both": 0.5}[which],
                       cutmix_p={"mixup": None, "cutmix": 1.0, "both": 0.5}[which],
                       apply_mode=r.choice(["batch", "sample"]), lamb_mode=r.choice(["batch", "sample"]),
                       shuffle_mode=r.choice(["roll", "random"] + (["flip"] if B % 2 == 0 or B == 1 else [])))
            c = KDMixCollator(**cfg, **kw)
        elif kind == "dino":
            c = KDDinoMaskCollator(mask_ratio=(0.1, 0.5), mask_prob=0.5, mask_size=4, num_views=1, **kw)
        else:
            c = KDIjepaMaskCollator(**kw)
        c.set_rng(np.random.default_rng(arg))
        orig = c.collate

        def logged(batch, dataset_mode, ctx=None):
            log.append(["call", k, dataset_mode])
            return orig(batch, dataset_mode, ctx)
        c.collate = logged
        return c

    mode = " ".join(case["items"])
    mw = ModeWrapper(DS(), mode=mode, return_ctx=case["rc"])
    batch = [mw[i] for i in case["order"]]
    if not with_members:
        return mode, batch, None, mw

    def kw_of(k):
        if "mcfg" in case:          # shared family: every member has its OWN constructor configuration (or none)
            cfg = case["mcfg"][k]
            return {} if cfg is None else dict(dataset_mode=" ".join(cfg[0]), return_ctx=cfg[1])
        return dict(dataset_mode=mode, return_ctx=case["rc"]) if case["entry"] == "single" else {}

    members = [LoggedPad(k, **kw_of(k)) if kind == "pad" else
               real_member(k, kind, arg, **kw_of(k)) if kind in REAL_KEYS else Member(k, md, kind, arg, **kw_of(k))
               for k, (md, kind, arg) in enumerate(case["members"])]
    return mode, batch, members, mw


_DT = None


def _dt(t):
    import torch
    global _DT
    if _DT is None:
        _DT = {torch.int64: "i64", torch.int32: "i32", torch.float32: "f32", torch.float64: "f64"}
    if t.dtype not in _DT:
        raise ValueError(f"dtype {t.dtype}")
    return _DT[t.dtype]


def _ints(t):
    """the numbers of a tensor as exact Python ints, row-major; refuses non-integral values and -0.0"""
    import torch
    if t.is_floating_point():
        if t.numel() and (not bool(torch.isfinite(t).all()) or bool((t != t.round()).any())):
            raise ValueError("non-integral value")
        if t.numel() and bool(torch.signbit(t)[t == 0].any()):
            raise ValueError("negative zero")
    return [int(a) for a in t.reshape(-1).tolist()]


def _chunks(flat, n, size):
    return [flat[i * size:(i + 1) * size] for i in range(n)]


def _field(v):
    """one per-sample item as the implementation returned it"""
    import torch
    if torch.is_tensor(v):
        if v.ndim == 0:
            return ["s", _dt(v), _ints(v)[0]]
        tr = list(v.shape[1:])
        return ["q", _dt(v), tr, _chunks(_ints(v), v.shape[0], numel(tr))]
    if isinstance(v, bool):
        raise ValueError("type")
    if isinstance(v, int):
        return ["s", "i64", v]
    if isinstance(v, float) and v == int(v):
        return ["s", "f64", int(v)]
    raise ValueError("type")


def _cfield(t):
    """one collated entry: (B,) -> vec; (B, M, *trailing) -> mat with rows of M steps of prod(trailing) numbers"""
    import torch
    if not torch.is_tensor(t):
        raise ValueError("not a tensor")
    if t.ndim == 1:
        return ["vec", _dt(t), _ints(t)]
    if t.ndim >= 2:
        tr = list(t.shape[2:])
        B, M, ne = t.shape[0], t.shape[1], numel(tr)
        flat = _ints(t)
        return ["mat", _dt(t), tr, [_chunks(flat[b * M * ne:(b + 1) * M * ne], M, ne) for b in range(B)]]
    raise ValueError("ndim")


def _opaque(t, shape, B):
    """an item whose content is not modelled (image / one-hot label handed to a real collator): float32, finite, of the
    expected shape -> the placeholder the model carries; anything else -> error"""
    import torch
    want = ([B] if B is not None else []) + list(shape)
    if not (torch.is_tensor(t) and t.dtype == torch.float32 and list(t.shape) == want and bool(torch.isfinite(t).all())):
        raise ValueError(f"opaque item: expected a finite float32 tensor of shape {want}")
    return ["s", "i64", 0] if B is None else ["vec", "i64", [0] * B]


def canon_batch(b, n, opaque=None, B=None):
    """-> ['coll', [cfield]] | ['items', [[field]]] | ['other', repr];
    opaque = {position: per-sample shape} for the items whose content is not modelled"""
    import torch
    opaque = opaque or {}

    def cf(p, e):
        return _opaque(e, opaque[p], B) if p in opaque else _cfield(e)

    def f(p, e):
        return _opaque(e, opaque[p], None) if p in opaque else _field(e)

    try:
        if torch.is_tensor(b):
            if n != 1:
                return ["other", f"one tensor of shape {list(b.shape)} for a mode of {n} items"]
            return ["coll", [cf(0, b)]]
        if isinstance(b, (list, tuple)):
            if n == 1:
                return ["items", [[f(0, e)] for e in b]]
            if len(b) > 0 and all(torch.is_tensor(e) and e.ndim >= 1 for e in b):
                return ["coll", [cf(p, e) for p, e in enumerate(b)]]
            if all(isinstance(e, (list, tuple)) for e in b):
                return ["items", [[f(p, v) for p, v in enumerate(e)] for e in b]]
    except ValueError as e:
        return ["other", f"{e}: {b!r}"[:300]]
    return ["other", repr(b)[:300]]


def canon_ctx(ctx):
    out = []
    for k, v in ctx.items():
        if k in KEY_IDS:            # written by a real collator: the value is not modelled
            out.append([KEY_IDS[k], []])
        else:
            out.append([int(k[1:]), [int(a) for a in v.reshape(-1).tolist()]])
    return out


def loader_batches(case):
    n = len(case["rows"])
    bs = case["batch_size"]
    out = [list(range(i, min(i + bs, n))) for i in range(0, n, bs)]
    if case["drop_last"] and out and len(out[-1]) < bs:
        out.pop()
    return out


def gen_loader_case(rng):
    """a tiny-member pipeline used as collate_fn of a real torch DataLoader over the ModeWrapper (batch size, drop_last,
    0 or 2 worker processes); every batch must be what the collator gives on the same samples"""
    while True:
        c = gen_case(rng, big=rng.random() < 0.5)
        if c["entry"] == "direct" or is_ambiguous(c):
            continue
        if len({tuple(k for k, _ in cx) for cx in c["ctx"]}) != 1:
            continue
        c = {**c, "family": "loader", "order": list(range(len(c["rows"]))), "batch_size": rng.choice([1, 2, 3, 4]),
             "drop_last": rng.random() < 0.3, "workers": rng.choice([0, 0, 2])}
        if not loader_batches(c):
            continue
        if all((expected({**c, "order": b}) or ("x",))[0] == "ok" for b in loader_batches(c)):
            return c


def run_loader(case, mode, members, mw):
    from torch.utils.data import DataLoader
    from kappadata.collators.base import KDComposeCollator, KDSingleCollatorWrapper
    rc = case["rc"]
    if case["entry"] == "compose":
        coll = KDComposeCollator(members, dataset_mode=mode, return_ctx=rc)
    elif case["entry"] == "single":
        coll = members[0]
    else:
        coll = KDSingleCollatorWrapper(members[0], dataset_mode=mode, return_ctx=rc)
    n = len(case["items"])
    kw = dict(multiprocessing_context="fork") if case["workers"] else {}
    obs = {"res": "ok", "batches": [], "trace": []}
    try:
        loader = DataLoader(mw, batch_size=case["batch_size"], shuffle=False, drop_last=case["drop_last"],
                            num_workers=case["workers"], collate_fn=coll, **kw)
        for out in loader:
            is_pair = isinstance(out, tuple) and len(out) == 2 and isinstance(out[1], dict)
            if is_pair:
                obs["batches"].append({"returns_ctx": True, "batch": canon_batch(out[0], n), "ctx": canon_ctx(out[1])})
            else:
                obs["batches"].append({"returns_ctx": False, "batch": canon_batch(out, n), "ctx": None})
        del loader
    except Exception as e:  # noqa
        obs = {"res": "Other", "msg": type(e).__name__ + ": " + str(e)[:300], "trace": []}
    return obs


def oracle_loader(case, obs):
    desc = (f"DataLoader(batch_size={case['batch_size']}, drop_last={case['drop_last']}, num_workers={case['workers']}) "
            f"members={case['members']} mode={' '.join(case['items'])!r} rc={case['rc']} entry={case['entry']}")
    if obs["res"] != "ok":
        return f"iterating the DataLoader raised {obs.get('msg', '')} ({desc})"
    want = loader_batches(case)
    if len(obs["batches"]) != len(want):
        return f"{len(obs['batches'])} batches, expected {len(want)} ({desc})"
    for k, (idxs, got) in enumerate(zip(want, obs["batches"])):
        exp = expected({**case, "order": idxs})
        if exp is None or exp[0] != "ok":
            continue
        if got["returns_ctx"] != case["rc"]:
            return f"batch {k}: returns (batch, ctx) = {got['returns_ctx']} but return_ctx = {case['rc']} ({desc})"
        if got["batch"] != exp[1]:
            return f"batch {k} (samples {idxs}) differs: expected {exp[1]} got {got['batch']} ({desc})"
        if case["rc"] and got["ctx"] != exp[2]:
            return f"batch {k} (samples {idxs}): context differs: expected {exp[2]} got {got['ctx']} ({desc})"
    return None


def _observe(thunk, case, log):
    """run one call of an entry point (thunk() -> what it returned) with the default_collate spy installed and put
    the answer into canonical form; case gives the layout (items, rc, entry) the answer is read against"""
    import kappadata.collators.base.kd_collator_base as kcb
    n = len(case["items"])
    rc = case["rc"]
    real = kcb.default_collate
    opaque = {p: kind_of(case, it)["shape"] for p, it in enumerate(case["items"])
              if it != "index" and kind_of(case, it)["k"] == "opaque"}
    B = len(case["order"])

    def cb(b):
        return canon_batch(b, n, opaque, B)

    def spy(b):
        is_ctx = isinstance(b, (tuple, list)) and len(b) > 0 and all(isinstance(e, dict) for e in b)
        log.append(["CC"] if is_ctx else ["DC"])
        return real(b)

    obs = {}
    kcb.default_collate = spy
    try:
        out = thunk()
        if case["entry"] == "direct":
            if rc:
                ok = isinstance(out, tuple) and len(out) == 2 and isinstance(out[1], dict)
                obs = {"res": "ok", "returns_ctx": ok}
                if ok:
                    obs["batch"], obs["ctx"] = cb(out[0]), canon_ctx(out[1])
                else:
                    obs["batch"], obs["ctx"] = ["other", repr(out)[:300]], None
            else:
                obs = {"res": "ok", "returns_ctx": False, "batch": cb(out), "ctx": None}
        else:
            is_pair = isinstance(out, tuple) and len(out) == 2 and isinstance(out[1], dict)
            if is_pair:
                obs = {"res": "ok", "returns_ctx": True, "batch": cb(out[0]), "ctx": canon_ctx(out[1])}
            else:
                obs = {"res": "ok", "returns_ctx": False, "batch": cb(out), "ctx": None}
    except AssertionError as e:
        obs = {"res": "EAssert", "msg": str(e)[:200]}
    except KeyError as e:
        obs = {"res": "ECollate", "msg": "KeyError " + str(e)[:200]}
    except RuntimeError as e:
        if "equal size" in str(e):
            obs = {"res": "ECollate", "msg": str(e)[:200]}
        else:
            obs = {"res": "Other", "msg": "RuntimeError: " + str(e)[:300]}
    except Exception as e:  # noqa
        obs = {"res": "Other", "msg": type(e).__name__ + ": " + str(e)[:300]}
    finally:
        kcb.default_collate = real
    obs["trace"] = list(log)
    return obs


def run_impl(case):
    from kappadata.collators.base import KDComposeCollator, KDSingleCollatorWrapper
    if case.get("family") == "shared":
        return run_shared(case)
    log = []
    mode, batch, members, mw = _build(case, log)
    if case.get("family") == "loader":
        return run_loader(case, mode, members, mw)
    rc = case["rc"]

    def thunk():
        if case["entry"] == "compose":
            return KDComposeCollator(members, dataset_mode=mode, return_ctx=rc)(batch)
        if case["entry"] == "single":
            return members[0](batch)
        if case["entry"] == "wrapper":
            return KDSingleCollatorWrapper(members[0], dataset_mode=mode, return_ctx=rc)(batch)
        if case["entry"] == "mae":
            # the ready-made pipeline of kappadata.common: its own member, only logged and seeded
            import numpy as np
            from kappadata.common.collators import MAEFinetuneMixCollator
            mae = MAEFinetuneMixCollator()
            assert mae.dataset_mode == mode and mae.return_ctx is False and len(mae.collators) == 1
            mae.set_rng(np.random.default_rng(case["members"][0][2]))
            orig = mae.collators[0].collate

            def logged(b, dataset_mode, ctx=None):
                log.append(["call", 0, dataset_mode])
                return orig(b, dataset_mode, ctx)
            mae.collators[0].collate = logged
            return mae(batch)
        members[0].k = None
        return members[0].collate(batch, mode, {})

    return _observe(thunk, case, log)


# ---------------------------------------------------------------------------
# family 'shared': construction histories on shared member objects
# ---------------------------------------------------------------------------
SIMPLE = (str, int, bool, float, type(None))


def _attrs(objs):
    """the configuration attributes of collator objects: dataset_mode / return_ctx first, then every other plain
    attribute (the random generator by identity)"""
    out = []
    for o in objs:
        if o is None:
            out.append(None)
            continue
        d = {"dataset_mode": getattr(o, "dataset_mode", "<missing>"), "return_ctx": getattr(o, "return_ctx", "<missing>")}
        for k, v in sorted(vars(o).items()):
            if k in d:
                continue
            if isinstance(v, SIMPLE):
                d[k] = v
            elif k in ("rng", "collator", "collators"):
                d[k] = "id:" + str([id(e) for e in v] if isinstance(v, list) else id(v))
        out.append(d)
    return out


MUTATIONS = ("setmode", "edit")
SWITCHABLE = ("id", "mark", "ctxw")     # the harness's own members: default_collate_mode is a property backed by an attribute


def apply_edit(sel, n_members, step):
    """the member list of a compose after ["edit", j, "insert", pos, member] / ["edit", j, "remove", pos] /
    ["edit", j, "swap", p, q] on the list object the compose holds (positions are taken modulo the current length, a
    member is never listed twice, the last member is never removed: every script stays meaningful when steps are dropped)"""
    sel = list(sel)
    what = step[2]
    if what == "insert":
        if step[4] not in sel and 0 <= step[4] < n_members:
            sel.insert(step[3] % (len(sel) + 1), step[4])
    elif what == "remove":
        if len(sel) > 1:
            del sel[step[3] % len(sel)]
    elif what == "swap":
        p, q = step[3] % len(sel), step[4] % len(sel)
        sel[p], sel[q] = sel[q], sel[p]
    return sel


def state_at(case, upto=None):
    """(members, member list of every entry point) after the MUTATION steps among the first `upto` steps of the script:
    ["setmode", k, mode] switches member k's default_collate_mode attribute (the harness's own members only),
    ["edit", j, ...] edits the list object compose j holds (only once it is built)"""
    members = [list(m) for m in case["members"]]
    sels = [list(ep["sel"]) for ep in case["eps"]]
    built = set()
    script = case["script"] if upto is None else case["script"][:upto]
    for step in script:
        if step[0] == "build":
            built.add(step[1])
        elif step[0] == "setmode":
            if members[step[1]][1] in SWITCHABLE:
                members[step[1]][0] = step[2]
        elif step[0] == "edit":
            if step[1] in built and case["eps"][step[1]]["entry"] == "compose":
                sels[step[1]] = apply_edit(sels[step[1]], len(members), step)
    return members, sels


def ep_subcase(case, j, order, upto=None):
    """entry point j of a shared-member case, seen as an ordinary case of its OWN: its own dataset mode, return_ctx and
    member list (a standalone member call follows the member's own constructor configuration), on the given samples;
    upto = number of script steps already executed: the members carry the default_collate_mode they have NOW and the
    compose the members its list holds NOW (a FRESH compose of the same final members is the reference)"""
    ep = case["eps"][j]
    members, sels = state_at(case, 0 if upto is None else upto)
    sub = {k: v for k, v in case.items() if k not in ("family", "eps", "script", "mcfg")}
    sub.update(items=list(ep["items"]), rc=ep["rc"], entry=ep["entry"], order=list(order),
               members=[members[i] for i in sels[j]])
    return sub


def run_shared(case):
    """the member collators are built ONCE; then the script builds entry points around them (compose / wrapper; a
    standalone member is its own entry point) and calls them, in the given order; after every step the configuration
    attributes of every member and of every entry point built so far are read"""
    from kappadata.collators.base import KDComposeCollator, KDSingleCollatorWrapper
    log = []
    probe = {**case, "items": case["eps"][0]["items"], "rc": case["eps"][0]["rc"], "entry": "compose", "order": []}
    _, _, members, _ = _build(probe, log)
    eps = [None] * len(case["eps"])
    obs = {"res": "ok", "trace": [], "attrs0": _attrs(members), "steps": []}
    for n_step, step in enumerate(case["script"]):
        j = step[1]
        if step[0] in MUTATIONS:
            st = {"op": step[0], "ep": j}
            try:
                if step[0] == "setmode":
                    if case["members"][j][1] in SWITCHABLE:
                        members[j].mode = step[2]
                elif eps[j] is not None and case["eps"][j]["entry"] == "compose":
                    _, sels = state_at(case, n_step)
                    want = apply_edit(sels[j], len(members), step)
                    held = eps[j].collators                  # the list object the compose holds, edited in place
                    if step[2] == "insert" and len(want) > len(sels[j]):
                        held.insert(step[3] % (len(held) + 1), members[step[4]])
                    elif step[2] == "remove" and len(want) < len(sels[j]):
                        del held[step[3] % len(held)]
                    elif step[2] == "swap":
                        p, q = step[3] % len(held), step[4] % len(held)
                        held[p], held[q] = held[q], held[p]
            except Exception as e:  # noqa
                st["err"] = type(e).__name__ + ": " + str(e)[:200]
            st["members"] = _attrs(members)
            st["eps"] = _attrs([e if case["eps"][i]["entry"] != "single" else None for i, e in enumerate(eps)])
            obs["steps"].append(st)
            continue
        ep = case["eps"][j]
        mode = " ".join(ep["items"])
        st = {"op": step[0], "ep": j}
        if step[0] == "build":
            try:
                if ep["entry"] == "compose":
                    eps[j] = KDComposeCollator([members[i] for i in ep["sel"]], dataset_mode=mode, return_ctx=ep["rc"])
                elif ep["entry"] == "wrapper":
                    eps[j] = KDSingleCollatorWrapper(members[ep["sel"][0]], dataset_mode=mode, return_ctx=ep["rc"])
                else:
                    eps[j] = members[ep["sel"][0]]
            except Exception as e:  # noqa
                st["err"] = type(e).__name__ + ": " + str(e)[:200]
        else:
            sub = ep_subcase(case, j, step[2], n_step)
            _, sels_now = state_at(case, n_step)
            _, batch, _, _ = _build(sub, log, with_members=False)
            del log[:]
            entry = eps[j]
            o = _observe(lambda: entry(batch), sub, log)
            # member numbers -> positions in this entry point's own member list
            pos = {i: p for p, i in enumerate(sels_now[j])}
            st["passed"] = [e[2] for e in o["trace"] if e[0] == "call"]
            o["trace"] = [["call", pos.get(e[1], 100 + e[1])] if e[0] == "call" else e for e in o["trace"]]
            st["order"] = list(step[2])
            st["obs"] = o
        st["members"] = _attrs(members)
        st["eps"] = _attrs([e if case["eps"][i]["entry"] != "single" else None for i, e in enumerate(eps)])
        obs["steps"].append(st)
        obs["trace"] += [e for e in (st.get("obs") or {}).get("trace", [])]
    return obs


def oracle_shared(case, obs):
    a0 = obs["attrs0"]
    built = {}
    a0 = [dict(a) if a is not None else None for a in a0]
    for n_step, st in enumerate(obs["steps"]):
        j = st["ep"]
        if st["op"] in MUTATIONS:
            step = case["script"][n_step]
            where = f"step {n_step} ({step}) of script {case['script']}"
            if st.get("err"):
                return f"harness mutation step raised {st['err']} at {where}"
            members_now, _ = state_at(case, n_step + 1)
            if st["op"] == "setmode" and a0[j] is not None and "mode" in a0[j]:
                a0[j]["mode"] = members_now[j][0]               # the switched attribute is the new baseline
            if st["op"] == "edit" and j in built:
                if {k: v for k, v in st["eps"][j].items() if k != "collators"} != \
                        {k: v for k, v in built[j].items() if k != "collators"}:
                    return f"entry point {j} had its attributes changed from {built[j]} to {st['eps'][j]} by {where}"
                built[j] = st["eps"][j]                         # the edited member list is the new baseline
            for k, (now, was) in enumerate(zip(st["members"], a0)):
                if now != was:
                    return f"member collator {k} ({case['members'][k]}) shows attributes {now}, expected {was} after {where}"
            for i, was in built.items():
                if st["eps"][i] != was:
                    return f"entry point {i} had its attributes changed from {was} to {st['eps'][i]} by {where}"
            continue
        ep = case["eps"][j]
        mode = " ".join(ep["items"])
        members_now, sels_now = state_at(case, n_step)
        where = (f"step {n_step} ({'building' if st['op'] == 'build' else 'calling'} entry point {j}: {ep['entry']} over members "
                 f"{sels_now[j]} (built over {ep['sel']}), members now {members_now}, dataset_mode={mode!r}, "
                 f"return_ctx={ep['rc']}) of script {case['script']}")
        if st.get("err"):
            return f"constructor raised {st['err']} at {where}"
        # building or calling an entry point does not change the configuration attributes of its member collators
        for k, (now, was) in enumerate(zip(st["members"], a0)):
            if now != was:
                diff = {key: (was.get(key), now.get(key)) for key in set(was) | set(now) if was.get(key) != now.get(key)}
                return (f"member collator {k} ({case['members'][k]}) had its attributes changed {diff} (before, after) "
                        f"by {where}")
        # ... nor those of the other entry points
        if st["op"] == "build" and ep["entry"] != "single":
            built[j] = st["eps"][j]
            if (built[j]["dataset_mode"], built[j]["return_ctx"]) != (mode, ep["rc"]):
                return f"entry point does not carry the configuration it was given: {built[j]} after {where}"
        for i, was in built.items():
            if st["eps"][i] != was:
                return f"entry point {i} had its attributes changed from {was} to {st['eps'][i]} by {where}"
        if st["op"] == "call":
            sub = ep_subcase(case, j, st["order"], n_step)
            wrong = [m for m in st["passed"] if m != mode]
            if wrong:
                return (f"the members were handed dataset_mode {wrong[0]!r}, the entry point was configured with "
                        f"{mode!r}: {where}")
            msg = oracle(sub, st["obs"])
            if msg:
                return (f"an entry point built around SHARED member collators does not behave like a fresh configuration of "
                        f"its own (dataset_mode, return_ctx, the members its list holds NOW with the default_collate_mode "
                        f"they have NOW): {msg} -- at {where}; all entry points: {case['eps']}; "
                        f"member constructor configurations: {case['mcfg']}")
    return None


# ---------------------------------------------------------------------------
# independent Python statement of the property
# ---------------------------------------------------------------------------
def ref_collate(cols_of_samples):
    """per-sample item lists -> collated fields or 'ECollate'"""
    n = len(cols_of_samples[0])
    out = []
    for p in range(n):
        col = [s[p] for s in cols_of_samples]
        if all(v[0] == "s" and v[1] == col[0][1] for v in col):
            out.append(["vec", col[0][1], [v[2] for v in col]])
        elif all(v[0] == "q" and v[1:3] == col[0][1:3] for v in col) and len({len(v[3]) for v in col}) == 1:
            out.append(["mat", col[0][1], col[0][2], [[list(e) for e in v[3]] for v in col]])
        else:
            return "ECollate"
    return out


def ref_pad(cols_of_samples):
    """the property's padding clause: a column of sequences -> same dtype and trailing shape, every row = the
    sample's own steps followed by zero steps up to the largest number of steps in the batch; others as default"""
    n = len(cols_of_samples[0])
    out = []
    for p in range(n):
        col = [s[p] for s in cols_of_samples]
        if all(v[0] == "q" and v[1:3] == col[0][1:3] for v in col):
            M = max(len(v[3]) for v in col)
            zero = [0] * numel(col[0][2])
            out.append(["mat", col[0][1], col[0][2], [[list(e) for e in v[3]] + [list(zero) for _ in range(M - len(v[3]))]
                                                      for v in col]])
        elif all(v[0] == "s" and v[1] == col[0][1] for v in col):
            out.append(["vec", col[0][1], [v[2] for v in col]])
        else:
            return None
    return out


def add_c(f, c):
    """the marking member adds c to every number of a field"""
    if f[0] == "s":
        return ["s", f[1], f[2] + c]
    if f[0] == "vec":
        return ["vec", f[1], [a + c for a in f[2]]]
    if f[0] == "q":
        return ["q", f[1], f[2], [[a + c for a in e] for e in f[3]]]
    return ["mat", f[1], f[2], [[[a + c for a in e] for e in r] for r in f[3]]]


def expected(case):
    """-> ('reject',) | ('ok', batch, ctx|None) | ('err', 'ECollate') | None (nothing claimed)"""
    smp = samples_of(case)
    if is_ambiguous(case):
        return None
    keysets = {tuple(k for k, _ in c) for _, c in smp}
    if case["rc"] and len(keysets) != 1:
        return None
    items = [list(v) for v, _ in smp]
    ctx = None
    if case["rc"]:
        ctx = [[k, [c[j][1] for _, c in smp]] for j, (k, _) in enumerate(smp[0][1])]
    if case["entry"] == "direct":
        return ("ok", ["coll", ref_pad(items)], ctx)
    modes = [m[0] for m in case["members"]]
    if not well_ordered(modes):
        return ("reject",)
    p = next((i for i, m in enumerate(modes) if m != "none"), None)
    state = ["items", items]

    def collate():
        nonlocal state
        if state[0] != "items":
            return False
        r = ref_collate(state[1])
        if r == "ECollate":
            return "ECollate"
        state = ["coll", r]
        return True

    for k, (md, kind, arg) in enumerate(case["members"]):
        if k == p and md == "before":
            r = collate()
            if r == "ECollate":
                return ("err", "ECollate")
        if kind == "mark":
            if state[0] == "items":
                state = ["items", [[add_c(s[0], arg)] + s[1:] for s in state[1]]]
            else:
                f0 = state[1][0]
                state = ["coll", [add_c(f0, arg)] + state[1][1:]]
        elif kind == "ctxw" and ctx is not None:
            if any(kv[0] == arg for kv in ctx):
                ctx = [[kk, [arg]] if kk == arg else [kk, vv] for kk, vv in ctx]
            else:
                ctx = ctx + [[arg, [arg]]]
        elif kind in REAL_KEYS:
            # a real collator: keeps every item in place (x / class content is opaque here) and writes its keys
            if state[0] != "coll":
                return None
            if ctx is not None:
                for name in REAL_KEYS[kind]:
                    kid = KEY_IDS[name]
                    if any(kv[0] == kid for kv in ctx):
                        ctx = [[kk, []] if kk == kid else [kk, vv] for kk, vv in ctx]
                    else:
                        ctx = ctx + [[kid, []]]
        elif kind == "pad":
            state = ["coll", ref_pad(state[1])]
        if k == p and md == "after":
            r = collate()
            if r == "ECollate":
                return ("err", "ECollate")
    return ("ok", state, ctx)


def oracle(case, obs):
    if "harness_exception" in obs:
        return "harness exception: " + obs["harness_exception"] + obs.get("tb", "")
    if case.get("family") == "loader":
        return oracle_loader(case, obs)
    if case.get("family") == "shared":
        return oracle_shared(case, obs)
    tr = obs["trace"]
    passed = [e[2] for e in tr if e[0] == "call" and len(e) > 2]
    if any(m != " ".join(case["items"]) for m in passed):
        return (f"a member was handed dataset_mode {[m for m in passed if m != ' '.join(case['items'])][0]!r}, the entry "
                f"point was configured with {' '.join(case['items'])!r}")
    n_dc = sum(1 for e in tr if e[0] == "DC")
    if case.get("probe") == "ragged_ctx_keys":
        # the property's own words on contexts with different keys: nothing may be lost
        want = sorted({k for _, c in samples_of(case) for k, _ in c})
        if obs["res"] != "ok":
            return (f"per-sample contexts with keys {[[k for k, _ in c] for _, c in samples_of(case)]}: the call raised "
                    f"{obs['res']} {obs.get('msg', '')} instead of returning one batched context")
        got = sorted(k for k, _ in (obs["ctx"] or []))
        if got != want:
            return (f"per-sample contexts with keys {[[k for k, _ in c] for _, c in samples_of(case)]}: the batched context "
                    f"has keys {got}, key(s) {sorted(set(want) - set(got))} were lost without an error")
        return None
    if is_ambiguous(case):
        return None
    if n_dc > 1:
        return f"default_collate ran {n_dc} times on the batch: trace {tr}"
    exp = expected(case)
    if exp is None:
        return None
    desc = f"members={case['members']} mode={' '.join(case['items'])!r} rc={case['rc']} entry={case['entry']}"
    if exp[0] == "reject":
        if obs["res"] == "ok":
            return f"member order needs a second collation / per-sample input after collation but was not rejected ({desc})"
        return None
    if exp[0] == "err":
        if obs["res"] != exp[1]:
            return f"expected {exp[1]} (ragged sequences under default collation), got {obs['res']} {obs.get('msg', '')} ({desc})"
        return None
    if obs["res"] != "ok":
        return f"call raised {obs['res']} {obs.get('msg', '')} on a member list the constructor accepts ({desc})"
    if obs["returns_ctx"] != case["rc"]:
        return f"returns (batch, ctx) = {obs['returns_ctx']} but return_ctx = {case['rc']} ({desc})"
    if obs["batch"] != exp[1]:
        return f"batch differs: expected {exp[1]} got {obs['batch']} ({desc})"
    if case["rc"] and obs["ctx"] != exp[2]:
        return f"context differs: expected {exp[2]} got {obs['ctx']} ({desc})"
    if case["entry"] != "direct":
        modes = [m[0] for m in case["members"]]
        p = next((i for i, m in enumerate(modes) if m != "none"), None)
        calls = [e[1] for e in tr if e[0] == "call"]
        if calls != list(range(len(modes))):
            return f"members not called once each in order: {calls} ({desc})"
        if n_dc != (0 if p is None else 1):
            return f"default_collate ran {n_dc} times, members ask for {0 if p is None else 1} ({desc})"
        if p is not None:
            before = sum(1 for e in tr[:tr.index(['DC'])] if e[0] == "call")
            want = p if modes[p] == "before" else p + 1
            if before != want:
                return f"default_collate ran after {before} member calls, asked for after {want} ({desc})"
        n_cc = sum(1 for e in tr if e[0] == "CC")
        want_cc = 1 if case["rc"] and modes[0] != "before" else 0
        if n_cc != want_cc:
            return f"contexts collated separately {n_cc} times, expected {want_cc} ({desc})"
    return None


# ---------------------------------------------------------------------------
# rendering to Coq
# ---------------------------------------------------------------------------
def coq_applicable(case, obs):
    if "harness_exception" in obs:
        return False
    if case.get("family") == "shared":
        return all(st["op"] in ("build",) + MUTATIONS and not st.get("err") or
                   st["op"] == "call" and coq_applicable(ep_subcase(case, st["ep"], st["order"], n), st["obs"])
                   for n, st in enumerate(obs["steps"]))
    if is_ambiguous(case) or case.get("family") == "loader":
        return False
    if obs["res"] == "Other":
        return False
    if obs["res"] == "ok" and (obs["batch"][0] == "other" or (obs["batch"][1] is None)):
        return False
    return True


def _f(v):
    if v[0] == "s":
        return C("FScalar", Raw(DTYPES[v[1]]), v[2])
    return C("FSeq", Raw(DTYPES[v[1]]), [Nat(d) for d in v[2]], [list(e) for e in v[3]])


def _cf(c):
    if c[0] == "vec":
        return C("CVec", Raw(DTYPES[c[1]]), list(c[2]))
    return C("CMat", Raw(DTYPES[c[1]]), [Nat(d) for d in c[2]], [[list(e) for e in r] for r in c[3]])


def mode_ids(case):
    """dataset modes of a shared-member case -> numbers (their identity is all the model needs)"""
    ids = {}
    for cfg in [[ep["items"], ep["rc"]] for ep in case["eps"]] + [c for c in case["mcfg"] if c is not None]:
        ids.setdefault(" ".join(cfg[0]), len(ids))
    return ids


def coq_case(case, obs):
    if case.get("family") != "shared":
        return coq(C("XOne", Raw(_coq_call(case, obs))))
    ids = mode_ids(case)

    def attr(a):
        dm, rc = a["dataset_mode"], a["return_ctx"]
        return (Opt(None if dm is None else Nat(ids.get(dm, 999))), Opt(None if rc is None else bool(rc)))

    def snap(l):
        return [attr(a) for a in l] or Raw("(@nil mattr)")

    steps = []
    for n_step, st in enumerate(obs["steps"]):
        if st["op"] == "build" or st["op"] in MUTATIONS:
            # a mutation step (member mode switched / compose member list edited) leaves dataset_mode / return_ctx alone
            steps.append(C("OBuild", snap(st["members"])))
        else:
            ep = case["eps"][st["ep"]]
            sub = ep_subcase(case, st["ep"], st["order"], n_step)
            passed = [Nat(ids.get(m, 999)) for m in st["passed"]] or Raw("(@nil nat)")
            steps.append(C("OCall", Nat(ids[" ".join(ep["items"])]), passed, Raw(_coq_call(sub, st["obs"])),
                           snap(st["members"])))
    return coq(C("XHist", snap(obs["attrs0"]), steps or Raw("(@nil hobs)")))


def _coq_call(case, obs):
    smp = samples_of(case)
    if case["rc"]:
        raw = C("BRaw", [([_f(v) for v in vals], [(k, v) for k, v in ctx]) for vals, ctx in smp])
    else:
        raw = C("BItems", [[_f(v) for v in vals] for vals, _ in smp])
    def mk(kind, arg):
        if kind in REAL_KEYS:
            return C("KAddKeys", [KEY_IDS[name] for name in REAL_KEYS[kind]])
        return {"id": C("KId"), "mark": C("KMark", arg), "ctxw": C("KCtxWrite", arg), "pad": C("KPad")}[kind]
    mks = [(Raw(MODES[md]), mk(kind, arg)) for md, kind, arg in case["members"]]
    entry = {"compose": 0, "single": 1, "wrapper": 2, "direct": 3, "mae": 0}[case["entry"]]
    tr = [C("DefaultCollate") if e[0] == "DC" else C("CollateCtx") if e[0] == "CC" else C("Call", Nat(e[1]))
          for e in obs["trace"]]
    if obs["res"] == "ok":
        b = obs["batch"]
        cctx = None if obs["ctx"] is None else [(k, list(v)) for k, v in obs["ctx"]]
        if b[0] == "coll":
            if case["entry"] == "direct" and case["rc"]:
                res = C("Ok", C("BCollCtx", [_cf(c) for c in b[1]], cctx if cctx is not None else []), Opt(None))
            else:
                res = C("Ok", C("BColl", [_cf(c) for c in b[1]]), Opt(cctx))
        else:
            res = C("Ok", C("BItems", [[_f(v) for v in s] for s in b[1]]), Opt(cctx))
    else:
        res = C("Fail", C(obs["res"]))
    return coq((case["rc"], Nat(entry), mks, raw, tr, res))


def features_shared(case, obs):
    yield "entry=shared"
    yield "family=shared member objects"
    eps = case["eps"]
    yield "shared: %d entry points (%s)" % (len(eps), ",".join(sorted(e["entry"] for e in eps)))
    yield "shared: %d members" % len(case["members"])
    cfgs = [(" ".join(e["items"]), e["rc"]) for e in eps]
    if len({m for m, _ in cfgs}) > 1:
        yield "shared: entry points with different dataset modes"
    if len({r for _, r in cfgs}) > 1:
        yield "shared: entry points with different return_ctx"
    if len(set(cfgs)) < len(cfgs):
        yield "shared: two entry points with the same configuration"
    if any(c is not None for c in case["mcfg"]) and any(e["entry"] != "single" for e in eps):
        yield "shared: a member configured for standalone use is also wrapped / composed"
    builds = [i for i, st in enumerate(case["script"]) if st[0] == "build"]
    calls = [i for i, st in enumerate(case["script"]) if st[0] == "call"]
    if builds and calls and max(builds) > min(calls):
        yield "shared: an entry point is built after another one was already called"
    per = {}
    for st in case["script"]:
        if st[0] == "call":
            per[st[1]] = per.get(st[1], 0) + 1
    if any(v > 1 for v in per.values()):
        yield "shared: an entry point called several times"
    for st in obs.get("steps", []):
        if st["op"] == "call":
            yield "shared call: res=" + st["obs"].get("res", "?")
    muts = [(i, st) for i, st in enumerate(case["script"]) if st[0] in MUTATIONS]
    for i, st in muts:
        later = any(c[0] == "call" for c in case["script"][i + 1:])
        yield "shared mutation: " + (st[0] if st[0] == "setmode" else "edit-" + st[2]) + (" then called" if later else " (never called after)")
    if not muts:
        yield "shared mutation: none"
    for m in case["members"]:
        yield "kind=" + m[1]


def features(case, obs):
    if case.get("family") == "shared":
        yield from features_shared(case, obs)
        return
    yield "entry=" + case["entry"]
    yield "family=" + case.get("family", "tiny members")
    yield "rc=%s" % case["rc"]
    yield "modes=" + ",".join(m[0][0] for m in case["members"])
    yield "res=" + obs.get("res", "harness_exception")
    yield "n_items=%d" % len(case["items"])
    yield "profile=" + case["profile"]
    if is_ambiguous(case):
        yield "ambiguous(self-collating None member followed by a collating member)"
    for m in case["members"]:
        yield "kind=" + m[1]
    if case.get("family") == "loader":
        yield "loader: workers=%d" % case["workers"]
        yield "loader: batches=%d" % len(loader_batches(case))
    yield "B=%d" % len(case["order"])
    padded = any(m[1] == "pad" for m in case["members"])
    for it in case["items"]:
        k = _kind_key(case, it)
        if k == "index":
            yield "item=index"
        elif k[0] == "opaque":
            yield "item=opaque/" + k[1]
        elif k[0] == "scalar":
            yield "item=scalar/%s/%s" % (k[1], "python" if k[2] else "0-d tensor")
        else:
            yield "item=seq/rank%d" % k[2]
            yield "item=seq/%s" % k[1]
            if padded:
                yield "padded seq: rank%d %s" % (k[2], k[3])


def nontrivial_key(case, obs):
    if case.get("family") == "shared":
        if not any(st["op"] == "call" and any(e[0] == "call" for e in st["obs"].get("trace", [])) for st in obs.get("steps", [])):
            return None
        return ("shared", tuple((m[0], m[1]) for m in case["members"]), repr(case["mcfg"]),
                tuple((e["entry"], " ".join(e["items"]), e["rc"], tuple(e["sel"])) for e in case["eps"]),
                tuple((st[0], st[1]) + (tuple(st[2:]) if st[0] in MUTATIONS else ()) for st in case["script"]))
    if case.get("family") == "loader":
        return ("loader", case["batch_size"], case["workers"], case["drop_last"], case["entry"], case["rc"],
                tuple((m[0], m[1]) for m in case["members"]))
    if not any(e[0] == "call" for e in obs.get("trace", [])) and case["entry"] != "direct":
        return None
    return (case["entry"], case["rc"], tuple((m[0], m[1]) for m in case["members"]),
            tuple(_kind_key(case, it) for it in case["items"]), case["profile"])


def _kind_key(case, it):
    if it == "index":
        return "index"
    kd = kind_of(case, it)
    if kd["k"] == "opaque":
        return ("opaque", it)
    if kd["k"] == "scalar":
        return ("scalar", kd["d"], kd["py"])
    lens = {len(case["rows"][i][it]) for i in case["order"]}
    return ("seq", kd["d"], len(kd["tr"]) + 1, "empty" if lens == {0} else "equal" if len(lens) == 1 else "ragged")
