(* Generic theory of random-generator plumbing in object trees (C07, C08, C09).

   MODEL + SPEC, no proofs in this file (Proofs.v has them).

   A *class descriptor* says, for one Python class, what the fail-closed
   translator harness/translate_rng.py read off its source:
     - which fields hold child transforms (and, when the constructor builds the
       child itself, the child's static class),
     - what the class's effective `set_rng` does (assign self.rng, forward to
       which fields, behind which isinstance guard),
     - where the draws of one `__call__` may come from (self.rng, a
       process-global generator), and which child fields are called.
   The concrete table lives in gen/RngTable.v and is regenerated on every run.

   An *object tree* is a live object graph of such classes, of any depth and
   width; every node has an optional generator slot whose *provenance* records
   who seeded it.  `set_rng`, `draws`, wrapper `getitem` and dataset
   `worker_init` are the three traversals the three properties talk about.   *)
From Coq Require Import ZArith List Bool String.
Import ListNotations.
Open Scope string_scope.

(* ---------------------------------------------------------------- *)
(* provenance of a generator                                          *)
(* ---------------------------------------------------------------- *)
Inductive gsrc := GNumpy | GTorch | GPython | GFresh.   (* GFresh: default_rng() without seed (OS entropy) *)

Inductive prov :=
| Ctor (k : nat)      (* seeded at construction time from the global NumPy RNG (get_rng_from_global in __init__);
                         inside a dataloader worker this is the slot *copied* from the parent process *)
| Inj (s : Z)         (* injected through set_rng, generator seeded with s *)
| Wrk (k : nat)       (* seeded from the k-th draw of the worker's own global NumPy RNG (worker_init_fn) *)
| Glob (g : gsrc).    (* a process-global / entropy source used directly *)

Definition gsrc_eqb (a b : gsrc) : bool :=
  match a, b with GNumpy, GNumpy | GTorch, GTorch | GPython, GPython | GFresh, GFresh => true | _, _ => false end.

Definition prov_eqb (a b : prov) : bool :=
  match a, b with
  | Ctor x, Ctor y => Nat.eqb x y
  | Inj x, Inj y => Z.eqb x y
  | Wrk x, Wrk y => Nat.eqb x y
  | Glob x, Glob y => gsrc_eqb x y
  | _, _ => false
  end.

(* ---------------------------------------------------------------- *)
(* class descriptors                                                  *)
(* ---------------------------------------------------------------- *)
Inductive guard := GAny | GIsa (classes : list string).

Record desc := mkDesc {
  d_name : string;
  d_mro : list string;                      (* the class and all its bases *)
  d_fields : list (string * list string);   (* child fields; static classes ([] = whatever the user passed) *)
  d_set_self : bool;                        (* effective set_rng assigns self.rng *)
  d_set_fwd : list (string * guard);        (* effective set_rng forwards to these fields *)
  d_draw_self : bool;                       (* some call-reachable draw is rooted at self.rng *)
  d_draw_glob : list gsrc;                  (* call-reachable draws from process-global sources *)
  d_calls : list string                     (* child fields that are called *)
}.

Definition table := list desc.

Definition mem (x : string) (l : list string) : bool := existsb (String.eqb x) l.

Fixpoint assoc {A} (x : string) (l : list (string * A)) : option A :=
  match l with
  | [] => None
  | (k, v) :: l' => if String.eqb x k then Some v else assoc x l'
  end.

Definition lookup (tbl : table) (c : string) : option desc :=
  find (fun d => String.eqb c (d_name d)) tbl.

Definition is_nil {A} (l : list A) : bool := match l with [] => true | _ => false end.

(* ---------------------------------------------------------------- *)
(* object trees                                                       *)
(* ---------------------------------------------------------------- *)
Inductive tree := Node (cls : string) (slot : option prov) (kids : list (string * list tree)).

Definition cls_of (t : tree) : string := match t with Node c _ _ => c end.
Definition slot_of (t : tree) : option prov := match t with Node _ s _ => s end.

(* isinstance(obj_of_class_c, guard) *)
Definition admits (tbl : table) (g : guard) (c : string) : bool :=
  match g with
  | GAny => true
  | GIsa cs => match lookup tbl c with
               | Some d => existsb (fun b => mem b cs) (d_mro d)
               | None => false
               end
  end.

(* t.set_rng(generator of provenance p), dispatched on the dynamic class of every node *)
Fixpoint set_rng (tbl : table) (p : prov) (t : tree) : tree :=
  match t with
  | Node c slot kids =>
      match lookup tbl c with
      | None => t
      | Some d =>
          Node c (if d_set_self d then Some p else slot)
               (map (fun fk : string * list tree =>
                       match assoc (fst fk) (d_set_fwd d) with
                       | None => fk
                       | Some g => (fst fk, map (fun k => if admits tbl g (cls_of k) then set_rng tbl p k else k) (snd fk))
                       end) kids)
      end
  end.

(* provenance of every generator one __call__ of t may draw from (over-approximation:
   every branch is assumed to be taken) *)
Fixpoint draws (tbl : table) (t : tree) : list prov :=
  match t with
  | Node c slot kids =>
      match lookup tbl c with
      | None => []
      | Some d =>
          (if d_draw_self d then match slot with Some p => [p] | None => [] end else [])
            ++ map Glob (d_draw_glob d)
            ++ flat_map (fun fk : string * list tree =>
                           if mem (fst fk) (d_calls d) then flat_map (draws tbl) (snd fk) else []) kids
      end
  end.

(* the tree is an instance of the table: known classes, declared fields, static classes respected *)
Fixpoint wf (tbl : table) (t : tree) : bool :=
  match t with
  | Node c slot kids =>
      match lookup tbl c with
      | None => false
      | Some d =>
          forallb (fun fk : string * list tree =>
                     match assoc (fst fk) (d_fields d) with
                     | None => false
                     | Some cs => forallb (fun k => (is_nil cs || mem (cls_of k) cs) && wf tbl k) (snd fk)
                     end) kids
      end
  end.

(* all slots of the tree, preorder (used by the correspondence check) *)
Fixpoint slots (t : tree) : list (option prov) :=
  match t with
  | Node c slot kids => slot :: flat_map (fun fk : string * list tree => flat_map slots (snd fk)) kids
  end.

(* the tree without its generator slots *)
Fixpoint erase (t : tree) : tree :=
  match t with
  | Node c _ kids => Node c None (map (fun fk : string * list tree => (fst fk, map erase (snd fk))) kids)
  end.

(* ---------------------------------------------------------------- *)
(* the static condition on a table                                    *)
(* ---------------------------------------------------------------- *)
(* a class whose __call__ can never draw, whatever its slots hold *)
Definition quiet (d : desc) : bool :=
  negb (d_draw_self d) && is_nil (d_draw_glob d) && is_nil (d_calls d).

Definition quiet_cls (tbl : table) (c : string) : bool :=
  match lookup tbl c with Some d => quiet d | None => false end.

(* a called child field is fine when set_rng forwards to it behind a guard that admits every
   non-quiet class the field can hold, or when it can only hold quiet classes *)
Definition field_ok (tbl : table) (d : desc) (f : string) : bool :=
  match assoc f (d_fields d) with
  | None => false
  | Some cs =>
      let candidates := if is_nil cs then map d_name tbl else cs in
      match assoc f (d_set_fwd d) with
      | Some g => forallb (fun c => quiet_cls tbl c || admits tbl g c) candidates
      | None => forallb (quiet_cls tbl) candidates
      end
  end.

Definition closed (tbl : table) (d : desc) : bool :=
  is_nil (d_draw_glob d)
  && implb (d_draw_self d) (d_set_self d)
  && forallb (field_ok tbl d) (d_calls d).

Definition open_classes (tbl : table) : list string :=
  map d_name (filter (fun d => negb (closed tbl d)) tbl).

(* ---------------------------------------------------------------- *)
(* C08: seeded sample wrappers                                        *)
(* ---------------------------------------------------------------- *)
(* where a draw made by the wrapper's own getitem code comes from *)
Inductive lsrc := LSeeded | LGlob (g : gsrc).      (* LSeeded: the per-item default_rng(seed + idx) *)

Record wdesc := mkWDesc {
  w_name : string;
  w_fields : list (string * list string);    (* transform-valued fields, static classes *)
  w_inject : list (string * guard);          (* seeded path: fields that get set_rng(default_rng(seed+idx)) before use *)
  w_calls : list string;                     (* transform fields called by getitem *)
  w_local : list lsrc;                       (* draws of the wrapper itself on the seeded path *)
  w_local_u : list gsrc;                     (* C09: draws of the wrapper itself on the UNSEEDED path (seed=None):
                                                GNumpy = the process-global NumPy RNG (GlobalRng), GFresh = OS entropy
                                                (default_rng(None)) *)
  w_wi : list (string * guard)               (* C09: fields whose members get transform.worker_init_fn in _worker_init_fn *)
}.

Definition wtable := list wdesc.
Definition wlookup (wt : wtable) (c : string) : option wdesc := find (fun d => String.eqb c (w_name d)) wt.

Inductive wobj := WObj (cls : string) (kids : list (string * list tree)).

Definition inject_kids (tbl : table) (fwd : list (string * guard)) (p : prov) (kids : list (string * list tree)) :=
  map (fun fk : string * list tree =>
         match assoc (fst fk) fwd with
         | None => fk
         | Some g => (fst fk, map (fun k => if admits tbl g (cls_of k) then set_rng tbl p k else k) (snd fk))
         end) kids.

Definition called_draws (tbl : table) (calls : list string) (kids : list (string * list tree)) : list prov :=
  flat_map (fun fk : string * list tree => if mem (fst fk) calls then flat_map (draws tbl) (snd fk) else []) kids.

(* state of the wrapper after serving item i with base seed `seed` *)
Definition getitem_state (tbl : table) (wt : wtable) (seed i : Z) (w : wobj) : wobj :=
  match w with WObj c kids =>
    match wlookup wt c with
    | None => w
    | Some d => WObj c (inject_kids tbl (w_inject d) (Inj (seed + i)) kids)
    end
  end.

(* provenance of all draws made while serving item i *)
Definition getitem_draws (tbl : table) (wt : wtable) (seed i : Z) (w : wobj) : list prov :=
  match getitem_state tbl wt seed i w with WObj c kids =>
    match wlookup wt c with
    | None => []
    | Some d =>
        map (fun l => match l with LSeeded => Inj (seed + i) | LGlob g => Glob g end) (w_local d)
          ++ called_draws tbl (w_calls d) kids
    end
  end.

Definition run_history (tbl : table) (wt : wtable) (seed : Z) (hist : list Z) (w : wobj) : wobj :=
  fold_left (fun st i => getitem_state tbl wt seed i st) hist w.

Definition kids_wf (tbl : table) (fields : list (string * list string)) (kids : list (string * list tree)) : bool :=
  forallb (fun fk : string * list tree =>
             match assoc (fst fk) fields with
             | None => false
             | Some cs => forallb (fun k => (is_nil cs || mem (cls_of k) cs) && wf tbl k) (snd fk)
             end) kids.

Definition wwf (tbl : table) (wt : wtable) (w : wobj) : bool :=
  match w with WObj c kids =>
    match wlookup wt c with None => false | Some d => kids_wf tbl (w_fields d) kids end
  end.

Definition wfield_ok (tbl : table) (fields : list (string * list string)) (fwd : list (string * guard)) (f : string) : bool :=
  match assoc f fields with
  | None => false
  | Some cs =>
      let candidates := if is_nil cs then map d_name tbl else cs in
      match assoc f fwd with
      | Some g => forallb (fun c => quiet_cls tbl c || admits tbl g c) candidates
      | None => forallb (quiet_cls tbl) candidates
      end
  end.

Definition wclosed (tbl : table) (d : wdesc) : bool :=
  forallb (fun l => match l with LSeeded => true | LGlob _ => false end) (w_local d)
  && forallb (wfield_ok tbl (w_fields d) (w_inject d)) (w_calls d).

Definition wopen_classes (tbl : table) (wt : wtable) : list string :=
  map w_name (filter (fun d => negb (wclosed tbl d)) wt).

(* ---------------------------------------------------------------- *)
(* C09: worker initialisation over dataset stacks                     *)
(* ---------------------------------------------------------------- *)
(* what the worker_init_fn of the dataset classes does (read off the source by the translator) *)
Record dsdesc := mkDsDesc {
  ds_fwd : list (string * bool);   (* ModeWrapper, KDSubset, KDConcatDataset, _InterleavedConcatDataset:
                                      worker_init_fn forwards to every wrapped dataset *)
  ds_wrapper : bool;               (* KDWrapper.worker_init_fn = own _worker_init_fn, then the wrapped dataset *)
  ds_root : bool;                  (* KDDataset.worker_init_fn: one generator seeded from the global RNG, handed to
                                      every registered collator *)
  ds_transform : bool              (* KDTransform.worker_init_fn (no subclass may override it) re-seeds UNCONDITIONALLY:
                                      `self.set_rng(get_rng_from_global())` is a top-level statement of its body, not
                                      behind any branch (worker info, worker count, rank, environment, a flag on the
                                      object), no early exit in front of it, no state written *)
}.

Inductive dstack :=
| DRoot (collators : list tree)
| DWrap (w : wobj) (inner : dstack)
| DFwd (cls : string) (inner : list dstack).

(* fresh generators are numbered by the order in which get_rng_from_global() draws their seeds;
   `set_rng tbl (Wrk k) t` is what transform.worker_init_fn(rank) does to an admitted member when the hook of
   KDTransform has the understood shape (ds_transform; otherwise worker_init leaves the wrapper's transforms alone) *)
Fixpoint wi_trees (tbl : table) (g : guard) (k : nat) (ts : list tree) : nat * list tree :=
  match ts with
  | [] => (k, [])
  | t :: ts' =>
      if admits tbl g (cls_of t)
      then let '(k', r) := wi_trees tbl g (S k) ts' in (k', set_rng tbl (Wrk k) t :: r)
      else let '(k', r) := wi_trees tbl g k ts' in (k', t :: r)
  end.

(* one loop of _worker_init_fn: the members of the entries named f, admitted by g, are re-seeded in list order *)
Fixpoint wi_pass (tbl : table) (f : string) (g : guard) (k : nat) (l : list (string * list tree))
  : nat * list (string * list tree) :=
  match l with
  | [] => (k, [])
  | fk :: l' =>
      if String.eqb (fst fk) f
      then let '(k1, ts') := wi_trees tbl g k (snd fk) in
           let '(k2, r) := wi_pass tbl f g k1 l' in (k2, (fst fk, ts') :: r)
      else let '(k2, r) := wi_pass tbl f g k l' in (k2, fk :: r)
  end.

(* _worker_init_fn of the wrapper iterates ITS OWN field list (w_wi), in that order *)
Fixpoint wi_fields (tbl : table) (wi : list (string * guard)) (k : nat) (kids : list (string * list tree))
  : nat * list (string * list tree) :=
  match wi with
  | [] => (k, kids)
  | (f, g) :: wi' =>
      let '(k', kids') := wi_pass tbl f g k kids in
      wi_fields tbl wi' k' kids'
  end.

Definition forwards (ds : dsdesc) (c : string) : bool :=
  match assoc c (ds_fwd ds) with Some b => b | None => false end.

Fixpoint worker_init (tbl ctbl : table) (wt : wtable) (ds : dsdesc) (k : nat) (s : dstack) : nat * dstack :=
  match s with
  | DRoot cs => if ds_root ds then (S k, DRoot (map (set_rng ctbl (Wrk k)) cs)) else (k, s)
  | DWrap (WObj c kids) inner =>
      if ds_wrapper ds then
        let '(k1, kids') := match wlookup wt c with
                            | Some d => if ds_transform ds then wi_fields tbl (w_wi d) k kids else (k, kids)
                            | None => (k, kids)
                            end in
        let '(k2, inner') := worker_init tbl ctbl wt ds k1 inner in
        (k2, DWrap (WObj c kids') inner')
      else (k, s)
  | DFwd c inner =>
      if forwards ds c then
        let '(k', r) :=
          (fix go (k : nat) (l : list dstack) : nat * list dstack :=
             match l with
             | [] => (k, [])
             | x :: l' => let '(k1, x') := worker_init tbl ctbl wt ds k x in
                          let '(k2, r) := go k1 l' in (k2, x' :: r)
             end) k inner in
        (k', DFwd c r)
      else (k, s)
  end.

Definition dsclosed (ds : dsdesc) : bool :=
  forallb (fun cb : string * bool => snd cb) (ds_fwd ds) && ds_wrapper ds && ds_root ds && ds_transform ds.

(* the draws of a wrapper's own per-item code on the unseeded path *)
Definition own_draws (wt : wtable) (c : string) : list prov :=
  match wlookup wt c with Some d => map Glob (w_local_u d) | None => [] end.

(* every generator a sample or a batch produced from this stack may draw from
   (unseeded wrappers: no per-item re-injection; the wrapper's own draws come first) *)
Fixpoint stack_draws (tbl ctbl : table) (wt : wtable) (s : dstack) : list prov :=
  match s with
  | DRoot cs => flat_map (draws ctbl) cs
  | DWrap (WObj c kids) inner =>
      own_draws wt c ++
      (match wlookup wt c with
       | Some d => called_draws tbl (w_calls d) kids
       | None => []
       end) ++ stack_draws tbl ctbl wt inner
  | DFwd _ inner => flat_map (stack_draws tbl ctbl wt) inner
  end.

Fixpoint swf (tbl ctbl : table) (wt : wtable) (s : dstack) : bool :=
  match s with
  | DRoot cs => forallb (wf ctbl) cs
  | DWrap w inner => wwf tbl wt w && swf tbl ctbl wt inner
  | DFwd _ inner => forallb (swf tbl ctbl wt) inner
  end.

(* static condition for C09: every called transform field is reached by _worker_init_fn
   behind a guard that admits all non-quiet classes, or holds only quiet classes,
   and the wrapper's own unseeded draws never come from OS entropy *)
Definition not_fresh (g : gsrc) : bool := negb (gsrc_eqb g GFresh).

Definition wiclosed (tbl : table) (d : wdesc) : bool :=
  forallb not_fresh (w_local_u d)
  && forallb (wfield_ok tbl (w_fields d) (w_wi d)) (w_calls d).

Definition wiopen_classes (tbl : table) (wt : wtable) : list string :=
  map w_name (filter (fun d => negb (wiclosed tbl d)) wt).

Definition is_wrk_in (lo hi : nat) (p : prov) : bool :=
  match p with Wrk j => Nat.leb lo j && Nat.ltb j hi | _ => false end.

(* a stream derived from the worker's seed: a generator seeded from the j-th draw the hook made from the worker's
   global NumPy RNG (lo <= j < hi), or one of the worker's process-global generators themselves (the DataLoader seeds
   numpy / torch / random of every worker process from base_seed + worker_id: torch.utils.data._utils.worker, trusted).
   NOT worker-derived: an inherited copy (Ctor), a per-item generator (Inj), OS entropy (GFresh). *)
Definition worker_derived (lo hi : nat) (p : prov) : bool :=
  match p with
  | Wrk j => Nat.leb lo j && Nat.ltb j hi
  | Glob g => not_fresh g
  | _ => false
  end.
