"""C07 - an injected seed fully determines an augmentation, and nothing else does.

Proof side: coq/C07 (generic theory RngGraph.v + table regenerated from the sources on every run).
Dynamic side (this module): for every shipped stochastic class and for random compositions, two instances are
constructed independently under different global seeds, advanced by different histories (calls, earlier
injections, worker_init_fn), then the same seed is injected (a spy generator into one, a plain generator into
the other) and both are run on the same inputs with the global-RNG tripwire armed.
"""
import traceback

from . import rnglive as L
from . import translate_rng as T
from .common import coq, Raw

ID = "C07"
COQ_FILES = ["C07/RngGraph.v", "C07/gen/RngTable.v", "C07/Check.v", "C07/Proofs.v", "C07/TableProofs.v",
             "C07/PropertyC07.v"]
COQ_PRELUDE = L.COQ_PRELUDE
COQ_CHECK = "check"
COQ_CASE_TYPE = "case_t"
SHARD = 150
TRUSTED = L.TRUSTED_COMMON + [
    "translator self-test (every run): 19 synthetic transform / wrapper classes with shapes outside the accepted list "
    "(translate_rng.ACCEPTS) must abort, 3 well-formed controls must be accepted",
    "equal draw sequences give equal pixels: torchvision / PIL / torch determinism (observed by comparing the two "
    "instances bit for bit, not proved)",
    "aliasing probe: address ranges of the storages behind returned tensors / arrays against those of every tensor / "
    "ndarray found through vars() of the transform objects (depth 4 through lists, dicts, helper objects); memory held "
    "elsewhere (closures, module globals, C extensions) is only seen through the kept-output re-comparison",
    "in-place-on-input classes (rnglive.INPLACE_ON_INPUT: KDImageNorm / KDImageRangeNorm with their documented default "
    "inplace=True, KDThreshold / KDRandomThreshold, KDRandomErasing, PatchwiseRandomRotation, KDMagnitudeJitter(inplace=True), "
    "KDColumnwiseNorm(inplace=True), KDBucketize) are listed by hand from the sources; compositions containing one are "
    "exempt from the input-unchanged clause (never from the kept-output clause)",
]
ASSUMPTIONS = [
    "compositions are object TREES (no transform instance shared between two places)",
    "user-supplied members are KappaData transforms or deterministic callables",
    "classes under kappadata/transforms/** and kappadata/common/transforms/** (the translator walks the directories)",
]
ALLOWED_AXIOMS = []
RULE = ("every registered class x every constructor-argument set as a leaf and inside KDComposeTransform, plus random "
        "trees (depth<=4) of compose / random-apply / patchwise / scheduled / transform-choice over shape-preserving "
        "leaves and foreign callables, plus the ready-made pipelines on PIL input; per case two global seeds, two "
        "different histories (calls, earlier injections, worker_init_fn), 2-5 inputs OF ONE SHAPE on one object (the same "
        "input repeated in ~20%), injected seed 0 in ~12% of the cases; every registered leaf class x argument set also on "
        "float64 / float16 / bfloat16 / uint8 / int64 tensors and PIL modes L / RGBA, random trees on a non-default dtype "
        "in ~40%; every returned output and recorded ctx is KEPT (the objects themselves) and compared again, after all "
        "later calls and the re-injection, with the snapshot taken when it was returned, and its memory must not overlap "
        "any tensor / array reachable from the attributes of the transform tree; the tensor handed in must be unchanged "
        "unless the tree contains a class that works in place on its input (rnglive.INPLACE_ON_INPUT); non-trivial = the injected "
        "generator was drawn from and no call raised; distinct by (tree signature, input kind, history shapes)")


def pre_build():
    T.regenerate()


# ---------------------------------------------------------------------------
# cases
# ---------------------------------------------------------------------------
def _history(rng, allow_wi):
    h = []
    for _ in range(rng.choice([0, 1, 2, 3])):
        h.append(rng.choice([["call", rng.randrange(1000)], ["call", rng.randrange(1000)],
                             ["inject", rng.choice([0, rng.randrange(100)])]]))
    return h


def pick_dtype(rng, kind):
    """input dtype (tensor kinds) / image mode (PIL): float32 / RGB in ~60% of the cases"""
    if rng.random() < 0.6:
        return None
    if kind == "pil":
        return rng.choice(L.PIL_MODES[1:])
    return rng.choice(L.TENSOR_DTYPES[1:])


def mk_case(rng, spec, kind, S, dtype="pick"):
    wi = rng.random() < 0.3
    if dtype == "pick":
        dtype = pick_dtype(rng, kind)
    return {"kind": "tree", "spec": spec, "input": kind, "S": S, "dtype": dtype,
            "xrep": rng.random() < 0.2,      # the same input several times in a row (same shape in any case)
            "seed": 0 if rng.random() < 0.12 else rng.randrange(10 ** 6),     # 0 is a seed like any other (falsy!)
            "ga": rng.randrange(10 ** 6), "gb": rng.randrange(10 ** 6), "ha": _history(rng, wi), "hb": _history(rng, wi),
            "wi": wi, "n": rng.choice([2, 3, 5]), "xseed": rng.randrange(10 ** 6)}


def class_cases(rng, info, reps=1):
    out = []
    names = [d["name"] for d in info["classes"]]
    for d in info["classes"]:
        name = d["name"]
        if name in L.ABSTRACT or name in L.CONTAINERS:
            continue
        needs = d["draw_self"] or d["calls"] or d["draw_glob"]
        if name not in L.REG:
            if needs:
                out.append({"kind": "unregistered", "cls": name})
            continue
        for _ in range(reps):
            for a, (kind, _) in enumerate(L.REG[name]):
                S = 32 if kind == "pil" else 16
                out.append(mk_case(rng, {"c": name, "a": a}, kind, S, dtype=None))
                # every other input dtype / image mode (kept outputs, see run_impl)
                for dt in (L.PIL_MODES[1:] if kind == "pil" else L.TENSOR_DTYPES[1:]):
                    out.append(mk_case(rng, {"c": name, "a": a}, kind, S, dtype=dt))
                if kind != "semseg":   # KDComposeTransform maps over tuples, semseg pairs are not composable that way
                    out.append(mk_case(rng, {"c": "KDComposeTransform", "k": [{"c": name, "a": a}]}, kind, S))
    for c in L.CONTAINERS:
        if c not in names:
            out.append({"kind": "unregistered", "cls": c, "why": "container"})
    return out


def tree_case(rng):
    S = rng.choice([16, 16, 8])
    depth = rng.choice([1, 2, 2, 3, 3, 4])
    spec = L.gen_tree(rng, depth, S)
    if spec["c"] == L.FOREIGN:
        spec = {"c": "KDComposeTransform", "k": [spec]}
    return mk_case(rng, spec, "img", S)


def gen_cases(rng, tier):
    info = T.regenerate()
    out = []
    if info["errors"]:
        out.append({"kind": "translator", "errors": info["errors"]})
    # the translator is trusted modulo the live comparison; its fail-closed behaviour is tested on synthetic sources
    out.append({"kind": "translator_selftest"})
    out += class_cases(rng, info, reps=1 if tier == "quick" else 3)
    out += [tree_case(rng) for _ in range(200 if tier == "quick" else 3000)]
    return out


def search_cases(rng, tier):
    info = T.regenerate()
    # directed: the classes the table / translator complains about first
    first = set()
    for e in info["errors"]:
        first.add(e.split(":")[0].strip())
    for d in info["classes"]:
        calls_unforwarded = [f for f in d["calls"] if f not in [x for x, _ in d["set_fwd"]]]
        if calls_unforwarded or d["draw_glob"]:
            first.add(d["name"])
    for name in sorted(first):
        if name in L.CONTAINERS:
            for leaf in ("KDRandomHorizontalFlip", "KDRandomCrop"):
                for _ in range(3):
                    yield mk_case(rng, {"c": name, "k": [{"c": leaf, "a": 0}]}, "img", 16)
        elif name in L.REG:
            for a, (kind, _) in enumerate(L.REG[name]):
                for _ in range(3):
                    yield mk_case(rng, {"c": name, "a": a}, kind, 32 if kind == "pil" else 16)
    for c in class_cases(rng, info, reps=2):
        yield c
    for _ in range(4000):
        yield tree_case(rng)


def shrink(case):
    if case.get("kind") != "tree":
        return
    for s in L.shrink_spec(case["spec"]):
        if L.spec_input_kind(s) == case["input"] or s["c"] in L.CONTAINERS:
            yield {**case, "spec": s}
    if case["ha"]:
        yield {**case, "ha": case["ha"][:-1]}
    if case["hb"]:
        yield {**case, "hb": case["hb"][:-1]}
    if case["wi"]:
        yield {**case, "wi": False}
    if case["n"] > 1:
        yield {**case, "n": case["n"] - 1}
    if case.get("dtype") is not None:
        yield {**case, "dtype": None}
    if case.get("xrep"):
        yield {**case, "xrep": False}


# ---------------------------------------------------------------------------
# running the real code
# ---------------------------------------------------------------------------
def _call(t, x, kept=None):
    """one call; with `kept` the returned objects themselves (output, context, the tensor handed in) are retained
    together with the snapshot taken at return time, to be looked at again after all later calls"""
    ctx = {}
    xin = L.clone_input(x)
    try:
        out = t(xin, ctx=ctx)
        snap = [L.canon(out), L.canon(ctx)]
    except Exception as e:  # noqa
        return ["EXC", type(e).__name__, str(e)[:120]]
    if kept is not None:
        kept.append({"out": out, "ctx": ctx, "snap": snap, "xin": xin, "x": x,
                     "alias": L.aliases_internal([out, ctx], t)})
    return snap


def _kept_report(kept):
    """look at the retained objects again: [index, what, at return time, now]"""
    bad = []
    for i, k in enumerate(kept):
        now = [L.canon(k["out"]), L.canon(k["ctx"])]
        if now != k["snap"]:
            bad.append([i, "changed", k["snap"], now])
        if k["alias"]:
            bad.append([i, "alias", k["alias"], None])
    return bad


def _input_mutations(kept):
    return [i for i, k in enumerate(kept) if L.canon(k["xin"]) != L.canon(k["x"])]


def _apply_history(t, h, kind, S, wi, dtype=None):
    import numpy as np
    for step in h:
        if step[0] == "call":
            try:
                t(L.make_input(kind, S, step[1], dtype), ctx={})
            except Exception:  # noqa
                pass
        elif step[0] == "inject":
            t.set_rng(np.random.default_rng(step[1]))
    if wi:
        t.worker_init_fn(0, batch_size=2, updates=7)


def has_class(spec, name):
    return spec["c"] == name or any(has_class(k, name) for k in spec.get("k", []))


def run_impl(case):
    import numpy as np
    if case.get("kind") == "unregistered":
        # evaluated against the tree under test (a replay on another tree must not repeat a stale verdict)
        info = T.regenerate()
        by_name = {d["name"]: d for d in info["classes"]}
        name = case["cls"].split(" ")[0]
        if case.get("why") == "container" or "container class missing" in case["cls"]:
            return {"unregistered": name not in by_name,
                    "errors": [e for e in info["errors"] if e.startswith(name + ":")][:2]}
        d = by_name.get(name)
        return {"unregistered": d is not None and name not in L.REG and bool(d["draw_self"] or d["calls"] or d["draw_glob"]),
                "errors": []}
    if case.get("kind") == "translator":
        return {"skipped": case["kind"]}
    if case.get("kind") == "translator_selftest":
        return {"selftest": T.selftest()}
    spec, S, kind = case["spec"], case["S"], case["input"]
    dtype = case.get("dtype")
    xs = [L.make_input(kind, S, case["xseed"] + (0 if case.get("xrep") else i), dtype) for i in range(case["n"])]
    obs = {}
    try:
        L.seed_globals(case["ga"])
        A = L.build(spec, S)
        L.seed_globals(case["gb"])
        B = L.build(spec, S)
    except Exception as e:  # noqa
        return {"construct_error": f"{type(e).__name__}: {e}", "tb": traceback.format_exc()[-800:]}
    try:
        _apply_history(A, case["ha"], kind, S, case["wi"], dtype)
        _apply_history(B, case["hb"], kind, S, case["wi"], dtype)
    except Exception as e:  # noqa
        return {"history_error": f"{type(e).__name__}: {e}", "tb": traceback.format_exc()[-800:]}
    # slots as they are now ("Ctor k" = whatever generator the slot holds before the injection)
    spies = L.tag_slots(A, "ctor")
    obs["tree"] = L.live_tree(A, L.slot_desc)
    inj = L.Spy(np.random.default_rng(case["seed"]), ("inj", case["seed"]))
    try:
        A.set_rng(inj)
        B.set_rng(np.random.default_rng(case["seed"]))
    except Exception as e:  # noqa
        obs["set_rng_error"] = f"{type(e).__name__}: {e}"
        return obs
    obs["after"] = L.tree_slots(L.live_tree(A, L.slot_desc))
    for sp in spies:
        sp.n = 0
    L.seed_globals(case["ga"] + 17)
    trip = L.Tripwire()
    kept_a, kept_b = [], []
    obs["out_a"] = [_call(A, x, kept_a) for x in xs]
    touched = trip.touched()
    obs["sources"] = [list(sp.tag) for sp in spies + [inj] if sp.n > 0] + [["glob", g] for g in touched]
    obs["draws_inj"] = inj.n
    L.seed_globals(case["gb"] + 4242)
    trip = L.Tripwire()
    obs["out_b"] = [_call(B, x, kept_b) for x in xs]
    obs["touched_b"] = trip.touched()
    obs["input_mutated"] = _input_mutations(kept_a)
    # re-injection replays
    if not (case["wi"] and has_class(spec, "KDScheduledTransform")):
        A.set_rng(np.random.default_rng(case["seed"]))
        obs["out_a2"] = [_call(A, x, kept_a) for x in xs]
    # everything that was returned so far is looked at again, after all later calls / injections
    obs["kept_bad"] = [["A"] + r for r in _kept_report(kept_a)] + [["B"] + r for r in _kept_report(kept_b)]
    obs["n_kept"] = len(kept_a) + len(kept_b)
    return obs


# ---------------------------------------------------------------------------
# independent Python statement of the property
# ---------------------------------------------------------------------------
def oracle(case, obs):
    if "harness_exception" in obs:
        return "harness exception: " + obs["harness_exception"] + obs.get("tb", "")
    if case.get("kind") == "unregistered":
        if not obs.get("unregistered"):
            return None
        if case.get("why") == "container" or "container class missing" in case["cls"]:
            return (f"container class {case['cls'].split(' ')[0]} has no row in the generated table (the translator does not "
                    f"understand its source: {obs.get('errors')}); compositions cannot be checked (fail closed)")
        return f"class {case['cls']} draws random numbers but has no constructor arguments in the registry (fail closed)"
    if case.get("kind") == "translator":
        return None   # reported through the broken build; the search looks for the concrete failing input
    if case.get("kind") == "translator_selftest":
        bad = [r for r in obs["selftest"] if r["expected"] != r["got"]]
        n_neg = sum(1 for r in obs["selftest"] if r["expected"] == "abort")
        if bad or n_neg < 15:
            return ("translator self-test failed (harness/translate_rng.py must abort on shapes it does not understand and "
                    f"accept the well-formed controls; {n_neg} negative sources): " + "; ".join(
                        f"{r['name']}: expected {r['expected']}, got {r['got']} ({r['detail']})" for r in bad))
        return None
    sig = L.spec_sig(case["spec"])
    if "construct_error" in obs:
        return f"{sig}: construction failed: {obs['construct_error']}"
    if "history_error" in obs:
        return f"{sig}: set_rng / worker_init_fn before the injection raised {obs['history_error']}"
    if "set_rng_error" in obs:
        return f"{sig}: set_rng raised {obs['set_rng_error']}"
    bad = [s for s in obs["sources"] if s[0] != "inj"]
    if bad:
        where = []
        slots = obs["tree"]

        def find(t, path):
            if t[1] is not None and t[1] in bad:
                where.append("/".join(path + [t[0]]))
            for f, ms in t[2]:
                for i, m in enumerate(ms):
                    find(m, path + [t[0] + "." + f + f"[{i}]"])

        find(slots, [])
        return (f"{sig}: after set_rng(seed={case['seed']}) draws still come from {bad} "
                f"(generator that was not injected: {where or 'process-global'})")
    if obs["touched_b"]:
        return f"{sig}: second instance consumed process-global generators {obs['touched_b']}"
    for i, (a, b) in enumerate(zip(obs["out_a"], obs["out_b"])):
        if a != b:
            return (f"{sig}: two independently constructed instances with equal injected seed {case['seed']} disagree "
                    f"on input {i}: {str(a)[:300]} vs {str(b)[:300]}")
    if "out_a2" in obs:
        for i, (a, b) in enumerate(zip(obs["out_a"], obs["out_a2"])):
            if a != b:
                return f"{sig}: re-injecting seed {case['seed']} does not replay input {i}: {str(a)[:300]} vs {str(b)[:300]}"
    # an output (and its recorded context), once returned, is a function of the seed and the inputs so far
    for who, i, what, then, now in sorted(obs.get("kept_bad", []), key=lambda r: r[2] != "changed"):
        if what == "changed":
            return (f"{sig} on {case.get('dtype') or 'default'} input: the value RETURNED by call {i} of instance {who} was "
                    f"changed by a later call of the same object (the output aliases state of the transform): "
                    f"at return {str(then)[:200]}, after the later calls {str(now)[:200]}")
        return (f"{sig} on {case.get('dtype') or 'default'} input: the value returned by call {i} of instance {who} shares "
                f"memory with internal state of the transform ({then}); a later call can overwrite it")
    if obs.get("input_mutated") and not any(has_class(case["spec"], c) for c in L.INPLACE_ON_INPUT):
        return (f"{sig}: the tensor handed to call {obs['input_mutated'][0]} was modified although no member of the "
                f"composition works in place on its input ({sorted(L.INPLACE_ON_INPUT)})")
    return None


# ---------------------------------------------------------------------------
# Coq side
# ---------------------------------------------------------------------------
def coq_applicable(case, obs):
    return case.get("kind") == "tree" and "after" in obs and "sources" in obs


def coq_case(case, obs):
    after = [L.coq_slot(p) for p in obs["after"]]
    srcs = [L.coq_prov(p) for p in obs["sources"]]
    return coq((L.coq_tree(obs["tree"]), int(case["seed"]), after, srcs))


def features(case, obs):
    if case.get("kind") == "translator_selftest":
        for r in obs.get("selftest", []):
            yield "translator_selftest=" + r["got"]
        return
    if case.get("kind") != "tree":
        yield "kind=" + str(case.get("kind"))
        return
    yield "input=" + case["input"]
    yield "dtype=" + str(case.get("dtype") or "default")
    yield "xrep=%s" % bool(case.get("xrep"))
    yield "kept=%d" % min(obs.get("n_kept", 0), 12)
    yield "root=" + case["spec"]["c"]
    yield "nodes=%d" % min(L.spec_size(case["spec"]), 12)
    yield "wi=%s" % case["wi"]
    yield "hist=%d/%d" % (len(case["ha"]), len(case["hb"]))
    if any(o[0] == "EXC" for o in obs.get("out_a", [])):
        yield "call_raised=" + next(o[1] for o in obs["out_a"] if o[0] == "EXC")
    if "out_a" in obs:
        yield "drew=%s" % (obs.get("draws_inj", 0) > 0)


def nontrivial_key(case, obs):
    if case.get("kind") != "tree" or "out_a" not in obs:
        return None
    if obs.get("draws_inj", 0) == 0 or any(o[0] == "EXC" for o in obs["out_a"]):
        return None
    return (L.spec_sig(case["spec"]), case["input"], case.get("dtype"), len(case["ha"]), len(case["hb"]), case["wi"])
